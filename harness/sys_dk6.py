"""Growth beyond the listed properties: the DK6 ISP protocol (spsdk/dk6) - device twin || faulty link || host.

spec/SYS/Dk6Dev.tla    reference device: frame grammar (CRC-32 recomputed), request/response pairing, unlock levels, memory handle, memories
spec/SYS/Dk6.tla       design model (MC): device || link that may damage one response || host (ideal / as built / resending); the ideal host holds the
                       contract, the host as built and the resending host are REFUTED, success is reachable
spec/SYS/Dk6Gen.tla    GEN: the reachable (operation, chunks, fault kind, exchange index) classes and the fault-free histories of calls
spec/SYS/Dk6Trace.tla  trace form: what the real DK6Device / dk6prog did against the twin, decided by TLC (every frame byte recomputed)

Not a registered check: `./check sys_dk6` prints OBSERVATION lines, writes evidence/extras/sys_dk6.json and exits 0 (2 on a machinery failure)."""
import json
import os
import struct

from lib import dk6twin as tw
from lib import tlc
from lib.common import ROOT, Machinery, import_spsdk, rng, say, scratch
from lib.par import pmap
from lib import common
from lib.ptv import check_complete

LANE = "sys_dk6"
KINDS = ("flip", "trunc", "drop", "type", "err", "short", "late")
ERR_STATUSES = (0xEF, 0xF0, 0xF2, 0xF3, 0xF7, 0xF9, 0xFC, 0xFE, 0xFF, 0x01)
RESP_TYPES = (0x15, 0x41, 0x43, 0x45, 0x47, 0x49, 0x4B, 0x4D, 0x4F, 0x33, 0x99)


# ----------------------------------------------------------------------------------------------------------------- events
def ev_call(c):
    return {"ev": "call", "op": c["op"], "via": c.get("via", "api"), "mem": int(c.get("mem", 0)), "addr": int(c.get("addr", 0)), "len": int(c.get("len", 0)),
            "data": list(c.get("data", b"")), "relative": bool(c.get("relative", False)), "verify": bool(c.get("verify", False)),
            "cmd": int(c.get("cmd", 0)), "h": int(c.get("h", 0)), "mode": int(c.get("mode", 0)), "acc": int(c.get("acc", 0))}


NOVIEW = {"chip": [], "mems": [], "mac": [], "devtype": 0}


def ev_result(kind, exc="none", documented=True, data=b"", left=0, reads=0, view=None, status=0, raw=b""):
    return {"ev": "result", "kind": kind, "exc": exc, "documented": bool(documented), "data": list(data), "left": int(left), "reads": int(reads), "view": view or NOVIEW,
            "status": int(status), "raw": list(raw)}


# ----------------------------------------------------------------------------------------------------------------- the real code
def view_of(dk6):
    """Projection of what DK6Device.init() learnt (public attributes only)."""
    chip = []
    c = dk6.chip_id
    if c is not None and hasattr(c, "chip_id") and hasattr(c, "chip_version"):
        chip = list(struct.pack("<II", c.chip_id & 0xFFFFFFFF, c.chip_version & 0xFFFFFFFF))
    mems = []
    for k in sorted(dk6.memories):
        m = dk6.memories[k]
        mems.append({"id": int(m.mem_id.tag), "base": int(m.base_address), "len": int(m.length), "sector": int(m.sector_size), "type": int(m.mem_type.tag),
                     "access": int(m.access.tag), "name": list(m.mem_name.encode("latin1", "replace"))})
    mac = list(dk6.mac_addr) if isinstance(dk6.mac_addr, (bytes, bytearray)) else []
    return {"chip": chip, "mems": mems, "mac": mac, "devtype": int(dk6.dev_type.tag) if dk6.dev_type is not None else 0}


def classify(e):
    from spsdk.exceptions import SPSDKError

    if isinstance(e, KeyboardInterrupt):
        return "unbounded", "unbounded", False
    return "exc", type(e).__name__, isinstance(e, (SPSDKError, TimeoutError))


def proto_call(p, c):
    """One call of the protocol layer (DK6Protocol): -> (status, raw payload, typed projection of the response object)."""
    from spsdk.dk6.commands import MemoryAccessValues, MemoryId
    from spsdk.dk6.protocol import IspMode

    cmd = c["cmd"]
    if cmd == tw.C_UNLOCK:
        r = p.unlock_isp_default() if (c["mode"] == 0 and not c["data"]) else p.unlock_isp(IspMode.from_tag(c["mode"]), bytes(c["data"]))
    elif cmd == tw.C_CHIPID:
        r = p.get_device_information()
    elif cmd == tw.C_INFO:
        r = p.mem_get_info(c["mem"] if c["mem"] > 7 or c["len"] else MemoryId.from_tag(c["mem"]))
    elif cmd == tw.C_OPEN:
        r = p.mem_open(MemoryId.from_tag(c["mem"]), MemoryAccessValues.from_tag(c["acc"]))
    elif cmd == tw.C_CLOSE:
        r = p.mem_close(c["h"])
    elif cmd == tw.C_READ:
        r = p.mem_read(c["addr"], c["len"], c["h"], c["mode"])
    elif cmd == tw.C_WRITE:
        r = p.mem_write(c["addr"], c["len"], bytes(c["data"]), c["h"], c["mode"])
    elif cmd == tw.C_ERASE:
        r = p.mem_erase(c["addr"], c["len"], c["h"], c["mode"])
    elif cmd == tw.C_BLANK:
        r = p.mem_blank_check(c["addr"], c["len"], c["h"], c["mode"])
    elif cmd == tw.C_RESET:
        r = p.reset()
    else:
        raise Machinery(f"no protocol call for {cmd}")
    data = b""
    if r.status == 0:
        if cmd == tw.C_READ:
            data = r.data
        elif cmd == tw.C_CHIPID:
            data = struct.pack("<II", r.chip_id, r.chip_version)
        elif cmd == tw.C_INFO:
            data = struct.pack("<BIIIBB", r.memory_id, r.base_addr, r.length, r.sector_size, r.mem_type, r.access)
        elif cmd == tw.C_OPEN:
            data = bytes(r.handle)
    return r.status, bytes(r.raw_data), data


def api_call(dk6, link, c):
    from spsdk.dk6.commands import MemoryId

    link.begin_call()
    out, view = b"", None
    status, raw = 0, b""
    try:
        op = c["op"]
        if op == "proto":
            status, raw, out = proto_call(dk6.protocol, c)
        elif op == "init":
            dk6.init()
            view = view_of(dk6)
        elif op == "read":
            out = dk6.read_memory(MemoryId.from_tag(c["mem"]), c["addr"], c["len"], relative=c.get("relative", False))
        elif op == "write":
            dk6.write_memory(MemoryId.from_tag(c["mem"]), c["addr"], c["len"], bytes(c["data"]), relative=c.get("relative", False))
        elif op == "erase":
            dk6.erase_memory(MemoryId.from_tag(c["mem"]), c["addr"], c["len"], relative=c.get("relative", False), verify=c.get("verify", False))
        elif op == "reset":
            dk6.reset()
        elif op == "setbaud":
            dk6.set_baud_rate(c["len"])
        else:
            raise Machinery(f"unknown op {op}")
        res = ev_result("ret", data=out if isinstance(out, (bytes, bytearray)) else b"", view=view, status=status, raw=raw)
    except Machinery:
        raise
    except BaseException as e:  # noqa: BLE001
        kind, name, doc = classify(e)
        res = ev_result(kind, name, doc)
    link.flush_late()
    res["left"], res["reads"] = len(link.pipe), link.reads
    return [ev_call(c)] + link.take_events() + [res]


MEM_NAMES = {0: "flash", 1: "psect", 2: "pflash", 3: "config", 4: "efuse", 5: "rom", 6: "ram0", 7: "ram1"}


def cli_call(link, c, jid):
    """One dk6prog invocation (click's test runner, real option parsing); the serial port it opens is answered by the twin."""
    import serial
    from click.testing import CliRunner

    from spsdk.apps import dk6prog

    serial.Serial = lambda *a, **k: link           # worker process only: pyserial's port constructor (not SPSDK) hands out the twin
    r = rng("SYS", "dk6", "cli", jid)
    memarg = r.choice([str(c["mem"]), MEM_NAMES[c["mem"]], MEM_NAMES[c["mem"]].upper()]) if c["op"] != "init" else "0"
    addr = r.choice([str(c.get("addr", 0)), hex(c.get("addr", 0))])
    argv = ["-b", r.choice(["PYSERIAL", "pyserial"]), "-d", "TWIN", "-n"]
    outfile = None
    rel = ["-r"] if c.get("relative") else []       # (options go in front: the group chains its commands, trailing options are not reliably the command's)
    if c["op"] == "read":
        argv += ["read"] + rel
        if r.random() < 0.5:
            outfile = os.path.join(scratch(), f"dk6-{jid}.bin")
            argv += ["-o", outfile]
        argv += [addr, r.choice([str(c["len"]), hex(c["len"])]), memarg]
    elif c["op"] == "write":
        if r.random() < 0.5 and c["len"] > 0:
            src = "{{" + bytes(c["data"]).hex() + "}}"
        else:
            path = os.path.join(scratch(), f"dk6-{jid}.in")
            with open(path, "wb") as f:
                f.write(bytes(c["data"]))
            src = path
        argv += ["write"] + rel + [addr, src] + ([] if c.get("omit_len") else [str(c["len"]), memarg])
    elif c["op"] == "erase":
        argv += ["erase"] + rel + (["-v"] if c.get("verify") else []) + [addr, r.choice([str(c["len"]), hex(c["len"])]), memarg]
    elif c["op"] == "init":
        argv += ["info"]
    else:
        raise Machinery(f"no command line for {c['op']}")
    link.begin_call()
    cr = CliRunner().invoke(dk6prog.main, argv)
    data = b""
    if cr.exit_code == 0 and cr.exception is None:
        if c["op"] == "read":
            if outfile and os.path.exists(outfile) and c["len"] > 0:
                with open(outfile, "rb") as f:
                    data = f.read()
            else:
                lines = cr.output.splitlines()
                at = next((i for i, x in enumerate(lines) if x.startswith("Read ") and " bytes from " in x), None)
                if at is None:
                    raise Machinery(f"dk6prog read: output not understood: {argv} {cr.output[-300:]!r}")
                try:
                    data = bytes.fromhex("".join(x for x in lines[at + 1:] if x.strip() and all(ch in "0123456789abcdef " for ch in x.strip())))
                except ValueError as e:
                    raise Machinery(f"dk6prog read: hex output not understood: {cr.output[-300:]!r}") from e
        res = ev_result("ret", data=data)
    else:
        e = cr.exception if cr.exception is not None else SystemExit(cr.exit_code)
        kind, name, doc = classify(e)
        if isinstance(e, SystemExit):
            name, doc = f"exit{cr.exit_code}", False
        res = ev_result(kind, name, doc)
    link.flush_late()
    res["left"], res["reads"] = len(link.pipe), link.reads
    cc = dict(c, via="cli")
    return [ev_call(cc)] + link.take_events() + [res], argv


def run_session(job):
    """One session: a fresh twin, a fresh DK6Device (or one dk6prog invocation), the calls of the job in order."""
    import time

    time.sleep = lambda s: None                      # worker process only: protocol delays carry no meaning against a twin
    conf = tw.flavour(job["flavour"])
    plan = {}
    pre = bool(job.get("preinit")) and job.get("via") != "cli" and job["calls"][0]["op"] == "init" and len(job["calls"]) > 1
    job = dict(job, preinit=pre)
    if pre:
        conf = dict(conf, lvl=2)
    if job.get("fault"):
        f = job["fault"]
        plan[(f["call"] - (1 if pre else 0), f["at"])] = f
    link = tw.Link(conf, plan)
    evs, argvs = [], []
    if job.get("via") == "cli":
        e, argv = cli_call(link, job["calls"][0], job["id"])
        evs += e
        argvs.append(argv)
    else:
        from spsdk.dk6.commands import MemoryAccessValues, MemoryId, MemoryType
        from spsdk.dk6.dk6device import DK6Device, DK6Memory

        dk6 = DK6Device(link)
        calls = job["calls"]
        if job.get("preinit"):
            # the session starts on an unlocked device whose memory table the object was told through its public add_memory() (no init() exchanges)
            calls = calls[1:]
            for m in conf["tab"]:
                dk6.add_memory(DK6Memory(m["base"], m["len"], m["sector"], MemoryType.from_tag(m["type"]), bytes(m["name"]).decode(), MemoryId.from_tag(m["id"]),
                                         MemoryAccessValues.from_tag(m["access"])))
        for c in calls:
            e = api_call(dk6, link, c)
            evs += e
            if e[-1]["kind"] == "unbounded":
                break
            if e[-1]["kind"] != "ret" and c["op"] == "init":
                break                                # without its memory table the object cannot be used further
            if c["op"] == "reset" or (c["op"] == "proto" and c["cmd"] == tw.C_RESET):
                break                                # the device has left the session
    return {"id": job["id"], "dev": conf, "ev": evs, "job": job, "argv": argvs}


# ----------------------------------------------------------------------------------------------------------------- cases
def concretise(jid, flav, op, n, r, invalid=False):
    """An abstract call (operation, number of data chunks) -> memory, address, length, data."""
    conf = tw.flavour(flav)
    if op in ("init", "reset"):
        return {"op": op}
    if op == "setbaud":
        return {"op": op, "len": r.choice([9600, 57600, 1000000])}
    row = r.choice([m for m in conf["tab"] if m["len"] >= 0x400 or n <= 1])
    if op == "erase":
        ln = r.choice([1, 16, 512, 2048][: 2 + n]) if n else 0
    else:
        ln = 0 if n == 0 else r.choice({1: [1, 2, 37, 511, 512], 2: [513, 600, 1024], 3: [1025, 1100, 1536]}[n])
    ln = min(ln, row["len"])
    offs = [0, 1, 0x1FF, row["len"] - ln, max(0, row["len"] - ln - 1)]
    off = r.choice([o for o in offs if 0 <= o and o + ln <= row["len"]])
    rel = r.random() < 0.3
    if invalid:
        how = r.choice(["past-end", "below-base"] if row["base"] > 0 else ["past-end"])
        if how == "past-end":
            off = row["len"] - ln + r.choice([1, 2, 0x200])
        else:
            off, rel = -r.choice([1, 0x10]), False
    c = {"op": op, "mem": row["id"], "addr": off if rel else row["base"] + off, "len": ln, "relative": rel}
    if op == "write":
        c["data"] = list(r.randbytes(ln))
    if op == "erase":
        c["verify"] = r.random() < 0.5
    return c


def exchanges(c):
    """Number of request/response exchanges the protocol needs for a call (the fault positions a generated class refers to)."""
    if c["op"] == "init":
        return 20
    if c["op"] in ("reset", "setbaud"):
        return 1
    if c["op"] == "erase":
        return 3 + (1 if c.get("verify") else 0)
    return 2 + (c["len"] + 511) // 512


def mk_fault(call_idx, at, kind, r, pos=None):
    return {"call": call_idx, "at": at, "kind": kind, "pos": r.randrange(0, 600) if pos is None else pos, "mask": r.choice([0x01, 0x80, 0xFF, 0x10]),
            "st": r.choice(ERR_STATUSES), "ftype": r.choice(RESP_TYPES)}


def jobs(tier, classes, hists):
    """classes: [{op, n, kind, at}] from Dk6Gen (single call, one fault); hists: [[op, ...]] fault-free histories from Dk6Gen."""
    out = []
    k = 0
    rep = 6 if tier == "thorough" else 1
    for cl in classes:
        for i in range(rep):
            k += 1
            jid = f"f{k}"
            r = rng("SYS", "dk6", jid)
            flav = r.randrange(len(tw.FLAVOURS))
            c = concretise(jid, flav, cl["op"], cl["n"], r)
            at = cl["at"] if c["op"] != "erase" or cl["at"] < 2 or c.get("verify") else cl["at"]      # (the model's erase always verifies)
            if c["op"] == "erase" and not c.get("verify") and cl["at"] >= 2:
                c["verify"] = True
            via = "cli" if (k % 3 == 0 and c["op"] in ("read", "write", "erase")) else "api"
            if via == "cli":                         # one invocation = init + operation (+ reset after write): the fault position moves behind init
                out.append({"id": jid, "flavour": flav, "via": "cli", "calls": [c], "fault": mk_fault(0, 20 + at, cl["kind"], r), "cls": cl})
            else:
                out.append({"id": jid, "flavour": flav, "calls": [{"op": "init"}, c], "fault": mk_fault(1, at, cl["kind"], r), "cls": cl})
    # a fault at every exchange of init (api and command line), every kind
    for at in range(20):
        for kind in KINDS[:5]:
            if tier != "thorough" and (at * 5 + KINDS.index(kind)) % 2 and at not in (0, 1, 2, 19):
                continue
            k += 1
            jid = f"i{k}"
            r = rng("SYS", "dk6", jid)
            flav = r.randrange(len(tw.FLAVOURS))
            if k % 4 == 0:
                out.append({"id": jid, "flavour": flav, "via": "cli", "calls": [{"op": "init"}], "fault": mk_fault(0, at, kind, r), "cls": {"op": "init", "n": 0, "kind": kind, "at": at}})
            else:
                out.append({"id": jid, "flavour": flav, "calls": [{"op": "init"}], "fault": mk_fault(0, at, kind, r), "cls": {"op": "init", "n": 0, "kind": kind, "at": at}})
    # a flipped / missing byte at EVERY position of a short response (open, close, a short read)
    for op, at, ln in (("read", 0, 3), ("read", 1, 3), ("read", 2, 3), ("write", 1, 5), ("erase", 1, 16), ("reset", 0, 0)):
        for pos in range(9 + (ln if (op, at) == ("read", 1) else 1 if at == 0 and op != "reset" else 0)):
            for kind in ("flip", "trunc"):
                if tier != "thorough" and kind == "trunc" and pos % 3:
                    continue
                if tier != "thorough" and op != "read" and pos not in (0, 2, 3, 4, 5, 8):      # quick: every position for the read exchanges, the field boundaries elsewhere
                    continue
                k += 1
                jid = f"p{k}"
                r = rng("SYS", "dk6", jid)
                c = {"op": op, "mem": 0, "addr": 0x40 + pos, "len": ln, "relative": False, "data": list(r.randbytes(ln)), "verify": False}
                out.append({"id": jid, "flavour": 0, "calls": [{"op": "init"}, c], "fault": mk_fault(1, at, kind, r, pos=pos), "cls": {"op": op, "n": 1, "kind": kind, "at": at}})
    # fault-free histories (state carried from call to call), invalid ranges, both routes
    for h in hists:
        for i in range(rep):
            k += 1
            jid = f"h{k}"
            r = rng("SYS", "dk6", jid)
            flav = r.randrange(len(tw.FLAVOURS))
            base = concretise(jid, flav, "write", r.choice([1, 2]), r)
            calls = [{"op": "init"}]
            for j, op in enumerate(h):
                if op in ("reset", "setbaud"):
                    calls.append(concretise(jid, flav, op, 0, r))
                    continue
                # the calls of a history touch overlapping windows of one memory, so that what one wrote the next one sees
                ln = base["len"] if j == 0 else max(0, base["len"] - r.choice([0, 1, base["len"] // 2]))
                shift = 0 if j == 0 else r.choice([0, 0, min(1, base["len"] - ln), base["len"] - ln])
                c = {"op": op, "mem": base["mem"], "addr": base["addr"] + shift, "len": ln, "relative": base["relative"]}
                if op == "write":
                    c["data"] = list(r.randbytes(ln))
                if op == "erase":
                    c["verify"] = r.random() < 0.5
                calls.append(c)
            out.append({"id": jid, "flavour": flav, "calls": calls, "fault": None, "cls": {"op": "+".join(h), "n": 0, "kind": "none", "at": 0}})
    # aftermath: a call whose response was lost / came late / was misframed, then further calls on the same object (pairing is by position only)
    for kind, pos, mask in (("late", 0, 1), ("drop", 0, 1), ("flip", 2, 1), ("flip", 2, 8), ("trunc", 6, 1)):
        for op1 in ("read", "write", "erase"):
            for at in (0, 1, 2):
                for op2 in ("read", "write"):
                    k += 1
                    if tier != "thorough" and k % 2 and kind != "late":
                        continue
                    jid = f"a{k}"
                    r = rng("SYS", "dk6", jid)
                    flav = r.randrange(len(tw.FLAVOURS))
                    c1 = concretise(jid, flav, op1, 1, r)
                    c2 = concretise(jid, flav, op2, r.choice([1, 2]), r)
                    c3 = dict(concretise(jid, flav, "read", 1, r), mem=c2["mem"], addr=c2["addr"], relative=c2["relative"], len=min(c2["len"], 64))
                    f = mk_fault(1, at, kind, r, pos=pos)
                    f["mask"] = mask
                    out.append({"id": jid, "flavour": flav, "calls": [{"op": "init"}, c1, c2, c3], "fault": f, "cls": {"op": f"{op1}+{op2}+read", "n": 1, "kind": kind, "at": at}})
    # dk6prog write with the optional LENGTH (and MEMORY_ID) left out: hex data and file
    for i in range(4):
        k += 1
        jid = f"w{k}"
        r = rng("SYS", "dk6", jid)
        ln = r.choice([1, 4, 37, 513])
        c = {"op": "write", "mem": 0, "addr": r.choice([0, 0x200, 0x1FF]), "len": ln, "relative": False, "data": list(r.randbytes(ln)), "omit_len": True}
        out.append({"id": jid, "flavour": i % 2, "via": "cli", "calls": [c], "fault": None, "cls": {"op": "write-no-length", "n": 1, "kind": "none", "at": 0}})
    # set_baud_rate in a session (the device answers every request)
    for i, tail in enumerate((["read"], ["write", "read"], [])):
        k += 1
        jid = f"b{k}"
        r = rng("SYS", "dk6", jid)
        calls = [{"op": "init"}, concretise(jid, 0, "setbaud", 0, r)] + [concretise(jid, 0, op, 1, r) for op in tail]
        out.append({"id": jid, "flavour": 0, "calls": calls, "fault": None, "cls": {"op": "setbaud+" + "+".join(tail), "n": 0, "kind": "none", "at": 0}})
    # the protocol layer (DK6Protocol) called directly: sequences that respect and that break the handle state machine, odd arguments, one fault
    for i in range(200 if tier == "thorough" else 24):
        k += 1
        jid = f"q{k}"
        r = rng("SYS", "dk6", jid)
        flav = r.randrange(len(tw.FLAVOURS))
        conf = tw.flavour(flav)
        calls = [{"op": "init"}]
        for j in range(r.randrange(3, 9)):
            row = r.choice(conf["tab"])
            cmd = r.choice([tw.C_OPEN, tw.C_OPEN, tw.C_CLOSE, tw.C_READ, tw.C_READ, tw.C_WRITE, tw.C_WRITE, tw.C_ERASE, tw.C_BLANK, tw.C_INFO, tw.C_CHIPID, tw.C_UNLOCK])
            ln = r.choice([0, 1, 7, 512, 513, 64])
            c = {"op": "proto", "cmd": cmd, "mem": r.choice([row["id"], row["id"], r.randrange(0, 8)]), "acc": r.choice([0, 1, 2, 3, 4, 15]),
                 "h": r.choice([0, 0, 0, 1, 255]), "mode": r.choice([0, 0, 0, 1, 0x80]), "addr": row["base"] + r.choice([0, 1, row["len"] - ln if row["len"] >= ln else 0, row["len"]]),
                 "len": ln, "data": []}
            if cmd == tw.C_WRITE:
                c["data"] = list(r.randbytes(ln))
            if cmd in (tw.C_ERASE, tw.C_BLANK):
                c["len"] = r.choice([0, 16, 600])
            if cmd == tw.C_INFO:
                c["mem"], c["len"] = r.choice([row["id"], 8, 9, 200]), r.choice([0, 1])
            if cmd == tw.C_UNLOCK:
                c["mode"], c["data"] = r.choice([(0, []), (1, list(tw.DEFAULT_KEY)), (1, list(r.randbytes(16))), (1, list(tw.DEFAULT_KEY))])
            calls.append(c)
        if r.random() < 0.15:
            calls.append({"op": "proto", "cmd": tw.C_RESET, "data": []})
        fault = mk_fault(r.randrange(1, len(calls)), 0, r.choice(KINDS), r) if i % 3 == 0 else None
        out.append({"id": jid, "flavour": flav, "calls": calls, "fault": fault, "cls": {"op": "proto", "n": len(calls) - 1, "kind": fault["kind"] if fault else "none", "at": 0}})
    for op in ("read", "write", "erase"):
        for n in (0, 1, 2, 3):
            for inv in (False, True):
                for via in ("api", "cli"):
                    k += 1
                    jid = f"v{k}"
                    r = rng("SYS", "dk6", jid)
                    flav = r.randrange(len(tw.FLAVOURS))
                    c = concretise(jid, flav, op, n, r, invalid=inv)
                    j = {"id": jid, "flavour": flav, "calls": [c] if via == "cli" else [{"op": "init"}, c], "fault": None,
                         "cls": {"op": op, "n": n, "kind": "invalid" if inv else "none", "at": 0}}
                    if via == "cli":
                        j["via"] = "cli"
                    out.append(j)
    # two of three API sessions start on an unlocked device with the memory table handed to the object (init() itself is exercised by the others,
    # by every command-line session and by the sessions that put a fault into it)
    for i, j in enumerate(out):
        if j.get("via") != "cli" and len(j["calls"]) > 1 and j["calls"][0]["op"] == "init" and i % 3 and not (j.get("fault") and j["fault"]["call"] == 0):
            j["preinit"] = True
    return out


# ----------------------------------------------------------------------------------------------------------------- TLC: design model, GEN
MC_CFGS = (("Dk6_ideal.cfg", None), ("Dk6_built.cfg", "NoFalseSuccess"), ("Dk6_built_close.cfg", "ClosedAfterwards"), ("Dk6_built_access.cfg", "OpenBeforeAccess"),
           ("Dk6_resend.cfg", "WrittenOnce"), ("Dk6_noclose.cfg", "ClosedAfterwards"), ("Dk6_reach.cfg", "Reach"))
MC_ACTIONS = ("Begin", "Send", "Fault", "Recv", "Finish")


def model_check_and_generate(tier):
    """The design model in all its configurations and the GEN run, side by side (lib.ptv.prun)."""
    from lib.ptv import prun

    cfgs = MC_CFGS + ((("Dk6_ideal_thorough.cfg", None),) if tier == "thorough" else ())
    jobs_ = [("run", ("SYS", "Dk6", cfg), dict(workers=4 if "thorough" in cfg else 1, deadlock=False, coverage=(want is None), timeout=600)) for cfg, want in cfgs]
    jobs_.append(("run", ("SYS", "Dk6Gen", "Dk6Gen.cfg"), dict(workers=1, deadlock=False, timeout=300)))
    results = prun(jobs_, procs=4)
    res = {}
    for (cfg, want), g in zip(cfgs, results):
        res[cfg] = {"violated": g.violated, "distinct": g.distinct, "generated": g.generated, "depth": g.depth, "wall": round(g.wall, 1)}
        if (g.violated or None) != want:
            raise Machinery(f"Dk6 {cfg}: violated={g.violated}, expected {want}\n" + "\n".join(g.out.splitlines()[-30:]))
        if want is None:
            if not g.no_error:
                raise Machinery(f"Dk6 {cfg}: model checking did not complete\n" + "\n".join(g.out.splitlines()[-30:]))
            vac = [a for a in MC_ACTIONS if g.coverage.get(a, (0, 0))[1] == 0]
            if vac:
                raise Machinery(f"Dk6 {cfg}: vacuous actions {vac} (coverage {g.coverage})")
            res[cfg]["coverage"] = {a: g.coverage[a][1] for a in MC_ACTIONS}
    g = results[-1]
    if g.violated or not g.no_error:
        raise Machinery("Dk6Gen did not complete:\n" + "\n".join(g.out.splitlines()[-30:]))
    classes, hists = [], []
    for j in g.json_prints():
        if "hist" in j:
            hists.append(j["hist"])
        else:
            classes.append(j)
    classes = sorted({json.dumps(c, sort_keys=True) for c in classes})
    hists = sorted({json.dumps(h) for h in hists})
    if len(classes) < 20 or len(hists) < 10:
        raise Machinery(f"Dk6Gen produced too little: {len(classes)} classes, {len(hists)} histories")
    return res, [json.loads(c) for c in classes], [json.loads(h) for h in hists], g


def validate(traces, jobs=6, min_chunk=40, timeout=900):
    """Batch trace validation over several TLC processes (as lib.ptv.ptv), keeping the clause names the trace spec prints next to its verdicts:
    -> (rejected {id: (matched, length, evname)}, why {id: clauses}, soft {id: [(event index, clauses)]}, stats)."""
    traces = list(traces)
    n_chunks = max(1, min(jobs if len(traces) < 800 else 8, len(traces) // max(1, min_chunk)))
    chunks = [(i, traces[i::n_chunks]) for i in range(n_chunks)]
    base = scratch()

    def work(item):
        i, part = item
        saved = common._scratch
        sub = os.path.join(base, f"dk6tv-{os.getpid()}-{i}")
        os.makedirs(sub, exist_ok=True)
        common._scratch = sub
        try:
            rej, res = tlc.tv("SYS", "Dk6Trace", part, timeout=timeout, heap="3g")
            check_complete(res, len(part))
            why = {w[0]: w[2] for w in res.tuples("WHY")}
            soft = [(w[0], w[1], w[2]) for w in res.tuples("SOFT")]
            return rej, why, soft, {"distinct": res.distinct, "generated": res.generated, "wall": round(res.wall, 2), "cmd": res.cmd, "n": len(part)}
        finally:
            common._scratch = saved

    if len(chunks) < 4:
        out = [work(c) for c in chunks]
    else:
        out = pmap(work, chunks, procs=len(chunks), chunksize=1)
    rej, why, soft, stats = {}, {}, {}, []
    for r, w, so, st in out:
        rej.update(r)
        why.update(w)
        for tid, l, cl in so:
            soft.setdefault(tid, []).append((l, cl))
        stats.append(st)
    return rej, why, soft, stats


def clause_list(v):
    return sorted(x.strip().strip('"') for x in str(v or "{?}").strip("{}").split(","))


# ----------------------------------------------------------------------------------------------------------------- canary
def canary():
    """A known-good session produced by the reference host of lib/dk6twin (not SPSDK) must be accepted; the same with one field corrupted rejected."""
    with open(os.path.join(ROOT, "anchors", "SYS", "dk6", "golden.json")) as f:
        g = json.load(f)
    for fr in g["frames"]:
        if tw.frame(fr["type"], bytes.fromhex(fr["payload"])).hex() != fr["frame"]:
            raise Machinery(f"the harness' frame builder disagrees with the golden frame {fr['what']}")
    conf = tw.flavour(0)
    d = tw.Dev(conf)
    d.lvl = 2
    gi = g["responses"]["meminfo_flash"]
    if d.react(0x4C, b"\x00")[0] != bytes.fromhex(gi["payload"]) or d.react(0x40, b"\x00\x0f")[0] != bytes.fromhex(g["responses"]["mem_open"]["payload"]) \
            or d.react(0x32, b"")[0] != bytes.fromhex(g["responses"]["chipid"]["payload"]):
        raise Machinery("the twin disagrees with the golden responses")
    link = tw.Link(conf)
    host = tw.RefHost(link)
    data = bytes((i * 11 + 5) & 0xFF for i in range(600))
    evs = []

    def step(c, fn):
        link.begin_call()
        out = fn()
        res = ev_result("ret", data=out if isinstance(out, bytes) else b"", view=out if isinstance(out, dict) else None)
        res["reads"] = link.reads
        evs.extend([ev_call(c)] + link.take_events() + [res])

    step({"op": "init"}, host.init)
    step({"op": "write", "mem": 0, "addr": 0x1F0, "len": 600, "data": data}, lambda: host.access(0, "write", 0x1F0, data=data))
    step({"op": "read", "mem": 0, "addr": 0x100, "len": 1000}, lambda: host.access(0, "read", 0x100, 1000))
    step({"op": "erase", "mem": 0, "addr": 0x200, "len": 64, "verify": True}, lambda: host.access(0, "erase", 0x200, 64, verify=True))
    step({"op": "read", "mem": 0, "addr": 0x1FE, "len": 70}, lambda: host.access(0, "read", 0x1FE, 70))
    step({"op": "reset"}, lambda: host.ok(0x14))
    good = {"id": "c-good", "dev": conf, "ev": evs}

    def mutate(name, fn):
        t = json.loads(json.dumps(good))
        t["id"] = name
        fn(t["ev"])
        return t

    def set_read_byte(ev):
        r = [e for e in ev if e["ev"] == "result"][2]
        r["data"][300] ^= 1

    def set_crc(ev):
        e = [x for x in ev if x["ev"] == "h2d"][25]
        e["b"][-1] ^= 0x40

    def set_drop(ev):
        e = [x for x in ev if x["ev"] == "d2h"][-1]
        e["fault"], e["got"] = "drop", []

    def set_written(ev):
        c = [x for x in ev if x["ev"] == "call"][1]
        c["data"][599] ^= 0x80

    def set_mac(ev):
        r = [e for e in ev if e["ev"] == "result"][0]
        r["view"]["mac"][7] ^= 1

    def set_resp(ev):
        e = [x for x in ev if x["ev"] == "d2h"][3]
        e["b"][5] ^= 1
        e["got"] = list(e["b"])

    bad = [mutate("c-read", set_read_byte), mutate("c-crc", set_crc), mutate("c-drop", set_drop), mutate("c-written", set_written), mutate("c-mac", set_mac), mutate("c-resp", set_resp)]
    rej, res = tlc.tv("SYS", "Dk6Trace", [good] + bad, timeout=300)
    if set(rej) != {b["id"] for b in bad}:
        raise Machinery(f"DK6 canary failed: rejected {sorted(rej)}; expected the six corrupted copies only\n" + "\n".join(res.out.splitlines()[-25:]))
    why = {w[0]: w[2] for w in res.tuples("WHY")}
    want = {"c-read": "ReadExact", "c-drop": "StrictFaults", "c-written": "WrittenOnce", "c-mac": "InitMac"}
    for k, v in want.items():
        if v not in str(why.get(k)):
            raise Machinery(f"DK6 canary: {k} rejected for {why.get(k)}, expected {v}")
    if rej["c-crc"][2] != "h2d" or rej["c-resp"][2] != "d2h":
        raise Machinery(f"DK6 canary: frame corruptions rejected at {rej['c-crc']}, {rej['c-resp']}")
    return len(evs)


# ----------------------------------------------------------------------------------------------------------------- verdict keys
XNAMES = {0: "unlock-default", 1: "get-chip-id", 2: "unlock-key", **{3 + i: "mem-get-info" for i in range(9)}, 12: "close", 13: "open", 14: "read", 15: "close", 16: "open", 17: "read", 18: "close"}
REQ = {0x14: "reset", 0x27: "set-baud", 0x32: "get-chip-id", 0x40: "open", 0x42: "erase", 0x44: "blank-check", 0x46: "read", 0x48: "write", 0x4A: "close", 0x4C: "mem-get-info", 0x4E: "unlock"}


def key_of(t, matched, evname, why):
    """Finding key from the witness: the clause(s) TLC found broken, the operation and route, the fault and the exchange it hit."""
    ev = t["ev"]
    if evname == "d2h":
        return "twin-disagrees-with-reference-device/d2h"
    start = max(i for i, x in enumerate(ev[:matched + 1]) if x["ev"] == "call")
    call = ev[start]
    op = f"{call['op']}@{call['via']}" if call["op"] != "proto" else f"proto-{REQ.get(call['cmd'], call['cmd'])}"
    if evname == "h2d":
        return f"host-breaks-frame-grammar/{op}"
    if evname != "result":
        return f"unexpected/{evname}/{op}"
    res = ev[matched]
    seg = ev[start:matched]
    hit = next(((i, x) for i, x in enumerate(seg) if x["ev"] == "d2h" and x["fault"] != "none"), None)
    where = "no-fault"
    if not hit:
        prev = next((x for x in ev[:start] if x["ev"] == "d2h" and x["fault"] != "none"), None)
        if prev:
            where = f"after-{prev['fault']}-in-the-call-before"
    if hit:
        req = seg[hit[0] - 1]["b"][3] if seg[hit[0] - 1]["ev"] == "h2d" else 0
        where = f"{hit[1]['fault']}@{REQ.get(req, hex(req))}"
    clauses = clause_list(why)
    outcome = "returns" if res["kind"] == "ret" else f"raises-{res['exc']}"
    return f"{'+'.join(clauses)}/{op}/{where}/{outcome}"


def brief(job):
    j = json.loads(json.dumps(job))
    for c in j["calls"]:
        if len(c.get("data", [])) > 16:
            c["data"] = f"<{len(c['data'])} bytes from rng('SYS','dk6',{job['id']!r})>"
    return j


def family(key):
    """Coarser class for the summary: clause set and operation (without the fault position)."""
    p = key.split("/")
    return "/".join(p[:2]) if len(p) >= 2 else key


# ----------------------------------------------------------------------------------------------------------------- run
def run(tier):
    os.environ.setdefault("JDK_JAVA_OPTIONS", "-Xss512m")
    import_spsdk()
    n_canary = canary()
    say(f"[SYS/dk6] canary: reference-host session of {n_canary} events accepted, 6 single-field corruptions rejected at the right clause")
    from lib.common import Timer
    tm = Timer()
    mc, classes, hists, g = model_check_and_generate(tier)
    t_gen = tm.s()
    say("[SYS/dk6] design model: " + ", ".join(f"{c}: {'REFUTED ' + v['violated'] if v['violated'] else 'holds'} ({v['distinct']} states)" for c, v in mc.items()))
    js = jobs(tier, classes, hists)
    traces = pmap(run_session, js, chunksize=4)
    t_exec = tm.s()
    rej, why, soft, stats = validate([{"id": t["id"], "dev": t["dev"], "ev": t["ev"]} for t in traces])
    t_tv = tm.s()
    say(f"[SYS/dk6] generated {len(classes)} fault classes + {len(hists)} histories ({g.distinct} states; design model + GEN {t_gen}s); {len(js)} sessions executed ({round(t_exec - t_gen, 1)}s); "
        f"validated by TLC in {len(stats)} batches ({round(t_tv - t_exec, 1)}s)")
    by = {t["id"]: t for t in traces}
    keys = {}
    for tid, (matched, length, evname) in rej.items():
        if evname == "result" and tid not in why:
            raise Machinery(f"trace {tid} rejected at its result without a clause name")
        k = key_of(by[tid], matched, evname, why.get(tid))
        keys.setdefault(k, []).append(tid)
    for tid, items in soft.items():                  # observations after which the session was validated further
        for l, cl in items:
            k = "soft:" + "/".join(key_of(by[tid], l - 1, "result", cl).split("/")[:2])
            keys.setdefault(k, []).append(tid)
    fam = {}
    for k, ids in keys.items():
        fam.setdefault(family(k), []).extend(ids)
    n_ev = sum(len(t["ev"]) for t in traces)
    out = {"design_model": mc, "generated": {"fault_classes": len(classes), "histories": len(hists), "gen_states": g.distinct},
           "executions": len(traces), "events": n_ev, "cli_executions": sum(1 for t in traces if t["job"].get("via") == "cli"),
           "tlc_trace_validation": stats, "rejected": len(rej),
           "classes": {k: {"count": len(v), "example": {"job": brief(by[v[0]]["job"]), "argv": [[a if len(a) < 80 else a[:60] + "..." for a in av] for av in by[v[0]]["argv"]]}}
                       for k, v in sorted(keys.items())},
           "families": {k: len(v) for k, v in sorted(fam.items())}}
    os.makedirs(os.path.join(ROOT, "evidence", "extras"), exist_ok=True)
    with open(os.path.join(ROOT, "evidence", "extras", "sys_dk6.json"), "w") as f:
        json.dump(out, f, indent=1, default=str)
    with open(os.path.join(ROOT, "evidence", "extras", "dk6.json"), "w") as f:
        json.dump(out, f, indent=1, default=str)
    for k, v in sorted(keys.items()):
        j = by[v[0]]["job"]
        say(f"OBSERVATION: {LANE} {k} ({len(v)}x, e.g. {v[0]} calls={json.dumps([dict(c, data=len(c.get('data', []))) for c in j['calls']])[:160]} fault={json.dumps(j.get('fault'))[:120]})")
    if any(k.startswith("twin-disagrees") for k in keys):
        raise Machinery("the device twin and the reference device of Dk6Dev.tla disagree")
    say(f"[SYS/dk6] tier={tier} sessions={len(traces)} events={n_ev} rejected={len(rej)} keys={len(keys)} families={len(fam)} (observations only - not a listed property)")
    return 0


def replay(path):
    return run("quick")
