"""C20 - number parsing, alignment and byte-order helpers.

TLC enumerates the abstract case space (NumHelpersMC: theorems + case emission); this module only *executes* the cases
on the real code and records what happened; TLC (NumHelpersTrace) decides every observation with the R-spec.
"""
import itertools
import json
import os

from lib import tlc
from lib.common import Machinery, import_spsdk, rng, say, scratch
from lib.verdict import Verdict

PROP = "C20"
ALPHABET = ["0", "1", "7", "9", "a", "f", "b", "o", "x", "_", "u", "l", "g", "-", " ", "+"]
TOKENS = ["0x", "0b", "0o", "0", "1", "9", "a", "f", "b", "_", "u", "l"]


def big(n):
    n = abs(n)
    return list(n.to_bytes((n.bit_length() + 7) // 8, "little"))


def unbig(b):
    return int.from_bytes(bytes(b), "little")


def enc_int(n):
    return {"neg": n < 0, "m": big(n)}


def pattern_arg(p, r, M):
    k = p["kind"]
    if k == "zeros":
        return r.choice([None, M.BinaryPattern("zeros"), 0, "zeros"])
    if k == "ones":
        return r.choice([M.BinaryPattern("ones"), 255, "ones", "0xff"])
    if k == "inc":
        return r.choice([M.BinaryPattern("inc"), "inc"])
    v = int.from_bytes(bytes(p["b"]), "big")
    width = len(p["b"])
    return r.choice([v, f"0x{v:0{2*width}x}", M.BinaryPattern(f"0x{v:0{2*width}x}")])


def execute(case, r):
    """Run one abstract case on the real code -> out record."""
    from spsdk.exceptions import SPSDKError
    from spsdk.sbfile.misc import BcdVersion3, SecBootBlckSize
    from spsdk.utils import misc as M

    fn, a = case["fn"], case["a"]
    try:
        if fn == "value_to_int_str":
            v = M.value_to_int("".join(a["s"]))
            return ret_int(v)
        if fn == "value_to_int_bytes":
            b = bytes(a["b"])
            v = M.value_to_int(r.choice([b, bytearray(b)]))
            return ret_int(v)
        if fn == "align":
            return ret_small(M.align(a["n"], a["a"]))
        if fn == "align_big":
            v = M.align(unbig(a["n"]), a["a"])
            if not isinstance(v, int) or isinstance(v, bool) or v < 0:
                return {"k": "badtype", "v": repr(v)}
            return {"k": "ret", "v": big(v)}
        if fn == "align_block":
            d = bytes(a["d"])
            out = M.align_block(r.choice([d, bytearray(d)]), a["a"], pattern_arg(a["p"], r, M))
            return ret_bytes(out)
        if fn == "extend_block":
            return ret_bytes(M.extend_block(bytes(a["d"]), a["len"], a["pad"]))
        if fn == "pattern_block":
            p = pattern_arg(a["p"], r, M)
            if not isinstance(p, M.BinaryPattern):
                p = M.BinaryPattern(str(p) if p is not None else "zeros")
            return ret_bytes(p.get_block(a["n"]))
        if fn == "bytes_cnt":
            return ret_small(M.get_bytes_cnt_of_int(unbig(a["n"]), a["a2n"], byte_cnt=a["bcnt"] or None))
        if fn == "value_to_bytes":
            n = unbig(a["n"])
            pres = r.choice([n, hex(n), str(n), bin(n)])
            e = M.Endianness.LITTLE if a["little"] else M.Endianness.BIG
            return ret_bytes(M.value_to_bytes(pres, a["a2n"], byte_cnt=a["bcnt"] or None, endianness=e))
        if fn == "check_range":
            v = M.check_range(a["x"], a["lo"], a["hi"])
            return {"k": "ret", "v": v} if isinstance(v, bool) else {"k": "badtype", "v": repr(v)}
        if fn == "swap16":
            return {"k": "ret", "v": big(M.swap16(unbig(a["b"])))}
        if fn == "swap32":
            return {"k": "ret", "v": big(M.swap32(unbig(a["b"])))}
        if fn == "reverse_bits":
            k = len(a["bits"])
            x = int("".join(str(b) for b in a["bits"]), 2)
            v = M.reverse_bits(x, k)
            if not isinstance(v, int) or v < 0 or v >= (1 << k):
                return {"k": "badtype", "v": repr(v)}
            return {"k": "ret", "v": [int(c) for c in f"{v:0{k}b}"]}
        if fn == "rev_longs":
            return ret_bytes(M.reverse_bytes_in_longs(bytes(a["b"])))
        if fn == "change_endianness":
            return ret_bytes(M.change_endianness(bytes(a["b"])))
        if fn == "swap_bytes":
            return ret_bytes(M.swap_bytes(bytes(a["b"])))
        if fn == "bcd_version":
            text = ".".join("".join(p) for p in a["parts"])
            v = r.choice([BcdVersion3.from_str, BcdVersion3.to_version])(text)
            nums = list(v.nums)
            # the textual form must denote the same version again
            if BcdVersion3.from_str(str(v)) != v:
                return {"k": "badtype", "v": "str() does not round-trip"}
            return {"k": "ret", "v": nums}
        if fn == "blk_is_aligned":
            v = SecBootBlckSize.is_aligned(a["n"])
            return {"k": "ret", "v": v} if isinstance(v, bool) else {"k": "badtype", "v": repr(v)}
        if fn == "blk_align":
            return ret_small(SecBootBlckSize.align(a["n"]))
        if fn == "blk_to_num":
            return ret_small(SecBootBlckSize.to_num_blocks(a["n"]))
        if fn == "hex_file":
            path = os.path.join(os.getcwd(), f"key-{a['id']}.{'txt' if a['kind'] == 'text' else 'bin'}")
            with open(path, "wb") as f:
                f.write(("".join(a["s"]) + a.get("eol", "")).encode() if a["kind"] == "text" else bytes(a["d"]))
            try:
                how = a.get("how", 0)          # by absolute path, by name in the working directory, by name through search_paths
                if how == 0:
                    return ret_bytes(M.load_hex_string(path, a["size"]))
                if how == 1:
                    return ret_bytes(M.load_hex_string(os.path.basename(path), a["size"]))
                return ret_bytes(M.load_hex_string(os.path.basename(path), a["size"], search_paths=["/nonexistent", os.path.dirname(path)]))
            finally:
                os.remove(path)
        if fn == "value_to_int_uni":
            v = M.value_to_int(a["text"])
            return ret_int(v)
        if fn == "hex_string":
            s = "".join(a["s"])
            src = [s, "0x" + s, "0X" + s][a.get("form", r.randrange(3))]
            return ret_bytes(M.load_hex_string(src, a["size"]))
    except SPSDKError:
        return {"k": "err"}
    except Exception as e:  # noqa: BLE001 - recorded, decided by the spec
        return {"k": "exc", "v": type(e).__name__}
    raise Machinery(f"unknown case kind {fn}")


def ret_int(v):
    if not isinstance(v, int) or isinstance(v, bool):
        return {"k": "badtype", "v": repr(v)}
    return {"k": "ret", "v": enc_int(v)}


def ret_small(v):
    if not isinstance(v, int) or isinstance(v, bool) or not (-(2**31) < v < 2**31):
        return {"k": "badtype", "v": repr(v)}
    return {"k": "ret", "v": v}


def ret_bytes(v):
    if not isinstance(v, (bytes, bytearray)):
        return {"k": "badtype", "v": repr(v)}
    return {"k": "ret", "v": list(v)}


# ------------------------------------------------------------------ sampled lane (large values, long byte strings)
def sampled_cases(r, n):
    cases = []
    digs = "0123456789abcdef"
    for i in range(n):
        # boundary widths, and every other width up to 520 bits (byte counts that are no multiple of 4 above the documented 20-byte list included)
        bits = r.choice([1, 7, 8, 9, 31, 32, 33, 63, 64, 65, 127, 128, 255, 256, 511, 512]) if r.random() < 0.4 else r.randrange(1, 521)
        v = r.getrandbits(bits) | (1 << (bits - 1))
        base, pfx = r.choice([(10, ""), (16, "0x"), (2, "0b"), (8, "0o")])
        body = ""
        x = v
        while True:
            body = digs[x % base] + body
            x //= base
            if x == 0:
                break
        style = r.randrange(8)
        s = pfx + body
        if style == 1 and len(body) > 2:  # single underscores between digits
            k = r.randrange(1, len(body))
            s = pfx + body[:k] + "_" + body[k:]
        elif style == 2:
            s += r.choice(["u", "l", "ul", "lu", "ll", "ull", "llu"])
        elif style == 3:
            s = s.upper() if pfx else s + r.choice(["U", "L", "UL"])
        elif style == 4:
            s = r.choice([" ", "\t", ""]) + s + r.choice([" ", "\n", ""])
        elif style == 5:  # one random character inserted anywhere: mostly malformed
            k = r.randrange(0, len(s) + 1)
            s = s[:k] + r.choice("gxzb_ -+.u9fo") + s[k:]
        elif style == 6 and len(body) > 3:  # double underscore / misplaced underscore
            k = r.randrange(0, len(body) + 1)
            s = pfx + body[:k] + r.choice(["__", "_"]) + body[k:]
        elif style == 7:
            s += r.choice(["uu", "lll", "ulu", "ullu", "lul", "uul"])
        if any(ord(c) > 127 for c in s):
            continue
        cases.append({"fn": "value_to_int_str", "a": {"s": list(s)}})
        # int -> bytes -> int with big values
        cases.append({"fn": "value_to_bytes", "a": {"n": big(v), "a2n": r.random() < 0.5,
                                                     "bcnt": r.choice([0, 0, (bits + 7) // 8, (bits + 7) // 8 + r.randrange(0, 5), max(1, (bits + 7) // 8 - 1)]),
                                                     "little": r.random() < 0.5}})
        cases.append({"fn": "bytes_cnt", "a": {"n": big(v), "a2n": r.random() < 0.5, "bcnt": 0}})
        ln = r.choice([0, 1, 2, 3, 4, 5, 8, 12, 16, 20, 32, 63, 64])
        b = [r.randrange(256) for _ in range(ln)]
        cases.append({"fn": "value_to_int_bytes", "a": {"b": b}})
        cases.append({"fn": "rev_longs", "a": {"b": b}})
        if ln >= 1:
            cases.append({"fn": "change_endianness", "a": {"b": b}})
        cases.append({"fn": "swap_bytes", "a": {"b": b}})          # odd lengths too: refused, or the trailing byte stays (NumHelpers "noalt")
        k = r.choice([1, 8, 16, 31, 32, 33, 64])
        cases.append({"fn": "reverse_bits", "a": {"bits": [r.randrange(2) for _ in range(k)]}})
        cases.append({"fn": "swap16", "a": {"b": big(r.choice([r.getrandbits(16), r.getrandbits(17) | 0x10000]))}})
        cases.append({"fn": "swap32", "a": {"b": big(r.choice([r.getrandbits(32), r.getrandbits(33) | (1 << 32)]))}})
        n_ = r.getrandbits(r.choice([4, 12, 20, 30]))
        a_ = r.choice([1, 2, 3, 4, 7, 8, 16, 64, 256, 512, 1000, 4096, 65536])
        if n_ + a_ < 2**31 - 1:
            cases.append({"fn": "align", "a": {"n": n_, "a": a_}})
        nb = r.getrandbits(r.choice([33, 52, 53, 54, 60, 64, 65, 128, 512]))
        nb = r.choice([nb, nb | 1, nb & ~0xFFF, (nb & ~0xF) + 1])
        cases.append({"fn": "align_big", "a": {"n": big(nb), "a": r.choice([1, 2, 3, 4, 8, 16, 64, 256, 512, 1000, 4096, 65536])}})
        lo, hi, x = (r.getrandbits(30) for _ in range(3))
        x = r.choice([x, lo, hi, lo - 1 if lo else lo, hi + 1])
        cases.append({"fn": "check_range", "a": {"x": x, "lo": lo, "hi": hi}})
        # blocks longer than one period of the patterns (inc repeats every 256 bytes), alone and as padding
        pat = r.choice([{"kind": "inc"}, {"kind": "inc"}, {"kind": "bytes", "b": [r.randrange(1, 256) for _ in range(r.choice([1, 2, 3, 4]))]}, {"kind": "ones"}])
        cases.append({"fn": "pattern_block", "a": {"p": pat, "n": r.choice([254, 255, 256, 257, 258, 511, 512, 513, 600])}})
        if i % 10 == 0:
            cases.append({"fn": "align_block", "a": {"d": [r.randrange(256) for _ in range(r.randrange(1, 40))], "a": r.choice([300, 512, 1024]), "p": {"kind": "inc"}}})
        # key-like hex text that begins with the characters of a radix prefix ("0b..", "0B.."): still hexadecimal
        if i % 5 == 0:
            size = r.choice([2, 4, 16, 32])
            txt = r.choice(["0b", "0B", "0b"]) + "".join(r.choice("0123456789abcdefABCDEF") for _ in range(2 * size - 2))
            cases.append({"fn": "hex_string", "a": {"s": list(txt), "size": size}})
        d = [r.randrange(256) for _ in range(r.randrange(0, 70))]
        cases.append({"fn": "align_block", "a": {"d": d, "a": r.choice([1, 2, 4, 8, 16, 64]),
                                                  "p": r.choice([{"kind": "zeros"}, {"kind": "ones"}, {"kind": "inc"}, {"kind": "bytes", "b": [r.randrange(1, 256)]}])}})
    return cases


def run(tier):
    import_spsdk()
    v = Verdict(PROP, tier)
    r = rng(PROP)
    cwd = os.path.join(scratch(), "c20-cwd")  # load_hex_string looks for files: run in an empty directory
    os.makedirs(cwd, exist_ok=True)
    os.chdir(cwd)

    # ---- MC + GEN: theorems over the case space, emission of the non-string cases
    cfg = "NumHelpersMC.cfg" if tier == "quick" else "NumHelpersMC_thorough.cfg"
    mc = tlc.mc("C20", "NumHelpersMC", cfg, workers=1, coverage=False, heap="12g", timeout=2400,
                extra=("-maxSetSize", "3000000") if tier == "thorough" else ())
    v.add_mc(mc)
    cases = mc.json_prints()
    if len(cases) < 10000:
        raise Machinery(f"GEN emitted only {len(cases)} cases")
    maxlen = 4 if tier == "quick" else 5
    strings = [list(t) for k in range(maxlen + 1) for t in itertools.product(ALPHABET, repeat=k)]
    n_expected_strings = sum(16**k for k in range(maxlen + 1))
    assert len(strings) == n_expected_strings
    # the string part of the case space is enumerated here and there identically: the MC run has it as initial states
    if mc.distinct != len(cases) + n_expected_strings:
        raise Machinery(f"case space mismatch: TLC has {mc.distinct} states, emitted {len(cases)} + {n_expected_strings} strings")
    cases += [{"fn": "value_to_int_str", "a": {"s": s}} for s in strings]
    cases += sampled_cases(r, 300 if tier == "quick" else 5000)
    # token lane: every sequence of <= 4 (thorough: 5) grammar tokens - reaches strings of up to 8 (10) characters with repeated prefixes,
    # digits that are letters of another radix, suffix letters in digit position ... (added after the thorough tier found "0b0b1" = 1)
    seen = {tuple(s) for s in strings}
    for k in range(1, (4 if tier == "quick" else 5) + 1):
        for t in itertools.product(TOKENS, repeat=k):
            s = "".join(t)
            if tuple(s) not in seen:
                seen.add(tuple(s))
                cases.append({"fn": "value_to_int_str", "a": {"s": list(s)}})

    # characters outside ASCII inside otherwise valid numbers: digits of other scripts, full-width letters, superscripts, Unicode spaces - replaced
    # into and inserted at every position (the spec sees their CLASS, the code the real character)
    import unicodedata

    uni = ["\uff11", "\u0663", "\u0966", "\U0001d7d7", "\u00b2", "\u2155", "\uff21", "\uff58", "\uff46", "\u0431", "\u00a0", "\u2003", "\u3000"]

    def cls(ch):
        if ord(ch) < 128:
            return ch
        c = unicodedata.category(ch)
        return "<Zs>" if ch.isspace() else "<Nd>" if c == "Nd" else "<No>" if c in ("No", "Nl") else "<L>"

    for base in ("12", "0x1f", "0b10", "0o17", "1_0", "7u", " 5 ", "0", "0xA", "9ul"):
        for u in uni:
            for i in range(len(base) + 1):
                for text in ({base[:i] + u + base[i:]} | ({base[:i] + u + base[i + 1:]} if i < len(base) else set())):
                    cases.append({"fn": "value_to_int_uni", "a": {"s": [cls(ch) for ch in text], "text": text}})
    for u in uni:
        cases.append({"fn": "value_to_int_uni", "a": {"s": [cls(u)], "text": u}})
        cases.append({"fn": "value_to_int_uni", "a": {"s": [cls(u)] * 2, "text": u * 2}})

    # load_hex_string, FILE form: text files with hexadecimal text and binary files (not decodable as text) of every size around the expected one,
    # reached by absolute path, by name, and through search_paths
    nfile = 0
    for size in (1, 2, 16, 32, 48):
        for n in sorted({1, size - 1, size, size + 1, 2 * size, 2 * size + 1, 64} - {0}):
            for how in (0, 1, 2):
                nfile += 1
                d = [0x80 | r.randrange(64) if k % 3 == 0 else 0xFF if k % 3 == 1 else r.randrange(256) for k in range(n)]   # 0x80.., 0xFF: never valid UTF-8
                cases.append({"fn": "hex_file", "a": {"id": nfile, "kind": "bin", "d": d, "s": [], "size": size, "how": how}})
        for nd in (2 * size, 2 * size - 1, 2 * size + 2, 2):
            nfile += 1
            txt = "".join(r.choice("0123456789abcdefABCDEF") for _ in range(nd))
            if nd != 2 * size and set(txt[: max(0, nd - 2 * size)]) <= {"0"}:
                txt = "7" + txt[1:]              # keep the text outside the tolerated zero-surplus class
            cases.append({"fn": "hex_file", "a": {"id": nfile, "kind": "text", "d": [], "s": list(txt), "size": size, "how": nfile % 3, "eol": r.choice(["", "\n"])}})

    # every hex text is offered bare, with 0x and with 0X (the contract is the same for the three forms)
    cases = [c if c["fn"] != "hex_string" else {"fn": c["fn"], "a": dict(c["a"], form=f)} for c in cases for f in ((0, 1, 2) if c["fn"] == "hex_string" else (0,))]

    # ---- execute on the real code
    obs = []
    for i, c in enumerate(cases):
        o = {"id": i, "fn": c["fn"], "a": c["a"], "out": execute(c, r)}
        obs.append(o)
    v.count(len(obs))
    for o in obs:
        if o["out"]["k"] in ("ret", "err"):
            v.nontrivial(json.dumps([o["fn"], o["a"]], sort_keys=True))
    for i in (5, 16000, len(obs) - 7, len(obs) - 20):
        if 0 <= i < len(obs):
            v.sample(obs[i])

    # ---- canary: a correct observation is accepted, a corrupted one rejected
    canary = [
        {"id": "good", "fn": "align", "a": {"n": 5, "a": 4}, "out": {"k": "ret", "v": 8}},
        {"id": "bad1", "fn": "align", "a": {"n": 5, "a": 4}, "out": {"k": "ret", "v": 12}},
        {"id": "bad2", "fn": "value_to_int_str", "a": {"s": ["0", "x", "1", "0"]}, "out": {"k": "ret", "v": {"neg": False, "m": [10]}}},
        {"id": "bad3", "fn": "check_range", "a": {"x": 9, "lo": 1, "hi": 5}, "out": {"k": "ret", "v": True}},
        {"id": "good2", "fn": "value_to_int_str", "a": {"s": ["0", "x", "1", "0"]}, "out": {"k": "ret", "v": {"neg": False, "m": [16]}}},
    ]
    rej, _ = tlc.tv("C20", "NumHelpersTrace", canary)
    if set(rej) != {"bad1", "bad2", "bad3"}:
        raise Machinery(f"canary failed: rejected {sorted(rej)}")
    v.extra["canary"] = "1 good accepted, 3 corrupted rejected"

    # ---- TV: TLC decides every observation
    chunk = 250000
    for k in range(0, len(obs), chunk):
        part = obs[k:k + chunk]
        rej, res = tlc.tv("C20", "NumHelpersTrace", part, heap="12g", timeout=1800)
        if res.tuples("INCOMPLETE"):
            raise Machinery(f"trace validation incomplete: {res.tuples('INCOMPLETE')}")
        v.traces(len(part))
        for oid, (_, _, fn, exp, got) in rej.items():
            o = obs[oid]
            cls = {("ret", "ret"): "wrong-value", ("err", "ret"): "accepted-invalid", ("ret", "err"): "refused-valid",
                   ("any", "ret"): "wrong-value"}.get((exp, got), f"{exp}->{got}")
            if got == "exc":
                cls = f"non-spsdk-exception:{o['out'].get('v')}"
            key = f"C20/{fn}/{cls}"
            v.violation(key, f"{fn}{json.dumps(o['a'])[:200]} -> {json.dumps(o['out'])[:200]} (contract: {exp})", o)
    v.cov["rule"] = (
        f"cases = initial states of NumHelpersMC (all strings of length <= {maxlen} over a 16-symbol alphabet, small-integer "
        "and byte-string menus for 19 helper functions) + seeded samples with values up to 2^512; a case is non-trivial if the "
        "real call returned a value or an SPSDK error (distinct by function and arguments)"
    )
    v.cov["exhaustive"] = True
    v.cov["checker_cmd"] = "TLC NumHelpersMC (theorems, case space) ; TLC NumHelpersTrace (decides each observation)"
    v.assumptions += [
        "debatable strings (outer white space, upper case, leading zero, misplaced underscore, sign, exotic suffix) may be refused or accepted with the obvious value",
        "helpers are called with arguments of their documented types only",
    ]
    return v.finish()


def replay(path):
    import_spsdk()
    w = json.load(open(path))["witness"]
    r = rng(PROP, "replay")
    o = {"id": 0, "fn": w["fn"], "a": w["a"], "out": execute(w, r)}
    rej, _ = tlc.tv("C20", "NumHelpersTrace", [o])
    say(json.dumps(o))
    if rej:
        say(f"VIOLATION property=C20 replay={path}")
        return 1
    say("replay: observation conforms")
    return 0
