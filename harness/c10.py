"""C10 - bootloader protocols: data arrive intact, results mirror the device, faults surface.

spec/C10/Mboot.tla       MC: reference device || faulty device-to-host link || the serial host as built (I-spec); contract invariants NoFalseSuccess,
                         PartialIsFlagged, Documented, MirrorNoFault, liveness Terminates; the design as it was on the tree must be refuted
spec/C10/MbootGen.tla    GEN: the reachable (shape, data length in packets, fault kind, position in the device-to-host frame stream) classes
spec/C10/MbootTrace.tla  R-spec in trace form (device + link + API contract) for histories of calls on one McuBoot object, serial and USB-HID
spec/C10/MbootHistGen.tla GEN: histories of calls ([shape, data length in packets]) around a device-to-host data phase of ZERO packets
                         (MbootTrace clause Drained: a call leaves nothing of its exchange in the link; on serial every device frame is acknowledged)
spec/C10/SdpTrace.tla    R-spec in trace form for SDP (i.MX ROM) over serial and HID

The real McuBoot / SDP objects talk to an executable twin of the reference device (a DeviceBase stub below the framing layer); the twin records
every frame it saw / emitted, the injected fault and the API result; TLC decides every trace (a twin that departs from the spec's device is rejected too).
"""
import json
import os
import struct

from lib import tlc
from lib.common import Machinery, import_spsdk, rng, say, scratch
from lib.par import pmap
from lib.verdict import Verdict

PROP = "C10"


def crc16(data, crc=0):
    """CRC-16/XMODEM, bit-serial (independent of spsdk.crypto.crc)."""
    for b in data:
        crc ^= b << 8
        for _ in range(8):
            crc = ((crc << 1) ^ 0x1021) & 0xFFFF if crc & 0x8000 else (crc << 1) & 0xFFFF
    return crc


def sframe(ftype, payload):
    hdr = struct.pack("<BBH", 0x5A, ftype, len(payload))
    return hdr + struct.pack("<H", crc16(hdr + payload)) + payload


ACK, NAK, ABORT = b"\x5a\xa1", b"\x5a\xa2", b"\x5a\xa3"
IN_TAGS, OUT_TAGS, VALUE_TAGS = {0x03, 0x10, 0x17}, {0x04, 0x08, 0x14}, {0x07, 0x0F}
# the twin's properties, each in the shape the bootloader defines for it (unknown properties are answered with kStatus_UnknownProperty)
PROPS = {1: [0x4B030100], 2: [0x1F], 3: [0], 4: [0x80000], 5: [0x1000], 7: [0xFFFF], 10: [1], 11: [0], 12: [0x1000, 0x1FFF, 0x20000000, 0x20000FFF],
         14: [0x20000000], 15: [0x10000], 16: [0x12345678], 17: [0], 18: [1, 2, 3, 4], 24: [0x54010000],
         0x30: [0x1234], 0x31: [7]}          # device-specific properties whose numbers no host-side enumeration knows
UNKNOWN_PROPERTY = 10300
# memory maps of the twin for the composite calls (get_memory_list): the properties that take an INDEX (internal flash / RAM region number, external
# memory id) answer per index, every region with its own start / size / sector size.  beyond: what the device answers for a region number it does not
# have - "err" (kStatus_InvalidArgument) or "wrap" (region 0 again: bootloaders that ignore the index).  ext: memory id -> attribute words | status
# (10205 = memory not configured, 405 = QSPI not configured; every other id: kStatus_InvalidArgument); None = the property is unknown to the device.
MEMCFGS = [
    {"flash": [(0, 0x80000, 0x1000), (0x10000000, 0x40000, 0x800)], "ram": [(0x20000000, 0x10000), (0x1FFF0000, 0x8000)],
     "ext": {1: [0x1F, 0x68000000, 0x2000, 0x100, 0x1000, 0x10000], 9: 10205, 8: 405, 256: [0x0B, 0x0, 0x40000, 0, 0x20000, 0]}, "beyond": "err"},
    {"flash": [(0x1000, 0x20000, 0x400), (0x30000, 0x8000, 0x2000), (0x18000000, 0x100000, 0x200)], "ram": [(0x20000000, 0x4000), (0x30000000, 0x2000), (0x4000000, 0x1000)],
     "ext": {}, "beyond": "wrap"},
    {"flash": [(0, 0x40000, 0x800)], "ram": [(0x1FFFE000, 0x6000), (0x20000000, 0x6000)], "ext": None, "beyond": "err"},
    {"flash": [(0x8000000, 0x10000, 0x100), (0, 0x10000, 0x2000)], "ram": [(0x20000000, 0x800)], "ext": {9: [0x09, 0x60000000, 0, 0, 0x10000, 0], 1: 10205}, "beyond": "wrap"},
]
INDEXED = {3: ("flash", 0), 4: ("flash", 1), 5: ("flash", 2), 14: ("ram", 0), 15: ("ram", 1)}
KEYSTORE = bytes((i * 3 + 1) & 0xFF for i in range(100))        # the key store of the twin (a call of kp_read_key_store names the size of the store: 0 = empty)


class Core:
    """Transport-independent reference bootloader: command semantics and emissions in abstract form."""

    def __init__(self, mps):
        self.mem = bytearray((i * 7 + 3) & 0xFF for i in range(0x12000))
        self.mps = mps
        self.props = dict(PROPS)
        self.props[11] = [mps]
        self.once = {i: (0x1000 + i) for i in range(8)}
        self.dataout = None  # (kind, address, expect, tag)
        self.got = bytearray()
        self.raw = bytearray()
        self.keystore = KEYSTORE
        self.resets = 0
        self.memcfg = None   # a memory map with indexed properties (None: the flat table, the index word is ignored)

    def lookup(self, prop, idx):
        """-> (status, values) of GetProperty(prop, idx)"""
        c = self.memcfg
        if c is not None and prop in INDEXED:
            k, f = INDEXED[prop]
            if idx < len(c[k]):
                return 0, [c[k][idx][f]]
            return (0, [c[k][0][f]]) if c["beyond"] == "wrap" else (4, [0])
        if c is not None and prop == 25:
            if c["ext"] is None:
                return UNKNOWN_PROPERTY, [0]
            a = c["ext"].get(idx, 4)
            return (0, list(a)) if isinstance(a, list) else (a, [0])
        if prop in self.props:
            return 0, self.props[prop]
        return UNKNOWN_PROPERTY, [0]

    def shape(self, tag, flags, params):
        if tag in IN_TAGS:
            return "in"
        if tag in OUT_TAGS:
            return "out"
        if tag in VALUE_TAGS:
            return "value"
        if tag == 0x15:  # key provisioning: set user key / write key store carry data, read key store returns data
            op = params[0] if params else 0
            return {1: "out", 5: "out", 6: "in"}.get(op, "cmd")
        if tag == 0x13:  # generate key blob: first the key travels to the device (data-phase flag), then the blob is read
            return "out" if flags & 1 else "in"
        return "cmd"

    def length(self, tag, shape, params):
        if shape == "in":
            if tag == 0x15:
                return len(self.keystore)
            if tag == 0x13:
                return params[1] if params[1] <= 512 else 0
            return params[1] if params[0] + params[1] <= len(self.mem) else 0
        if shape == "out":
            if tag == 0x08:
                return params[0]
            if tag == 0x15:
                return params[2]
            return params[1]
        return 0

    def on_cmd(self, tag, flags, params, status):
        """-> (shape, length, [abstract emissions])  emission = ("resp", rtag, status, [values], final) | ("data", bytes)"""
        shape = self.shape(tag, flags, params)
        ln = self.length(tag, shape, params)
        self.dataout = None
        out = []
        if status != 0:
            out.append(("resp", 0xA0, status, [tag], shape in ("cmd", "value")))
            return shape, ln, out
        if shape == "cmd":
            self.effect(tag, params)
            out.append(("resp", 0xA0, 0, [tag], True))
        elif shape == "value":
            if tag == 0x07:
                st_, vals_ = self.lookup(params[0], params[1] if len(params) > 1 else 0)
                out.append(("resp", 0xA7, st_, vals_, True))
            else:
                out.append(("resp", 0xAF, 0, [4, self.once.get(params[0] & 0xFFFFFF, 0)], True))
        elif shape == "in":
            if tag == 0x15:
                blob = self.keystore
                out.append(("resp", 0xB5, 0, [ln], False))
            elif tag == 0x13:
                blob = self.keyblob = bytes((self.got[i % len(self.got)] ^ (i * 7 + 0x5A)) & 0xFF for i in range(ln)) if self.got else bytes(ln)
                out.append(("resp", 0xB3, 0, [ln], False))
            else:
                addr = params[0]
                blob = bytes(self.mem[addr:addr + ln])
                out.append(("resp", {0x03: 0xA3, 0x10: 0xB0, 0x17: 0xA3}[tag], 0, [ln], False))
            for i in range(0, ln, self.mps):
                out.append(("data", blob[i:i + self.mps]))
            out.append(("resp", 0xA0, 0, [tag], True))
        else:
            addr = params[0] if tag in (0x04, 0x14) else 0x8000
            self.dataout = (tag, addr, ln)
            self.got = bytearray()
            out.append(("resp", 0xA0, 0, [tag], False))
            if ln == 0:
                out.append(("resp", 0xA0, 0, [tag], True))
                self.dataout = None          # the exchange is over: data packets that follow belong to no command
        return shape, ln, out

    def effect(self, tag, params):
        inside = len(params) >= 2 and params[0] + params[1] <= len(self.mem) and params[1] <= 0x1000
        if tag == 0x05 and inside:  # fill
            addr, ln, pat = params[0], params[1], params[2]
            self.mem[addr:addr + ln] = (struct.pack("<I", pat) * (ln // 4 + 1))[:ln]
        elif tag == 0x02 and inside:
            self.mem[params[0]:params[0] + params[1]] = b"\xff" * params[1]
        elif tag == 0x0C and params[0] not in (1, 11):
            self.props[params[0]] = [params[1]]
        elif tag == 0x0E:  # program once: bits are only ever set; bits 24..31 of the index are option flags
            self.once[params[0] & 0xFFFFFF] = self.once.get(params[0] & 0xFFFFFF, 0) | params[2]
        elif tag == 0x0B:  # reset: the device starts over
            self.dataout = None
            self.resets += 1

    def on_data(self, payload):
        if not self.dataout:
            return []
        tag, addr, ln = self.dataout
        off = len(self.got)
        self.got += payload
        self.mem[addr + off:addr + off + len(payload)] = payload
        if len(self.got) >= ln:
            self.dataout = None
            return [("resp", 0xA0, 0, [tag], True)]
        return []


class Twin:
    """DeviceBase stub: framing for one transport + fault injection + trace recording."""

    def __init__(self, transport, mps, fault=None, dev_error=None):
        from spsdk.utils.exceptions import SPSDKTimeoutError

        self.Timeout = SPSDKTimeoutError
        self.transport = transport
        self.core = Core(mps)
        self.mps = mps
        self.fault = fault  # (frame index in the device-to-host stream, kind, byte position / bit)
        self.dev_error = dev_error
        self._o = False
        self._t = 20000  # ms; the stub never blocks (an empty pipe raises the time-out at once), so wall-clock time must not decide anything
        self.rx = b""
        self.tx = b"" if transport == "serial" else []
        self.nframe = 0
        self.trace = []
        self.dead = False
        self.reads = 0
        self.ncmd = 0

    # ---- DeviceBase interface
    is_opened = property(lambda s: s._o)

    def open(self):
        self._o = True

    def close(self):
        self._o = False

    timeout = property(lambda s: s._t, lambda s, v: setattr(s, "_t", v))

    def __str__(self):
        return "twin"

    def read(self, length, timeout=None):
        self.reads += 1
        if self.reads > 4000:
            raise KeyboardInterrupt()
        if self.transport == "serial":
            if not self.tx:
                raise self.Timeout()
            d = self.tx[:length]
            self.tx = self.tx[length:]
            return d
        if not self.tx:
            raise self.Timeout()
        return self.tx.pop(0)

    def left(self):
        """What the device emitted and the host has not read: bytes (serial) / reports (HID)."""
        return len(self.tx)

    # ---- emissions with faults
    def emit(self, kind, **info):
        if self.dead:
            return
        idx = self.nframe
        self.nframe += 1
        wire = self.encode(kind, info)
        f = "none"
        if self.fault and self.fault[0] == idx:
            fk = self.fault[1]
            if fk == "flip":
                pos, bit = self.fault[2]
                if self.transport == "hid":
                    pos = min(pos, 3)  # HID has no integrity check on payloads: only the 4-byte report header is a listed fault target
                w = bytearray(wire)
                w[pos % len(w)] ^= 1 << bit
                wire = bytes(w)
                f = "flip"
            elif fk == "trunc":
                pos = self.fault[2][0] % len(wire)
                wire = wire[:pos]
                self.dead = True
                f = "trunc"
            elif fk == "drop":
                wire = b""
                f = "drop"
            elif fk == "nak" and kind == "ack":
                wire = NAK
                f = "nak"
            elif fk == "abort" and kind == "data":
                wire = ABORT if self.transport == "serial" else struct.pack("<2BH", 0x04, 0, 0)
                self.dead = True
                f = "abort"
            elif fk == "notready" and self.transport == "serial":
                wire = b"\x00" * 3 + wire
                f = "notready"
        ev = {"ev": "d2h", "kind": kind, "fault": f}
        ev.update({k: v for k, v in info.items() if k in ("status", "devStatus", "final", "n", "chunk", "values")})
        self.trace.append(ev)
        if wire:
            if self.transport == "serial":
                self.tx += wire
            else:
                self.tx.append(wire)

    def encode(self, kind, info):
        if self.transport == "serial":
            if kind == "ack":
                return ACK
            if kind == "resp":
                return sframe(0xA4, info["payload"])
            return sframe(0xA5, info["payload"])          # data; abort = a data frame without payload
        rid = 0x03 if kind == "resp" else 0x04
        return struct.pack("<2BH", rid, 0, len(info["payload"])) + info["payload"]

    def send(self, emissions):
        chunk = 0
        sent = 0
        for n_, e in enumerate(emissions):
            if e[0] == "abort":
                self.emit("abort", payload=b"")
                self.trace[-1]["fault"] = "err" if self.trace[-1]["fault"] == "none" else self.trace[-1]["fault"]
                if self.transport == "serial":
                    # lock step: the device releases its next frame only when the host has acknowledged this one (response, data packets, abort packet)
                    self.held, self.held_at = list(emissions[n_ + 1:]), sent + 1
                    return
                continue
            sent += 1
            if e[0] == "resp":
                _, rtag, status, values, final = e
                if final and self.final_error is not None:
                    status, self.final_error = self.final_error, None
                    payload = struct.pack("<4B", rtag, 0, 0, 1 + len(values)) + struct.pack(f"<{1 + len(values)}I", status, *values)
                    self.emit("resp", payload=payload, status=status, devStatus=status, final=final)
                    self.trace[-1]["fault"] = "err" if self.trace[-1]["fault"] == "none" else self.trace[-1]["fault"]
                    continue
                payload = struct.pack("<4B", rtag, 0, 0, 1 + len(values)) + struct.pack(f"<{1 + len(values)}I", status, *values)
                self.emit("resp", payload=payload, status=status, devStatus=status, final=final, values=[W(x) for x in values])
            else:
                chunk += 1
                self.emit("data", payload=e[1], n=len(e[1]), chunk=chunk)

    # ---- host -> device
    def write(self, data, timeout=None):
        if self.transport == "serial":
            self.rx += bytes(data)
            self.pump_serial()
        else:
            self.on_report(bytes(data))

    def pump_serial(self):
        while True:
            if self.rx[:2] == ACK:
                self.rx = self.rx[2:]
                self.trace.append({"ev": "h2d", "kind": "ack"})
                self.acks += 1
                if self.held and self.acks >= self.held_at:
                    held, self.held = self.held, None
                    self.send(held)
                continue
            if self.rx[:2] == b"\x5a\xa6":  # ping
                self.rx = self.rx[2:]
                body = b"\x5a\xa7" + struct.pack("<IH", 0x50010300, 0)
                self.tx += body + struct.pack("<H", crc16(body))
                continue
            if len(self.rx) >= 6:
                _, ft, ln, c = struct.unpack("<BBHH", self.rx[:6])
                if len(self.rx) < 6 + ln:
                    return
                pl = self.rx[6:6 + ln]
                self.rx = self.rx[6 + ln:]
                ok = crc16(struct.pack("<BBH", 0x5A, ft, ln) + pl) == c
                if ft == 0xA4:
                    self.on_cmd(pl, ok)
                elif ft == 0xA5:
                    self.on_data(pl, ok)
                continue
            return

    def on_report(self, rep):
        rid, _, ln = struct.unpack("<2BH", rep[:4])
        pl = rep[4:4 + ln]
        if rid == 0x01:
            self.on_cmd(pl, True)
        elif rid == 0x02:
            self.on_data(pl, True)

    def on_cmd(self, pl, ok):
        tag, flags, rsv, n = struct.unpack("<4B", pl[:4])
        n = min(n, (len(pl) - 4) // 4)
        params = list(struct.unpack(f"<{n}I", pl[4:4 + 4 * n]))
        status = 0
        self.ncmd += 1
        if self.dev_error and self.dev_error[0] == self.ncmd:
            status = self.dev_error[1]
            # the device may also report the failure only AFTER the data phase, in the final response (a write that fails while programming, a read that ends early)
            if len(self.dev_error) > 2 and self.dev_error[2] == "final" and self.core.shape(tag, flags, params) in ("in", "out"):
                self.final_error, status = status, 0
            # ... or ABORT a running device-to-host data phase: after some data packets a data packet of length zero, then the final response with the reason
            if len(self.dev_error) > 2 and self.dev_error[2] == "abort" and self.core.shape(tag, flags, params) == "in":
                self.abort_after, self.final_error, status = self.dev_error[3], status, 0
        in_data_phase = self.core.dataout is not None
        shape, ln, out = self.core.on_cmd(tag, flags, params, status)
        self.trace.append({"ev": "h2d", "kind": "cmd", "tag": tag, "crcOk": ok, "shape": shape, "len": ln,
                           "chunks": (ln + self.mps - 1) // self.mps if shape in ("in", "out") else 0, "n": 0, "inData": in_data_phase,
                           "flags": flags, "rsv": rsv + (0 if 4 + 4 * n == len(pl) else 1000), "params": [W(x) for x in params]})
        if self.transport == "serial":
            self.emit("ack")
        if status != 0:
            for e in out:
                _, rtag, st, values, final = e
                payload = struct.pack("<4B", rtag, 0, 0, 2) + struct.pack("<2I", st, values[0])
                self.emit("resp", payload=payload, status=st, devStatus=st, final=final)
            # the device-reported error is a fault of the scenario (the call must not succeed)
            self.trace[-1]["fault"] = "err" if self.trace[-1]["fault"] == "none" else self.trace[-1]["fault"]
            return
        if self.abort_after is not None:
            data = [e for e in out if e[0] == "data"]
            if data:
                k = min(self.abort_after, len(data) - 1)
                out = [e for e in out if e[0] == "resp" and not e[4]] + data[:k] + [("abort",)] + [e for e in out if e[0] == "resp" and e[4]]
            self.abort_after = None
        self.acks = 0
        self.send(out)

    def on_data(self, pl, ok):
        kind = "data" if (self.core.dataout is not None or self.expect_cmd_data) else "raw"
        self.trace.append({"ev": "h2d", "kind": kind, "n": len(pl), "crcOk": ok, "tag": 0, "shape": "none", "len": 0, "chunks": 0, "inData": False})
        if kind == "raw":
            self.core.raw += pl
        if self.transport == "serial":
            self.emit("ack")
        if kind == "data":
            self.send(self.core.on_data(pl))

    expect_cmd_data = False
    final_error = None
    abort_after = None
    held = None
    held_at = 0
    acks = 0


# ------------------------------------------------------------------ operations
def W(v):
    """32-bit word -> [hi16, lo16] (TLC integers are 32-bit)."""
    v &= 0xFFFFFFFF
    return [v >> 16, v & 0xFFFF]


WORDS = [0, 1, 0xFF, 0x100, 0xFFFF, 0x10000, 0xFFFFFF, 0x1000000, 0x1000011, 0x7FFFFFFF, 0x80000000, 0xA5A5A5A5, 0xFFFFFFFF]
MEMS = [0, 0, 1, 9, 0x100, 0x110, 0x120]            # 1..255: mapped external memories (travel as 0), >= 0x100: unmapped ones
FUSE_IDX = [0, 3, 0x11, 7, 0xFFFFFF, 0x1000011, 0x1000003, 0x80000005, 0xFF000007]

# name: (shape, tag of the LAST command of the operation, argument kinds in API order)
#   kinds: addr (inside the twin's memory), len (the job's length), word, mem, memraw (memory id that is not translated), idx (fuse index with option flags),
#          prop / propval, small, key8 / data4 / data8 (short data that travels inside the command packet), data (the data-phase payload)
OPS = {
    "flash_erase_all": ("cmd", 0x01, ["memraw"]), "flash_erase_region": ("cmd", 0x02, ["word", "word", "mem"]),
    "fill_memory": ("cmd", 0x05, ["word", "word", "word"]), "flash_security_disable": ("cmd", 0x06, ["key8"]),
    "execute": ("cmd", 0x09, ["word", "word", "word"]), "call": ("cmd", 0x0A, ["word", "word"]), "reset": ("cmd", 0x0B, []),
    "set_property": ("cmd", 0x0C, ["propset", "word"]), "flash_erase_all_unsecure": ("cmd", 0x0D, []),
    "flash_program_once": ("cmd", 0x0E, ["idx", "data48"]), "efuse_program_once": ("cmd", 0x0E, ["idx", "word"]),
    "efuse_program_once_verify": ("value", 0x0F, ["idx", "word"]),
    "configure_memory": ("cmd", 0x11, ["word", "memraw"]), "reliable_update": ("cmd", 0x12, ["word"]),
    "kp_enroll": ("cmd", 0x15, []), "kp_set_intrinsic_key": ("cmd", 0x15, ["small", "small"]),
    "kp_write_nonvolatile": ("cmd", 0x15, ["memraw"]), "kp_read_nonvolatile": ("cmd", 0x15, ["memraw"]),
    "update_life_cycle": ("cmd", 0x18, ["small"]),
    "get_property": ("value", 0x07, ["prop", "small"]), "flash_read_once": ("value", 0x0F, ["idx", "four"]), "efuse_read_once": ("value", 0x0F, ["idx"]),
    "read_memory": ("in", 0x03, ["addr", "len", "mem"]), "flash_read_resource": ("in", 0x10, ["addr", "len", "small"]),
    "fuse_read": ("in", 0x17, ["addr", "len", "mem"]), "kp_read_key_store": ("in", 0x15, []),
    "write_memory": ("out", 0x04, ["addr", "data", "mem"]), "receive_sb_file": ("out", 0x08, ["data"]), "fuse_program": ("out", 0x14, ["addr", "data", "mem"]),
    "kp_set_user_key": ("out", 0x15, ["small", "data"]), "kp_write_key_store": ("out", 0x15, ["data"]),
    "load_image": ("raw", 0, ["data"]),
    # two exchanges in one call: the key goes out (data phase), the blob comes back (data phase); length = key length, second length = blob size
    "generate_key_blob": ("outin", 0x13, ["data", "small4", "count"]),
    # property report of the device, plain and after the host interpreted a property for a family with its own property table (history independence)
    "get_property_list": ("value", 0x07, []), "get_property_list_after_family_parse": ("value", 0x07, []),
    # the memory map of the device, put together from indexed get-property exchanges (the job's length selects the twin's memory configuration)
    "get_memory_list": ("value", 0x07, []),
}
REPORT_OPS = ("get_property_list", "get_property_list_after_family_parse")
REPORT_REF = {}      # packet size -> reference description, taken in the parent process before any family-specific parsing


def describe(props):
    return [[int(p.tag), str(p.name), str(p.to_str())] for p in props]


def report_reference(mps):
    """The property report of a fresh twin as a fresh interpreter state describes it."""
    from spsdk.mboot.mcuboot import McuBoot
    from spsdk.mboot.protocol.bulk_protocol import MbootBulkProtocol

    twin = Twin("hid", mps, None, None)
    proto = MbootBulkProtocol(twin)
    proto.identifier = "twin"
    mb = McuBoot(proto)
    mb.open()
    return describe(mb.get_property_list())


def regions_of(ml):
    """What get_memory_list reported, as entries (property, index, position of the word in the answer (0: the status), word) + the numbers of regions."""
    out = []
    for x in ml.get("internal_flash", []):
        out += [(3, x.index, 1, x.start), (4, x.index, 1, x.size), (5, x.index, 1, x.sector_size)]
    for x in ml.get("internal_ram", []):
        out += [(14, x.index, 1, x.start), (15, x.index, 1, x.size)]
    for x in ml.get("external_mems", []):
        if x.value is None:
            out.append((25, x.mem_id, 0, 10205))         # reported as present but not configured
            continue
        out.append((25, x.mem_id, 1, x.value))
        for pos, val in ((2, x.start_address), (3, None if x.total_size is None else x.total_size // 1024), (4, x.page_size), (5, x.sector_size), (6, x.block_size)):
            if val is not None:
                out.append((25, x.mem_id, pos, val))
    return out, [len(ml.get("internal_flash", [])), len(ml.get("internal_ram", [])), len(ml.get("external_mems", []))]


def regions_ref(cfg):
    """The same for the twin's memory configuration (what a complete and exact report contains)."""
    out = []
    for i, (a, b, c_) in enumerate(cfg["flash"]):
        out += [(3, i, 1, a), (4, i, 1, b), (5, i, 1, c_)]
    for i, (a, b) in enumerate(cfg["ram"]):
        out += [(14, i, 1, a), (15, i, 1, b)]
    ext = {k: v for k, v in (cfg["ext"] or {}).items() if isinstance(v, list) or v == 10205}
    for k, v in ext.items():
        if v == 10205:
            out.append((25, k, 0, 10205))
        else:
            out += [(25, k, 1, v[0])] + [(25, k, pos + 1, v[pos]) for pos in range(1, 6) if v[0] & (1 << (pos - 1))]
    return out, [len(cfg["flash"]), len(cfg["ram"]), len(ext)]


def payload(n, salt):
    return bytes((i * 5 + 1 + salt) & 0xFF for i in range(n))


def make_args(op, length, salt, r, len2=None):
    """Concrete arguments of one call (API order) from the value classes.  len2: the second length of an operation of two exchanges (blob size)."""
    vals = []
    for k in OPS[op][2]:
        if k == "addr":
            vals.append(r.choice([0x100, 0x400, 0x600, 0x4000, 0x5000, r.randrange(0, 0x6000), r.randrange(0, 0x6000) & ~3]))
        elif k == "len":
            vals.append(length)
        elif k == "word":
            vals.append(r.choice(WORDS + [r.getrandbits(32)]))
        elif k == "mem":
            vals.append(r.choice(MEMS))
        elif k == "memraw":
            vals.append(r.choice([0, 0, 1, 9, 0x100, 0x110]))
        elif k == "idx":
            vals.append(r.choice(FUSE_IDX))
        elif k == "prop":
            vals.append(r.choice([1, 1, 7, 12, 11, 0x30]))
        elif k == "propset":
            vals.append(r.choice([10, 22, 0x16, 30, 0x31, 0x30]))
        elif k == "small":
            vals.append(r.choice([0, 1, 2, 3, 7, 0x40, 0xFF]))
        elif k == "four":
            vals.append(4)
        elif k == "small4":
            vals.append(r.choice([0, 1, 2, 3]))
        elif k == "count":
            c_ = r.choice([72, 72, 88, 104, 1, 64, 65, 200])
            vals.append(c_ if len2 is None else len2)
        elif k == "key8":
            vals.append(bytes(r.randrange(256) for _ in range(8)))
        elif k == "data48":
            vals.append(bytes(r.randrange(256) for _ in range(r.choice([4, 8]))))
        elif k == "data":
            vals.append(payload(length, salt))
        else:
            raise Machinery(f"unknown argument kind {k}")
    return vals


def do_call(mb, twin, op, length, salt, r=None, len2=None):
    """Perform one API call; returns (call event, result event)."""
    from spsdk.exceptions import SPSDKError

    shape, tag, kinds = OPS[op]
    if op == "flash_read_resource":
        length = (length + 3) // 4 * 4  # the API documents 4-byte alignment
    core = twin.core
    if op == "kp_read_key_store":
        core.keystore = KEYSTORE[:length]           # state of the device: the size of its key store (0: the device announces a data phase of zero bytes)
    A = make_args(op, length, salt, r or rng(PROP, "args", op, length, salt), len2)
    ints = [x for x in A if isinstance(x, int)]
    blobs = [x for x in A if isinstance(x, bytes)]
    data = blobs[0] if blobs else b""
    inline = bool(blobs) and not any(k == "data" for k in kinds)            # short data inside the command packet
    call = {"ev": "call", "op": op, "shape": shape, "tag": tag, "len": length if shape in ("in", "out", "raw", "outin") else 0, "mps": twin.mps,
            "args": [W(x) for x in ints], "dl": W(len(data)), "db": list(data) if inline else [], "len2": ints[1] if shape == "outin" else 0}
    if op == "kp_read_key_store":
        call["len"] = len(core.keystore)
    if op == "get_memory_list":
        core.memcfg = MEMCFGS[length % len(MEMCFGS)]          # state of the device: its memory map
        call["nreg"] = regions_ref(core.memcfg)[1]
    res = {"ev": "result", "kind": "ret", "val": "fail", "status": 0, "reads": 0, "documented": True, "dataExact": False, "dataLen": 0,
           "devGotExact": False, "devBytes": 0, "valuesExact": False, "exc": "none", "left": 0}
    reads0 = twin.reads
    want = b""
    try:
        if shape == "in" and op != "kp_read_key_store":
            want = bytes(core.mem[A[0]:A[0] + length])
        if op == "kp_read_key_store":
            want = core.keystore
        if op in REPORT_OPS:
            if op.endswith("family_parse"):
                from spsdk.mboot.properties import parse_property_value

                for fam in ("kw45b41z8", "kw47b42zb7", "mcxa156"):
                    try:
                        parse_property_value(0x0A, [1], None, fam)
                    except SPSDKError:
                        pass
            r_ = mb.get_property_list()
        elif op == "get_memory_list":
            r_ = mb.get_memory_list()
        elif op == "efuse_program_once_verify":
            r_ = mb.efuse_program_once(A[0], A[1], verify=True)
        elif op == "reset":
            r_ = mb.reset(timeout=0, reopen=True)
        else:
            r_ = getattr(mb, op)(*A)
        if shape == "outin":
            want = getattr(core, "keyblob", b"")
        if shape in ("in", "outin"):
            if r_ is None:
                res["val"] = "none"
            else:
                res["val"] = "data"
                res["dataExact"] = bytes(r_) == want[:len(r_)] and len(r_) <= len(want)
                res["dataLen"] = len(r_)
        elif shape == "value":
            if op in REPORT_OPS:
                res["val"] = "values" if r_ else "none"
                res["valuesExact"] = describe(r_) == REPORT_REF.get(twin.mps)
            elif op == "get_memory_list":
                res["val"] = "values" if r_ else "none"
                got, res["nreg"] = regions_of(r_)
                res["regions"] = [{"prop": a, "idx": W(b), "pos": c_, "val": W(d)} for a, b, c_, d in got]
                res["valuesExact"] = sorted(got) == sorted(regions_ref(core.memcfg)[0])
            elif op == "get_property":
                res["val"] = "values" if r_ is not None else "none"
                res["valuesExact"] = r_ == (core.lookup(A[0], A[1])[1] if core.lookup(A[0], A[1])[0] == 0 else [0])
            elif op == "flash_read_once":
                res["val"] = "values" if r_ is not None else "none"
                res["valuesExact"] = r_ == struct.pack("<I", core.once.get(A[0] & 0xFFFFFF, 0))
            elif op == "efuse_read_once":
                res["val"] = "values" if r_ is not None else "none"
                res["valuesExact"] = r_ == core.once.get(A[0] & 0xFFFFFF, 0)
            else:  # efuse_program_once_verify: boolean outcome of a two-command operation
                res["val"] = "values" if r_ is True else "fail"
                res["valuesExact"] = r_ is True and core.once.get(A[0] & 0xFFFFFF, 0) & A[1] == A[1]
        else:
            res["val"] = "ok" if r_ is True else "fail"
        if shape in ("out", "outin"):
            addr = A[0] if op in ("write_memory", "fuse_program") else 0x8000
            res["devGotExact"] = bytes(core.mem[addr:addr + length]) == data and bytes(core.got) == data
            res["devBytes"] = len(core.got)
        if shape == "raw":
            res["devGotExact"] = bytes(core.raw) == data
            res["devBytes"] = len(core.raw)
    except SPSDKError as e:
        res.update(kind="exc", val="exc", exc=type(e).__name__, documented=True)
    except TimeoutError as e:
        res.update(kind="exc", val="exc", exc=type(e).__name__, documented=True)
    except KeyboardInterrupt:
        res.update(kind="unbounded", val="unbounded", exc="unbounded", documented=False)
    except BaseException as e:  # noqa: BLE001 - recorded, the spec decides
        res.update(kind="exc", val="exc", exc=type(e).__name__, documented=False)
    st = mb.status_code
    res["status"] = int(st) if isinstance(st, int) and 0 <= st < 2**31 else 999999
    res["reads"] = twin.reads - reads0
    res["left"] = twin.left()
    return call, res


NOCLI = {"cmd": "none", "n": [], "kw": [], "db": [], "dl": [0, 0]}
# blhost sub-commands driven through the command line: name -> (operation for the twin-side bookkeeping, numeric argument kinds in COMMAND-LINE order,
# number of trailing optional arguments, keyword choices)
CLI = {
    "call": ("call", ["word", "word"], 0, []), "configure-memory": ("configure_memory", ["memraw", "word"], 0, []),
    "efuse-program-once": ("efuse_program_once", ["idx24", "hexword"], 0, ["", "lock", "nolock", "verify", "lock+verify"]),
    "efuse-read-once": ("efuse_read_once", ["idx24"], 0, []), "execute": ("execute", ["word", "word", "word"], 0, []),
    "flash-erase-region": ("flash_erase_region", ["word", "word", "mem"], 1, []), "flash-erase-all": ("flash_erase_all", ["memraw"], 1, []),
    "flash-erase-all-unsecure": ("flash_erase_all_unsecure", [], 0, []),
    "flash-program-once": ("flash_program_once", ["idx24"], 0, ["4", "8", "4 msb", "8 msb", "4 lsb"]),
    "flash-read-once": ("flash_read_once", ["idx24", "four"], 0, []), "flash-security-disable": ("flash_security_disable", [], 0, []),
    "fill-memory": ("fill_memory", ["word", "word", "word"], 0, ["", "word"]), "get-property": ("get_property", ["prop", "small"], 1, []),
    "set-property": ("set_property", ["propset", "word"], 0, []), "reliable-update": ("reliable_update", ["word"], 0, []), "reset": ("reset", [], 0, []),
    "read-memory": ("read_memory", ["addr", "len", "mem"], 1, []), "write-memory": ("write_memory", ["addr", "mem"], 1, ["file", "hex"]),
}


def numtext(v, r, base16=False):
    if base16:
        return f"{v:x}" if r.random() < 0.5 else f"{v:X}"
    return r.choice([str(v), hex(v), f"0x{v:08X}", f"0b{v:b}" if v < 4096 else hex(v)])


def do_cli(twin, proto, cmd, length, salt, r, workdir):
    """One blhost command line against the twin. -> (call event, result event)."""
    from click.testing import CliRunner

    from spsdk.apps import blhost
    from spsdk.mboot.interfaces.uart import MbootUARTInterface
    from spsdk.mboot.interfaces.usb import MbootUSBInterface

    op, kinds, nopt, kws = CLI[cmd]
    shape, tag, _ = OPS[op]
    core = twin.core
    vals = []
    for k in kinds:
        if k == "idx24":
            vals.append(r.choice([0, 3, 0x11, 7, 0xFFFFFF, 0x1000011, 0x80000005]))
        elif k == "hexword":
            vals.append(r.choice(WORDS + [r.getrandbits(32)]))
        elif k == "len":
            vals.append(length)
        else:
            vals.append(make_args(op, length, salt, r)[0] if False else {"word": r.choice(WORDS + [r.getrandbits(32)]), "memraw": r.choice([0, 1, 9, 0x100, 0x110]),
                                                                          "mem": r.choice(MEMS), "prop": r.choice([1, 7, 12, 11, 0x30]), "propset": r.choice([10, 22, 30, 0x31]),
                                                                          "small": r.choice([0, 1, 2, 7]), "four": 4,
                                                                          "addr": r.choice([0x100, 0x400, 0x4000, r.randrange(0, 0x6000) & ~3])}[k])
    drop = r.randrange(0, nopt + 1)          # trailing optional arguments left out (their default is 0)
    shown = vals[:len(vals) - drop] if drop else vals
    kw = r.choice(kws) if kws else ""
    argv = [cmd]
    data, db, words = b"", [], list(shown)
    if cmd == "flash-program-once":
        cnt = int(kw.split()[0])
        value = r.getrandbits(8 * cnt) | 1
        argv += [numtext(shown[0], r), str(cnt), numtext(value, r, True)] + ([kw.split()[1].upper()] if " " in kw else [])
        db = list(value.to_bytes(cnt, "little"))
        data = bytes(db)
    elif cmd == "flash-security-disable":
        key = bytes(r.randrange(256) for _ in range(8))
        argv += [key.hex()]
        db = list(key)
    elif cmd == "efuse-program-once":
        argv += [numtext(shown[0], r), numtext(shown[1], r, True)] + ([k_ for k_ in kw.split("+") if k_ in ("lock", "nolock")]) + (["--verify"] if "verify" in kw else [])
    elif cmd == "write-memory":
        data = payload(length, salt)
        if kw == "hex" and length <= 40:
            src = "{{" + data.hex() + "}}"
        else:
            src = os.path.join(workdir, f"wm-{os.getpid()}-{salt}.bin")
            with open(src, "wb") as f:
                f.write(data)
        argv += [numtext(shown[0], r), src] + [numtext(x, r) for x in shown[1:]]
    elif cmd == "read-memory":
        outp = os.path.join(workdir, f"rm-{os.getpid()}-{salt}.bin")
        argv += [numtext(shown[0], r), numtext(shown[1], r)] + ([outp] + [numtext(x, r) for x in shown[2:]] if len(shown) > 2 else [outp])
    elif cmd == "get-property":
        argv += [str(shown[0])] + [numtext(x, r) for x in shown[1:]]
    elif cmd == "set-property":
        argv += [str(shown[0]), numtext(shown[1], r)]
    elif cmd == "flash-read-once":
        argv += [numtext(shown[0], r), "4"]                     # BYTE_COUNT is the literal 4 or 8
    else:
        argv += [numtext(x, r) for x in shown] + ([kw] if kw else [])
    kwl = sorted({k_ for k_ in kw.replace("+", " ").lower().split() if k_ in ("lock", "verify", "msb")})
    cli = {"cmd": cmd, "n": [W(x) for x in words], "kw": kwl, "db": db, "dl": W(len(data))}
    call = {"ev": "call", "op": ("efuse_program_once_verify" if "verify" in kwl else op), "shape": ("value" if "verify" in kwl else shape),
            "tag": (0x0F if "verify" in kwl else tag), "len": length if shape in ("in", "out") else 0, "mps": twin.mps, "args": [], "dl": W(len(data)), "db": [],
            "via": "cli", "cli": cli}
    res = {"ev": "result", "kind": "ret", "val": "fail", "status": 0, "reads": 0, "documented": True, "dataExact": False, "dataLen": 0,
           "devGotExact": False, "devBytes": 0, "valuesExact": False, "exc": "none", "left": 0}
    reads0 = twin.reads
    cls = MbootUARTInterface if twin.transport == "serial" else MbootUSBInterface
    cls.scan_single = classmethod(lambda c, **kw_: proto)
    want = bytes(core.mem[vals[0]:vals[0] + length]) if cmd == "read-memory" else b""
    cr = CliRunner().invoke(blhost.main, (["-p", "TWIN"] if twin.transport == "serial" else ["-u", "0x1fc9:0x0021"]) + argv)
    out = cr.output or ""
    ok = cr.exit_code == 0 and "Success" in out
    if cr.exception is not None and not isinstance(cr.exception, SystemExit):
        from spsdk.exceptions import SPSDKError

        res.update(kind="exc", val="exc", exc=type(cr.exception).__name__, documented=isinstance(cr.exception, (SPSDKError, TimeoutError)))
    elif ok:
        if shape == "in":
            got = open(outp, "rb").read() if os.path.exists(outp) else b""
            res.update(val="data", dataExact=got == want, dataLen=len(got))
        elif shape == "value" or "verify" in kwl:
            # the tool prints the values; the words on the wire are what the command layer judges, the values are the twin's
            res.update(val="values", valuesExact=True)
        else:
            res["val"] = "ok"
        if shape == "out":
            res.update(devGotExact=bytes(core.mem[vals[0]:vals[0] + length]) == data and bytes(core.got) == data, devBytes=len(core.got))
    res["status"] = 0 if ok else 1
    res["reads"] = twin.reads - reads0
    res["left"] = twin.left()
    res["argv"] = " ".join(argv)
    return call, res


def run_cli_history(job):
    """job = (id, transport, mps, [(sub-command, length)]) -> trace record (fault-free; the tool layer is about meaning, the link is judged in the API lane)"""
    from spsdk.mboot.protocol.bulk_protocol import MbootBulkProtocol
    from spsdk.mboot.protocol.serial_protocol import MbootSerialProtocol

    jid, transport, mps, calls = job
    twin = Twin(transport, mps, None, None)
    proto = (MbootSerialProtocol if transport == "serial" else MbootBulkProtocol)(twin)
    proto.identifier = "twin"
    workdir = os.path.join(scratch(), "c10-cli")
    os.makedirs(workdir, exist_ok=True)
    evs, lines = [], []
    for i, (cmd, length) in enumerate(calls):
        twin.trace = []
        call, res = do_cli(twin, proto, cmd, length, i + 17 * (hash(jid) % 97), rng(PROP, "cli", jid, i), workdir)
        lines.append(res.pop("argv"))
        evs.append(call)
        evs.extend(twin.trace)
        evs.append(res)
    return {"id": jid, "transport": transport, "ev": [norm(e) for e in evs], "job": [jid, transport, mps, calls, "cli"], "lines": lines}


def run_history(job):
    """job = (id, transport, mps, [(op, length)], fault, dev_error, preset_mps) -> trace record"""
    from spsdk.mboot.mcuboot import McuBoot
    from spsdk.mboot.protocol.bulk_protocol import MbootBulkProtocol
    from spsdk.mboot.protocol.serial_protocol import MbootSerialProtocol

    jid, transport, mps, calls, fault, dev_error, preset = job
    twin = Twin(transport, mps, None, None)
    proto = (MbootSerialProtocol if transport == "serial" else MbootBulkProtocol)(twin)
    proto.identifier = "twin"
    mb = McuBoot(proto)
    mb.open()
    if preset:
        mb.max_packet_size = mps
    evs = []
    for i, c_ in enumerate(calls):
        op, length, len2 = c_[0], c_[1], (c_[2] if len(c_) > 2 else None)
        last = i == len(calls) - 1
        twin.core.raw = bytearray()          # load-image data are judged per call
        if last:
            # faults are positioned relative to the device-to-host stream of the LAST call
            if fault:
                twin.fault = (twin.nframe + fault[0],) + tuple(fault[1:])
            if dev_error:
                twin.dev_error = (twin.ncmd + dev_error[0], dev_error[1]) + tuple(dev_error[2:])
        twin.trace = []
        twin.expect_cmd_data = False
        call, res = do_call(mb, twin, op, length, i, rng(PROP, "args", jid, i), len2)
        evs.append(call)
        evs.extend(twin.trace)
        evs.append(res)
        if twin.dead:
            break
    return {"id": jid, "transport": transport, "ev": [norm(e) for e in evs], "job": [jid, transport, mps, calls, fault, dev_error, preset]}


def norm(e):
    d = {"ev": e["ev"], "kind": str(e.get("kind", "none")), "op": e.get("op", "none"), "shape": e.get("shape", "none"), "tag": int(e.get("tag", 0)),
         "len": int(e.get("len", 0)), "len2": int(e.get("len2", 0)), "mps": int(e.get("mps", 0)), "chunks": int(e.get("chunks", 0)), "n": int(e.get("n", 0)),
         "chunk": int(e.get("chunk", 0)), "crcOk": bool(e.get("crcOk", True)), "fault": e.get("fault", "none"), "status": int(e.get("status", 0)),
         "devStatus": int(e.get("devStatus", 0)), "final": bool(e.get("final", False)), "val": e.get("val", "none"), "reads": int(e.get("reads", 0)),
         "documented": bool(e.get("documented", True)), "dataExact": bool(e.get("dataExact", False)), "dataLen": int(e.get("dataLen", 0)),
         "devGotExact": bool(e.get("devGotExact", False)), "devBytes": int(e.get("devBytes", 0)), "valuesExact": bool(e.get("valuesExact", False)),
         "exc": e.get("exc", "none"), "args": e.get("args", []), "dl": e.get("dl", [0, 0]), "db": e.get("db", []), "flags": int(e.get("flags", 0)),
         "rsv": int(e.get("rsv", 0)), "params": e.get("params", []), "via": e.get("via", "api"), "cli": e.get("cli", NOCLI), "left": int(e.get("left", 0)),
         "values": e.get("values", []), "regions": e.get("regions", []), "nreg": e.get("nreg", [0, 0, 0])}
    return d


def key_of(t, matched):
    e = t["ev"][min(matched, len(t["ev"]) - 1)]
    calls = [x for x in t["ev"] if x["ev"] == "call"]
    last = calls[-1] if calls else {"op": "?", "shape": "?"}
    faults = sorted({x["fault"] for x in t["ev"] if x["ev"] == "d2h" and x["fault"] != "none"}) or ["nofault"]
    if e["ev"] == "result":
        if e["kind"] == "exc" and not e["documented"]:
            out = f"undocumented-exception:{e['exc']}"
        elif e["kind"] == "unbounded":
            out = "unbounded"
        elif e["left"] > 0 and set(faults) <= {"nofault", "err", "notready"}:
            # the call returned while frames of its exchange were still unread: named after the call that left them (not the last one of the history)
            own = [x for x in t["ev"][:matched] if x["ev"] == "call"][-1:]
            return f"C10/{t['transport']}/{(own or [last])[0]['shape']}:{(own or [last])[0]['op']}/{'+'.join(faults)}/stream-not-consumed"
        elif e["kind"] == "ret" and e["val"] in ("ok", "data", "values") and e["status"] == 0:
            out = "false-success"
        elif faults == ["nofault"]:
            out = "fails-without-fault"
        else:
            out = "contract"
        return f"C10/{t['transport']}/{last['shape']}:{last['op']}/{'+'.join(faults)}/{out}"
    return f"C10/{t['transport']}/{last['shape']}:{last['op']}/{'+'.join(faults)}/wire:{e['ev']}:{e['kind']}"


def run(tier):
    import_spsdk()
    v = Verdict(PROP, tier)
    r = rng(PROP)

    # ---- MC: device || link || host; the repaired design holds, the design as it was is refuted
    for cfg in ("Mboot.cfg",) + (("Mboot2.cfg",) if tier == "thorough" else ()):
        m = tlc.mc("C10", "Mboot", cfg, coverage=True, heap="4g", require_actions=("Fault", "SendCmd", "CmdAck", "CmdResp", "ReadData", "SendData", "DataAck", "FinalResp"))
        v.add_mc(m)
    m = tlc.run("C10", "Mboot", "Mboot_asbuilt.cfg", heap="4g")
    if m.violated not in ("Documented", "PartialIsFlagged"):
        raise Machinery(f"the I-spec no longer predicts the defects of the as-built host (got {m.violated})")
    v.extra["prediction"] = f"as-built host refuted by TLC ({m.violated}); repaired host satisfies all contract invariants and terminates"

    # ---- GEN: fault classes reachable in the model
    g = tlc.run("C10", "MbootGen", "MbootGen.cfg", workers=1, deadlock=False, heap="4g")
    v.add_mc(g)
    classes = g.json_prints()
    if len(classes) < 50:
        raise Machinery(f"GEN produced only {len(classes)} fault classes\n{g.out[-1500:]}")
    classes = sorted({(c["shape"], c["n"], c["kind"], c["at"]) for c in classes})

    jobs = []
    mps_menu = [32, 64] if tier == "quick" else [32, 64, 200]
    ops_by_shape = {sh: [op for op, spec in OPS.items() if spec[0] == sh and op != "kp_read_key_store" and op not in REPORT_OPS and op != "get_memory_list"] for sh in ("cmd", "value", "in", "out")}
    for m_ in mps_menu:
        REPORT_REF[m_] = report_reference(m_)
        if len(REPORT_REF[m_]) < 10:
            raise Machinery(f"property report of the twin has only {len(REPORT_REF[m_])} entries")
    jid = 0
    # fault-free histories: every op alone on a fresh object (packet size not cached) and after others; all length classes
    for transport in ("serial", "hid"):
        for mps in mps_menu:
            for shape, ops in ops_by_shape.items():
                for op in ops:
                    lens = [0] if shape in ("cmd", "value") else [1, mps - 1, mps, mps + 1, 3 * mps + 5] + ([0] if (op in ("read_memory",) or shape == "out") else [])          # a data phase of zero bytes: no data packet at all (an empty packet means ABORT)
                    for ln in lens:
                        for preset in (False, True):
                            for _rep in range(4 if shape in ("cmd", "value") else 1):      # several draws from the argument value classes
                                jid += 1
                                jobs.append((f"nf-{jid}", transport, mps, [(op, ln)], None, None, preset))
            # the device's property report: alone, twice, and around a family-specific interpretation (fault-free only: under a fault the list is
            # documented to leave out what it could not read)
            for calls in ([("get_property_list", 0)], [("get_property_list", 0), ("get_property_list_after_family_parse", 0), ("get_property_list", 0)],
                          [("get_property_list_after_family_parse", 0), ("get_property", 0), ("get_property_list", 0)]):
                jid += 1
                jobs.append((f"nf-{jid}", transport, mps, calls, None, None, True))
            # the device's memory map: every memory configuration of the twin (regions that differ per index), alone, repeated, and around other calls
            # (fault-free only, as for the property report)
            for k_ in range(len(MEMCFGS)):
                for calls in ([("get_memory_list", k_)], [("get_property", 0), ("get_memory_list", k_), ("get_property", 0), ("get_memory_list", (k_ + 1) % len(MEMCFGS))]):
                    jid += 1
                    jobs.append((f"nf-{jid}", transport, mps, calls, None, None, k_ % 2 == 0))
            for ln in (0, 1, mps, 2 * mps + 3):
                jid += 1
                jobs.append((f"nf-{jid}", transport, mps, [("load_image", ln)], None, None, True))
                jid += 1
                jobs.append((f"nf-{jid}", transport, mps, [("kp_read_key_store", len(KEYSTORE))], None, None, True))
            # multi-call histories
            for _ in range(12 if tier == "quick" else 3000):
                k = r.randrange(2, 5)
                calls = []
                for _ in range(k):
                    shape = r.choice(list(ops_by_shape))
                    op = r.choice(ops_by_shape[shape])
                    calls.append((op, 0 if shape in ("cmd", "value") else r.choice([1, mps, mps + 1, 2 * mps + 7])))
                jid += 1
                jobs.append((f"nf-{jid}", transport, mps, calls, None, None, r.random() < 0.5))
    # faulty executions: every TLC class x concrete op x byte position class
    for (shape, n, kind, at) in classes:
        for transport in ("serial", "hid"):
            if transport == "hid" and kind in ("nak",):
                continue
            mps = r.choice(mps_menu)
            ops = ops_by_shape["cmd" if shape == "cmd" else shape]
            for op in (ops if tier == "thorough" else r.sample(ops, min(2, len(ops))) + (["reset"] if shape == "cmd" else [])):
                ln = 0 if shape == "cmd" else r.choice([n * mps, n * mps - r.randrange(1, mps)])
                if shape != "cmd" and ln <= 0:
                    continue
                at_t = at if transport == "serial" else hid_index(shape, n, at)
                if at_t is None:
                    continue
                if kind == "err":
                    jid += 1
                    jobs.append((f"f-{jid}", transport, mps, [(op, ln)], None, (1, r.choice([10101, 10200, 1])), True))
                    if shape in ("in", "out"):          # the same failure reported in the final response, after the data phase
                        jid += 1
                        jobs.append((f"f-{jid}", transport, mps, [(op, ln)], None, (1, r.choice([10101, 10200, 1, 105]), "final"), True))
                    continue
                positions = [(0, 0)] if kind not in ("flip", "trunc") else ([(p, r.randrange(8)) for p in ([0, 1, 2, 3, 4, 5, 6, 7, 9] if tier == "quick" else range(0, 24))] if kind == "flip" else [(p, 0) for p in (0, 1, 3, 5, 7)])
                for pos in positions:
                    jid += 1
                    jobs.append((f"f-{jid}", transport, mps, [(op, ln)], (at_t, kind, pos), None, True))
    # generate_key_blob: two exchanges (data out, then data in) in one call - fault-free and with a fault at every frame of the device-to-host stream
    kinds = sorted({c[2] for c in classes} - {"err"})
    for transport in ("serial", "hid"):
        for mps in mps_menu:
            for ln in (16, 32, mps, mps + 1):
                for preset in (False, True):
                    jid += 1
                    jobs.append((f"nf-{jid}", transport, mps, [("generate_key_blob", ln)], None, None, preset))
            jid += 1
            jobs.append((f"nf-{jid}", transport, mps, [("generate_key_blob", 16), ("read_memory", mps + 1), ("generate_key_blob", 32)], None, None, True))
            jid += 1
            for op_, ln_ in (("read_memory", 3 * mps + 5), ("read_memory", mps), ("flash_read_resource", 2 * mps), ("fuse_read", 2 * mps + 1), ("kp_read_key_store", len(KEYSTORE))):
                for after in (0, 1, 2):
                    jid += 1
                    jobs.append((f"f-{jid}", transport, mps, [(op_, ln_)], None, (1, r.choice([10002, 10200, 10203, 101]), "abort", after), True))
            jid += 1
            jobs.append((f"f-{jid}", transport, mps, [("generate_key_blob", 16)], None, (2, 10002, "abort", 0), True))
            jid += 1
            jobs.append((f"f-{jid}", transport, mps, [("read_memory", 2 * mps), ("get_property", 0), ("read_memory", mps + 1)], None, (1, 10002, "abort", 1), True))
            for k in (1, 2):
                for where in ((), ("final",)):
                    jid += 1
                    jobs.append((f"f-{jid}", transport, mps, [("generate_key_blob", r.choice([24, mps + 1]))], None, (k, r.choice([10101, 10200, 1])) + where, True))
            for at in (range(0, 14) if tier == "thorough" else sorted(r.sample(range(0, 12), 6))):
                for kind in kinds:
                    if transport == "hid" and kind in ("nak",):
                        continue
                    for pos in ([(0, 0)] if kind not in ("flip", "trunc") else [(p, r.randrange(8)) for p in ((0, 2, 5, 9) if tier == "quick" else range(0, 16))]):
                        jid += 1
                        jobs.append((f"f-{jid}", transport, mps, [("generate_key_blob", r.choice([16, mps + 1]))], (at, kind, pos), None, True))
    # benign not-ready bytes, and faults in the second call of a history
    for _ in range(20 if tier == "quick" else 6000):
        mps = r.choice(mps_menu)
        jid += 1
        jobs.append((f"b-{jid}", "serial", mps, [("read_memory", 2 * mps + 1)], (r.randrange(0, 5), "notready", (0, 0)), None, True))
        jid += 1
        op2 = r.choice(["read_memory", "write_memory"])
        jobs.append((f"h-{jid}", r.choice(["serial", "hid"]), mps, [("get_property", 0), (op2, mps + 3)], (r.randrange(0, 4), r.choice(["drop", "trunc", "flip"]), (r.randrange(8), r.randrange(8))), None, r.random() < 0.5))

    # ---- histories around a device-to-host data phase of ZERO bytes (MbootHistGen.tla enumerates the classes)
    hg = tlc.run("C10", "MbootHistGen", "MbootHistGen.cfg" if tier == "quick" else "MbootHistGen_thorough.cfg", workers=1, deadlock=False, heap="2g")
    v.add_mc(hg)
    hclasses = sorted({tuple((c["shape"], c["n"]) for c in x["calls"]) for x in hg.json_prints()}, key=lambda h_: (len(h_), h_))
    if len(hclasses) < 100 or not any(len(h_) > 1 and h_[0] == ("in", 0) for h_ in hclasses):
        raise Machinery(f"history GEN produced only {len(hclasses)} classes\n{hg.out[-1500:]}")
    zjobs = zero_histories(hclasses, tier, mps_menu, ops_by_shape)
    jobs += zjobs
    v.extra["zero_length_data_in_histories"] = {"classes": len(hclasses), "histories": len(zjobs)}

    # ---- tool layer: blhost command lines (MbootCli.tla says what each one means), fault-free, both transports
    cjobs = []
    for transport in ("serial", "hid"):
        for cmd in CLI:
            for rep_ in range(4 if tier == "quick" else 24):
                ln = 0 if OPS[CLI[cmd][0]][0] in ("cmd", "value") else [1, 33, 64, 100][rep_ % 4]
                cjobs.append((f"cli-{len(cjobs)}", transport, [32, 64][rep_ % 2], [(cmd, ln)]))
        for k in range(6 if tier == "quick" else 60):
            seq = [r.choice(sorted(CLI)) for _ in range(3)]
            cjobs.append((f"cli-{len(cjobs)}", transport, 64, [(c, 0 if OPS[CLI[c][0]][0] in ("cmd", "value") else 20 + k) for c in seq]))
    ctraces = pmap(run_cli_history, cjobs, chunksize=8)
    v.extra["cli_lines"] = len(ctraces)
    v.sample({"id": ctraces[0]["id"], "command_lines": ctraces[0]["lines"]})
    traces = pmap(run_history, jobs, chunksize=16) + ctraces
    say(f"[C10] {len(traces)} mboot histories executed against the twin ({v.timer.s()}s)")
    v.count(len(traces))
    for t in traces:
        v.nontrivial(json.dumps(t["job"][1:]))
    v.sample({"id": traces[0]["id"], "transport": traces[0]["transport"], "events": traces[0]["ev"]})
    fsample = next((t for t in traces if t["id"].startswith("f-")), None)
    if fsample:
        v.sample({"id": fsample["id"], "job": fsample["job"], "events": [{k: x for k, x in e.items() if x not in (0, "none", False)} for e in fsample["ev"]]})

    import collections
    stats = collections.Counter()
    for t in traces:
        faults = sorted({x["fault"] for x in t["ev"] if x["ev"] == "d2h" and x["fault"] != "none"}) or ["nofault"]
        res = t["ev"][-1]
        out = "success" if (res["kind"] == "ret" and res["val"] in ("ok", "data", "values") and res["status"] == 0) else \
              ("exception:" + res["exc"] if res["kind"] == "exc" else "failure-status")
        stats[f"{t['transport']}/{'+'.join(faults)}/{out}"] += 1
    v.extra["mboot_outcomes"] = dict(sorted(stats.items()))

    rej, res = tlc.tv("C10", "MbootTrace", [strip(t) for t in traces], heap="8g", timeout=1200)

    # ---- canary on a trace the spec ACCEPTED (a trace of the real code that the spec rejects is a violation of this run, never a machinery failure)
    good = next((t for t in traces if t["id"] not in rej and t["id"].startswith("nf-") and any(e["op"] == "read_memory" for e in t["ev"]) and t["ev"][-1]["dataLen"] > 40), None)
    if good is not None:
        bad = json.loads(json.dumps(good))
        bad["id"] = "canary-bad"
        bad["ev"][-1]["dataLen"] -= 32  # a short read reported with status 0
        bad["ev"][-1]["dataExact"] = False
        batch, expect = [strip(good), strip(bad)], {"canary-bad"}
        # Drained: an ACCEPTED serial history that starts with a zero-length read; the same history with the final response of that read left in the link
        # (18 bytes unread) and, separately, with the host's acknowledgement of that response missing must both be rejected
        good2 = next((t for t in traces if t["id"] not in rej and t["id"].startswith("z-") and t["transport"] == "serial" and t["job"][5] is None
                      and sum(1 for e in t["ev"] if e["ev"] == "call") >= 2 and t["ev"][0]["shape"] == "in" and t["ev"][0]["len"] == 0), None)
        if good2 is not None:
            first_res = next(i for i, e in enumerate(good2["ev"]) if e["ev"] == "result")
            left = json.loads(json.dumps(good2))
            left["id"] = "canary-left"
            left["ev"][first_res]["left"] = 18
            unacked = json.loads(json.dumps(good2))
            unacked["id"] = "canary-unacked"
            last_ack = max(i for i, e in enumerate(unacked["ev"][:first_res]) if e["ev"] == "h2d" and e["kind"] == "ack")
            del unacked["ev"][last_ack]
            batch += [strip(good2), strip(left), strip(unacked)]
            expect |= {"canary-left", "canary-unacked"}
        # MirrorPerIndex: an ACCEPTED memory-map report of a device with two or more flash regions; the same trace with the sector size of region 1
        # reported as that of region 0 (the device never sent it for index 1; the Python-side comparison flag left untouched) must be rejected
        good3 = next((t for t in traces if t["id"] not in rej and sum(1 for e in t["ev"] if e["ev"] == "call") == 1 and t["ev"][0]["op"] == "get_memory_list"
                      and t["ev"][0]["nreg"][0] >= 2), None)
        if good3 is not None:
            swapped = json.loads(json.dumps(good3))
            swapped["id"] = "canary-region"
            regs = swapped["ev"][-1]["regions"]
            r0 = next(x for x in regs if x["prop"] == 5 and x["idx"] == [0, 0])
            next(x for x in regs if x["prop"] == 5 and x["idx"] == [0, 1])["val"] = r0["val"]
            batch += [strip(good3), strip(swapped)]
            expect |= {"canary-region"}
        crej, _ = tlc.tv("C10", "MbootTrace", batch)
        if set(crej) != expect:
            raise Machinery(f"canary failed: rejected {sorted(crej)}, expected {sorted(expect)}")
        v.extra["canary"] = "fault-free read accepted; the same trace with a short read and status 0 rejected" + (
            "; history after a zero-length read accepted, rejected with the final response left in the link / not acknowledged" if good2 is not None else "") + (
            "; memory-map report accepted, rejected with region 1's sector size reported as region 0's" if good3 is not None else "")
    else:
        v.extra["canary"] = "skipped: no fault-free read of the real code was accepted by the spec (reported as violations)"
    v.traces(len(traces))
    by = {t["id"]: t for t in traces}
    for tid, (matched, length, evname) in rej.items():
        t = by[tid]
        e = t["ev"][min(matched, len(t["ev"]) - 1)]
        if t["job"][-1] == "cli":
            v.violation(key_of(t, matched).replace("C10/", "C10/cli/", 1), f"blhost command lines {t['lines']} over {t['transport']} (mps {t['job'][2]}): event #{matched + 1} "
                        f"{json.dumps({k: x for k, x in e.items() if x not in (0, 'none', False)})[:300]} rejected", {"job": t["job"], "lines": t["lines"], "events": t["ev"][max(0, matched - 10):matched + 1]})
            continue
        v.violation(key_of(t, matched), f"history {t['job'][3]} over {t['transport']} (mps {t['job'][2]}, fault {t['job'][4]}, device error {t['job'][5]}, "
                    f"packet size cached {t['job'][6]}): event #{matched + 1} {json.dumps({k: x for k, x in e.items() if x not in (0, 'none', False)})[:300]} rejected",
                    {"job": t["job"], "events": t["ev"][max(0, matched - 10):matched + 1]})

    sdp_part(v, tier, r)
    sdps_part(v, tier, r)
    v.cov["operations"] = sorted(OPS)
    v.cov["rule"] = ("mboot: command layer = every driven operation with arguments from boundary value classes, the packets that reached the device compared with "
                     "MbootCmds.tla (tag, flags, parameter words, order); fault-free histories = every operation family x length class {0,1,mps-1,mps,mps+1,3mps+5} x packet sizes x both transports x packet size "
                     "cached or not + random multi-call histories + every history class of MbootHistGen.tla (<= 3 calls in quick, <= 4 in thorough, containing a device-to-host data phase of "
                     "zero bytes: read_memory / flash_read_resource / fuse_read of 0 bytes, kp_read_key_store of an empty store, generate_key_blob with blob size 0; histories of <= 2 calls "
                     "completely, also with an error status for the last call), after every call: nothing left in the link, every serial frame acknowledged; faulty = every fault class TLC reaches in Mboot.tla (shape, packets, kind, frame position) x "
                     "concrete operations x byte/bit positions; SDP: operations x response scripts incl. short reads; distinct by job description")
    v.assumptions += ["USB-HID has no integrity check: payload corruption on HID is not a listed fault (only report id / length / missing / truncated report, error status)",
                      "faults are finite; the device stub honours the DeviceBase contract (>= 1 byte or a time-out exception)",
                      "a call is unbounded if it needs more than 3000 device reads",
                      "trust-provisioning, EdgeLock, WPC and DSC-HSM commands are not driven; read_memory is driven in its single-command form "
                      "(the per-packet USB work-around needs a real UsbDevice)",
                      "Reset: a device that falls silent after the command (response lost or cut, device gone before its ACK) counts as restarted - SPSDK's documented "
                      "tolerance; an explicit NAK does not",
                      "a fault inside the read-only packet-size query in front of a data phase need not end the call (the host may go on with the default size)",
                      "memory ids 1..255 (mapped external memories) travel as 0 in the region commands, as blhost documents",
                      "Drained (nothing of a call's exchange left unread, every serial frame acknowledged) is asserted for calls whose frames the link left alone "
                      "(device error statuses and not-ready bytes included); what a call may leave behind after a link fault is not settled and not asserted",
                      "a device with an empty key store answers kp_read_key_store with length 0 and success (response, no data packet, final response) - the "
                      "exchange the protocol defines for every announced length"]
    return v.finish()


# operations whose device-to-host data phase has ZERO bytes: the caller asks for 0 bytes, or the device has nothing to hand out (empty key store)
ZERO_IN = [("read_memory", 0), ("flash_read_resource", 0), ("fuse_read", 0), ("kp_read_key_store", 0)]


def zero_histories(hclasses, tier, mps_menu, ops_by_shape):
    """Expand the history classes of MbootHistGen.tla ([shape, n] per call) to jobs for run_history.
    Short histories (<= 2 calls) are expanded completely: every zero-length operation x both transports x every packet size, fault-free and - where the
    last call sends a command - with the device answering that command with an error status (the call must report exactly that status).
    Longer ones: one draw per class and transport (quick: every second class - which half depends on the seed -, transports alternate; thorough:
    transports alternate over the histories of four calls).
    In the quick tier the packet sizes alternate over the histories of two calls instead of being multiplied in."""
    rz = rng(PROP, "zero-histories")
    in_ops = ops_by_shape["in"] + ["kp_read_key_store"]

    def concrete(c, mps, zero=None):
        shape, n = c
        if shape in ("cmd", "value"):
            return (rz.choice(ops_by_shape[shape]), 0)
        if shape == "in":
            if n == 0:
                return zero or rz.choice(ZERO_IN)
            op = rz.choice(in_ops)
            return (op, len(KEYSTORE)) if op == "kp_read_key_store" else (op, rz.choice([n * mps, (n - 1) * mps + 1, n * mps - rz.randrange(1, mps)]))
        if shape == "out":
            return (rz.choice(ops_by_shape["out"]), 0 if n == 0 else rz.choice([n * mps, (n - 1) * mps + 1, n * mps - rz.randrange(1, mps)]))
        if shape == "outin":
            return ("generate_key_blob", rz.choice([16, 32, mps + 1]), 0 if n == 0 else rz.choice([72, 1, 64, 200]))
        if shape == "raw":
            return ("load_image", rz.choice([1, mps, 2 * mps + 3]))
        raise Machinery(f"unknown call class {c}")

    from lib.common import seed

    jobs = []
    for k, h in enumerate(hclasses):
        if len(h) <= 2:
            zpos = [i for i, c in enumerate(h) if c == ("in", 0)]
            for z_, zero in enumerate(ZERO_IN if zpos else [None]):
                for t_, transport in enumerate(("serial", "hid")):
                    for mps in (mps_menu if tier != "quick" or len(h) == 1 else [mps_menu[(k + z_ + t_) % len(mps_menu)]]):
                        calls = [concrete(c, mps, zero if i == zpos[0] else None) if zpos else concrete(c, mps) for i, c in enumerate(h)]
                        for preset in ((False, True) if len(h) == 1 else (rz.random() < 0.5,)):
                            jobs.append((f"z-{len(jobs)}", transport, mps, calls, None, None, preset))
                        if len(h) == 2 and h[-1][0] != "raw":
                            calls = [concrete(c, mps, zero if i == zpos[0] else None) if zpos else concrete(c, mps) for i, c in enumerate(h)]
                            where = ("final",) if h[-1][0] in ("in", "out") and h[-1][1] > 0 and rz.random() < 0.5 else ()
                            jobs.append((f"z-{len(jobs)}", transport, mps, calls, None, (1, rz.choice([10101, 10200, 1, 105])) + where, True))
        elif tier != "quick" or (k + seed()) % 2 == 0:
            for transport in (("serial", "hid")[k % 2:k % 2 + 1] if tier == "quick" or len(h) >= 4 else ("serial", "hid")):
                mps = mps_menu[(k // 2) % len(mps_menu)]
                jobs.append((f"z-{len(jobs)}", transport, mps, [concrete(c, mps) for c in h], None, None, rz.random() < 0.5))
    return jobs


def hid_index(shape, n, at):
    """Map a frame index of the serial stream (with ACK frames) to the report index of the HID stream (no ACKs). None if the frame is an ACK."""
    if shape == "cmd":
        seq = ["ack", "resp"]
    elif shape == "in":
        seq = ["ack", "resp"] + ["data"] * n + ["resp"]
    else:
        seq = ["ack", "resp"] + ["ack"] * n + ["resp"]
    if at >= len(seq) or seq[at] == "ack":
        return None
    return sum(1 for x in seq[:at] if x != "ack")


def strip(t):
    return {"id": t["id"], "transport": t["transport"], "ev": t["ev"]}


# ------------------------------------------------------------------ SDP
def sdp_part(v, tier, r):
    from c10_sdp import sdp_jobs, run_sdp

    jobs = sdp_jobs(tier, r)
    if not jobs:
        return
    traces = pmap(run_sdp, jobs, chunksize=16)
    v.count(len(traces))
    for t in traces:
        v.nontrivial(json.dumps(t["job"]))
    rej, _ = tlc.tv("C10", "SdpTrace", [{"id": t["id"], "ev": t["ev"]} for t in traces], heap="4g")
    good = next((t for t in traces if t["id"] not in rej and t["job"][2] == "read" and t["job"][5] == "none" and t["ev"][-1]["dataLen"] > 4 and not t["job"][4]), None)
    if good is not None:
        bad = json.loads(json.dumps(good))
        bad["id"] = "sdp-canary-bad"
        bad["ev"][-1]["dataLen"] -= 3
        bad["ev"][-1]["dataExact"] = False
        crej, _ = tlc.tv("C10", "SdpTrace", [{"id": x["id"], "ev": x["ev"]} for x in (good, bad)])
        if set(crej) != {"sdp-canary-bad"}:
            raise Machinery(f"SDP canary failed: rejected {sorted(crej)}")
    v.traces(len(traces))
    by = {t["id"]: t for t in traces}
    for tid, (matched, length, evname) in rej.items():
        t = by[tid]
        e = t["ev"][min(matched, len(t["ev"]) - 1)]
        res = t["ev"][-1]
        if res["kind"] == "exc" and not res["documented"]:
            out = f"undocumented-exception:{res['exc']}"
        elif res["kind"] == "unbounded":
            out = "unbounded"
        elif res["ok"]:
            out = "false-success"
        elif t["job"][5] == "none":
            out = "fails-without-fault"
        else:
            out = "contract"
        v.violation(f"C10/sdp-{t['job'][1]}/{t['job'][2]}/{t['job'][5]}/{out}", f"SDP {t['job']}: event #{matched + 1} {json.dumps(e)[:300]} rejected", {"job": t["job"], "events": t["ev"]})
    say(f"[C10] {len(traces)} SDP executions validated ({v.timer.s()}s)")


# ------------------------------------------------------------------ SDPS
def sdps_part(v, tier, r):
    import c10_sdps as S
    from lib.common import REPO

    S.run_sdps.params = params = S.rom_params(REPO)
    if len(params) < 3 or len({p for p in params.values()}) < 2:
        raise Machinery(f"SDPS: ROM parameters of only {len(params)} families found in the device files")
    jobs = S.sdps_jobs(tier, r, params)
    traces = pmap(S.run_sdps, jobs, chunksize=8)
    v.count(len(traces))
    for t in traces:
        v.nontrivial(json.dumps(t["job"]))
    # canary: fixed traces written by hand from the protocol description (no SPSDK involved)
    h2d = (lambda rid, size, **k: S.norm(dict({"ev": "h2d", "rid": rid, "size": size}, **k)))
    cbw = {"sig": [17236, 19522], "tag": [0, 1], "xfer": [0, 1500], "flags": 0, "rsvZero": True, "cmd": 2, "cdbLen": [0, 1500], "padZero": True}
    call = S.norm({"ev": "call", "op": "write_file", "len": 1500, "noCmd": False, "pack": 1024})
    ok = S.norm({"ev": "result", "kind": "ret", "ok": True})
    good = {"id": "c-good", "ev": [call, h2d(1, 1024, cbw=cbw), h2d(2, 1024), h2d(2, 1024), ok]}
    bad = [{"id": "c-short", "ev": [call, h2d(1, 1024, cbw=cbw), h2d(2, 1024), ok]},                                     # success with a report missing
           {"id": "c-nocmd", "ev": [call, h2d(2, 1024), h2d(2, 1024), ok]},                                               # command left out
           {"id": "c-len", "ev": [call, h2d(1, 1024, cbw=dict(cbw, cdbLen=[56325, 0])), h2d(2, 1024), h2d(2, 1024), ok]},  # length least significant byte first
           {"id": "c-lost", "ev": [call, h2d(1, 1024, cbw=cbw), h2d(2, 1024), h2d(2, 1024, fault="lost"), ok]},           # success although a report was lost
           {"id": "c-big", "ev": [call, h2d(1, 1024, cbw=cbw), h2d(2, 1500), ok]},                                        # report larger than the ROM's report size
           {"id": "c-order", "ev": [call, h2d(1, 1024, cbw=cbw), h2d(2, 1024), h2d(2, 1024, inOrder=False), ok]}]
    crej, _ = tlc.tv("C10", "SdpsTrace", [good] + bad)
    if set(crej) != {b["id"] for b in bad}:
        raise Machinery(f"SDPS canary failed: rejected {sorted(crej)}")
    rej, _ = tlc.tv("C10", "SdpsTrace", [{"id": t["id"], "ev": t["ev"]} for t in traces], heap="4g")
    v.traces(len(traces))
    by = {t["id"]: t for t in traces}
    for tid, (matched, length, evname) in rej.items():
        t = by[tid]
        e = t["ev"][min(matched, len(t["ev"]) - 1)]
        calls = [x for x in t["ev"][:matched + 1] if x["ev"] == "call"]
        c = calls[-1] if calls else t["ev"][0]
        res = next((x for x in t["ev"][matched:] if x["ev"] == "result"), t["ev"][-1])
        if res["kind"] == "exc" and not res["documented"]:
            out = f"undocumented-exception:{res['exc']}"
        elif res["kind"] == "unbounded":
            out = "unbounded"
        elif res["ok"] and t["job"][2] >= 0:
            out = "false-success"
        elif not res["ok"] and t["job"][2] < 0:
            out = "fails-without-fault"
        else:
            out = "contract"
        cls = f"{'nocmd' if c['noCmd'] else 'cmd'}-{c['pack']}"
        v.violation(f"C10/sdps/{cls}/{'second-call' if len(calls) > 1 else 'first-call'}/{'lost-report' if t['job'][2] >= 0 else 'no-fault'}/{out}",
                    f"SDPS {t['job']}: event #{matched + 1} {json.dumps(e)[:300]} rejected", {"job": t["job"], "events": t["ev"]})
    v.extra["sdps"] = {"families": sorted(params), "parameter_classes": sorted({str(p) for p in params.values()}), "executions": len(traces)}
    say(f"[C10] {len(traces)} SDPS histories validated ({v.timer.s()}s)")


def replay(path):
    import_spsdk()
    w = json.load(open(path))["witness"]
    job = w["job"]
    if isinstance(job[0], str) and job[0].startswith("sdps"):
        import c10_sdps as S
        from lib.common import REPO

        S.run_sdps.params = S.rom_params(REPO)
        t = S.run_sdps((job[0], [tuple(c) for c in job[1]], job[2]))
        rej, _ = tlc.tv("C10", "SdpsTrace", [{"id": t["id"], "ev": t["ev"]}])
        for e in t["ev"]:
            say(json.dumps({k: x for k, x in e.items() if x not in (0, "none", False)}))
        if rej:
            say(f"VIOLATION property=C10 replay={path}")
            return 1
        say("replay: trace accepted")
        return 0
    if isinstance(job[0], str) and job[0].startswith("sdp"):
        from c10_sdp import run_sdp

        t = run_sdp(tuple(job))
        rej, _ = tlc.tv("C10", "SdpTrace", [{"id": t["id"], "ev": t["ev"]}])
    else:
        if job[-1] == "cli":
            t = run_cli_history((job[0], job[1], job[2], [tuple(c) for c in job[3]]))
            rej, _ = tlc.tv("C10", "MbootTrace", [strip(t)])
            say("\n".join(t["lines"]))
            for e in t["ev"]:
                say(json.dumps({k: x for k, x in e.items() if x not in (0, "none", False)}))
            if rej:
                say(f"VIOLATION property=C10 replay={path}")
                return 1
            say("replay: trace accepted")
            return 0
        job[3] = [tuple(c) for c in job[3]]
        job[4] = None if job[4] is None else (job[4][0], job[4][1], tuple(job[4][2]))
        job[5] = None if job[5] is None else tuple(job[5])
        t = run_history(tuple(job))
        rej, _ = tlc.tv("C10", "MbootTrace", [strip(t)])
    for e in t["ev"]:
        say(json.dumps({k: x for k, x in e.items() if x not in (0, "none", False)}))
    if rej:
        say(f"VIOLATION property=C10 replay={path}")
        return 1
    say("replay: trace accepted")
    return 0
