"""Key pool of the C08 check (/verif/keys/c08), generated ONCE with `cryptography` / pure Python (never spsdk.crypto):

    /venv/bin/python harness/c08_pool.py          (re)builds the pool; the files are committed

 * ec_pool.json : per curve and profile name the private scalar d (hex) of a key whose public point has the requested
   leading bytes.  Found by a deterministic search  d = d0, d0+1, ...  (one point addition per step, pure Python), d0 derived
   from the profile label; profiles "d-one" (d = 1, Q = G) and "d-small" (d < 2^16: a private scalar with leading zero bytes).
 * rsa<bits>_<a|b>.pem : RSA keys (public exponent 65537) - cannot be derived deterministically with `cryptography`.
The check re-derives every public point with `cryptography` at load time and the R-spec re-checks every profile against
the logged leading bytes, so a stale or wrong pool is a machinery failure, not a verdict.
"""
import hashlib
import json
import os
import sys

sys.path.insert(0, os.path.dirname(os.path.abspath(__file__)))
from lib import refpk  # noqa: E402

ROOT = os.environ.get("VERIF_ROOT", "/verif")
POOL = os.path.join(ROOT, "keys", "c08")
EC_PROFILES = ["x-hi", "x-lo", "x-04", "x-30", "x-z1", "x-z2", "y-z1", "y-z2", "xy-z1", "d-small", "d-one"]
RSA_BITS = (2048, 3072, 4096)


def byte_class(b0, b1):
    if b0 == 0:
        return "z2" if b1 == 0 else "z1"
    if b0 == 4:
        return "04"
    if b0 == 0x30:
        return "30"
    return "hi" if b0 >= 128 else "lo"


def matches(prof, c, x, y):
    xb, yb = x.to_bytes(c, "big"), y.to_bytes(c, "big")
    cx, cy = byte_class(xb[0], xb[1]), byte_class(yb[0], yb[1])
    return {
        "x-hi": cx == "hi", "x-lo": cx == "lo", "x-04": cx == "04", "x-30": cx == "30", "x-z1": cx == "z1", "x-z2": cx == "z2",
        "y-z1": cy == "z1", "y-z2": cy == "z2", "xy-z1": cx in ("z1", "z2") and cy in ("z1", "z2"),
        "d-small": True, "d-one": True,
    }[prof]


def profiles_of(curve):
    if curve == "secp521r1":  # the first byte of a P-521 coordinate is 0x00 or 0x01
        return [p for p in EC_PROFILES if p not in ("x-hi", "x-04", "x-30")]
    return list(EC_PROFILES)


def search(curve, prof):
    cv = refpk.CURVES[curve]
    c, p, n = cv["c"], cv["p"], cv["n"]
    if prof == "d-one":
        return 1
    if prof == "d-small":
        return 0x1234 + cv["c"]
    d = int.from_bytes(hashlib.sha512(f"verif/c08/{curve}/{prof}".encode()).digest() * 2, "big") % (n - (1 << 32)) + 1
    G = (cv["gx"], cv["gy"], 1)
    pt = refpk.mul(curve, d)
    R = (pt[0], pt[1], 1)
    while True:
        if matches(prof, c, pt[0], pt[1]):
            return d
        R = refpk._add(R, G, p)
        pt = refpk._affine(R, p)
        R = (pt[0], pt[1], 1)
        d += 1


def build():
    from cryptography.hazmat.primitives import serialization as S
    from cryptography.hazmat.primitives.asymmetric import rsa

    os.makedirs(POOL, exist_ok=True)
    refpk.selftest()
    path = os.path.join(POOL, "ec_pool.json")
    pool = json.load(open(path)) if os.path.exists(path) else {}
    for curve in refpk.CURVES:
        pool.setdefault(curve, {})
        for prof in profiles_of(curve):
            if prof not in pool[curve]:
                pool[curve][prof] = hex(search(curve, prof))
                print(curve, prof, pool[curve][prof][:20], flush=True)
                with open(path, "w") as f:
                    json.dump(pool, f, indent=1, sort_keys=True)
    for bits in RSA_BITS:
        for tag in "ab":
            fn = os.path.join(POOL, f"rsa{bits}_{tag}.pem")
            if not os.path.exists(fn):
                k = rsa.generate_private_key(65537, bits)
                with open(fn, "wb") as f:
                    f.write(k.private_bytes(S.Encoding.PEM, S.PrivateFormat.PKCS8, S.NoEncryption()))
                print("generated", fn, flush=True)


if __name__ == "__main__":
    build()
