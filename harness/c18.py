"""C18 - database cache: no crash point or concurrent start can break or skew SPSDK.

spec/C18/DbCache.tla     I-spec of the cache protocol (one action per file-system primitive) composed with the crash / lock environment;
                         TLC model-checks the design (NoFatal, NeverTrustDamaged, MutualExclusion, Progress, SoloRepairs) and confirms that it
                         predicts the two defects that were on the tree (MC_asbuilt_*.cfg must FAIL)
spec/C18/DbCacheGen.tla  TLC-generated schedules (interleavings + kills) for real processes
spec/C18/FsEnvTrace.tla  R-spec: file system + advisory lock + process death + outcome monitor; decides every recorded trace

Real processes are forked children of this (pre-imported) harness process. Inside a child the primitives the cache code reaches through
module globals of spsdk.utils.database (open, pickle, os, FileLock) are wrapped FROM OUTSIDE: every primitive is a yield point where the child
waits for the scheduler and where it may be SIGKILLed. No source hook is needed.
"""
import hashlib
import json
import os
import pickle
import signal
import subprocess
import sys
import time

from lib import tlc
from lib.common import REPO, Machinery, import_spsdk, rng, say, scratch
from lib.par import pmap
from lib.verdict import Verdict

PROP = "C18"
FILES = ("quick", "data")


def fname(p):
    b = os.path.basename(str(p))
    return "quick" if b.startswith("db_quick") else "data"


def battery():
    """The fixed query battery; its digest must not depend on the state of the cache."""
    from spsdk.utils.database import DatabaseManager, get_db, get_families, get_schema_file

    dm = DatabaseManager()
    res = [
        sorted(dm.quick_info.devices.devices.keys()),
        sorted(get_families("mbi")),
        sorted(get_families("pfr")),
        get_db("lpc55s3x").get_dict("mbi", "mbi_classes"),
        get_db("mimxrt1189").get_list("bootable_image", "mem_types") if False else get_db("mimxrt1189").device.info.purpose,
        sorted(get_schema_file("mbi").keys()),
        get_db("mcxn947").get_str("pfr", ["cmpa", "reg_spec"]),
        # further configuration files that live in the data cache, asked for in a fixed order (a cache entry that is trusted although its
        # file has changed shows up in the answer of the LATER ones as well)
        sorted(get_schema_file("sb31").keys()),
        sorted(get_schema_file("pfr").keys()),
        sorted(get_schema_file("cert_block").keys()),
        sorted(get_families("devhsm")),
    ]
    return hashlib.sha256(json.dumps(res, sort_keys=True, default=str).encode()).hexdigest()[:16]


# ------------------------------------------------------------------ child side
def child_main(cache_dir, rd, wr, name, disabled=False):
    import builtins
    import logging

    import filelock

    import spsdk.utils.database as d

    logging.disable(logging.CRITICAL)
    d.SPSDK_CACHE_FOLDER = cache_dir
    if disabled:
        d.SPSDK_CACHE_DISABLED = True

    def send(ev, **kw):
        os.write(wr, (json.dumps(dict(p=name, ev=ev, **kw)) + "\n").encode())

    def yield_(ev, **kw):
        send(ev, **kw)
        ans = os.read(rd, 1)
        if ans not in (b"g", b"t"):
            os._exit(9)
        return ans

    real_open = builtins.open

    def open_(path, mode="r", *a, **k):
        if str(path).endswith(".cache"):
            try:
                f = real_open(path, mode, *a, **k)
            except FileNotFoundError:
                yield_("open", file=fname(path), mode=mode, ok=False)
                raise
            yield_("open", file=fname(path), mode=mode, ok=True)
            return f
        return real_open(path, mode, *a, **k)

    class P:
        PickleError = pickle.PickleError
        UnpicklingError = pickle.UnpicklingError
        PicklingError = pickle.PicklingError
        DEFAULT_PROTOCOL = pickle.DEFAULT_PROTOCOL
        HIGHEST_PROTOCOL = pickle.HIGHEST_PROTOCOL
        dumps = staticmethod(pickle.dumps)
        loads = staticmethod(pickle.loads)

        @staticmethod
        def load(f, **k):
            try:
                r = pickle.load(f, **k)
            except BaseException as e:
                yield_("load", file=fname(f.name), res=type(e).__name__)
                raise
            yield_("load", file=fname(f.name), res="ok")
            return r

        @staticmethod
        def dump(o, f, *a):
            r = pickle.dump(o, f, *a)
            f.flush()
            yield_("dump", file=fname(f.name))
            return r

    def is_folder(p):
        return os.path.abspath(str(p)) == os.path.abspath(cache_dir)

    class OsPath:
        def __getattr__(self, n):
            return getattr(os.path, n)

        def exists(self, p):
            r = os.path.exists(p)
            if str(p).endswith(".cache"):
                yield_("exists", file=fname(p), r=r)
            elif is_folder(p):
                yield_("direxists", r=r)
            return r

        def isdir(self, p):
            r = os.path.isdir(p)
            if is_folder(p):
                yield_("direxists", r=r)
            return r

    class Os:
        path = OsPath()

        def __getattr__(self, n):
            return getattr(os, n)

        def makedirs(self, p, mode=0o777, exist_ok=False):
            if not is_folder(p):
                return os.makedirs(p, mode, exist_ok)
            try:
                os.makedirs(p, mode, exist_ok)
            except FileExistsError:
                yield_("mkdir", ok=False, r=bool(exist_ok))
                raise
            yield_("mkdir", ok=True, r=bool(exist_ok))

        def mkdir(self, p, *a, **k):
            if not is_folder(p):
                return os.mkdir(p, *a, **k)
            try:
                os.mkdir(p, *a, **k)
            except FileExistsError:
                yield_("mkdir", ok=False, r=False)
                raise
            yield_("mkdir", ok=True, r=False)

        def remove(self, p):
            try:
                os.remove(p)
            except FileNotFoundError:
                if str(p).endswith(".cache"):
                    yield_("remove", file=fname(p), ok=False)
                raise
            if str(p).endswith(".cache"):
                yield_("remove", file=fname(p), ok=True)

    class FL(filelock.FileLock):
        def acquire(self, *a, **k):
            first = not self.is_locked
            if first:
                # the scheduler lets us continue when the lock is free - or tells us that the wait timed out (the holder is stopped / slow)
                if yield_("want", file=fname(self.lock_file[:-5])) == b"t":
                    send("timeout", file=fname(self.lock_file[:-5]))
                    raise filelock.Timeout(self.lock_file)
            r = super().acquire(*a, **k)
            if first:
                yield_("acquire", file=fname(self.lock_file[:-5]))
            return r

        def release(self, *a, **k):
            was = self.is_locked  # __del__ releases once more: only a real unlock is an event
            r = super().release(*a, **k)
            if was and not self.is_locked:
                yield_("release", file=fname(self.lock_file[:-5]))
            return r

    if rd is not None:
        d.open = open_
        d.pickle = P
        d.os = Os()
        d.FileLock = FL
        yield_("start")
    try:
        dg = battery()
        send("done", digest=dg)
        os._exit(0)
    except BaseException as e:  # noqa: BLE001 - the outcome is the observation
        send("fatal", exc=type(e).__name__, msg=str(e)[:200])
        os._exit(3)


class Proc:
    def __init__(self, cache_dir, name, scheduled=True, disabled=False):
        c2p_r, c2p_w = os.pipe()
        p2c_r, p2c_w = os.pipe()
        self.pid = os.fork()
        if self.pid == 0:
            os.close(c2p_r)
            os.close(p2c_w)
            try:
                child_main(cache_dir, p2c_r if scheduled else None, c2p_w, name, disabled)
            finally:
                os._exit(7)
        os.close(c2p_w)
        os.close(p2c_r)
        self.r = os.fdopen(c2p_r, "r")
        self.w = p2c_w
        self.name = name
        self.state = "run"  # run | done | fatal | killed
        self.blocked_on = None
        self.pending = None

    def next_event(self):
        line = self.r.readline()
        if not line:
            return None
        return json.loads(line)

    def go(self):
        os.write(self.w, b"g")
        return self.next_event()

    def timeout(self):
        """Answer a pending `want` with a time-out. The child reports it and runs on to its next yield point: two events."""
        os.write(self.w, b"t")
        return self.next_event(), self.next_event()

    def kill(self):
        try:
            os.kill(self.pid, signal.SIGKILL)
        except ProcessLookupError:
            pass
        os.waitpid(self.pid, 0)
        self.state = "killed"
        self.close()

    def reap(self):
        try:
            os.waitpid(self.pid, 0)
        except ChildProcessError:
            pass
        self.close()

    def close(self):
        try:
            self.r.close()
            os.close(self.w)
        except OSError:
            pass


class Scenario:
    """One scheduled execution of real processes on a prepared cache directory."""

    def __init__(self, cache_dir):
        self.dir = cache_dir
        self.trace = []
        self.lock = {f: None for f in FILES}
        self.procs = {}
        self.timeouts = set()       # processes whose wait for a held lock ends in a time-out instead of blocking

    def spawn(self, name):
        p = Proc(self.dir, name)
        self.procs[name] = p
        e = p.next_event()  # the "start" yield
        self.trace.append(e)
        return p

    def step(self, p):
        """Let p perform its next primitive. Returns False if p cannot move (blocked on a held lock) or is finished."""
        if p.state != "run":
            return False
        if p.blocked_on is not None:
            if self.lock[p.blocked_on] is not None:
                return False
            p.blocked_on = None
        if p.pending is not None:
            e, p.pending = p.pending, None
        else:
            e = p.go()
        if e is None:
            p.state = "fatal"
            self.trace.append({"p": p.name, "ev": "fatal", "exc": "process died without a report"})
            p.reap()
            return True
        if e["ev"] == "want":
            if self.lock[e["file"]] is not None:
                if p.name in self.timeouts:
                    for x in p.timeout():
                        if x is None:
                            p.state = "fatal"
                            self.trace.append({"p": p.name, "ev": "fatal", "exc": "process died without a report"})
                            p.reap()
                            return True
                        if x["ev"] == "want":          # straight into the next lock request: handled on the next step
                            p.pending = x
                            return True
                        self.record(p, x)
                    return True
                p.blocked_on = e["file"]
                return True  # consumed a scheduling slot, now waiting
            e = p.go()
        self.record(p, e)
        return True

    def record(self, p, e):
        self.trace.append(e)
        if e["ev"] == "acquire":
            self.lock[e["file"]] = p.name
        elif e["ev"] == "release":
            if self.lock[e["file"]] == p.name:
                self.lock[e["file"]] = None
        elif e["ev"] in ("done", "fatal"):
            p.state = e["ev"]
            p.reap()
            for f in FILES:
                if self.lock[f] == p.name:
                    self.lock[f] = None

    def kill(self, p):
        if p.state != "run":
            return
        p.kill()
        self.trace.append({"p": p.name, "ev": "killed"})
        for f in FILES:
            if self.lock[f] == p.name:
                self.lock[f] = None

    def run_all(self, order, limit=200000):
        n = 0
        while any(self.procs[x].state == "run" for x in order):
            moved = False
            for x in order:
                p = self.procs[x]
                while p.state == "run" and self.step(p):
                    moved = True
                    n += 1
                    if p.blocked_on is not None:
                        break
                    if n > limit:
                        raise Machinery("scenario exceeded the step limit")
            if not moved:
                raise Machinery(f"scheduler deadlock: {[(x, self.procs[x].state, self.procs[x].blocked_on) for x in order]} locks {self.lock}")


# ------------------------------------------------------------------ cache file states
def classify(cache_dir):
    """Independent probe (a forked child): state of both cache files."""
    r, w = os.pipe()
    pid = os.fork()
    if pid == 0:
        os.close(r)
        out = {}
        try:
            import logging

            import spsdk.utils.database as d

            logging.disable(logging.CRITICAL)
            d.SPSDK_CACHE_FOLDER = cache_dir
            paths = find_files(cache_dir)
            for f in FILES:
                p = paths.get(f)
                if p is None:
                    out[f] = "missing"
                    continue
                raw = open(p, "rb").read()
                if not raw:
                    out[f] = "empty"
                    continue
                try:
                    obj = pickle.loads(raw)
                except BaseException:  # noqa: BLE001
                    out[f] = "partial"
                    continue
                if f == "quick":
                    if not isinstance(obj, d.QuickDatabase):
                        out[f] = "junk"
                        continue
                    cur = d.DatabaseManager.get_quick_info_hash([d.SPSDK_DATA_FOLDER, d.DatabaseManager.get_restricted_data(), d.SPSDK_ADDONS_DATA_FOLDER])
                    out[f] = "valid" if cur == obj.db_hash else "stale"
                else:
                    if not isinstance(obj, d.Database.DatabaseData):
                        out[f] = "junk"
                        continue
                    cur = obj.hash_db_data(cached_configs=list(obj.cfg_cache.keys()), path=obj.path,
                                           restricted_data_path=obj.restricted_data_path, addons_data_path=obj.addons_data_path)
                    out[f] = "valid" if cur == obj.db_hash else "stale"
        except BaseException as e:  # noqa: BLE001
            out = {"error": f"{type(e).__name__}: {e}"}
        os.write(w, json.dumps(out).encode())
        os._exit(0)
    os.close(w)
    data = b""
    while True:
        chunk = os.read(r, 65536)
        if not chunk:
            break
        data += chunk
    os.close(r)
    os.waitpid(pid, 0)
    out = json.loads(data or b"{}")
    if "error" in out or set(out) != set(FILES):
        raise Machinery(f"probe failed: {out}")
    return out


def find_files(cache_dir):
    res = {}
    if not os.path.isdir(cache_dir):
        return res
    for n in os.listdir(cache_dir):
        if n.endswith(".cache"):
            res[fname(n)] = os.path.join(cache_dir, n)
    return res


class Template:
    """Valid cache files produced once by a clean run of the real code + derived damaged variants."""

    def __init__(self, base):
        self.dir = os.path.join(base, "template")
        os.makedirs(self.dir, exist_ok=True)
        p = Proc(self.dir, "tmpl", scheduled=False)
        e = p.next_event()
        p.reap()
        if not e or e["ev"] != "done":
            raise Machinery(f"template run failed: {e}")
        self.cached_digest = e["digest"]
        tdir = os.path.join(base, "truth")  # SPSDK_CACHE_DISABLED clears the whole cache folder: give it its own
        os.makedirs(tdir, exist_ok=True)
        p = Proc(tdir, "truth", scheduled=False, disabled=True)
        e = p.next_event()
        p.reap()
        if not e or e["ev"] != "done":
            raise Machinery(f"reference run with the cache disabled failed: {e}")
        self.truth = e["digest"]
        paths = find_files(self.dir)
        if set(paths) != set(FILES):
            raise Machinery(f"clean run did not produce both cache files: {paths}")
        self.names = {f: os.path.basename(paths[f]) for f in FILES}
        self.valid = {f: open(paths[f], "rb").read() for f in FILES}
        st = classify(self.dir)
        if st != {"quick": "valid", "data": "valid"}:
            raise Machinery(f"clean run left caches {st}")
        self.stale = self._make_stale()

    def _make_stale(self):
        """Complete pickles of the right type whose fingerprint does not match and whose content is wrong (trusting them changes the answers)."""
        r, w = os.pipe()
        pid = os.fork()
        if pid == 0:
            os.close(r)
            import spsdk.utils.database as d  # noqa: F401

            out = {}
            q = pickle.loads(self.valid["quick"])
            q.db_hash = b"\x55" * len(q.db_hash)
            victims = sorted(q.devices.devices.keys())[:3]
            for v in victims:
                del q.devices.devices[v]
            out["quick"] = pickle.dumps(q, pickle.DEFAULT_PROTOCOL).hex()
            dd = pickle.loads(self.valid["data"])
            dd.db_hash = b"\x55" * len(dd.db_hash)
            if len(dd.cfg_cache) < 4:
                os.write(w, json.dumps({"error": f"only {len(dd.cfg_cache)} configuration files in the data cache"}).encode())
                os._exit(0)
            for k in list(dd.cfg_cache.keys()):
                if isinstance(dd.cfg_cache[k], dict):
                    dd.cfg_cache[k]["bogus_key_of_a_stale_cache"] = {}        # every answer computed from a trusted stale entry differs
            out["data"] = pickle.dumps(dd, pickle.DEFAULT_PROTOCOL).hex()
            os.write(w, json.dumps(out).encode())
            os._exit(0)
        os.close(w)
        data = b""
        while True:
            chunk = os.read(r, 1 << 20)
            if not chunk:
                break
            data += chunk
        os.close(r)
        os.waitpid(pid, 0)
        out = json.loads(data)
        if "error" in out:
            raise Machinery(f"stale template: {out['error']}")
        return {f: bytes.fromhex(out[f]) for f in FILES}

    def prepare(self, cache_dir, init, r):
        """Fill cache_dir according to init = {"quick": kind | ["partial", n], "data": ...}. Returns the abstract kinds."""
        kinds = {"dir": bool(init.get("dir", True))}
        if not kinds["dir"]:
            if any(init[f] != "missing" for f in FILES):
                raise Machinery("a cache folder that does not exist holds no files")
            return dict(kinds, **{f: "missing" for f in FILES})
        os.makedirs(cache_dir, exist_ok=True)
        for f in FILES:
            k = init[f]
            n = None
            if isinstance(k, list):
                k, n = k
            path = os.path.join(cache_dir, self.names[f])
            if k == "missing":
                pass
            elif k == "empty":
                open(path, "wb").close()
            elif k == "partial":
                n = n if n is not None else r.randrange(1, len(self.valid[f]))
                open(path, "wb").write(self.valid[f][:n])
            elif k == "valid":
                open(path, "wb").write(self.valid[f])
            elif k == "stale":
                open(path, "wb").write(self.stale[f])
            elif k == "junk":
                open(path, "wb").write(pickle.dumps({"not": "a cache", "n": list(range(50))}))
            elif k == "garbage":
                open(path, "wb").write(bytes(r.randrange(256) for _ in range(r.randrange(1, 400))))
            else:
                raise Machinery(f"unknown file kind {k}")
            kinds[f] = "partial" if k == "garbage" else k
        return kinds


# ------------------------------------------------------------------ scenarios
def run_scenario(tmpl, base, sid, init, sched, r, epilogue=True):
    """sched: list of {"p": name, "at": label | "KILL"} from TLC (only the process ids and the kill points are replayed)."""
    d = os.path.join(base, f"sc-{sid}")
    kinds = tmpl.prepare(d, init, r)
    sc = Scenario(d)
    names = sorted({s["p"] for s in sched})
    drift = 0
    try:
        for n in names:
            sc.spawn(n)
        for s in sched:
            p = sc.procs[s["p"]]
            if s["at"] == "KILL":
                sc.kill(p)
            elif s["at"] == "TIMEOUTS":
                sc.timeouts.add(p.name)
            else:
                sc.step(p)
        sc.run_all(names)
        if epilogue:
            sc.spawn("pe")
            sc.run_all(["pe"])
        final = classify(d)
        sc.trace.append({"p": "probe", "ev": "final", "state": final})
    finally:
        for p in sc.procs.values():
            if p.state == "run":
                p.kill()
    return {"id": sid, "init": kinds, "truth": tmpl.truth, "ev": [norm(e) for e in sc.trace], "sched": sched, "init_detail": init}


def norm(e):
    """Type-stable event records for TLC."""
    out = {"p": e.get("p", "?"), "ev": e["ev"], "file": e.get("file", "none"), "mode": e.get("mode", "none"),
           "ok": bool(e.get("ok", False)), "r": bool(e.get("r", False)), "res": str(e.get("res", "none")),
           "digest": str(e.get("digest", "none")), "state": e.get("state", {"quick": "none", "data": "none"})}
    if e["ev"] == "fatal":
        out["exc"] = e.get("exc", "?")
        out["msg"] = e.get("msg", "")
    return out


def stress(tmpl, base, sid, init, n, r):
    """n unsynchronised FRESH interpreters started together; only outcome clauses are checked (no order is inferred)."""
    d = os.path.join(base, f"st-{sid}")
    kinds = tmpl.prepare(d, init, r)
    code = ("import sys, json, logging; logging.disable(logging.CRITICAL)\n"
            f"sys.path.insert(0, {os.path.dirname(os.path.abspath(__file__))!r})\n"
            "import c18\n"
            "print(json.dumps({'digest': c18.battery()}))\n")
    env = dict(os.environ, SPSDK_CACHE_FOLDER=d, PYTHONPATH=os.environ.get("PYTHONPATH", REPO))
    ps = [subprocess.Popen([sys.executable, "-c", code], env=env, stdout=subprocess.PIPE, stderr=subprocess.PIPE, text=True) for _ in range(n)]
    evs = [{"p": f"s{i}", "ev": "start"} for i in range(n)]  # all started together: nobody ran alone
    for i, p in enumerate(ps):
        try:
            out, err = p.communicate(timeout=300)
        except subprocess.TimeoutExpired:
            p.kill()
            out, err = "", "timeout"
        name = f"s{i}"
        if p.returncode == 0 and out.strip():
            evs.append({"p": name, "ev": "done", "digest": json.loads(out.strip().splitlines()[-1])["digest"]})
        else:
            last = (err.strip().splitlines() or ["?"])[-1]
            evs.append({"p": name, "ev": "fatal", "exc": last.split(":")[0][:60], "msg": last[:200]})
    return {"id": sid, "init": kinds, "truth": tmpl.truth, "ev": [norm(e) for e in evs], "sched": "stress", "init_detail": init}


# ------------------------------------------------------------------ staleness against REAL edits of the data (spec/C18/StaleTrace.tla)
EDITS = ("main-device", "overlay-addons", "overlay-restricted", "new-device", "cached-config",
         # a file rewritten IN PLACE with content of the same size, its modification time moved by 0.2 s inside the same second of the clock
         "inplace-device", "inplace-config")


def private_data(base, name):
    """A private data folder made of symbolic links to the real one, so that single files can be replaced by edited copies."""
    import spsdk

    real = os.path.join(os.path.dirname(os.path.abspath(spsdk.__file__)), "data")
    d = os.path.join(base, name)
    for top in os.listdir(real):
        src = os.path.join(real, top)
        if top in ("devices", "common", "jsonschemas") and os.path.isdir(src):
            os.makedirs(os.path.join(d, top))
            for f in os.listdir(src):
                os.symlink(os.path.join(src, f), os.path.join(d, top, f))
        else:
            os.makedirs(d, exist_ok=True)
            os.symlink(src, os.path.join(d, top))
    return d, real


def edited_device(real, dev, dst_dir):
    """Copy of a device folder whose database.yaml lacks the devhsm feature (files other than database.yaml are linked)."""
    import yaml

    os.makedirs(dst_dir)
    src = os.path.join(real, "devices", dev)
    for f in os.listdir(src):
        if f != "database.yaml":
            os.symlink(os.path.join(src, f), os.path.join(dst_dir, f))
    cfg = yaml.safe_load(open(os.path.join(src, "database.yaml")))
    cfg["features"].pop("devhsm")
    for rev in (cfg.get("revisions") or {}).values():
        ((rev or {}).get("features") or {}).pop("devhsm", None)
    with open(os.path.join(dst_dir, "database.yaml"), "w") as f:
        yaml.safe_dump(cfg, f, sort_keys=False)


def fresh_battery(env_extra, cache_dir, disabled=False):
    code = ("import sys, json, logging; logging.disable(logging.CRITICAL)\n"
            f"sys.path.insert(0, {os.path.dirname(os.path.abspath(__file__))!r})\n"
            "import c18\n"
            "print(json.dumps({'digest': c18.battery()}))\n")
    env = dict(os.environ, SPSDK_CACHE_FOLDER=cache_dir, PYTHONPATH=os.environ.get("PYTHONPATH", REPO), **env_extra)
    if disabled:
        env["SPSDK_CACHE_DISABLED"] = "1"
    p = subprocess.run([sys.executable, "-c", code], env=env, capture_output=True, text=True, timeout=600)
    if p.returncode == 0 and p.stdout.strip():
        return {"ok": True, "digest": json.loads(p.stdout.strip().splitlines()[-1])["digest"], "msg": ""}
    return {"ok": False, "digest": "none", "msg": ((p.stderr or "").strip().splitlines() or ["?"])[-1][:200]}


def stale_scenario(job):
    """One history: reference run, two runs with the cache (build, re-use), ONE real edit of the data, reference run, two runs with the cache."""
    base, kind = job
    import spsdk
    import yaml

    root = os.path.join(base, f"stale-{kind}")
    data, real = private_data(root, "data")
    addons = os.path.join(root, "addons")
    os.makedirs(os.path.join(addons, "devices"))
    os.makedirs(os.path.join(addons, "common"))
    restricted = os.path.join(root, "restricted")
    os.makedirs(os.path.join(restricted, "data", "devices"))
    os.makedirs(os.path.join(restricted, "data", "common"))
    with open(os.path.join(restricted, "metadata.yaml"), "w") as f:
        f.write(f'version: "{spsdk.version.major}.{spsdk.version.minor}"\n')
    env = {"SPSDK_DATA_FOLDER": data, "SPSDK_ADDONS_DATA_FOLDER": addons, "SPSDK_RESTRICTED_DATA_FOLDER": restricted}
    cache, tcache = os.path.join(root, "cache"), os.path.join(root, "truth-cache")      # the reference mode clears its cache folder: it gets its own
    os.makedirs(cache)
    os.makedirs(tcache)
    dev = "lpc55s36"
    cfg = yaml.safe_load(open(os.path.join(real, "devices", dev, "database.yaml")))
    if "devhsm" not in cfg.get("features", {}):
        raise Machinery(f"{dev} has no devhsm feature to drop")
    evs = []

    def run(mode):
        r_ = fresh_battery(env, tcache if mode == "truth" else cache, disabled=(mode == "truth"))
        evs.append({"ev": "Run", "mode": mode, "ok": r_["ok"], "digest": r_["digest"], "effective": True, "kind": "none", "msg": r_["msg"]})
        return r_["digest"]

    # the in-place edits start from a regular file (a verbatim copy of the shipped one) whose modification time is a chosen instant of the past
    T0 = (int(time.time()) - 40) * 10**9 + 100_000_000
    inplace = None
    if kind == "inplace-device":
        idev = "mimxrt1189"                                     # the battery asks for this device's purpose text: one letter of it is changed
        os.remove(os.path.join(data, "devices", idev))
        os.makedirs(os.path.join(data, "devices", idev))
        for f in os.listdir(os.path.join(real, "devices", idev)):
            if f != "database.yaml":
                os.symlink(os.path.join(real, "devices", idev, f), os.path.join(data, "devices", idev, f))
        src = os.path.join(real, "devices", idev, "database.yaml")
        txt = open(src, "rb").read()
        at = txt.index(b"\n  purpose: ") + len(b"\n  purpose: ")
        word = txt[at:at + 4]
        inplace = (os.path.join(data, "devices", idev, "database.yaml"), src, b"\n  purpose: " + word, b"\n  purpose: " + (b"Q" if word[:1] != b"Q" else b"X") + word[1:])
    elif kind == "inplace-config":
        sch = os.path.join(data, "jsonschemas", "sch_mbi.yaml")
        os.remove(sch)
        first = next(k for k in yaml.safe_load(open(os.path.join(real, "jsonschemas", "sch_mbi.yaml"))) if len(k) >= 3)
        inplace = (sch, os.path.join(real, "jsonschemas", "sch_mbi.yaml"), f"\n{first}:".encode(), f"\n{first[:-1]}{'Z' if first[-1] != 'Z' else 'Y'}:".encode())
    if inplace:
        with open(inplace[0], "wb") as f:
            f.write(open(inplace[1], "rb").read())
        os.utime(inplace[0], ns=(T0, T0))
    t0 = run("truth")
    run("cache")
    run("cache")
    if inplace:
        body = open(inplace[0], "rb").read()
        if body.count(inplace[2]) < 1 or len(inplace[2]) != len(inplace[3]):
            raise Machinery(f"in-place edit {kind}: marker {inplace[2]!r} not found in {inplace[1]}")
        with open(inplace[0], "r+b") as f:                     # same inode, same size
            f.write(body.replace(inplace[2], inplace[3], 1))
        os.utime(inplace[0], ns=(T0 + 200_000_000, T0 + 200_000_000))
        st = os.stat(inplace[0])
        if st.st_size != len(body) or st.st_mtime_ns // 10**9 != T0 // 10**9 or st.st_mtime_ns == T0:
            raise Machinery(f"in-place edit {kind}: the file system did not keep size / sub-second time ({st.st_size}, {st.st_mtime_ns})")
    elif kind == "main-device":
        os.remove(os.path.join(data, "devices", dev))
        edited_device(real, dev, os.path.join(data, "devices", dev))
    elif kind == "overlay-addons":
        edited_device(real, dev, os.path.join(addons, "devices", dev))
    elif kind == "overlay-restricted":
        edited_device(real, dev, os.path.join(restricted, "data", "devices", dev))
    elif kind == "new-device":
        os.symlink(os.path.join(real, "devices", dev), os.path.join(data, "devices", "zz9verif"))
    elif kind == "cached-config":
        sch = os.path.join(data, "jsonschemas", "sch_mbi.yaml")
        c = yaml.safe_load(open(sch))
        os.remove(sch)
        c["zz_verif_added"] = {"type": "string"}
        with open(sch, "w") as f:
            yaml.safe_dump(c, f, sort_keys=False)
    else:
        raise Machinery(f"unknown edit {kind}")
    evs.append({"ev": "Edit", "mode": "none", "ok": True, "digest": "none", "effective": True, "kind": kind, "msg": ""})
    t1 = run("truth")
    evs[-2]["effective"] = t1 != t0 and t1 != "none"
    run("cache")
    run("cache")
    return {"id": f"stale-{kind}", "ev": evs, "kind": kind}


def stale_lane(v, base, tier):
    traces = pmap(stale_scenario, [(base, k) for k in EDITS], chunksize=1)
    for t in traces:
        ed = next(e for e in t["ev"] if e["ev"] == "Edit")
        if not ed["effective"] and all(e["ok"] for e in t["ev"]):
            raise Machinery(f"stale lane: the edit {t['kind']} does not change the reference answers (the scenario would prove nothing)")
    good = {"id": "stale-canary-good", "ev": [{"ev": "Run", "mode": "truth", "ok": True, "digest": "a", "effective": True, "kind": "none", "msg": ""},
                                             {"ev": "Run", "mode": "cache", "ok": True, "digest": "a", "effective": True, "kind": "none", "msg": ""},
                                             {"ev": "Edit", "mode": "none", "ok": True, "digest": "none", "effective": True, "kind": "x", "msg": ""},
                                             {"ev": "Run", "mode": "truth", "ok": True, "digest": "b", "effective": True, "kind": "none", "msg": ""},
                                             {"ev": "Run", "mode": "cache", "ok": True, "digest": "b", "effective": True, "kind": "none", "msg": ""}]}
    bad = json.loads(json.dumps(good))
    bad["id"] = "stale-canary-bad"
    bad["ev"][-1]["digest"] = "a"            # the answers of the data as they were before the edit
    rej, _ = tlc.tv("C18", "StaleTrace", [good, bad])
    if set(rej) != {"stale-canary-bad"}:
        raise Machinery(f"stale lane canary failed: rejected {sorted(rej)}")
    rej, _ = tlc.tv("C18", "StaleTrace", [{"id": t["id"], "ev": t["ev"]} for t in traces])
    v.count(len(traces))
    v.traces(len(traces))
    for t in traces:
        v.nontrivial("stale:" + t["kind"])
    for tid, (matched, length, evname) in rej.items():
        t = next(x for x in traces if x["id"] == tid)
        e = t["ev"][min(matched, len(t["ev"]) - 1)]
        what = "fatal" if not e["ok"] else ("stale-cache-trusted" if e["mode"] == "cache" else "reference-run")
        v.violation(f"C18/stale/{t['kind']}/{what}", f"data edit '{t['kind']}': event #{matched + 1} {json.dumps(e)[:300]} - a process using the cache does not answer as a process "
                    "with the cache disabled does on the edited data", {"stale": True, "kind": t["kind"], "events": t["ev"]})
    v.extra["stale_lane"] = {"edits": list(EDITS), "rejected": sorted(rej)}
    say(f"[C18] stale lane: {len(traces)} real edits of the data between runs ({v.timer.s()}s)")


def key_of(t, matched):
    e = t["ev"][min(matched, len(t["ev"]) - 1)]
    init = "+".join(f"{f}={t['init'][f]}" for f in FILES) + ("" if t["init"].get("dir", True) else "+nofolder")
    kind = "stress" if t["sched"] == "stress" else ("lockwait" if any(s["at"] == "TIMEOUTS" for s in t["sched"]) else "kill" if any(s["at"] == "KILL" for s in t["sched"]) else ("interleaving" if len({s["p"] for s in t["sched"]}) > 1 else "solo"))
    if e["ev"] == "fatal":
        return f"C18/{kind}/{init}/fatal:{e.get('exc')}"
    if e["ev"] == "done":
        return f"C18/{kind}/{init}/" + ("wrong-answers" if e["digest"] != t["truth"] else "cache-not-repaired-or-lock-left")
    if e["ev"] == "final":
        return f"C18/{kind}/{init}/final-state"
    return f"C18/{kind}/{init}/env:{e['ev']}"


def run(tier):
    import_spsdk()
    v = Verdict(PROP, tier)
    r = rng(PROP)
    base = os.path.join(scratch(), "c18")
    os.makedirs(base, exist_ok=True)

    # ---- MC: the design as it is now must satisfy the property; the two earlier designs must be refuted (the I-spec predicts the defects)
    for cfg in ["MC_quick.cfg", "MC_data.cfg", "MC_solo_quick.cfg", "MC_solo_data.cfg"] + (["MC_data3.cfg"] if tier == "thorough" else []):
        m = tlc.mc("C18", "DbCache", cfg, coverage=(cfg == "MC_data.cfg"), heap="4g",
                   require_actions=("Exists", "Load", "Decide", "RemoveStale", "RemoveBad2", "DirCheck", "MkDir", "MergeLoad", "OpenTrunc", "Write2", "Release2", "Kill") if cfg == "MC_data.cfg" else ())
        v.add_mc(m)
    for cfg in ("MC_asbuilt_eof.cfg", "MC_asbuilt_race.cfg"):
        m = tlc.run("C18", "DbCache", cfg, heap="4g")
        if m.violated != "NoFatal":
            raise Machinery(f"{cfg}: the I-spec no longer predicts the known defect (got {m.violated})")
    # design variants that look harmless must be refuted as well: a stale file left for make_cache to "rewrite anyway" (its entries are merged back under a
    # current fingerprint), and a cache folder created by check-then-create without exist_ok
    for cfg, inv in (("MC_variant_keepstale.cfg", "NeverTrustStale"), ("MC_variant_mkdir.cfg", "NoFatal")):
        m = tlc.run("C18", "DbCache", cfg, heap="4g")
        if m.violated != inv:
            raise Machinery(f"{cfg}: the I-spec does not refute the variant (got {m.violated}, expected {inv})")
    v.extra["prediction"] = ("as-built designs (EOFError uncaught; exists;remove race) are refuted by TLC (NoFatal), the repaired design passes (incl. NeverTrustStale "
                             "and a cache folder that is missing at the start); variants 'stale file not removed' and 'folder by check-then-create' are refuted")

    tmpl = Template(base)
    if tmpl.cached_digest != tmpl.truth:
        v.violation("C18/solo/quick=missing+data=missing/wrong-answers", "cold-cache run answers differ from the run with the cache disabled", {})
    say(f"[C18] template caches built ({v.timer.s()}s), sizes {[len(tmpl.valid[f]) for f in FILES]}")

    # ---- GEN: schedules from TLC (both cache variants); the kill / interleaving structure is what is replayed
    scheds = []
    for variant, cfg in (("data", "GEN_data.cfg"), ("quick", "GEN_quick.cfg")):
        g = tlc.run("C18", "DbCacheGen", cfg, workers=1, deadlock=False, simulate=f"num={60 if tier == 'quick' else 400}", depth=60, heap="4g")
        for b in g.json_prints():
            scheds.append((variant, b))
    if len(scheds) < 40:
        raise Machinery(f"GEN produced only {len(scheds)} schedules")
    jobs = []
    for i, (variant, b) in enumerate(scheds):
        other = "quick" if variant == "data" else "data"
        init = {variant: b["file0"], other: r.choice(["valid", "missing", "valid", "empty"])}
        jobs.append((f"tlc-{i}", init, b["sched"]))
    # ---- crash points: every file kind, prefixes of the valid files (quick: boundary + seeded lengths; thorough: a dense sweep), solo process
    solo = [{"p": "p1", "at": "Exists"}]
    lens = {}
    for f in FILES:
        n = len(tmpl.valid[f])
        pts = set(range(0, 40)) | {n - 1, n - 2, n // 2, n // 3} | {r.randrange(1, n) for _ in range(30 if tier == "quick" else 300)}
        if tier == "thorough":
            pts |= set(range(40, min(n, 700)))
        lens[f] = sorted(x for x in pts if 0 < x < n)
    for f in FILES:
        o = "quick" if f == "data" else "data"
        for k in ("missing", "empty", "stale", "junk", "garbage", "valid"):
            jobs.append((f"crash-{f}-{k}", {f: k, o: "valid"}, solo))
            jobs.append((f"crash-{f}-{k}-both", {f: k, o: k}, solo))
        for n in lens[f]:
            jobs.append((f"crash-{f}-prefix{n}", {f: ["partial", n], o: r.choice(["valid", "valid", "missing"])}, solo))
    # ---- kill points far into a run (the long tail of make_cache rounds): p1 killed at its k-th primitive, then p2
    for i in range(20 if tier == "quick" else 200):
        k = r.choice([r.randrange(1, 60), r.randrange(60, 1500)])
        init = {"quick": r.choice(["missing", "valid", "empty"]), "data": r.choice(["missing", "valid", "stale"])}
        jobs.append((f"latekill-{i}", init, [{"p": "p1", "at": "step"}] * k + [{"p": "p1", "at": "KILL"}, {"p": "p2", "at": "step"}]))
    # ---- two processes racing through the damaged-cache handler: p1 k steps, p2 j steps, alternating
    for i in range(30 if tier == "quick" else 300):
        a, b = r.randrange(1, 14), r.randrange(1, 14)
        init = {"quick": r.choice(["partial", "empty", "stale", "junk"]), "data": r.choice(["partial", "empty", "stale", "junk"])}
        sched = ([{"p": "p1", "at": "step"}] * a + [{"p": "p2", "at": "step"}] * b) * 6
        jobs.append((f"race-{i}", init, sched))

    # ---- the cache folder itself does not exist yet: solo, every short two-process interleaving of the first primitives, late kill
    nofolder = {"quick": "missing", "data": "missing", "dir": False}
    jobs.append(("nofolder-solo", nofolder, solo))
    for a in range(1, 5):
        for b in range(1, 5):
            jobs.append((f"nofolder-race-{a}-{b}", nofolder, [{"p": "p1", "at": "step"}] * a + [{"p": "p2", "at": "step"}] * b + [{"p": "p1", "at": "step"}] * 3))
    for k in (1, 2, 3, 5, 8):
        jobs.append((f"nofolder-kill-{k}", nofolder, [{"p": "p1", "at": "step"}] * k + [{"p": "p1", "at": "KILL"}, {"p": "p2", "at": "step"}]))

    # ---- lock-wait time-outs: p1 is stopped after k primitives (perhaps while it holds a lock); p2, whose waits time out, runs to its end; then p1 goes on
    for k in list(range(1, 26)) + ([30, 40, 60, 100] if tier == "quick" else list(range(26, 200, 3))):
        for init in ({"quick": "missing", "data": "missing"}, {"quick": "valid", "data": "stale"}, {"quick": ["partial", 3000], "data": "valid"}):
            if tier == "quick" and k > 25 and init["quick"] != "missing":
                continue
            jobs.append((f"lockwait-{k}-{init['quick']}-{init['data']}"[:60], init, [{"p": "p2", "at": "TIMEOUTS"}] + [{"p": "p1", "at": "step"}] * k + [{"p": "p2", "at": "step"}] * 400))

    def do(job):
        sid, init, sched = job
        return run_scenario(tmpl, base, sid, init, sched, rng(PROP, sid))

    traces = pmap(do, jobs, chunksize=2)
    say(f"[C18] {len(traces)} scheduled scenarios executed on real processes ({v.timer.s()}s)")
    # ---- stress: unsynchronised fresh interpreters
    for i, (n, init) in enumerate([(8, {"quick": "missing", "data": "missing"}), (8, {"quick": "empty", "data": ["partial", 1000]}),
                                   (8, {"quick": ["partial", 5000], "data": "stale"}), (8, nofolder)] * (1 if tier == "quick" else 10)):
        traces.append(stress(tmpl, base, f"stress-{i}", init, n if tier == "quick" else 16, r))
    say(f"[C18] stress rounds done ({v.timer.s()}s)")
    v.count(len(traces))
    for t in traces:
        v.nontrivial(json.dumps([t["init_detail"], t["sched"]], sort_keys=True))
    v.sample({"id": traces[0]["id"], "init": traces[0]["init"], "events": traces[0]["ev"][:40]})
    v.extra["events_total"] = sum(len(t["ev"]) for t in traces)

    # ---- canary
    good = next(t for t in traces if t["id"].startswith("crash-quick-empty"))
    bad = json.loads(json.dumps(good))
    bad["id"] = "canary-bad"
    done_ev = next(e for e in bad["ev"] if e["ev"] == "done")
    done_ev["digest"] = "0" * 16
    bad2 = json.loads(json.dumps(good))
    bad2["id"] = "canary-bad2"
    bad2["ev"][-1]["state"]["quick"] = "partial"
    rej, _ = tlc.tv("C18", "FsEnvTrace", [strip(good), strip(bad), strip(bad2)])
    if set(rej) - {good["id"]} != {"canary-bad", "canary-bad2"}:
        raise Machinery(f"canary failed: rejected {sorted(rej)}")
    v.extra["canary"] = "trace with a wrong digest and trace with a damaged final state rejected"

    # ---- TV
    rej, res = tlc.tv("C18", "FsEnvTrace", [strip(t) for t in traces], heap="8g", timeout=1200)
    v.traces(len(traces))
    by = {t["id"]: t for t in traces}
    for tid, (matched, length, evname) in rej.items():
        t = by[tid]
        e = t["ev"][min(matched, len(t["ev"]) - 1)]
        v.violation(key_of(t, matched), f"scenario {tid} init={t['init_detail']}: event #{matched + 1} {json.dumps(e)[:300]} is not a step of FsEnv + monitor",
                    {"id": tid, "init": t["init_detail"], "sched": t["sched"] if t["sched"] == "stress" else compress(t["sched"]), "events": t["ev"][max(0, matched - 12):matched + 2]})
    stale_lane(v, base, tier)
    v.cov["rule"] = ("scenarios = TLC-simulated schedules of the I-spec (2 processes, <= 1 kill, every initial file kind) replayed on real forked processes by "
                     "interposition + solo first use on every damaged state (missing/empty/stale/wrong type/garbage/prefixes of the valid file) + late kills + "
                     "alternating two-process races + unsynchronised fresh interpreters; every scenario ends with an epilogue process and an independent "
                     "classification of both cache files; distinct by (initial state, schedule)")
    v.assumptions += ["a lock wait either ends when the holder releases, or times out (scheduled scenarios `lockwait-*`: the waiting process is told so and must go on without the cache)", "edits that keep BOTH the size and the modification time (to the nanosecond) of a data file are outside 'stale' (an in-place edit of the same size 0.2 s later inside the same clock second is inside)",
                      "scheduled processes are forked children of a pre-imported interpreter; fresh interpreters are used in the stress rounds only",
                      "a kill happens between primitives; states inside one write are covered by the prefix sweep"]
    return v.finish()


def compress(sched):
    out = []
    for s in sched:
        if out and out[-1][0] == s["p"] and out[-1][1] == s["at"]:
            out[-1][2] += 1
        else:
            out.append([s["p"], s["at"], 1])
    return out


def strip(t):
    return {"id": t["id"], "init": t["init"], "truth": t["truth"], "ev": t["ev"]}


def replay(path):
    import_spsdk()
    w = json.load(open(path))["witness"]
    base = os.path.join(scratch(), "c18")
    os.makedirs(base, exist_ok=True)
    if w.get("stale"):
        t = stale_scenario((base, w["kind"]))
        for e in t["ev"]:
            say(json.dumps(e))
        rej, _ = tlc.tv("C18", "StaleTrace", [{"id": t["id"], "ev": t["ev"]}])
        if rej:
            say(f"VIOLATION property=C18 replay={path}")
            return 1
        say("replay: trace accepted")
        return 0
    tmpl = Template(base)
    r = rng(PROP, "replay")
    if w["sched"] == "stress":
        t = stress(tmpl, base, "replay", w["init"], 8, r)
    else:
        sched = [{"p": p, "at": at} for p, at, n in w["sched"] for _ in range(n)]
        t = run_scenario(tmpl, base, "replay", w["init"], sched, r)
    rej, _ = tlc.tv("C18", "FsEnvTrace", [strip(t)])
    if rej:
        m = rej["replay"][0]
        say(json.dumps(t["ev"][max(0, m - 5):m + 1])[:1500])
        say(f"VIOLATION property=C18 replay={path}")
        return 1
    say("replay: trace accepted")
    return 0
