"""Growth beyond the listed properties: Secure Binary X (spsdk/sbfile/sbx) and the DevHSM container flow (nxpdevhsm generate for MC56F818xx / MWCT2xD2).

spec/SYS/SbxDev.tla       device side of the DevHSM exchange (communication buffer, session, DSC_HSM_CREATE_SESSION / ENC_BLK / ENC_SIGN), bound form
spec/SYS/SbxRom.tla       acceptance automaton of the SB-X loader (header, TP HSM blob, ONE signature, hash chain, block keys, section, 14 commands, coverage)
                          + the contract of one DevHSM run; every demand is a NAMED clause (inp.waive carries a rejected trace past a deviation)
spec/SYS/SbxRomTrace.tla  TV : batch trace validation of what the device twin recorded and what the independent executor logged on the container bytes
spec/SYS/SbxGen.tla       GEN: tours (routes x image types x header value classes x stream ends x command types / pairs x device faults x resets x histories)
                          + simulation
spec/SYS/SbxFlow.tla      MC : design model host || device || loader of the whole flow; the documented order holds, four wrong designs are REFUTED
                          (two of them are the host as built: predictions confirmed below)

Not a registered check: `./check sys_sbx` prints OBSERVATION lines and exits 0 (2 on machinery failure).  Python only drives the real code
(SecureBinaryX / SecureBinaryXCommands / Cmd* / load_from_config / DevHsmSBx.create_sb / `nxpdevhsm generate` through click's runner, the last two
over the real McuBoot + MbootBulkProtocol against harness/lib/sbx_ref.Device) and records; TLC decides every trace, including WHICH clause failed
(a rejected trace is re-validated with one clause of the rejecting action waived at a time)."""
import hashlib
import json
import os
import struct
import time

from lib import sbx_ref as X
from lib import tlc
from lib.common import ROOT, Machinery, import_spsdk, rng, say, scratch
from lib.par import pmap
from lib.ptv import check_complete, prun

LANE = "sys_sbx"
FAMILY = "mc56f81868"
ANCH = os.path.join(ROOT, "anchors", "SYS", "sbx")
LIBS = ()
TYPE_NAMES = {1: "NXP_PROVISIONING", 2: "OEM_PROVISIONING", 3: "OEM"}
DATA_CMDS = (2, 5, 6, 7, 9, 10)
W = X.W
# the named clauses of every action of SbxRom.tla (C("Name", ...)): the menu the diagnosis waives from
CLAUSES = {
    "Result": ["Documented", "Mirror", "NoFalseSuccess", "EveryBlockOnce", "SignedLast", "NotSignedByDevice", "ResetsAsRequested"],
    "CreateSession": ["SeedIsInput"],
    "ParseHeader": ["Magic", "Version", "BlockSize", "BlockCount"],
    "HeaderFields": ["ImageTypeKnown", "TypeAsSupplied", "FlagsAsSupplied", "FwAsSupplied", "TsAsSupplied", "DescAsSupplied", "HandedHeaderFields", "HandedBlockCount"],
    "Layout": ["Block0Len", "FileLen"],
    "Blob": ["BlobHeader", "BlobMac", "BlobOfSession", "BlobAsSupplied"],
    "VerifyBlock0": ["Signature", "SignatureBlank"],
    "Block": ["BlockNumber", "ChainHash", "ChainEndsZero", "CipherOfDevice"],
    "Section": ["SectionHeader", "SectionLen", "EveryBlockFromDevice"],
    "Cmd": ["CmdAsSupplied", "CmdPadding"],
    "Accept": ["AllCommands", "Coverage"],
    "ParseBack": ["ParsedDocumented", "ParsedFields", "ParsedValid", "ParsedReexport"],
}
INPUT_CLAUSES = ["TypeAsSupplied", "FlagsAsSupplied", "FwAsSupplied", "TsAsSupplied", "DescAsSupplied", "HandedHeaderFields", "HandedBlockCount", "BlobOfSession",
                 "BlobAsSupplied", "CipherOfDevice", "EveryBlockFromDevice", "CmdAsSupplied", "AllCommands"]


def anchors():
    g = json.load(open(os.path.join(ANCH, "golden.json")))
    hdr, blob = bytes.fromhex(g["header_hex"]), bytes.fromhex(g["blob_hex"])
    f, w = X.header_fields(hdr), g["header"]
    ok = (len(hdr) == X.HDR and f["magicOk"] and (f["minor"], f["major"], f["blockCount"], f["blockSize"], f["totalLen"], f["imageType"]) ==
          (w["minor"], w["major"], w["blockCount"], w["blockSize"], w["totalLen"], w["imageType"]) and f["ts"] == X.limbs(w["timestamp"], 4)
          and f["fw"] == W(w["firmwareVersion"]) and bytes(f["desc"]) == w["description"].encode() and w["blockSize"] == X.BLOCK and w["totalLen"] == X.MAN + 32)
    ok = ok and len(blob) == X.BLOB and X.hm(bytes.fromhex(g["blob_hmac_key_hex"]), blob[:20]) == blob[20:] and struct.unpack_from("<2BH", blob) == (1, 0, X.BLOB)
    if not ok:
        raise Machinery("the frozen SB-X header / TP HSM blob layout does not read the golden bytes of anchors/SYS/sbx/golden.json")


_isk = {}


def isk():
    """(path of the private key, raw x || y of the public key, sign(data) -> raw r || s) of the image signing key the loader is provisioned with."""
    if not _isk:
        from cryptography.hazmat.primitives import hashes, serialization
        from cryptography.hazmat.primitives.asymmetric import ec
        from cryptography.hazmat.primitives.asymmetric.utils import decode_dss_signature

        path = os.path.join(ANCH, "isk_p256.pem")
        key = serialization.load_pem_private_key(open(path, "rb").read(), None)
        n = key.public_key().public_numbers()

        def sign(data):
            r, s = decode_dss_signature(key.sign(data, ec.ECDSA(hashes.SHA256())))
            return r.to_bytes(32, "big") + s.to_bytes(32, "big")

        _isk.update(path=path, pub=n.x.to_bytes(32, "big") + n.y.to_bytes(32, "big"), sign=sign)
    return _isk


# ------------------------------------------------------------------ GEN
def gen(tier):
    env = {"GEN_FULL": 1 if tier == "thorough" else 0}
    g1 = tlc.run("SYS", "SbxGen", "SbxGen.cfg", workers=1, deadlock=False, env=dict(env, GEN_MODE="tour"), libs=LIBS)
    n = 1500 if tier == "thorough" else 160
    g2 = tlc.run("SYS", "SbxGen", "SbxGen.cfg", workers=1, deadlock=False, simulate=f"num={n}", depth=12, env=dict(env, GEN_MODE="sim"), libs=LIBS)
    tour, sim = g1.json_prints(), g2.json_prints()
    if len(tour) < 900 or len(sim) < n // 2:
        raise Machinery(f"SbxGen produced {len(tour)} tour / {len(sim)} simulated cases")
    seen, cases = set(), []
    for c in tour + sim:
        k = json.dumps(c, sort_keys=True)
        if k not in seen:
            seen.add(k)
            cases.append(c)
    return cases, {"tour": len(tour), "sim": len(sim), "distinct": len(cases), "states": g1.distinct + g2.distinct, "generated": g1.generated + g2.generated}


# ------------------------------------------------------------------ abstract case -> concrete input
def concretise(case, cid):
    from c05 import conc_cmd

    r = rng("SYS", "sbx", json.dumps(case, sort_keys=True))
    off = case["route"] in ("cfg", "dev", "cli")
    ts = {"none": None, "zero": 0, "one": 1, "word": r.getrandbits(32) | 1, "wide": (1 << 32) + r.getrandbits(30), "top": 2**64 - 1}[case["tsc"]]
    fw = {"zero": 0, "one": 1, "word": r.getrandbits(32) | 2, "top": 0xFFFFFFFF}[case["fwc"]]
    flags = 0 if off or case["flc"] == "zero" else r.getrandbits(32) | 1
    dl = {"none": 0, "empty": 0, "text": r.randrange(1, 16), "full": 16, "long": r.randrange(17, 25)}[case["dsc"]]
    desc = "".join(chr(r.randrange(0x21, 0x7F)) for _ in range(dl))
    cmds = []
    for ac in case["cmds"]:
        c = conc_cmd(ac, r)
        if off and c["t"] == 2 and r.random() < 0.5:
            c["x1"] = r.choice([0, 1, 9])
        cmds.append(c)
    return {"cid": cid, "case": case, "ts": ts, "fw": fw, "flags": flags, "desc": desc, "desc_none": case["dsc"] == "none", "cmds": cmds,
            "seed": r.randbytes(16).hex(), "pb": r.random() < 0.06, "yaml": r.random() < 0.5, "values": r.random() < 0.5, "workspace": r.random() < 0.3}


def spec_inp(c, mode, waive=()):
    from c05 import spec_cmd

    case = c["case"]
    return {"mode": mode, "route": case["route"], "type": case["type"], "flags": W(c["flags"]), "fw": W(c["fw"]), "ts": X.limbs(c["ts"] or 0, 4),
            "tsGiven": c["ts"] is not None, "desc": [ord(x) for x in c["desc"]], "cmds": [spec_cmd(x) for x in c["cmds"]], "waive": list(waive),
            "seedSha": X.sha(bytes.fromhex(c["seed"])), "resets": {"init": bool(case["ri"]), "final": bool(case["rf"])}}


# ------------------------------------------------------------------ the real code
def sig_provider():
    from spsdk.crypto.signature_provider import get_signature_provider

    return get_signature_provider(local_file_key=isk()["path"])


def build_api(c):
    from c05 import real_cmd
    from spsdk.sbfile.sbx.images import SecureBinaryX, SecureBinaryXType, TpHsmBlob, TpHsmBlobHeader

    case = c["case"]
    seed = bytes.fromhex(c["seed"])
    blob = X.make_blob(seed)
    if case["blobv"] == "hmac":
        tb = TpHsmBlob(TpHsmBlobHeader(version=1, blob_type=0, oem_enc_data=blob[4:20]), hmac_key=X.K_MAC.hex())
    elif case["blobv"] == "sig":
        tb = TpHsmBlob(blob[:20], signature=blob[20:])
    else:
        tb = None
    it = SecureBinaryXType(case["type"])
    kw = {}
    if c["ts"] is not None:
        kw["timestamp"] = c["ts"]
    if not c["desc_none"]:
        kw["description"] = c["desc"]
    sbx = SecureBinaryX(firmware_version=c["fw"], tphsm_blob=tb, image_type=it, signature_provider=sig_provider() if case["type"] != 2 else None,
                        flags=c["flags"], **kw)
    if tb is None:
        sbx.load_tphsm(blob)
    cmds = [real_cmd(x) for x in c["cmds"]]
    if case["via"] == "set":
        sbx.sb_commands.set_commands(cmds)
    elif case["via"] == "insert":
        for i, x in enumerate(cmds):
            sbx.sb_commands.insert_command(-1 if i % 2 else i, x)
    else:
        for x in cmds:
            sbx.sb_commands.add_command(x)
    return sbx


def cfg_cmd(x, wd, i, values):
    t, data = x["t"], bytes.fromhex(x["data"])

    def src():
        if values and data and len(data) % 4 == 0 and len(data) <= 64:
            return {"values": ",".join(hex(v) for v in struct.unpack(f"<{len(data) // 4}I", data))}
        name = f"d{i}.bin"
        with open(os.path.join(wd, name), "wb") as f:
            f.write(data)
        return {"file": name}

    if t == 1:
        return {"erase": {"address": x["a"], "size": x["n"], "memoryId": x["x1"]}}
    if t == 2:
        return {"load": dict({"address": x["a"], "memoryId": x["x1"]}, **src())}
    if t == 3:
        return {"execute": {"address": x["a"]}}
    if t == 6:
        return {"programIFR": dict({"address": x["a"]}, **src())}
    if t == 14:
        return {"reset": {}}
    raise Machinery(f"command type {t} on a configuration route")


def write_config(c, wd):
    case = c["case"]
    cfg = {"family": FAMILY, "firmwareVersion": c["fw"], "containerOutputFile": "out.sbx", "image_type": TYPE_NAMES[case["type"]],
           "commands": [cfg_cmd(x, wd, i, c["values"]) for i, x in enumerate(c["cmds"])]}
    if not c["desc_none"]:
        cfg["description"] = c["desc"]
    if c["ts"] is not None:
        cfg["timestamp"] = c["ts"]
    if case["type"] != 2:
        cfg["signingCertificatePrivateKeyFile"] = isk()["path"]
    path = os.path.join(wd, "sbx.yaml" if c["yaml"] else "sbx.json")
    with open(path, "w") as f:
        if c["yaml"]:
            import yaml

            yaml.safe_dump(cfg, f, default_flow_style=False, width=4096)
        else:
            json.dump(cfg, f)
    return path, cfg


def build_cfg(c, wd):
    from spsdk.sbfile.sbx.images import SecureBinaryX
    from spsdk.utils.schema_validator import check_config

    path, cfg = write_config(c, wd)
    from spsdk.utils.misc import load_configuration

    cfg = load_configuration(path)
    check_config(cfg, SecureBinaryX.get_validation_schemas(FAMILY, include_test_configuration=True), search_paths=[wd])
    sbx = SecureBinaryX.load_from_config(cfg, search_paths=[wd])
    sbx.load_tphsm(X.make_blob(bytes.fromhex(c["seed"])))
    return sbx


def parse_back(data):
    """SPSDK reads the header of its own container back."""
    from spsdk.exceptions import SPSDKError
    from spsdk.sbfile.sbx.images import SecureBinaryXHeader

    e = {"ev": "ParseBack", "kind": "ret", "exc": "none", "documented": True, "validOk": False, "reexportSame": False,
         "fields": {"blockCount": 0, "totalLen": 0, "imageType": 0, "ts": [0, 0, 0, 0], "fw": [0, 0], "flags": [0, 0]}}
    try:
        h = SecureBinaryXHeader.parse(data)
        it = h.image_type.value if hasattr(h.image_type, "value") else int(h.image_type)
        e["fields"] = {"blockCount": X.N(h.block_count), "totalLen": X.N(h.sbx_block0_total_length), "imageType": X.N(it), "ts": X.limbs(h.timestamp, 4),
                       "fw": W(h.firmware_version), "flags": W(h.flags)}
    except SPSDKError as x:
        e.update(kind="exc", exc=type(x).__name__)
        return e
    except Exception as x:  # noqa: BLE001
        e.update(kind="exc", exc=type(x).__name__, documented=False)
        return e
    try:
        h.validate()
        e["validOk"] = True
    except Exception as x:  # noqa: BLE001
        e["exc"] = "validate:" + type(x).__name__
    try:
        e["reexportSame"] = h.export() == data[:X.HDR]
    except Exception as x:  # noqa: BLE001
        e["exc"] = (e["exc"] + "," if e["exc"] != "none" else "") + "export:" + type(x).__name__
    return e


def raised(x):
    from spsdk.exceptions import SPSDKError

    return {"ev": "Raised", "exc": type(x).__name__, "documented": isinstance(x, SPSDKError), "msg": str(x)[:120]}


def run_off(c, keep=False):
    """api / cfg route: one object, exported `hist` times; every export is a trace of its own (the executor walks the bytes)."""
    case = c["case"]
    wd = os.path.join(scratch(), f"sbx-{os.getpid()}-{c['cid']}")
    os.makedirs(wd, exist_ok=True)
    out = []
    rom = {"mode": "plain", "blob": X.make_blob(bytes.fromhex(c["seed"]))}
    try:
        sbx = build_api(c) if case["route"] == "api" else build_cfg(c, wd)
    except Exception as x:  # noqa: BLE001
        return [{"id": f"{c['cid']}r1", "inp": spec_inp(c, "plain"), "ev": [raised(x)], "run": 1, "cid": c["cid"]}]
    for k in range(1, case["hist"] + 1):
        try:
            data = sbx.export()
            ev = X.walk(data, rom)
            if ev and ev[-1]["ev"] == "Accept" and c["pb"]:
                ev.append(parse_back(data))
            ev.append({"ev": "Fin"})
        except Exception as x:  # noqa: BLE001
            data, ev = b"", [raised(x)]
        t = {"id": f"{c['cid']}r{k}", "inp": spec_inp(c, "plain"), "ev": ev, "run": k, "cid": c["cid"]}
        if keep:
            t["hex"] = data.hex()
        out.append(t)
    return out


def run_dev(c, keep=False):
    """dev / cli route: `hist` runs against ONE device twin (dev: on one DevHsmSBx object); one trace for the whole history."""
    from spsdk.exceptions import SPSDKError
    from spsdk.mboot.mcuboot import McuBoot
    from spsdk.mboot.protocol.bulk_protocol import MbootBulkProtocol

    time.sleep = lambda s: None                      # forked worker only: the reset delays carry no meaning against a twin
    case = c["case"]
    wd = os.path.join(scratch(), f"sbx-{os.getpid()}-{c['cid']}")
    os.makedirs(wd, exist_ok=True)
    seed = bytes.fromhex(c["seed"])
    fault = tuple(case["fault"]) if case["fault"][0] >= 0 else None
    dev = X.Device(fault)
    proto = MbootBulkProtocol(dev)
    proto.identifier = "twin"
    rom = {"mode": "devhsm", "isk_pub": isk()["pub"]}
    evs, files = [], []
    cfg_path, _ = write_config(c, wd)
    hsm = None
    mb = None
    for k in range(1, case["hist"] + 1):
        dev.events = []
        res = {"ev": "Result", "kind": "ret", "exc": "none", "documented": True, "fileLen": 0}
        data = b""
        try:
            if case["route"] == "dev":
                from spsdk.sbfile.sbx.devhsm import DevHsmSBx

                if hsm is None:
                    mb = McuBoot(proto)
                    mb.open()
                    hsm = DevHsmSBx(mboot=mb, family=FAMILY, oem_share_input=seed, container_conf=cfg_path, workspace=os.path.join(wd, "ws") if c["workspace"] else None,
                                    initial_reset=bool(case["ri"]), final_reset=bool(case["rf"]), info_print=lambda *a, **kw: None)
                hsm.create_sb()
                data = hsm.export()
            else:
                from click.testing import CliRunner

                from spsdk.apps import nxpdevhsm
                from spsdk.mboot.interfaces.usb import MbootUSBInterface

                MbootUSBInterface.scan_single = classmethod(lambda cls_, **kw_: proto)
                sf, outp = os.path.join(wd, "seed.bin"), os.path.join(wd, f"out{k}.sbx")
                with open(sf, "wb") as f:
                    f.write(seed)
                argv = ["generate", "-u", "0x1fc9:0x0021", "-f", FAMILY, "-i", sf, "-c", cfg_path, "-o", outp, "-ir" if case["ri"] else "-IR", "-fr" if case["rf"] else "-FR"]
                cr = CliRunner().invoke(nxpdevhsm.main, argv)
                if cr.exception is not None and not (isinstance(cr.exception, SystemExit) and cr.exit_code == 0):
                    raise cr.exception
                if cr.exit_code != 0 or not os.path.exists(outp):
                    raise SPSDKError(f"exit code {cr.exit_code}")
                data = open(outp, "rb").read()
            res["fileLen"] = len(data)
        except SPSDKError as x:
            res.update(kind="exc", exc=type(x).__name__)
        except SystemExit as x:
            res.update(kind="exc", exc=f"exit{x.code}", documented=x.code == 1)
        except KeyboardInterrupt:
            res.update(kind="exc", exc="unbounded", documented=False)
        except Exception as x:  # noqa: BLE001
            res.update(kind="exc", exc=type(x).__name__, documented=False, msg=str(x)[:100])
        if k > 1:
            evs.append({"ev": "NextRun"})
        evs += dev.events + [res]
        if res["kind"] == "ret":
            evs += X.walk(data, rom)
        evs.append({"ev": "Fin"})
        files.append(data.hex())
        if mb is not None and not mb.is_opened:
            mb.open()
    t = {"id": f"{c['cid']}h", "inp": spec_inp(c, "devhsm"), "ev": evs, "run": 0, "cid": c["cid"]}
    if keep:
        t["hex"] = files
    return t


def run_case(c):
    try:
        if c["case"]["route"] in ("api", "cfg"):
            return run_off(c)
        return [run_dev(c)]
    except Machinery:
        raise
    except Exception as x:  # noqa: BLE001 - the harness itself
        import traceback

        return [{"id": f"{c['cid']}x", "inp": spec_inp(c, "plain"), "ev": [{"ev": "HarnessError", "why": traceback.format_exc()[-400:]}], "run": 0, "cid": c["cid"]}]


def strip(t):
    return {"id": t["id"], "inp": t["inp"], "ev": t["ev"]}


# ------------------------------------------------------------------ TV + diagnosis by TLC
def tv(traces, jobs=4):
    traces = [strip(t) for t in traces]
    if len(traces) < 700:
        rej, res = tlc.tv("SYS", "SbxRomTrace", traces, libs=LIBS, heap="3g")
        check_complete(res, len(traces))
        return rej, [{"distinct": res.distinct, "generated": res.generated, "wall": round(res.wall, 2), "n": len(traces)}]
    return ptv_libs(traces, jobs)


def ptv_libs(traces, jobs):
    """lib.ptv.ptv without the `libs` argument: split by hand, run side by side."""
    from lib import common

    n = max(2, min(jobs, len(traces) // 500))
    chunks = [(i, traces[i::n]) for i in range(n)]
    base = scratch()

    def work(item):
        i, part = item
        if not part:
            return None
        saved = common._scratch
        sub = os.path.join(base, f"ptv-{os.getpid()}-{i}")
        os.makedirs(sub, exist_ok=True)
        common._scratch = sub
        try:
            rej, res = tlc.tv("SYS", "SbxRomTrace", part, libs=LIBS, heap="3g")
            check_complete(res, len(part))
            return rej, {"distinct": res.distinct, "generated": res.generated, "wall": round(res.wall, 2), "n": len(part)}
        finally:
            common._scratch = saved

    out = pmap(work, chunks + [(-1, [])] * max(0, 4 - n), procs=max(n, 4), chunksize=1)
    out = [x for x in out if x is not None]
    rej, stats = {}, []
    for r, s in out:
        rej.update(r)
        stats.append(s)
    return rej, stats


def diagnose(traces, rej, stats):
    """Every rejected trace is carried on by TLC.  At the rejecting event, with C = the named clauses of its action that are not yet waived:
    all of C waived and still stuck -> the structural part of the action failed ("structure", the trace ends there); otherwise clause c failed iff the
    trace is still stuck with C - {c} waived.  The trace then continues with the failed clauses waived (and only those).
    -> {trace id: [(event index, event name, clause)]}"""
    by = {t["id"]: t for t in traces}
    found = {tid: [] for tid in rej}
    cur = {tid: (strip(by[tid]), rej[tid]) for tid in rej}
    for _ in range(10):
        if not cur:
            break
        variants = []
        for tid, (t, (m, ln, evname)) in cur.items():
            menu = [c for c in CLAUSES.get(evname, []) if c not in t["inp"]["waive"]]
            if menu:
                variants.append({"id": f"{tid}~A", "inp": dict(t["inp"], waive=t["inp"]["waive"] + menu), "ev": t["ev"]})
            if len(menu) > 1:
                for j, cl in enumerate(menu):
                    variants.append({"id": f"{tid}~{j}", "inp": dict(t["inp"], waive=t["inp"]["waive"] + [c for c in menu if c != cl]), "ev": t["ev"]})
        vrej, st = tv(variants) if variants else ({}, [])
        stats += st
        cont = []
        for tid, (t, (m, ln, evname)) in cur.items():
            menu = [c for c in CLAUSES.get(evname, []) if c not in t["inp"]["waive"]]

            def stuck(vid):
                return vid in vrej and vrej[vid][0] <= m

            if not menu or stuck(f"{tid}~A"):
                found[tid].append((m, evname, "structure"))
                continue
            failed = menu if len(menu) == 1 else ([c for j, c in enumerate(menu) if stuck(f"{tid}~{j}")] or menu)
            for cl in failed:
                found[tid].append((m, evname, cl))
            cont.append({"id": tid, "inp": dict(t["inp"], waive=t["inp"]["waive"] + failed), "ev": t["ev"]})
        crej, st = tv(cont) if cont else ({}, [])
        stats += st
        cur = {t["id"]: (t, crej[t["id"]]) for t in cont if t["id"] in crej}
    for tid in cur:
        found[tid].append((cur[tid][1][0], cur[tid][1][2], "more"))
    return found


def run_of(t, idx):
    """Which run of the history the event at idx belongs to."""
    return 1 + sum(1 for e in t["ev"][:idx + 1] if e["ev"] == "NextRun") if t["run"] == 0 else t["run"]


def key_of(t, case, idx, evname, clause):
    e = t["ev"][min(idx, len(t["ev"]) - 1)]
    route = case["route"]
    run = run_of(t, idx)
    d = [f"type={TYPE_NAMES[case['type']]}" if clause in ("Block0Len", "FileLen", "Signature", "SignatureBlank", "SignedLast", "NotSignedByDevice", "structure") else "",
         f"run={run}" if case["hist"] > 1 and (evname in ("Result", "Block", "CreateSession", "Raised") or clause == "structure") else "",
         f"ts={case['tsc']}" if clause == "TsAsSupplied" else "", f"desc={case['dsc']}" if clause == "DescAsSupplied" else "",
         f"fw={case['fwc']}" if clause == "FwAsSupplied" else ""]
    if evname == "Raised":
        d.append(f"exc={e['exc']}")
        d.append("undocumented" if not e["documented"] else "documented")
    if evname == "Result":
        d.append(f"result={e['kind']}:{e['exc']}")
        d.append(f"fault={case['fault'][1]}" if case["fault"][0] >= 0 else "no-fault")
    if evname == "ParseBack":
        d.append(f"{e['exc']}")
    if clause == "HandedBlockCount":
        d.append("blocks>1")
    if evname in ("HarnessError", "ExecutorStop"):
        d.append(e.get("why", "")[-80:])
    return f"{route}/{evname}/{clause}" + "".join(f"[{x}]" for x in d if x)


# ------------------------------------------------------------------ canary: containers and device runs that are NOT produced by SPSDK
def canary():
    from c05 import spec_cmd

    seed = bytes(range(16))
    cmds = [{"t": 1, "a": 0x1000, "n": 0x2000, "x1": 0, "x2": 0, "x3": 0, "data": ""}, {"t": 2, "a": 0x1000, "n": 0, "x1": 0, "x2": 0, "x3": 0, "data": bytes(range(200)).hex() * 2},
            {"t": 14, "a": 0, "n": 0, "x1": 0, "x2": 0, "x3": 0, "data": ""}]
    data = bytes.fromhex(cmds[1]["data"])
    stream = X.ref_commands_stream([(1, 0x1000, 0x2000, [0, 0, 0, 0], b"", 0), (2, 0x1000, len(data), [0, 0, 0, 0], data, 0), (14, 0, 0, None, b"", 0)])
    ts, fw, desc = 0x1_2345_6789, 7, b"canary" + bytes(10)
    base = {"route": "ref", "flags": W(0), "fw": W(fw), "ts": X.limbs(ts, 4), "tsGiven": True, "desc": list(b"canary"), "cmds": [spec_cmd(x) for x in cmds],
            "waive": [], "seedSha": X.sha(seed), "resets": {"init": True, "final": True}}
    out = []
    for itype in (2, 3):
        # a reference host drives the twin in the documented order (no SPSDK): reset, oem share in, create session, blob out, header + blocks in, sign, reset
        dev = X.Device()
        A, B = 0x04003000, 0x04003100

        def cmd(tag, *p, data=None):
            dev.write(struct.pack("<2BH", 1, 0, 4 + 4 * len(p)) + struct.pack("<4B", tag, 1 if data is not None else 0, 0, len(p)) + struct.pack(f"<{len(p)}I", *p))
            dev.tx.clear()
            if data is not None:
                dev.write(struct.pack("<2BH", 2, 0, len(data)) + data)
                dev.tx.clear()

        def rd(a, n):
            cmd(0x03, a, n, 0)
            return bytes(dev.mem[a][:n])

        cmd(0x0B)
        cmd(0x04, A, 16, 0, data=seed)
        cmd(0x16, 0x6000000, A, 16, B, 52)
        blob = rd(B, 52)
        chunks = [stream[i:i + 256] for i in range(0, len(stream), 256)]
        slen = X.sig_len(itype)
        head = struct.pack("<4s2H3IQ3I16s", b"sbvx", 0, 1, 0, len(chunks), X.BLOCK, ts, fw, X.MAN + slen, itype, desc)
        cmd(0x04, A, X.MAN + slen, 0, data=head + blob + bytes(32) + bytes(slen))
        enc = []
        for i, ch in enumerate(chunks, 1):
            cmd(0x04, B, 256, 0, data=ch)
            cmd(0x16, 0x6000001, A, X.MAN + slen, i, B, 256)
            enc.append(rd(B, 256))
        nxt, blocks = bytes(32), []
        for i in range(len(enc), 0, -1):
            b = struct.pack("<I", i) + nxt + enc[i - 1]
            blocks.insert(0, b)
            nxt = hashlib.sha256(b).digest()
        man = head + blob + nxt
        if itype == 2:
            cmd(0x04, A, X.MAN, 0, data=man)
            cmd(0x16, 0x6000002, A, X.MAN, B, 32)
            sig = rd(B, 32)
        else:
            sig = isk()["sign"](man)
        cmd(0x0B)
        good = man + sig + b"".join(blocks)
        if good != X.ref_container(seed, itype, 0, ts, fw, desc, stream, isk_sign=lambda m: sig):
            raise Machinery("canary: the device twin and the reference construction of the container disagree")
        inp = dict(base, mode="devhsm", type=itype)
        ev = dev.events + [{"ev": "Result", "kind": "ret", "exc": "none", "documented": True, "fileLen": len(good)}]
        rom = {"mode": "devhsm", "isk_pub": isk()["pub"]}
        out.append(({"id": f"c{itype}good", "inp": inp, "ev": ev + X.walk(good, rom)}, True))
        for name, pos in (("ts", 20), ("hash1", 110), ("sig", 145), ("num2", len(good) - X.BLOCK), ("data1", len(good) - 2 * X.BLOCK + 100), ("blob", 65)):
            bad = bytearray(good)
            bad[pos] ^= 0x10
            out.append(({"id": f"c{itype}{name}", "inp": dict(inp, waive=INPUT_CLAUSES), "ev": ev + X.walk(bytes(bad), rom)}, False))
        # the same good container, but the input says another command / another firmware version / the block count handed to the device was stale
        out.append(({"id": f"c{itype}fw", "inp": dict(inp, fw=W(fw + 1)), "ev": ev + X.walk(good, rom)}, False))
        cm2 = [dict(x) for x in inp["cmds"]]
        cm2[0] = dict(cm2[0], a=W(0x1004))
        out.append(({"id": f"c{itype}cmd", "inp": dict(inp, cmds=cm2), "ev": ev + X.walk(good, rom)}, False))
        ev2 = [dict(e, hdr=dict(e["hdr"], blockCount=1)) if e["ev"] == "EncBlk" else e for e in ev]
        out.append(({"id": f"c{itype}cnt", "inp": inp, "ev": ev2 + X.walk(good, rom)}, False))
        # a device event out of order: the block encrypted before the session exists is claimed to have succeeded
        ev3 = [e for e in ev if e["ev"] != "CreateSession"]
        out.append(({"id": f"c{itype}nosess", "inp": inp, "ev": ev3 + X.walk(good, rom)}, False))
        # success although the device refused a command
        ev4 = [dict(e, status=10101, fault="status") if e["ev"] == "Sign" else e for e in ev] if itype == 2 else [dict(e, kind="exc", exc="RuntimeError", documented=False) if e["ev"] == "Result" else e for e in ev]
        out.append(({"id": f"c{itype}false", "inp": inp, "ev": ev4 + (X.walk(good, rom) if itype == 2 else [])}, False))
    # the plain (unsigned, unencrypted) form of the off-line export
    blob = X.make_blob(seed)
    plain = X.ref_container(seed, 2, 5, ts, fw, desc, stream, encrypt=False, blob=blob)
    inp = dict(base, mode="plain", type=2, flags=W(5))
    rom = {"mode": "plain", "blob": blob}
    pb = {"ev": "ParseBack", "kind": "ret", "exc": "none", "documented": True, "validOk": True, "reexportSame": True,
          "fields": {"blockCount": len(stream) // 256, "totalLen": 172, "imageType": 2, "ts": X.limbs(ts, 4), "fw": W(fw), "flags": W(5)}}
    out.append(({"id": "cpgood", "inp": inp, "ev": X.walk(plain, rom) + [pb]}, True))
    bad = bytearray(plain)
    bad[-X.BLOCK + 10] ^= 1                     # the last block's next-hash field is not zero (the chain above it is re-linked)
    nxt = hashlib.sha256(bytes(bad[-X.BLOCK:])).digest()
    for i in range(len(stream) // 256 - 1, 0, -1):
        o = 172 + (i - 1) * X.BLOCK
        bad[o + 4:o + 36] = nxt
        nxt = hashlib.sha256(bytes(bad[o:o + X.BLOCK])).digest()
    bad[108:140] = nxt
    out.append(({"id": "cpstale", "inp": inp, "ev": X.walk(bytes(bad), rom) + [pb]}, False))
    out.append(({"id": "cpparse", "inp": inp, "ev": X.walk(plain, rom) + [dict(pb, validOk=False)]}, False))
    out.append(({"id": "cpsig", "inp": inp, "ev": X.walk(plain[:150] + b"\x01" + plain[151:], rom) + [pb]}, False))
    for t, _ in out:
        t["ev"] = t["ev"] + [{"ev": "Fin"}]
    rej, res = tlc.tv("SYS", "SbxRomTrace", [t for t, _ in out], libs=LIBS)
    check_complete(res, len(out))
    wrong = [t["id"] for t, good_ in out if (t["id"] in rej) == good_]
    if wrong:
        raise Machinery(f"SB-X canary failed (good traces must be accepted, corrupted ones rejected): {wrong} {[(k, v) for k, v in rej.items() if k in wrong]}")
    return {"accepted": sum(1 for _, g in out if g), "rejected": sum(1 for _, g in out if not g)}


# ------------------------------------------------------------------ design model
def model_check():
    cfgs = [("SbxFlow_ideal.cfg", None), ("SbxFlow_stalecount.cfg", "HandedHeaderValid"), ("SbxFlow_stalehash.cfg", "ChainEndsWithZero"),
            ("SbxFlow_signearly.cfg", "LoaderAccepts"), ("SbxFlow_noreset.cfg", "SecondRunNeedsReset"), ("SbxFlow_reach.cfg", "Reach")]
    res = prun([("run", ("SYS", "SbxFlow", cfg), {"workers": 1, "deadlock": False, "coverage": cfg == "SbxFlow_ideal.cfg", "timeout": 300}) for cfg, _ in cfgs])
    out = {}
    for (cfg, want), g in zip(cfgs, res):
        out[cfg] = {"violated": g.violated, "distinct": g.distinct, "generated": g.generated}
        if g.violated != want:
            raise Machinery(f"SbxFlow {cfg}: violated={g.violated}, expected {want}\n{g.out[-1500:]}")
        if want is None:
            need = ["HostGenShare", "DevCreate", "HostLoadBlob", "HostHandHeader", "DevEnc", "HostChain", "HostUpdateHeader", "HostSign", "DevSign", "HostAssemble",
                    "HostReset", "LoaderWalk"]
            vac = [a for a in need if g.coverage.get(a, (0, 0))[1] == 0]
            if vac or not g.no_error:
                raise Machinery(f"SbxFlow: vacuous actions {vac} / not completed\n{g.out[-1200:]}")
    return out


# ------------------------------------------------------------------ tampering: does the loader model cover every byte?
def tamper(samples, tier):
    r = rng("SYS", "sbx-tamper")
    traces, meta = [], {}
    for t in samples:
        files = t.get("hex") or []
        if not files or not files[-1]:
            continue
        d = bytes.fromhex(files[-1])
        cut = max(i for i, e in enumerate(t["ev"]) if e["ev"] == "Result") + 1
        rom = {"mode": "devhsm", "isk_pub": isk()["pub"]}
        for name, a, b in X.regions(d):
            for j in range(3 if tier == "thorough" else 1):
                pos, bit = r.randrange(a, b), r.randrange(8)
                bad = bytearray(d)
                bad[pos] ^= 1 << bit
                tid = f"{t['id']}f{len(traces)}"
                traces.append({"id": tid, "inp": dict(t["inp"], waive=INPUT_CLAUSES), "ev": t["ev"][:cut] + X.walk(bytes(bad), rom) + [{"ev": "Fin"}]})
                meta[tid] = name
    if not traces:
        raise Machinery("no container to tamper with")
    rej, st = tv(traces)
    missed = sorted({meta[t["id"]] for t in traces if t["id"] not in rej})
    # the description / flags / firmware version are covered by the signature; a flip must be noticed by the loader's own checks in every region
    if missed:
        raise Machinery(f"the loader model accepts containers with one bit flipped in {missed}")
    return {"tampered": len(traces), "rejected": len(rej), "regions": sorted(set(meta.values()))}, st


# ------------------------------------------------------------------ run
def run(tier):
    t0 = time.time()
    import_spsdk()
    anchors()
    can = canary()
    mc = model_check() if os.path.exists(os.path.join(ROOT, "spec", "SYS", "SbxFlow.tla")) else {}
    say(f"[SYS/sbx] canary {can}; design model: {', '.join(k[8:-4] + ('=refuted:' + str(v['violated']) if v['violated'] else '=holds') for k, v in mc.items())}")
    ph = {"canary+mc": round(time.time() - t0, 1)}
    t1 = time.time()
    cases, gstat = gen(tier)
    ph["gen"] = round(time.time() - t1, 1)
    t1 = time.time()
    concs = [concretise(c, f"k{i}") for i, c in enumerate(cases)]
    by_cid = {c["cid"]: c for c in concs}
    import spsdk.sbfile.sbx.devhsm  # noqa: F401  (warm the import + database before forking)
    from spsdk.utils.database import DatabaseManager

    DatabaseManager().db  # noqa: B018
    res = pmap(run_case, concs, chunksize=6)
    traces = [t for ts in res for t in ts]
    ph["execute"] = round(time.time() - t1, 1)
    t1 = time.time()
    rej, stats = tv(traces)
    ph["tv"] = round(time.time() - t1, 1)
    t1 = time.time()
    # quick tier: of the traces rejected at the same action for the same class of case, a sample is carried on past the deviation (4 per group quick, 30 thorough)
    by = {t["id"]: t for t in traces}
    groups = {}
    for tid in sorted(rej):
        t, case = by[tid], by_cid[by[tid]["cid"]]["case"]
        m, _, evname = rej[tid]
        nb = max((e["blockCount"] for e in t["ev"] if e["ev"] == "ParseHeader"), default=0)
        groups.setdefault((case["route"], evname, case["type"] == 2, run_of(t, m), case["fault"][1], case["tsc"] == "zero", nb > 1), []).append(tid)
    cap = 30 if tier == "thorough" else 4
    rs = rng("SYS", "sbx-diag")
    chosen = {tid for g, ids in sorted(groups.items()) for tid in (ids if len(ids) <= cap else rs.sample(ids, cap))}
    found = diagnose(traces, {k: v for k, v in rej.items() if k in chosen}, stats) if rej else {}
    ph["diagnose"] = round(time.time() - t1, 1)
    t1 = time.time()
    classes = {}
    for tid, lst in found.items():
        t = by[tid]
        case = by_cid[t["cid"]]["case"]
        for idx, evname, clause in lst:
            key = key_of(t, case, idx, evname, clause)
            classes.setdefault(key, []).append({"case": case, "id": tid, "event": idx})
    # tampering on a sample of accepted device containers (kept with their bytes)
    acc = [t for t in traces if t["id"] not in rej and t["run"] == 0 and any(e["ev"] == "Accept" for e in t["ev"])]
    r = rng("SYS", "sbx-sample")
    pick = r.sample(acc, min(len(acc), 12 if tier == "thorough" else 4)) if acc else []
    kept = [run_dev(by_cid[t["cid"]], keep=True) for t in pick]
    tam, st2 = tamper(kept, tier) if kept else ({"tampered": 0, "rejected": 0, "regions": []}, [])
    stats += st2
    ph["tamper"] = round(time.time() - t1, 1)
    reach = {"traces": len(traces), "accepted_at_once": len(traces) - len(rej), "device_runs": sum(1 for t in traces if t["run"] == 0),
             "cli_runs": sum(1 for t in traces if by_cid[t["cid"]]["case"]["route"] == "cli"), "exports": sum(1 for t in traces if t["run"] > 0),
             "walked_to_accept": sum(1 for t in traces for e in t["ev"] if e["ev"] == "Accept"),
             "blocks_max": max((e["i"] for t in traces for e in t["ev"] if e["ev"] == "Block"), default=0),
             "commands_decoded": sum(1 for t in traces for e in t["ev"] if e["ev"] == "Cmd"),
             "device_commands": sum(1 for t in traces for e in t["ev"] if e["ev"] in ("Write", "Read", "CreateSession", "EncBlk", "Sign", "Reset")),
             "faulted_runs": sum(1 for t in traces if any(e.get("fault", "none") != "none" for e in t["ev"]))}
    if reach["walked_to_accept"] < len(traces) // 2 or reach["blocks_max"] < 3 or reach["faulted_runs"] < 20:
        raise Machinery(f"the lane did not reach what it is built to reach: {reach}")
    out = {"lane": LANE, "tier": tier, "seed": os.environ.get("VERIF_SEED", "0"), "repo": os.environ.get("VERIF_REPO", "/repo"), "design_model": mc, "canary": can, "gen": gstat,
           "executions": len(traces), "rejected": len(rej), "rejected_carried_on": len(chosen), "rejection_groups": len(groups), "reach": reach, "tamper": tam,
           "tlc": {"trace_validation_runs": len(stats), "states": sum(s["distinct"] for s in stats) + sum(v["distinct"] for v in mc.values()) + gstat["states"],
                   "traces_validated": sum(s["n"] for s in stats)},
           "classes": {k: {"count": len(v), "example": v[0]} for k, v in sorted(classes.items())}, "phases_s": ph, "wall_s": round(time.time() - t0, 1)}
    os.makedirs(os.path.join(ROOT, "evidence", "extras"), exist_ok=True)
    for name in ("sys_sbx.json", "sbx.json"):
        with open(os.path.join(ROOT, "evidence", "extras", name), "w") as f:
            json.dump(out, f, indent=1)
    for k, v in sorted(classes.items()):
        say(f"OBSERVATION: {LANE} {k} ({len(v)}x, e.g. {json.dumps(v[0]['case'], separators=(',', ':'))[:230]})")
    bad = [k for k in classes if "/HarnessError/" in k or "/ExecutorStop/" in k or k.split("/")[1] in ("Write", "Read", "EncBlk", "Sign", "Reset", "Other", "NextRun", "DeriveKdk")]
    if bad:
        raise Machinery(f"the harness / the device twin and the reference model disagree: {bad}")
    say(f"[SYS/sbx] tier={tier} cases={len(cases)} traces={len(traces)} rejected={len(rej)} observation classes={len(classes)} tampered={tam['tampered']} "
        f"tlc states={out['tlc']['states']} phases={ph} wall={out['wall_s']}s (observations only - not a listed property)")
    return 0


def replay(path):
    return run(os.environ.get("VERIF_TIER") or "quick")
