"""C17 - secrets SPSDK invents are fresh for every artefact (within one interpreter and across interpreters).

spec/C17/Fresh.tla     R-spec: artefacts, their secret-bearing fields, Construct / Export / Restart with the two clauses of the
                       property as guards (NoSharedSecret, NoNonceReuse); the same clauses as state invariants
 FreshMC.tla           MC  : Fresh driven by the ideal generator - invariants hold, every action fires
 FreshImpl.tla         I-spec: WHEN each kind draws (import / construction / export / constant) as built; TLC predicts the reuse
 FreshGen.tla          GEN : all histories of <= D builds over the menu (kinds x how x user-supplied fields), each building new
                             object(s) or configuring the object of a live artefact AGAIN (Reconfigure, kinds whose load_from_config is a
                             method of the object), with restarts; -simulate for free interleavings of Construct / Reconfigure / Export / Restart;
                             the OPTION LANE: for every entry point with option arguments (OTFAD context flags, IEE lock / key size / mode,
                             BEE engine selection / composition, SB2 signed / SHA / time stamp, ...) histories that walk through ALL option
                             combinations of Fresh!Opts, each built and exported twice (in one interpreter / across a restart);
                             the CONFIGURATION entry points (dictionary, BD command file, YAML file through the nxpimage command line) have
                             every subset of the pinnable secrets in the menu (SB2.1: each of dek / mac / nonce on its own) and the options
                             that sit beside them in Opts (zeroPadding x timestamp; MBI: hardware keys x values as hex / as files), so the
                             option lane builds every (pinned subset x neighbouring options) combination twice; Fresh!Fixed names the
                             fields an option hands to the user (zeroPadding: the padding), everything else that was not pinned is asserted
 FreshTrace.tla        TV  : batch trace validation of id-canonicalised histories observed on the real code

Kinds of artefacts (menu of Fresh.tla): SB2.0 / SB2.1 through the classes and through load_from_config, SB2.1 from a COMMAND FILE with keyblob
definitions and keywrap / encrypt statements (SB21KW: BD text and YAML form; the filler of every wrapped OTFAD key blob is a secret-bearing
field, read by decoding the exported file with the independent boot-ROM executor of C04 and unwrapping the keywrap loads with the key-blob
loader of the C13 hardware model), encrypted MBI, OTFAD / IEE / BEE key blobs, HAB (configuration and legacy class), load_hex_string.

A build can emit SEVERAL artefacts (Fresh!Parts: a BEE build for both engines writes two region headers): every part is an artefact of
its own in the trace (one Construct event per part, one Export event per exported file) and the clauses of Fresh hold between the parts
of one build exactly as between artefacts of different builds.

Python only EXECUTES: every interpreter segment of a history runs in a fresh interpreter (harness/c17_child.py) in which
spsdk.crypto.rng.token_bytes is wrapped before anything else of spsdk is imported; secrets are read from public attributes and
from the exported bytes (independent readers), every distinct byte string is replaced by the index of its first occurrence, and
TLC decides every history against Fresh.  The draw log only explains a rejection (drawn at import, ...), it never causes one.
"""
import hashlib
import json
import os
import subprocess
import sys
import threading
import time

from lib import tlc
from lib.common import REPO, ROOT, Machinery, rng, say, scratch, seed
from lib.par import pmap
from lib.partlc import install, parallel
from lib.verdict import Verdict

PROP = "C17"
KEYS = os.path.join(ROOT, "keys", "sb21")
HABKEYS = os.path.join(ROOT, "anchors", "C17", "hab")
CHILD = os.path.join(os.path.dirname(os.path.abspath(__file__)), "c17_child.py")

# the menu of spec/C17/Fresh.tla (kind, how, user-supplied fields, base) is printed by TLC (GEN histories carry it); this copy is
# only used to build the long homogeneous / mixed histories and is cross-checked against the histories TLC emits
FIELDS = {"SB20": ["dek", "mac", "nonce", "hpad", "kpad"], "SB21": ["dek", "mac", "nonce", "hpad"],
          "SB21KW": ["dek", "mac", "nonce", "hpad", "filler1", "filler2"], "MBI": ["key", "ctr_iv"],
          "OTFAD": ["key", "ctr", "filler"], "IEE": ["key1", "key2"], "IEECTR": ["key1", "key2"],
          "BEE": ["sw_key", "counter", "kib_key", "kib_iv"], "HAB": ["dek", "nonce"], "HABRT": ["dek", "nonce"], "HEX": ["value"]}
NARROW = {"OTFAD": ["filler"], "SB21KW": ["filler1", "filler2"]}   # < 64 bit: asserted only in histories with few constructions (birthday bound, see assumptions)
NARROW_MAX_ARTS = 8
RECONF = {"MBI"}                     # Reconf of Fresh.tla (cross-checked against the histories TLC emits): the object can be configured again
BUILDS = ("Construct", "Reconfigure")  # the steps of a history that build an artefact
USER_FIELDS = [("sb_dek", 32), ("sb_mac", 32), ("sb_nonce", 16), ("mbi_key", 32), ("mbi_ctr_iv", 16), ("otfad_key", 16), ("otfad_ctr", 8),
               ("iee_key1", 64), ("iee_key2", 64), ("bee_sw_key", 16), ("bee_sw_key2", 16), ("hab_dek", 32), ("hab_nonce", 13), ("habrt_dek", 16)]
DFLT_MULTI = set()                   # menu items of the base menu whose build emits several artefacts (Fresh!Parts), as TLC emits them
DFLT = {}                            # (kind, how) -> default option combination, Dflt of Fresh.tla as TLC prints it (set by run() / replay())
FIXED = {}                           # (kind, how, option combination) -> fields the combination hands to the user, Fixed of Fresh.tla as TLC prints it
                                     # (used only to NAME the fields of a trace TLC rejected: a finding key never names such a field)


def given(kind, how, ex, opt):
    """the fields that are the user's in a build: supplied, or determined by an option (Fresh!Given)"""
    return list(ex) + [f for f in FIXED.get((kind, how, tuple(opt or ())), ()) if f not in ex]


def how_key(kind, how, opt):
    """<how> of a finding key: the entry point, plus the option combination when it is not the default one of the entry point."""
    opt = list(opt or [])
    return how if opt == list(DFLT.get((kind, how), opt)) else f"{how}[{'+'.join(opt)}]"


def first_part(s):
    """the step starts a build (a further part of a build that emits several artefacts does not)"""
    return s["op"] in BUILDS and s.get("part", 1) == 1


def user_values():
    """What 'the user' supplies: one fixed value per field, used every time the field is user-supplied (worst case for nonce reuse)."""
    u = {}
    for name, n in USER_FIELDS:
        v = hashlib.sha512(f"{seed()}|C17|user|{name}".encode()).digest()[:n]
        if name == "sb_nonce":  # SB2 nonces have bits 31 / 63 of the counter words clear (documented)
            b = bytearray(v)
            b[9] &= 0x7F
            b[13] &= 0x7F
            v = bytes(b)
        u[name] = v.hex()
    return u


# ------------------------------------------------------------------------------------------------ running interpreters
_ENV = None


def child_env():
    global _ENV
    if _ENV is None:
        sc = scratch()
        e = dict(os.environ)
        e["PYTHONPATH"] = REPO
        e["SPSDK_CACHE_FOLDER"] = os.path.join(sc, "spsdk-cache")
        e["PYTHONPYCACHEPREFIX"] = os.path.join(sc, "pyc")
        for k in ("PYTHONDONTWRITEBYTECODE", "PYTHONHASHSEED"):  # a user's interpreter: own hash seed, byte code cached (outside /repo)
            e.pop(k, None)
        os.makedirs(e["SPSDK_CACHE_FOLDER"], exist_ok=True)
        _ENV = e
    return _ENV


FORK_OK = [False]   # set by preload(): the harness process holds the third-party modules SPSDK needs and nothing of spsdk


def preload(modules):
    """Import what a finished SPSDK interpreter had loaded from outside spsdk, so that forked interpreters only pay for spsdk itself."""
    import importlib

    for m in modules:
        if m.startswith(("spsdk", "c17", "lib", "main", "encodings.idna")) or m in sys.modules:
            continue
        try:
            importlib.import_module(m)
        except BaseException:  # noqa: BLE001 - optional accelerators, platform modules ...
            pass
    FORK_OK[0] = not any(m == "spsdk" or m.startswith("spsdk.") or m.startswith("spsdk_") for m in sys.modules)
    return FORK_OK[0]


def run_segment_fork(steps, workdir, fake=""):
    """The same executor inside a forked process: an interpreter in which nothing of spsdk has been imported yet."""
    import io
    import runpy
    import traceback

    job = {"repo": REPO, "dir": workdir, "keys": KEYS, "hab": HABKEYS, "user": user_values(), "fake_rng": fake, "steps": steps}
    rd, wr = os.pipe()
    pid = os.fork()
    if pid == 0:
        code = 0
        try:
            os.close(rd)
            env = child_env()
            os.environ["SPSDK_CACHE_FOLDER"] = env["SPSDK_CACHE_FOLDER"]
            sys.pycache_prefix = env["PYTHONPYCACHEPREFIX"]
            sys.dont_write_bytecode = False
            sys.stdin = io.StringIO(json.dumps(job))
            buf = io.StringIO()
            sys.stdout = buf
            try:
                runpy.run_path(CHILD, run_name="__main__")
            except SystemExit:
                pass
            data = buf.getvalue()
        except BaseException:  # noqa: BLE001
            data = json.dumps({"fatal": "forked executor crashed: " + traceback.format_exc()[-1500:]})
            code = 1
        try:
            with os.fdopen(wr, "wb") as f:
                f.write(data.encode())
        finally:
            os._exit(code)
    os.close(wr)
    with os.fdopen(rd, "rb") as f:
        raw = f.read()
    os.waitpid(pid, 0)
    try:
        res = json.loads(raw)
    except Exception as x:  # noqa: BLE001
        raise Machinery(f"forked executor produced no result: {raw[-500:]!r}") from x
    if "fatal" in res:
        raise Machinery(res["fatal"])
    return res


def run_segment(steps, workdir, fake="", timeout=600, report_modules=False):
    job = {"repo": REPO, "dir": workdir, "keys": KEYS, "hab": HABKEYS, "user": user_values(), "fake_rng": fake, "steps": steps,
           "report_modules": report_modules}
    try:
        p = subprocess.run([sys.executable, CHILD], input=json.dumps(job), capture_output=True, text=True, env=child_env(), timeout=timeout)
    except subprocess.TimeoutExpired as x:
        raise Machinery(f"interpreter segment timed out after {timeout}s: {steps[:3]}...") from x
    try:
        res = json.loads(p.stdout)
    except Exception as x:  # noqa: BLE001
        raise Machinery(f"executor produced no result (rc={p.returncode}): {p.stderr[-1500:]}") from x
    if "fatal" in res:
        raise Machinery(res["fatal"])
    return res


def segments(hist):
    segs, cur = [], []
    for st in hist:
        if st["op"] == "Restart":
            if cur:
                segs.append(cur)
            cur = []
        else:
            cur.append(st)
    if cur:
        segs.append(cur)
    return segs


def execute(item):
    """Run one history on the real code -> trace for TLC + side information.  item = (hid, hist, fake)"""
    hid, hist, fake = item
    t_start = time.time()
    forked = FORK_OK[0] and hid.startswith("f")   # "f..." ids: short histories without restart; all others get a new process image per segment
    ids, where, evs, info = {}, {}, [], {"errors": [], "phases": [], "forked": forked}
    kinds, given_of = {}, {}
    narts = sum(1 for s in hist if s["op"] in BUILDS)
    base = os.path.join(scratch(), "c17", hid)
    seen_kind = {}
    hist = [dict(s) for s in hist]
    for s in hist:  # input image of the build: alternates per kind, so a history has builds with different and (from the third on) with identical inputs
        if first_part(s):
            s["variant"] = seen_kind.get(s["kind"], 0) % 2
            seen_kind[s["kind"]] = seen_kind.get(s["kind"], 0) + 1
    for si, seg in enumerate(segments(hist)):
        if si:
            evs.append({"ev": "Restart"})
        res = (run_segment_fork if forked else run_segment)(seg, base, fake)  # one project directory for the whole history
        evs.append({"ev": "Import", "n": len(res["import_draws"])})
        # calls of token_bytes in this interpreter (a fake generator of the end-to-end canary starts anew in every interpreter)
        info["ndraws"] = max(info.get("ndraws", 0), len(res["import_draws"]) + sum(len(rec.get("draws", [])) for rec in res["steps"]))
        drawn, expl = {}, {}  # value hex (and the documented derived forms of a draw) -> phase of its first draw in this interpreter

        def note(ph, n, hx):
            drawn.setdefault(hx, ph)
            if n == 16:  # SB2 nonce: bits 31 / 63 of the counter words are cleared after the draw
                m = bytearray(bytes.fromhex(hx))
                m[9] &= 0x7F
                m[13] &= 0x7F
                drawn.setdefault(bytes(m).hex(), ph)
            if n == 12:  # BEE counter: 12 drawn bytes + 4 zero bytes
                drawn.setdefault(hx + "00000000", ph)

        for ph, n, hx in res["import_draws"]:
            note("import", n, hx)
        for st, rec in zip(seg, res["steps"]):
            if "error" in rec:
                info["errors"].append({"step": st, "error": rec["error"], "tb": rec.get("tb", "")})
                return {"id": hid, "ev": evs, "failed": True}, info
            for ph, n, hx in rec["draws"]:
                note(ph, n, hx)
            if st["op"] == "Construct":
                kinds[st["art"]] = (st["kind"], how_key(st["kind"], st["how"], st.get("opt")), list(st["ex"]))
                given_of[st["art"]] = given(st["kind"], st["how"], st["ex"], st.get("opt"))
            elif st["op"] == "Reconfigure":  # reported under its own <how>: the artefact of an object that was configured again
                kinds[st["art"]] = (st["kind"], "reconfig", list(st["ex"]))
            kind, how, ex = kinds[st["art"]]
            f, skip = {}, []
            for name, hx in rec["fields"].items():
                if name in NARROW.get(kind, []) and narts > NARROW_MAX_ARTS:
                    skip.append(name)
                    continue
                if hx not in expl:
                    expl[hx] = explain_draw(hx, drawn)
                if hx not in ids:
                    ids[hx] = len(ids) + 1
                    where[ids[hx]] = {"hex": hx, "first": f"{st['op']}#{st['art']}/{kind}/{how}/{name}", "drawn": expl[hx]}
                f[name] = ids[hx]
                if name not in given_of.get(st["art"], ex):
                    info["phases"].append((kind, how, "+".join(ex), name, phase_class(expl[hx])))
            if st["op"] == "Construct":
                evs.append({"ev": "Construct", "art": st["art"], "kind": kind, "how": st["how"], "ex": ex, "opt": list(st.get("opt", [])),
                            "part": st.get("part", 1), "f": f, "x": []})
            elif st["op"] == "Reconfigure":
                evs.append({"ev": "Reconfigure", "art": st["art"], "of": st["of"], "kind": kind, "ex": ex, "f": f, "x": []})
            else:
                evs.append({"ev": "Export", "art": st["art"], "f": f, "skip": skip, "seen": list(rec.get("seen", [])), "x": []})
    info["where"] = where
    info["wall"] = round(time.time() - t_start, 2)
    info["kinds"] = {str(k): v for k, v in kinds.items()}
    return {"id": hid, "ev": evs}, info


def explain_draw(hx, drawn):
    """Where the value was drawn in this interpreter (only used to explain a rejection and to measure drift of the I-spec)."""
    if hx in drawn:
        return drawn[hx]
    if not any(bytes.fromhex(hx)):
        return "constant zero"
    for d, ph in drawn.items():
        if len(d) > len(hx) and hx in d and d.index(hx) % 2 == 0:
            return f"{ph} (bytes {d.index(hx) // 2}..{d.index(hx) // 2 + len(hx) // 2} of a {len(d) // 2}-byte draw)"
    return "not drawn through spsdk.crypto.rng in this interpreter"


def phase_class(ph):
    if ph.startswith("import"):
        return "import"
    if ph.startswith("Construct#"):
        return "construct"
    if ph.startswith("Export#"):
        return "export"
    if ph == "constant zero":
        return "const"
    return "other"


# ------------------------------------------------------------------------------------------------ deciding (TLC) and explaining
def culprits(trace, upto):
    """Name the fields of event #upto (0-based) whose value another artefact carries - used ONLY to derive the finding key of a
    trace TLC has rejected (and to notice a rejection that is not about freshness at all: structure -> machinery)."""
    has, kinds = {}, {}
    for e in trace["ev"][:upto]:
        if e["ev"] == "Construct":
            kinds[e["art"]] = (e["kind"], how_key(e["kind"], e["how"], e.get("opt")), given(e["kind"], e["how"], e["ex"], e.get("opt")))
        if e["ev"] == "Reconfigure":
            kinds[e["art"]] = (e["kind"], "reconfig", e["ex"])
        if e["ev"] in ("Construct", "Reconfigure", "Export"):
            has.setdefault(e["art"], set()).update(e["f"].values())
    e = trace["ev"][upto]
    if e["ev"] not in ("Construct", "Reconfigure", "Export"):
        return None, []
    kind, how, ex = ((e["kind"], how_key(e["kind"], e["how"], e.get("opt")), given(e["kind"], e["how"], e["ex"], e.get("opt"))) if e["ev"] == "Construct" else (e["kind"], "reconfig", e["ex"]) if e["ev"] == "Reconfigure"
                     else kinds.get(e["art"], (None, None, None)))
    if kind is None:
        return None, []
    bad = []
    for name, v in e["f"].items():
        if name in ex or name in e.get("x", []):
            continue
        owners = sorted(a for a, s in has.items() if a != e["art"] and v in s)
        if owners:
            bad.append((name, v, owners))
    return (kind, how), bad


def apply_excuses(trace, excused):
    kinds = {}
    for e in trace["ev"]:
        if e["ev"] == "Construct":
            kinds[e["art"]] = (e["kind"], how_key(e["kind"], e["how"], e.get("opt")))
        if e["ev"] == "Reconfigure":
            kinds[e["art"]] = (e["kind"], "reconfig")
        if e["ev"] in ("Construct", "Reconfigure", "Export") and e["art"] in kinds:
            k, h = kinds[e["art"]]
            e["x"] = sorted(f for (kk, hh, f) in excused if kk == k and hh == h and f in e["f"])


def decide(v, traces, infos, label):
    """TLC decides all traces; rejected traces are reported under keys C17/<kind>/<how>/<field>.  Fields already reported under a
    key that known_findings.jsonl lists are excused in the following round so that they do not mask other fields / later events."""
    pending = [t for t in traces if not t.get("failed")]
    failed = [t for t in traces if t.get("failed")]
    if failed:
        i = infos[failed[0]["id"]]
        raise Machinery(f"{len(failed)} histories could not be executed, e.g. {failed[0]['id']}: {i['errors'][0]['error']}\n{i['errors'][0]['tb']}")
    excused = set(v.extra.get("_excused", []))
    total = len(pending)
    for t in pending:
        apply_excuses(t, excused)
    for rnd in range(12):
        if not pending:
            break
        rej, res = tv_checked(pending, heap="8g", timeout=1800)
        say(f"[C17]   TV round {rnd + 1}: {len(pending)} traces, {len(rej)} rejected, {res.distinct} states")
        v.extra["tv_states"] = v.extra.get("tv_states", 0) + res.distinct
        by_id = {t["id"]: t for t in pending}
        again, new_exc, unexplained = [], set(), []
        for tid, (matched, length, evname) in sorted(rej.items(), key=lambda kv: (len(by_id[kv[0]]["ev"]), kv[0])):  # shortest witness first
            t = by_id[tid]
            who, bad = culprits(t, matched) if matched < len(t["ev"]) else (None, [])
            if who is None or not bad:
                unexplained.append((tid, matched, evname))
                continue
            kind, how = who
            all_known = True
            for name, val, owners in bad:
                key = f"C17/{kind}/{how}/{name}"
                w = infos[tid].get("where", {}).get(val, {})
                owner_desc = [infos[tid]["kinds"].get(str(o)) for o in owners[:3]]
                what = (f"history {tid}: {evname} of artefact #{t['ev'][matched]['art']} ({kind} via {how}) carries a self-chosen `{name}` that artefact(s) "
                        f"{owners[:3]} {owner_desc} already carried; value first seen at {w.get('first')}, drawn: {w.get('drawn')}")
                new = v.violation(key, what, {"history": infos[tid]["hist"], "trace": t, "failed_event": matched + 1, "field": name,
                                              "value": w, "fake_rng": infos[tid].get("fake", ""), "dflt": {f"{k}/{h}": list(o) for (k, h), o in DFLT.items()},
                                              "fixed": [[k, h, list(o), list(f)] for (k, h, o), f in sorted(FIXED.items())]})
                if new:
                    all_known = False
                else:
                    new_exc.add((kind, how, name))
            if all_known:
                again.append(t)
        if unexplained:
            # rejected, but not for a value two artefacts share (e.g. the exported bytes show an option the history did not ask for).  On a tree
            # whose histories are accepted otherwise that is the executor not following the spec: machinery.  On a tree that already shows
            # violations of the property in this run it is one more consequence of the defect (options that stick from build to build ...):
            # recorded, not decided - the run ends with the violations it has.
            tid, matched, evname = unexplained[0]
            t = by_id[tid]
            if not v.violations:
                raise Machinery(f"trace {tid} rejected at event #{matched + 1} ({evname}) for a reason that is not a shared value "
                                f"(the executor's trace does not follow the spec): {json.dumps(t['ev'][min(matched, len(t['ev']) - 1)])[:400]}")
            v.extra.setdefault("rejected_not_for_a_shared_value", []).extend(
                {"history": u[0], "event": u[1] + 1, "ev": u[2], "logged": by_id[u[0]]["ev"][min(u[1], len(by_id[u[0]]["ev"]) - 1)]} for u in unexplained[:20])
            say(f"[C17]   {len(unexplained)} trace(s) rejected for a reason that is not a shared value (e.g. {tid} at event #{matched + 1}, {evname}): "
                f"recorded, not decided - this tree already shows violations")
            total -= len(unexplained)
        if not again:
            break
        excused |= new_exc
        for t in again:
            apply_excuses(t, excused)
        pending = again
    else:
        raise Machinery("excuse loop did not converge")
    v.extra["_excused"] = sorted(excused)
    v.traces(total)
    say(f"[C17] {label}: {total} histories decided by TLC ({v.timer.s()}s)")


def tv_checked(traces, **kw):
    """tlc.tv plus the demand that TLC really finished the batch without any error (an aborted run prints no REJ line at all)."""
    # long histories make TLC recurse deeply (a marginal default thread stack overflowed under load): give the JVM threads room
    kw["env"] = dict(kw.get("env") or {}, JAVA_TOOL_OPTIONS=(os.environ.get("JAVA_TOOL_OPTIONS", "") + " -Xss128m").strip())
    rej, res = tlc.tv("C17", "FreshTrace", traces, **kw)
    errs = [l for l in res.out.splitlines() if "Error" in l or "Exception" in l]
    if not res.no_error or errs or res.distinct < len(traces):
        raise Machinery(f"trace validation did not run cleanly ({len(traces)} traces, {res.distinct} states): {errs[:3]}\n" + "\n".join(res.out.splitlines()[-60:]))
    return rej, res


# ------------------------------------------------------------------------------------------------ canaries
def T_import():
    return {"ev": "Import", "n": 0}


def canary(v):
    # the option combinations are written out here (cross-checked by TLC: an unknown one is rejected)
    dflt = {("OTFAD", "ctor"): ["ade", "vld"], ("MBI", "config"): ["hwk0", "hex"], ("SB21KW", "bd"): ["rndpad", "now"], ("SB21KW", "config"): ["rndpad", "now"]}
    rn, zn, zt = ["rndpad", "now"], ["zeropad", "now"], ["zeropad", "ts"]

    def con(a, kind, how, ex, f, opt=None, part=1):
        return {"ev": "Construct", "art": a, "kind": kind, "how": how, "ex": ex, "opt": dflt.get((kind, how), []) if opt is None else opt, "part": part, "f": f, "x": []}

    def exp(a, f, skip=(), seen=None):
        return {"ev": "Export", "art": a, "f": f, "skip": list(skip), "seen": (["ade", "vld"] if len(f) == 3 and "filler" in f else []) if seen is None else seen, "x": []}

    def rcf(a, of, kind, ex, f):
        return {"ev": "Reconfigure", "art": a, "of": of, "kind": kind, "ex": ex, "f": f, "x": []}

    good = [T_import(), con(1, "OTFAD", "ctor", [], {"key": 1, "ctr": 2}), exp(1, {"key": 1, "ctr": 2, "filler": 3}), exp(1, {"key": 1, "ctr": 2, "filler": 4}),
            {"ev": "Restart"}, T_import(), con(2, "OTFAD", "ctor", ["key"], {"key": 5, "ctr": 6}), exp(2, {"key": 5, "ctr": 6, "filler": 7}),
            con(3, "OTFAD", "ctor", ["key"], {"key": 5, "ctr": 8}), exp(3, {"key": 5, "ctr": 8, "filler": 9}),
            con(4, "MBI", "config", ["key", "ctr_iv"], {"key": 10, "ctr_iv": 11}), con(5, "MBI", "config", ["key", "ctr_iv"], {"key": 10, "ctr_iv": 11}),
            # [12..17] one object configured again and again: self-chosen IV, self-chosen again, the user's IV, self-chosen again
            con(6, "MBI", "config", ["key"], {"key": 10, "ctr_iv": 12}), exp(6, {"key": 10, "ctr_iv": 12}),
            rcf(7, 6, "MBI", ["key"], {"key": 10, "ctr_iv": 13}), exp(7, {"key": 10, "ctr_iv": 13}),
            rcf(8, 7, "MBI", ["key", "ctr_iv"], {"key": 10, "ctr_iv": 11}), rcf(9, 8, "MBI", ["key"], {"key": 10, "ctr_iv": 14}),
            # [18..24] SB2.1 files from command files with two keywrap statements: everything self-chosen; DEK / MAC / nonce the user's, twice
            con(10, "SB21KW", "bd", [], {"dek": 15, "mac": 16, "nonce": 17}),
            exp(10, {"dek": 15, "mac": 16, "nonce": 17, "hpad": 18, "filler1": 19, "filler2": 20}, seen=rn),
            con(11, "SB21KW", "config", ["dek", "mac", "nonce"], {"dek": 21, "mac": 22, "nonce": 23}),
            exp(11, {"dek": 21, "mac": 22, "nonce": 23, "hpad": 24, "filler1": 25, "filler2": 26}, seen=rn),
            con(12, "SB21KW", "config", ["dek", "mac", "nonce"], {"dek": 21, "mac": 22, "nonce": 23}),
            exp(12, {"dek": 21, "mac": 22, "nonce": 23, "hpad": 27, "filler1": 28, "filler2": 29}, seen=rn),
            exp(12, {"dek": 21, "mac": 22, "nonce": 23, "hpad": 27}, skip=("filler1", "filler2"), seen=rn),
            # [25..28] ONE build that emits two artefacts (BEE, both engines, one user key): two Construct events, two exported files
            con(13, "BEE", "config", ["sw_key"], {"sw_key": 30, "counter": 31, "kib_key": 32, "kib_iv": 33}, opt=["both", "same"], part=1),
            con(14, "BEE", "config", ["sw_key"], {"sw_key": 30, "counter": 34, "kib_key": 35, "kib_iv": 36}, opt=["both", "same"], part=2),
            exp(13, {"sw_key": 30, "counter": 31, "kib_key": 32, "kib_iv": 33}, seen=["slot0"]),
            exp(14, {"sw_key": 30, "counter": 34, "kib_key": 35, "kib_iv": 36}, seen=["slot1"]),
            # [29..30] an OTFAD key blob for a locked context (RO | ADE | VLD), nothing supplied
            con(15, "OTFAD", "ctor", [], {"key": 37, "ctr": 38}, opt=["ro", "ade", "vld"]),
            exp(15, {"key": 37, "ctr": 38, "filler": 39}, seen=["ro", "ade", "vld"]),
            # [31..32] both engines with two user keys
            con(16, "BEE", "config", ["sw_key"], {"sw_key": 30, "counter": 40, "kib_key": 41, "kib_iv": 42}, opt=["both", "diff"], part=1),
            con(17, "BEE", "config", ["sw_key"], {"sw_key": 43, "counter": 44, "kib_key": 45, "kib_iv": 46}, opt=["both", "diff"], part=2),
            # [33..36] configuration entry points, zeroPadding and nothing pinned, twice: the header padding is the same (zero: the user's), DEK / MAC key / nonce are new
            con(18, "SB21", "config", [], {"dek": 47, "mac": 48, "nonce": 49}, opt=zn), exp(18, {"dek": 47, "mac": 48, "nonce": 49, "hpad": 50}, seen=zn),
            con(19, "SB21", "config", [], {"dek": 51, "mac": 52, "nonce": 53}, opt=zn), exp(19, {"dek": 51, "mac": 52, "nonce": 53, "hpad": 50}, seen=zn),
            # [37..40] the command line, zeroPadding + timestamp, DEK and MAC key pinned, twice: the same key, so the nonce SPSDK chooses decides
            con(20, "SB21", "cli", ["dek", "mac"], {"dek": 21, "mac": 22, "nonce": 54}, opt=zt), exp(20, {"dek": 21, "mac": 22, "nonce": 54, "hpad": 50}, seen=zt),
            con(21, "SB21", "cli", ["dek", "mac"], {"dek": 21, "mac": 22, "nonce": 55}, opt=zt), exp(21, {"dek": 21, "mac": 22, "nonce": 55, "hpad": 50}, seen=zt),
            # [41..42] one secret pinned on its own (the DEK), the others SPSDK's; a command file with zeroPadding: the fillers are not asserted
            con(22, "SB21", "config", ["dek"], {"dek": 21, "mac": 56, "nonce": 57}, opt=rn),
            con(23, "SB21KW", "bd", ["nonce"], {"dek": 58, "mac": 59, "nonce": 23}, opt=zn),
            # [43..44]
            exp(23, {"dek": 58, "mac": 59, "nonce": 23, "hpad": 50, "filler1": 19, "filler2": 20}, seen=zn),
            exp(22, {"dek": 21, "mac": 56, "nonce": 57, "hpad": 60}, seen=rn)]
    cases = {"canary-good": good}

    def mutate(name, fn):
        t = json.loads(json.dumps(good))
        fn(t)
        cases[name] = t

    mutate("canary-bad-shared-across-restart", lambda t: t[6]["f"].update({"ctr": 2}))          # second interpreter draws the counter of the first
    mutate("canary-bad-shared-in-export", lambda t: t[9]["f"].update({"filler": 7}))            # export-time filler of another artefact
    mutate("canary-bad-nonce-reuse", lambda t: t[8]["f"].update({"ctr": 6}))                    # same user key, same self-chosen counter
    mutate("canary-bad-equals-user-value", lambda t: t[8]["f"].update({"ctr": 5}))              # a self-chosen value an earlier artefact got from its user
    mutate("canary-bad-missing-field", lambda t: t[7]["f"].pop("filler"))                       # an executor that skips a field is rejected too
    mutate("canary-bad-no-import", lambda t: t.pop(5))
    mutate("canary-bad-reconfigured-keeps-own-value", lambda t: t[14]["f"].update({"ctr_iv": 12}))   # configured again, the IV SPSDK chose before is still there
    mutate("canary-bad-reconfigured-keeps-user-value", lambda t: t[17]["f"].update({"ctr_iv": 11}))  # configured again without IV, the explicit IV of before is still there
    mutate("canary-bad-reconfigured-object-exported-as-old", lambda t: t[15].update({"art": 6}))     # the object no longer holds the artefact it was configured away from
    mutate("canary-bad-reconfigure-of-fixed-kind", lambda t: t.insert(10, rcf(4, 3, "OTFAD", ["key"], {"key": 5, "ctr": 20})))  # no such step for kinds outside Reconf
    mutate("canary-bad-keywrap-filler-shared", lambda t: t[23]["f"].update({"filler2": 19}))          # the wrapped key blob of another SB file (all else is the user's)
    mutate("canary-bad-keywrap-filler-is-an-otfad-filler", lambda t: t[21]["f"].update({"filler1": 9}))  # the filler of a key blob built through the class
    mutate("canary-bad-keywrap-filler-left-out", lambda t: t[19]["f"].pop("filler2"))                # one keywrap load not looked at, not declared as skipped
    mutate("canary-bad-wide-field-skipped", lambda t: (t[24]["f"].pop("hpad"), t[24]["skip"].append("hpad")))  # only narrow fields may be left out
    # builds that emit several artefacts: the parts are artefacts of their own
    mutate("canary-bad-parts-share-kib-key", lambda t: t[26]["f"].update({"kib_key": 32}))          # the key info block drawn once per call, not once per header
    mutate("canary-bad-parts-share-kib-iv-in-export", lambda t: t[28]["f"].update({"kib_iv": 33}))
    mutate("canary-bad-parts-share-counter", lambda t: t[26]["f"].update({"counter": 31}))          # one user key, one counter: nonce reuse inside one build
    mutate("canary-bad-parts-diff-keys-share-kib", lambda t: t[32]["f"].update({"kib_key": 41, "kib_iv": 42}))   # two user keys, one key info block
    mutate("canary-bad-part-not-looked-at", lambda t: t.pop(26))                                   # an executor that looks at the first header only
    mutate("canary-bad-part-without-build", lambda t: t.pop(25))
    mutate("canary-bad-part-exported-to-wrong-file", lambda t: t[28].update({"seen": ["slot0"]}))
    # options of the entry points
    mutate("canary-bad-locked-context-shares-key", lambda t: t[29]["f"].update({"key": 1}))         # RO | ADE | VLD: the key of another key blob
    mutate("canary-bad-option-outside-case-space", lambda t: t[29].update({"opt": ["ro", "vld"]}))  # a context that does not decrypt
    mutate("canary-bad-option-did-not-reach-the-code", lambda t: t[30].update({"seen": ["ade", "vld"]}))
    # configuration entry points: neighbouring options x pinned subsets
    mutate("canary-bad-zeropad-takes-the-nonce-along", lambda t: t[35]["f"].update({"nonce": 49}))           # zeroPadding and no nonce option: the nonce is still SPSDK's to choose anew
    mutate("canary-bad-zeropad-nonce-in-file-only", lambda t: t[36]["f"].update({"nonce": 49}))               # ... seen only in the exported bytes
    mutate("canary-bad-zeropad-pinned-key-same-nonce", lambda t: (t[39]["f"].update({"nonce": 54}), t[40]["f"].update({"nonce": 54})))   # the user's key + the nonce of the build before
    mutate("canary-bad-zeropad-takes-the-dek-along", lambda t: t[35]["f"].update({"dek": 47}))
    mutate("canary-bad-padding-shared-without-zeropad", lambda t: t[44]["f"].update({"hpad": 18}))           # no zeroPadding: the padding is SPSDK's
    mutate("canary-bad-padding-zero-without-zeropad", lambda t: t[44]["f"].update({"hpad": 50}))
    mutate("canary-bad-zeropad-not-in-the-file", lambda t: t[34].update({"seen": ["rndpad", "now"]}))          # the option did not reach the code
    mutate("canary-bad-timestamp-not-in-the-file", lambda t: t[38].update({"seen": ["zeropad", "now"]}))
    mutate("canary-bad-one-pinned-the-other-shared", lambda t: t[41]["f"].update({"mac": 48}))               # DEK pinned alone: the MAC key of another file
    mutate("canary-bad-one-pinned-the-other-is-a-user-value", lambda t: t[41]["f"].update({"mac": 22}))
    mutate("canary-bad-subset-outside-the-menu", lambda t: t[41].update({"ex": ["hpad"]}))
    mutate("canary-bad-zeropad-for-an-entry-point-without-it", lambda t: t[12].update({"opt": ["zeropad", "now"]}))   # MBI has no such option
    traces = [{"id": k, "ev": e} for k, e in cases.items()]
    rej, _ = tv_checked(traces)
    want = set(cases) - {"canary-good"}
    if set(rej) != want:
        raise Machinery(f"canary failed: rejected {sorted(rej)}, expected exactly {sorted(want)}")
    at = {k: rej[k][0] + 1 for k in rej}
    v.extra["canary"] = f"hand-written good trace accepted; {len(want)} single-field corruptions rejected at events {at}"


def canary_e2e(v, healthy):
    """The whole chain (executor -> canonicalisation -> TLC) must notice a generator that repeats itself: the real OTFAD / BEE
    constructors are run in interpreters whose token_bytes is replaced by a constant / by a generator with period 64.
    The canary is conclusive only if SPSDK draws through token_bytes as on the pinned tree (one call per value): on a tree whose
    histories were rejected anyway it is recorded, not enforced.
    Its known-good member (10 BEE headers, 40 draws of the period-64 generator: all values distinct) is a trace of the REAL code: if the
    spec rejects it although the generator never repeated itself, SPSDK itself put one value into two artefacts - that is decided and
    reported like every other history (a violation of this run), never a machinery failure."""
    period = 64
    both = next(it for it in sorted(DFLT_MULTI) if it[:2] == ("BEE", "config"))   # a build of the base menu that emits two artefacts
    runs = [("e2e-const", homogeneous(dflt_item("OTFAD", "ctor", []), 2), "const"), ("e2e-cycle", homogeneous(dflt_item("BEE", "ctor", []), 40), f"cycle:{period}"),
            ("e2e-cycle-short", homogeneous(dflt_item("BEE", "ctor", []), 10), f"cycle:{period}"),
            # ONE real BEE build for both engines with a constant generator: its two region headers carry the same counter / key info block
            ("e2e-parts-const", homogeneous(both, 1), "const"),
            # the same build with an honest generator of period 64 (8 draws): accepted - the two headers of one build are not rejected as such
            ("e2e-parts-cycle-short", homogeneous(both, 2), f"cycle:{period}"),
            ("e2e-reconf-const", reconfigured("MBI", [["key"], ["key"]]), "const"),
            # a generator that answers every 4-byte request with the same value: two real SB2.1 files built from command files with keywrap
            # statements (BD text, YAML form) then carry the same key-blob filler and nothing else in common
            ("e2e-kw-filler", homogeneous(dflt_item("SB21KW", "bd", []), 1) + build_steps(2, dflt_item("SB21KW", "config", [])) + [{"op": "Export", "art": 2}], "const4"),
            # a generator that answers every 16-byte request with the same value: two real SB2.1 files built through load_from_config with zeroPadding and
            # nothing pinned then carry the same nonce (and the same zero padding, which is the user's) and nothing else in common
            ("e2e-cfg-nonce", homogeneous(("SB21", "config", (), ("zeropad", "now"), 1), 2), "const16")]
    out = pmap(execute, runs, procs=len(runs), chunksize=1)
    for t, i in out:
        if t.get("failed"):
            if healthy:
                raise Machinery(f"end-to-end canary could not be executed: {i['errors'][0]['error']}\n{i['errors'][0]['tb']}")
            v.extra["canary_e2e"] = "not executable on this tree"
            return
    rej, _ = tv_checked([t for t, _i in out])
    short_rejected = "e2e-cycle-short" in rej
    if short_rejected and healthy:
        (hid, hist, fake), (t, info) = next((r, o) for r, o in zip(runs, out) if r[0] == "e2e-cycle-short")
        if info.get("ndraws", 0) > period:
            raise Machinery(f"end-to-end canary: {n_constructs(hist)} BEE headers draw {info['ndraws']} values on this tree, more than the period {period} of the "
                            f"fake generator - the known-good history of the canary has to be shortened (rejected: {rej})")
        # every value the generator handed out was distinct and still two artefacts carry the same one: decided by the normal path
        info["hist"], info["fake"], info["why"] = hist, fake, "canary-e2e-known-good"
        decide(v, [t], {hid: info}, "known-good history of the end-to-end canary (rejected by the spec)")
    kw_t = next(t for t, _i in out if t["id"] == "e2e-kw-filler")
    kw_ok = rej.get("e2e-kw-filler", (0,))[0] == 4 and {b[0] for b in culprits(kw_t, 4)[1]} == {"filler1", "filler2"}
    parts_t = next(t for t, _i in out if t["id"] == "e2e-parts-const")
    parts_ok = (rej.get("e2e-parts-const", (0,))[0] == 2 and {b[0] for b in culprits(parts_t, 2)[1]} == {"counter", "kib_key", "kib_iv"}
                and "e2e-parts-cycle-short" not in rej)
    cfg_t = next(t for t, _i in out if t["id"] == "e2e-cfg-nonce")
    cfg_ok = rej.get("e2e-cfg-nonce", (0,))[0] == 3 and {b[0] for b in culprits(cfg_t, 3)[1]} == {"nonce"}
    ok = "e2e-const" in rej and "e2e-cycle" in rej and not short_rejected and rej.get("e2e-reconf-const", (0,))[0] == 3 and kw_ok and parts_ok and cfg_ok
    if not ok and healthy and not short_rejected:
        raise Machinery(f"end-to-end canary failed: rejected {rej} (constant and period-64 generators must be rejected, a real MBI object configured "
                        f"twice with a constant generator must be rejected at the Reconfigure event, two real SB2.1 files with keywrap statements and a "
                        f"constant answer to 4-byte requests must be rejected at the second Export for the fillers only, one real BEE build for both engines "
                        f"with a constant generator must be rejected at the Construct event of its second header for counter / kib_key / kib_iv and accepted with an honest generator, "
                        f"two real SB2.1 files built through load_from_config with zeroPadding and a constant answer to 16-byte requests must be rejected at the second Construct for the nonce only)")
    v.extra["canary_e2e"] = ((f"real OTFAD key blobs with a constant token_bytes rejected at event {rej['e2e-const'][0] + 1}; 40 real BEE headers with a "
                              f"period-64 token_bytes rejected at event {rej['e2e-cycle'][0] + 1} of {rej['e2e-cycle'][1]}; 10 headers (40 draws < 64) accepted; "
                              f"a real MBI object configured twice with a constant token_bytes rejected at its Reconfigure event; two real SB2.1 files with "
                              f"keywrap statements (BD text, YAML form) and a constant answer to 4-byte requests rejected at the second Export for filler1 / filler2 only; "
                              f"ONE real BEE build for both engines with a constant token_bytes rejected at the Construct event of its second region header (counter, kib_key, kib_iv), "
                              f"two such builds with an honest generator accepted; two real SB2.1 files built through load_from_config with zeroPadding, nothing pinned and a "
                              f"constant answer to 16-byte requests rejected at the second Construct event for the nonce only (the shared zero padding is the user's)")
                             if ok else
                             (f"known-good history (10 real BEE headers, {out[2][1].get('ndraws')} distinct draws) rejected by the spec: reported as a violation of this run"
                              if short_rejected and healthy else f"inconclusive on this tree (rejected: {sorted(rej)}); not enforced because histories were rejected"))


# ------------------------------------------------------------------------------------------------ histories
# a menu item = (kind, how, user-supplied fields, option combination, number of artefacts the build emits) - read from the histories TLC emits
def item_of(s):
    return (s["kind"], s["how"], tuple(s["ex"]), tuple(s.get("opt", ())), s.get("parts", 1))


def build_steps(first_art, item):
    """The Construct steps of ONE build of a menu item (one step per artefact it emits)."""
    kind, how, ex, opt, parts = item
    return [{"op": "Construct", "art": first_art + i, "kind": kind, "how": how, "ex": list(ex), "opt": list(opt), "part": i + 1, "parts": parts}
            for i in range(parts)]


def dflt_item(kind, how, ex):
    return (kind, how, tuple(ex), tuple(DFLT.get((kind, how), ())), 1)


def homogeneous(item, n, export=True):
    h, a = [], 1
    for _ in range(n):
        steps = build_steps(a, item)
        h += steps
        if export:
            h += [{"op": "Export", "art": st["art"]} for st in steps]
        a += len(steps)
    return h


def reconfigured(kind, exs, how="config", export=lambda: True):
    """ONE object of a kind in RECONF: built with exs[0], then configured again with exs[1], exs[2], ..."""
    h = build_steps(1, dflt_item(kind, how, exs[0]))
    for a, ex in enumerate(exs[1:], 2):
        if export():
            h.append({"op": "Export", "art": a - 1})
        h.append({"op": "Reconfigure", "art": a, "of": a - 1, "kind": kind, "how": "config", "ex": list(ex)})
    h.append({"op": "Export", "art": len(exs)})
    return h


def config_items(menu, kind):
    return [list(it[2]) for it in menu if it[0] == kind and it[1] == "config"]


def mixed(menu, r, n):
    h, a, builds, since, live = [], 0, 0, 0, []
    while builds < n:
        if since > 10 and r.random() < 0.04:
            h.append({"op": "Restart", "art": 0})
            since, live = 0, []
            continue
        builds += 1
        since += 1
        if live and r.random() < 0.15:  # the object of a live artefact is configured again
            a += 1
            i = r.randrange(len(live))
            of, kind = live[i]
            h.append({"op": "Reconfigure", "art": a, "of": of, "kind": kind, "how": "config", "ex": r.choice(config_items(menu, kind))})
            live[i] = (a, kind)
            new = [a]
        else:
            item = r.choice(menu)
            steps = build_steps(a + 1, item)
            h += steps
            new = [st["art"] for st in steps]
            a += len(steps)
            if item[0] in RECONF:
                live.append((a, item[0]))
        if r.random() < 0.8:
            h += [{"op": "Export", "art": x} for x in new]
    return h


def expected_histories(menu, reconf_kinds, depth):
    """Number of restart-free histories of 1..depth builds (a new object for any menu item, or a load_from_config item on a live object of
    a kind in reconf_kinds): what FreshGen must emit if no guard of Fresh blocks the ideal generator."""
    ks = sorted(reconf_kinds)
    new = {k: sum(1 for it in menu if it[0] == k) for k in ks}
    cfg = {k: len(config_items(menu, k)) for k in ks}
    other = len(menu) - sum(new.values())

    def f(n, live):
        if n == 0:
            return 1
        t = other * f(n - 1, live)
        for i, k in enumerate(ks):
            t += new[k] * f(n - 1, live[:i] + (live[i] + 1,) + live[i + 1:]) + live[i] * cfg[k] * f(n - 1, live)
        return t

    return sum(f(n, (0,) * len(ks)) for n in range(1, depth + 1))


def gen(depth, restarts, menu, mode="fused", simulate=None, length=0):
    env = {"MC_ARTS": 999, "MC_EXPORTS": 9999, "MC_PROCS": 99, "MC_MENU": menu, "GEN_DEPTH": depth, "GEN_RESTARTS": restarts,
           "GEN_MODE": mode, "GEN_LEN": length}
    kw = dict(simulate=simulate, depth=4 * length + 10) if simulate else {}
    r = tlc.run("C17", "FreshGen", "FreshGen.cfg", env=env, workers=1, deadlock=False, timeout=600, heap="4g", **kw)
    if r.violated:
        raise Machinery(f"FreshGen violated {r.violated}")
    seen, out = set(), []
    for h in r.json_prints():
        if not (isinstance(h, list) and h and isinstance(h[0], dict) and "op" in h[0]):
            continue
        k = json.dumps(h, sort_keys=True)
        if k not in seen:  # TLC evaluates the printing action more than once in states without other successors
            seen.add(k)
            out.append(h)
    return out, r


def gen_opts(all_restarts):
    """The option lane of FreshGen: the histories (the two-interpreter form for the base items only, or for all), and the options table of
    Fresh.tla (default combination per entry point)."""
    hs, r = gen(99, 1 if all_restarts else 0, "opts", mode="opts")
    tab = [x for x in r.json_prints() if isinstance(x, list) and x and isinstance(x[0], dict) and "dflt" in x[0]]
    if not tab:
        raise Machinery("FreshGen (option lane) did not print the options table")
    fx = [x for x in r.json_prints() if isinstance(x, list) and x and isinstance(x[0], dict) and "fixed" in x[0]]
    if not fx:
        raise Machinery("FreshGen (option lane) did not print the table of fields that options hand to the user (Fresh!Fixed)")
    return hs, r, tab[0], fx[0]


def shape(h):
    """The history as a tuple of steps; a build is ONE step (its menu item), whatever the number of artefacts it emits."""
    return tuple(item_of(s) if s["op"] == "Construct"
                 else ("Reconfigure", s["art"], s["of"], tuple(s["ex"])) if s["op"] == "Reconfigure" else (s["op"], s["art"])
                 for s in h if not (s["op"] == "Construct" and s.get("part", 1) > 1))


def is_item(sh):
    return len(sh) == 5


def n_constructs(h):
    """builds of a history: new objects (one build may emit several artefacts) and objects configured again"""
    return sum(1 for s in h if first_part(s))


def n_reconf(h):
    return sum(1 for s in h if s["op"] == "Reconfigure")


def n_restarts(h):
    return sum(1 for s in h if s["op"] == "Restart")


# ------------------------------------------------------------------------------------------------ the check
def run(tier):
    # the harness process itself never imports spsdk (interpreters are forked from it); every executor asserts the tree under test
    v = Verdict(PROP, tier)
    quick = tier == "quick"
    r = rng(PROP)
    for p in [os.path.join(KEYS, "SBkek_PUF.txt"), os.path.join(HABKEYS, "SRK_1_2_3_4_table.bin")]:
        if not os.path.exists(p):
            raise Machinery(f"key material missing: {p}")

    scratch()
    child_env()
    # ---- everything that does not depend on anything else runs at the same time: a warm-up interpreter (byte-code cache outside /repo,
    #      SPSDK database cache in the scratch directory), the canary, model checking of R-spec and I-spec, the four GEN runs
    # (explicit option combinations: the options table of the spec is not known yet; each is checked against Fresh!Opts when the table arrives)
    warm_items = [("MBI", "config", ["key"], ["hwk0", "hex"]), ("SB21", "config", [], ["rndpad", "now"]), ("SB21KW", "bd", [], ["rndpad", "now"]),
                  ("SB21KW", "config", [], ["rndpad", "now"]), ("SB21", "cli", [], ["rndpad", "now"]), ("HAB", "config", [], ["k256"]),
                  ("BEE", "config", ["sw_key"], ["engine0"]), ("OTFAD", "ctor", [], ["ade", "vld"]), ("IEE", "ctor", [], ["unlock", "k256"]),
                  ("HABRT", "ctor", [], ["nor"]), ("HEX", "call", [], ["n32"])]
    warm_hist = [{"op": "Construct", "art": i + 1, "kind": k, "how": h, "ex": e, "opt": o, "part": 1, "parts": 1} for i, (k, h, e, o) in enumerate(warm_items)]
    bounds = {"MC_ARTS": 2, "MC_EXPORTS": 2, "MC_PROCS": 2, "MC_MENU": "base"} if quick else {"MC_ARTS": 3, "MC_EXPORTS": 2, "MC_PROCS": 2, "MC_MENU": "base"}
    ib = {"MC_ARTS": 2, "MC_EXPORTS": 2, "MC_PROCS": 2, "MC_MENU": "base", "IMPL_TABLE": "asbuilt"}
    # model checking of the R-spec runs beside everything else (thorough: 10^6 states) and is collected at the end
    install()
    mc_box = {}

    def mc_job():
        try:
            mc_box["r"] = tlc.mc("C17", "FreshMC", "FreshMC.cfg", env=bounds, timeout=3000, heap="6g", workers=4 if quick else 8,
                                 require_actions=("MImport", "MConstruct", "MReconfigure", "MExport", "MRestart"))
        except BaseException as e:  # noqa: BLE001 - re-raised in the main thread
            mc_box["e"] = e

    mc_thread = threading.Thread(target=mc_job, daemon=True)
    mc_thread.start()
    res = parallel({
        "warm": lambda: run_segment(warm_hist, os.path.join(scratch(), "c17", "warm"), report_modules=True),
        "canary": lambda: canary(v),
        "asbuilt": lambda: tlc.run("C17", "FreshImpl", "FreshImpl.cfg", env=ib, timeout=600, heap="4g", workers=2),
        "intended": lambda: tlc.run("C17", "FreshImpl", "FreshImpl.cfg", env=dict(ib, IMPL_TABLE="intended"), timeout=600, heap="4g", workers=2),
        "base2": lambda: gen(2, 1, "base"),
        "full2": lambda: gen(2, 0 if quick else 1, "full"),
        "base3": lambda: gen(3, 0 if quick else 1, "base"),
        "sim": lambda: gen(99, 2, "full", mode="free", simulate=f"num={14 if quick else 160}", length=12 if quick else 16),
        "opts": lambda: gen_opts(not quick),
        # the clause for builds that emit several artefacts is not vacuous: an implementation-shaped table that draws once per CALL breaks it
        "percall": lambda: tlc.run("C17", "FreshImpl", "FreshImplParts.cfg", env=dict(ib, IMPL_TABLE="percall"), timeout=600, heap="4g", workers=2),
    }, max_threads=12)
    bad = [s for s in res["warm"]["steps"] if "error" in s]
    if bad:
        raise Machinery(f"warm-up interpreter: a public builder failed: {bad[0]['error']}\n{bad[0].get('tb')}")
    im, ii = res["asbuilt"], res["intended"]
    table = [x for x in im.json_prints() if isinstance(x, list) and x and isinstance(x[0], dict) and "when" in x[0]]
    table = table[0] if table else []
    v.extra["ispec_prediction"] = {"table": "asbuilt", "violated": im.violated, "states": im.distinct,
                                   "note": "prediction of the implementation-shaped spec; reported only when the real code shows it"}
    if ii.violated or not ii.no_error:
        raise Machinery(f"I-spec with the intended draw times violates {ii.violated}")
    v.add_mc(ii)
    say(f"[C17] I-spec as built -> {im.violated or 'no violation'} predicted, intended draw times -> invariants hold ({v.timer.s()}s)")
    if res["percall"].violated != "PartsFresh":
        raise Machinery(f"I-spec with a key info block drawn once per call: TLC reports {res['percall'].violated or 'no violation'}, PartsFresh must be violated")
    (base2, g1), (full2, g2), (base3, g3), (sim, _g4) = res["base2"], res["full2"], res["base3"], res["sim"]
    sweeps, g5, opt_table, fixed_table = res["opts"]
    for g in (g1, g2, g3, g5):
        v.add_mc(g)
    DFLT.clear()
    DFLT.update({(row["kind"], row["how"]): tuple(row["dflt"]) for row in opt_table})
    FIXED.clear()
    FIXED.update({(row["kind"], row["how"], tuple(row["opt"])): tuple(row["fixed"]) for row in fixed_table})
    for (k, h, o), fs in FIXED.items():
        if not set(fs) <= set(FIELDS.get(k, ())) or tuple(o) == DFLT.get((k, h)):
            raise Machinery(f"Fresh!Fixed({k}, {h}, {o}) = {fs}: unknown field, or the default option combination hands a field to the user")
    for k, h, _e, o in warm_items:
        if DFLT.get((k, h)) != tuple(o):
            raise Machinery(f"warm-up interpreter built {k}/{h} with the options {o}, Fresh.tla has the default {DFLT.get((k, h))}")
    menu_base = sorted({sh for h in base2 for sh in shape(h) if is_item(sh)})
    nb = len(menu_base)
    # restart-free histories: new objects and objects configured again (expected_histories); with one restart: nb * nb more pairs of new objects
    want2 = expected_histories(menu_base, RECONF, 2) + nb * nb
    if len(base2) != want2 or sum(1 for h in base2 if not n_reconf(h)) != nb + 2 * nb * nb:
        raise Machinery(f"GEN: {len(base2)} histories of <= 2 builds over {nb} menu items (expected {want2}, {nb + 2 * nb * nb} of them without "
                        f"Reconfigure): a guard of Fresh blocks the ideal generator")
    menu_full = sorted({sh for h in full2 for sh in shape(h) if is_item(sh)})
    for k, h, e, _o, _n in menu_full:
        if k not in FIELDS or not set(e) <= set(FIELDS[k]):
            raise Machinery(f"menu item {k}/{h}/{e} of the spec is unknown to the harness")
    # the option lane: per (kind, how, user-supplied fields) whose entry point has options a history that walks through every option combination
    # twice in one interpreter, and (quick: base items only) one whose second pass runs in a new interpreter
    sweep_keys = {(k, h, e) for (k, h, e, _o, _n) in menu_full if next(row["n"] for row in opt_table if (row["kind"], row["how"]) == (k, h)) > 1}
    got = {}
    for hh in sweeps:
        items = [sh for sh in shape(hh) if is_item(sh)]
        key = items[0][:3]
        if any(it[:3] != key for it in items) or any(items.count(it) != 2 for it in items):
            raise Machinery(f"GEN (option lane): a history does not build every option combination of {key} twice")
        got.setdefault(key, []).append((n_restarts(hh), len({it[3] for it in items})))
    base_keys = {it[:3] for it in menu_base}
    for key in sweep_keys:
        n = next(row["n"] for row in opt_table if (row["kind"], row["how"]) == key[:2])
        if sorted(got.get(key, [])) != ([(0, n), (1, n)] if (key in base_keys or not quick) else [(0, n)]):
            raise Machinery(f"GEN (option lane): {key} has {n} option combinations, the histories cover {got.get(key)}")
    if set(got) != sweep_keys:
        raise Machinery(f"GEN (option lane): histories for {sorted(set(got) ^ sweep_keys)}")
    multi = sorted({it for it in menu_base if it[4] > 1})
    if not multi:
        raise Machinery("GEN: no build of the base menu emits more than one artefact (Fresh!Parts)")
    DFLT_MULTI.clear()
    DFLT_MULTI.update(multi)
    if quick and len(base3) != expected_histories(menu_base, RECONF, 3):
        raise Machinery(f"GEN: {len(base3)} histories of <= 3 builds (expected {expected_histories(menu_base, RECONF, 3)})")
    if quick and len(full2) != expected_histories(menu_full, RECONF, 2):
        raise Machinery(f"GEN: {len(full2)} histories of <= 2 builds over the full menu (expected {expected_histories(menu_full, RECONF, 2)})")
    reconf_seen = {s["kind"] for h in full2 for s in h if s["op"] == "Reconfigure"}
    if reconf_seen != RECONF:
        raise Machinery(f"GEN: TLC configures objects of the kinds {sorted(reconf_seen)} again, the harness expects {sorted(RECONF)} (Reconf of Fresh.tla)")
    say(f"[C17] GEN: menu {nb} base / {len(menu_full)} items ({len(multi)} emit several artefacts); option lane: {len(sweeps)} histories over "
        f"{sum(n for v_ in got.values() for r_, n in v_ if r_ == 0)} (entry point, user-supplied fields, option combination) triples; "
        f"{len(base2)} histories <=2 (+restart), {len(base3)} histories <=3, {len(sim)} simulated; "
        f"{sum(1 for h in base3 if n_reconf(h))} + {sum(1 for h in full2 if n_reconf(h))} of them configure an object again ({v.timer.s()}s)")

    if not preload(res["warm"].get("modules", [])):
        say("[C17] note: spsdk modules present in the harness process - every interpreter gets a new process image (slower)")

    chosen = {}

    def take(h, why):
        chosen.setdefault(json.dumps(h, sort_keys=True), (h, why))

    def cons(h):
        return [s for s in h if first_part(s)]

    def same_item(a, b):
        return (a["kind"], a["how"]) == (b["kind"], b["how"])

    def is_base(c):
        return item_of(c) in menu_base

    for h in base3:
        if n_constructs(h) <= 2 and n_restarts(h) == 0:
            take(h, "exhaustive<=2")
    rest2 = [h for h in base2 if n_restarts(h)]
    for h in rest2:
        if same_item(*cons(h)):
            take(h, "restart-same-kind")
    three = [h for h in base3 if n_constructs(h) == 3]
    pairs_full = [h for h in full2 if n_constructs(h) == 2]
    if quick:
        for h in r.sample(rest2, 24):
            take(h, "restart-sample")
        for h in r.sample([h for h in three if not n_reconf(h)], 80):
            take(h, "sample-of-3")
        # an object configured again: every triple that stays within the kinds that allow it, a seeded sample of the others,
        # and every pair over the full menu (explicit values first / second / both / never)
        for h in three:
            if n_reconf(h) and all(c["kind"] in RECONF for c in cons(h)):
                take(h, "reconfigure-triples")
        rest3 = [h for h in three if n_reconf(h) and not all(c["kind"] in RECONF for c in cons(h))]
        for h in r.sample(rest3, min(12, len(rest3))):
            take(h, "reconfigure-sample-of-3")
        for h in pairs_full:
            if n_reconf(h):
                take(h, "reconfigure-user-supplied-variants")
        for h in pairs_full:  # user-supplied variants: each next to itself and after its base sibling
            if n_reconf(h):
                continue
            a, b = cons(h)
            if same_item(a, b) and not is_base(b) and (a["ex"] == b["ex"] or is_base(a)):
                take(h, "user-supplied-variants")
    else:
        for h in three:
            if n_restarts(h) == 0:
                take(h, "exhaustive<=3")
        for h in r.sample([h for h in three if n_restarts(h)], 300):
            take(h, "restart-sample-of-3")
        for h in rest2:
            take(h, "restart-pairs")
        for h in pairs_full:
            a, b = cons(h)
            if n_restarts(h) == 0 or same_item(a, b):
                take(h, "full-menu<=2")
    for h in sim:
        take(h, "simulated")
    for h in sweeps:  # every tier: all of them
        take(h, "option-lane")
    # long histories: every menu item alone, 70..130 constructions (some defects need many draws), and mixed ones
    cost = {"SB21": 0.05, "SB21KW": 0.06, "MBI": 0.05, "HAB": 0.015}
    longs = []
    for it in (menu_base if quick else menu_full):
        n = r.randrange(70, 131)
        longs.append((homogeneous(it, n), "long-homogeneous"))
    if not quick:
        for it in menu_base:
            longs.append((homogeneous(it, r.randrange(131, 260), export=False), "long-homogeneous-attributes-only"))
    for _ in range(2 if quick else 24):
        longs.append((mixed(menu_full, r, r.randrange(70, 131)), "long-mixed"))
    # one object configured again and again, with and without explicit values, exported most of the time
    for kind in sorted(RECONF):
        for first in ([it for it in menu_base if it[0] == kind] if quick else [it for it in menu_full if it[0] == kind]):
            cfgs = config_items(menu_full, kind)
            base_cfg = [e for e in cfgs if tuple(e) in {tuple(it[2]) for it in menu_base if it[0] == kind and it[1] == "config"}]
            exs = [list(first[2])] + [(r.choice(cfgs) if r.random() < 0.25 else r.choice(base_cfg)) for _ in range(r.randrange(24, 49) if quick else r.randrange(40, 81))]
            longs.append((reconfigured(kind, exs, how=first[1], export=lambda: r.random() < 0.8), "long-reconfigured"))
    longs.sort(key=lambda x: -sum(cost.get(s["kind"], 0.01) for s in x[0] if s["op"] in BUILDS))

    # ---- execute on the real code, expensive histories first.  Long histories and histories with a restart: every interpreter segment is
    #      a new process image (exec); short histories without restart: a process forked from the harness, in which spsdk is not imported
    items, why = [], {}
    for i, (h, w) in enumerate(longs):
        items.append((f"L{i}", h, ""))
        why[f"L{i}"] = w
    short = sorted(chosen.values(), key=lambda x: -(n_restarts(x[0]) * 100 + len(x[0])))
    for i, (h, w) in enumerate(short):
        hid = f"r{i}" if (n_restarts(h) or w == "simulated") else f"f{i}"
        items.append((hid, h, ""))
        why[hid] = w
    nfork = sum(1 for hid, _h, _f in items if hid.startswith("f")) if FORK_OK[0] else 0
    say(f"[C17] executing {len(items)} histories: {sum(len(segments(h)) for _i, h, _f in items)} interpreters ({nfork} forked, the others exec'ed), "
        f"{sum(n_constructs(h) for _i, h, _f in items)} constructions")
    results = pmap(execute, items, procs=16, chunksize=1)
    traces, infos = [], {}
    for (hid, h, fake), (t, info) in zip(items, results):
        info["hist"], info["fake"], info["why"] = h, fake, why[hid]
        infos[hid] = info
        traces.append(t)
    v.count(len(traces))
    v.extra["interpreters"] = {"forked_from_harness_without_spsdk": nfork, "new_process_image": sum(len(segments(h)) for _i, h, _f in items) - nfork}
    slow = sorted(((i.get("wall", 0), hid) for hid, i in infos.items()), reverse=True)[:4]
    v.extra["executor_cpu_note"] = {"sum_wall_s": round(sum(i.get("wall", 0) for i in infos.values()), 1), "slowest": slow}
    wall_by = {}
    for i in infos.values():
        wall_by[i["why"]] = round(wall_by.get(i["why"], 0) + i.get("wall", 0), 1)
    v.extra["executor_cpu_note"]["wall_by_source_s"] = wall_by
    say(f"[C17] executed ({v.timer.s()}s; sum of executor wall {v.extra['executor_cpu_note']['sum_wall_s']}s, slowest {slow})")

    decide(v, traces, infos, "all histories")
    canary_e2e(v, healthy=not v.violations)
    mc_thread.join()
    if "e" in mc_box:
        raise mc_box["e"]
    v.add_mc(mc_box["r"])
    say(f"[C17] MC: R-spec with the ideal generator: {mc_box['r'].distinct} states, NoSharedSecret / NoNonceReuse hold, every action fired ({v.timer.s()}s)")

    # ---- bookkeeping for the evidence
    for t in traces:
        v.nontrivial(shape(infos[t["id"]]["hist"]))
    by_why = {}
    for t in traces:
        by_why[infos[t["id"]]["why"]] = by_why.get(infos[t["id"]]["why"], 0) + 1
    v.extra["histories_by_source"] = by_why
    for hid in ("f0", "r0", "L0"):
        if hid in infos:
            t = next(x for x in traces if x["id"] == hid)
            v.sample({"history": infos[hid]["hist"][:8], "trace": t["ev"][:10], "events": len(t["ev"])})
    # drift: when each field is drawn, as observed, against the table of the I-spec
    obs = {}
    for info in infos.values():
        for kind, how, ex, name, ph in info.get("phases", []):
            obs.setdefault((kind, how, ex, name), set()).add(ph)
    conform, drift = 0, []
    for row in table:
        exs = [it[2] for it in menu_base if it[0] == row["kind"] and it[1] == row["how"]]
        key = (row["kind"], row["how"], "+".join(exs[0]) if exs else "", row["field"])
        if row["field"] in (exs[0] if exs else []) or key not in obs:
            continue
        if obs[key] == {row["when"]}:
            conform += 1
        else:
            drift.append({"kind": row["kind"], "how": row["how"], "field": row["field"], "ispec": row["when"], "observed": sorted(obs[key])})
    v.extra["ispec_conformant"] = conform
    v.extra["drift_examples"] = drift[:10]
    v.extra["excused_after_known_finding"] = [list(x) for x in v.extra.pop("_excused", [])]
    v.extra["trusted_base"] = ["TLC", "harness/c17_child.py readers (struct offsets of SB2 / MBI / OTFAD / IEE / BEE / HAB CSF layouts)",
                               "harness/c04_rom.py (independent SB2 boot-ROM executor: section decryption, command decoding) and harness/c13_hw.py otfad_load_table "
                               "(RFC 3394 unwrap + CRC of an OTFAD key blob) for the key blobs wrapped by keywrap statements",
                               "cryptography: aes_key_unwrap, AES-ECB, AES-CBC (called directly)"]
    v.extra["exhaustive"] = not quick
    v.cov["rule"] = (
        f"histories = sequences of Construct(kind, how, user-supplied fields) / Reconfigure(live object, user-supplied fields) / Export / Restart over the menu of Fresh.tla "
        f"({nb} base items = kinds x how, {len(menu_full)} with user-supplied variants; Reconfigure = load_from_config called again on the same object, kinds {sorted(RECONF)}): "
        + ("all of <= 2 builds, all same-kind restart pairs, a seeded sample of the 3-build ones and of the restart pairs; with Reconfigure: all pairs over the full menu "
           "(explicit value first / second / both / never), all triples within the reconfigurable kinds, a seeded sample of the other triples"
           if quick else "all of <= 3 builds, all of <= 2 over the full menu incl. one restart, a seeded sample of 3 builds with a restart")
        + f"; the OPTION LANE: every option combination of Fresh!Opts for every entry point with option arguments ({len(sweeps)} histories = "
          f"{len(sweep_keys)} (kind, how, user-supplied fields), each building and exporting every combination twice in one interpreter, and "
          f"{'for the base items ' if quick else ''}once more with the second pass in a new interpreter; "
          f"OTFAD context flags RO / ADE / VLD, IEE lock x key size x mode, BEE composition / lock options / engine selection, SB2 signed / SHA flag / given time stamp, "
          f"MBI hardware user-mode keys, HAB SecretKey_Length, legacy HAB IVT offset, load_hex_string sizes; the CONFIGURATION entry points of SB2.1 - load_from_config "
          f"with a dictionary, a BD command file through parse_sb21_config, a YAML file through `nxpimage sb21 export` (click runner) - with zeroPadding x timestamp for EVERY "
          f"subset of the pinned secrets dek / mac / nonce, encrypted MBI configurations with enableHwUserModeKeys x values as hex strings / files x CtrInitVector pinned or not, "
          f"HAB configurations with SecretKey_ReuseDek x Decrypt_Nonce each on its own); builds that emit several artefacts (BEE for both engines: two region "
          f"headers = two artefacts, {len(multi)} item(s) of the base menu, in every lane)"
        + "; TLC-simulated free interleavings; one homogeneous history of 70..130 constructions per base item, long mixed ones and one object configured again " + ("24..48" if quick else "40..80") + " times. "
        "Each interpreter segment runs in a fresh interpreter. distinct = distinct sequences of (kind, how, user-supplied set) / reconfigure / export / restart steps; "
        "every history constructs at least one artefact whose secrets are read (non-trivial)"
    )
    v.assumptions += [
        "a value counts as shared when two artefacts carry the same byte string in a secret-bearing field (attributes / exported bytes); equal values inside ONE artefact and two exports of the same object are not asserted",
        "an artefact is one exported file with its own secret-bearing fields.  A build that emits several such files emits several artefacts: BeeNxp.load_from_config with "
        "engine_selection 'both' builds two region headers (bee_ehdr0.bin / bee_ehdr1.bin), each from its own engine configuration (own user key, own regions), each with the "
        "PRDB counter, KIB key and KIB IV SPSDK chooses - the same two artefacts two BeeRegionHeader() calls give through the classes.  The property speaks of 'every artifact' and "
        "lists both entry points; 'built independently' is read as 'neither derived from the other' (parse, a second export, a copy), not as 'by two calls': the clauses are asserted "
        "between the two headers of one call as between headers of two calls (with one KIB for both, whoever holds the user key of one engine can decrypt the region block of the other). "
        "A header taken over from a file (bee_binary_cfg) is a parse and carries the secrets of the file by definition: not built here",
        "option combinations (Fresh!Opts) cover the arguments with which the artefact still protects data: OTFAD contexts that do not decrypt (VLD or ADE clear), the IEE bypass mode and "
        "the BEE AES-ECB mode (refused by SPSDK's own validate / encrypt_block) are outside the case space - what SPSDK puts into a key field nothing is encrypted with is not asserted; "
        "test-only arguments (zero_fill, crc, padding) are the user's values when given",
        "OTFAD / IEE through load_from_config are outside the menu: every key and counter is mandatory in the configuration and the OTFAD filler is fixed to zero there (nothing is self-chosen)",
        f"the 4-byte OTFAD key-blob filler (key blobs built through the class, key blobs wrapped by the keywrap statements of an SB2.1 command file) is asserted only in "
        f"histories of <= {NARROW_MAX_ARTS} constructions (birthday bound 2^-32 per pair; wider fields everywhere)",
        "SB2.1 from a command file (kind SB21KW): BD text through BootImageV21.parse_sb21_config (BDParser) + load_from_config, and the YAML form as the dictionary "
        "load_from_config takes (as for SB21 / config; reading and schema validation of a YAML file are not part of the build); two keyblob definitions, two keywrap "
        "statements and one encrypt statement in one or two sections; key, counter and range "
        "of a keyblob definition are mandatory there (the user's) and not observed; the two fillers inside ONE file are not compared with each other",
        "the option zeroPadding of an SB2.1 configuration ('Zero padding instead of random padding is useful if you want to binary compare two SB 2.1 files') hands the PADDING to "
        "the user (Fresh!Fixed): the 8 bytes of header padding and the filler word of wrapped key blobs are recorded but not asserted in builds with it, whatever SPSDK puts there.  "
        "DEK, MAC key and nonce are not padding and have options of their own (dek, mac, nonce): each of them that is not pinned is asserted to be new, with or without zeroPadding / timestamp",
        "the command line is driven in-process (click's CliRunner on spsdk.apps.nxpimage.main, `sb21 export -c file.yaml`): argument parsing, reading and schema validation of the YAML "
        "file, cert-block / key files named in it and the written output file are part of the build; the other nxpimage sub-commands (mbi / hab / bee export) call the same "
        "load_from_config the menu drives directly and are not run through click",
        "random alignment filler of SB2 load commands / sections and the SB1 format are not key material of the property's list and are not observed",
        "HAB: the encrypted image is built through HabContainer.load_from_config (YAML form); the legacy BootImgRT class is observed through dek_key / nonce only (no CSF, no export)",
        "re-use of one object is a step of the histories only where the public API has it: MasterBootImage.load_from_config is a method of the object (Reconfigure); "
        "BootImageV21 / BeeNxp / HabContainer / Otfad / Iee load_from_config are class or static methods that return a new object and BootImgRT.add_image refuses a second call; "
        "assigning None to a secret-bearing attribute of an existing object and changing sections / images of an object between two exports are not steps of the histories",
        "user-supplied fields are never asserted; parse() re-uses the secrets of the parsed file by definition and is not part of the histories",
        "the probability that two honest 64..256-bit draws collide is neglected",
    ]
    return v.finish()


def replay(path):
    from lib.common import import_spsdk

    import_spsdk()
    w = json.load(open(path))["witness"]
    DFLT.update({tuple(k.split("/")): tuple(o) for k, o in w.get("dflt", {}).items()})
    FIXED.update({(k, h, tuple(o)): tuple(f) for k, h, o, f in w.get("fixed", [])})
    t, info = execute(("replay", w["history"], w.get("fake_rng", "")))
    if t.get("failed"):
        raise Machinery(f"replay could not be executed: {info['errors'][0]['error']}")
    rej, _ = tv_checked([t])
    if rej:
        m = rej["replay"][0]
        who, bad = culprits(t, m)
        say(f"VIOLATION property=C17 replay={path}")
        say(f"  rejected at event {m + 1} ({rej['replay'][2]}): {who} fields {[b[0] for b in bad]} shared with artefacts {[b[2] for b in bad]}")
        return 1
    say("replay: history accepted by the spec")
    return 0
