"""Packet-level twin of a bootloader with an EdgeLock Enclave behind it (extras lane sys_ele).

The twin stands where spsdk.mboot.protocol.* stands: McuBoot hands it command packets (write_command), data chunks (write_data) and asks for
responses / data (read).  Behind it: a byte memory and the ELE firmware side of the messaging unit, driven by the SCENARIO of the current call
(what the firmware answers is decided by the caller of the twin, not derived from SPSDK objects).  Everything the twin does is recorded as an
event; spec/SYS/EleMsgTrace.tla re-derives every one of them (so the twin is checked, too).

Words are lists of 4 bytes (little endian), addresses are pairs [hi16, lo16] - TLC integers are 32-bit.
"""
import struct

ELE_MESSAGE, WRITE_MEMORY, READ_MEMORY = 0x19, 0x04, 0x03
FAIL = 1


def limbs(v):
    v &= 0xFFFFFFFF
    return [v >> 16, v & 0xFFFF]


def word(v):
    return list(struct.pack("<I", v & 0xFFFFFFFF))


def xor_crc(words):
    """XOR of 32-bit words, bytewise (the ELE message CRC)."""
    out = [0, 0, 0, 0]
    for w in words:
        out = [a ^ b for a, b in zip(out, w)]
    return out


def stale(addr):
    """What the memory holds where nobody wrote."""
    return (addr * 37 + 0x5B) & 0xFF


class Memory:
    def __init__(self):
        self.m = {}

    def write(self, addr, data):
        for i, b in enumerate(data):
            self.m[(addr + i) & 0xFFFFFFFF] = b

    def read(self, addr, n):
        return bytes(self.m.get((addr + i) & 0xFFFFFFFF, stale(addr + i)) for i in range(n))


class EleFirmware:
    """The firmware side of the messaging unit for ONE scenario: it takes the request words, answers with response words (+ data).

    scen: cmd, nominal response words `nresp`, `rdata_slot` / `rsize_slot` (index of the payload word holding the response-data address / its
    declared size, or -1), status, ind, abort [lo, hi], fault, rwords (response payload of the success case, without CRC), rcrc (response
    carries a CRC word), rdata (bytes)."""

    def __init__(self, mem):
        self.mem = mem

    def execute(self, s, cmd_addr, cmd_cnt, resp_addr, resp_cnt):
        """-> list of device writes [(addr, bytes)]"""
        req = self.mem.read(cmd_addr, 4 * cmd_cnt)
        words = [list(req[i:i + 4]) for i in range(0, len(req), 4)]
        if s["nresp"] == 0:
            return []
        fault = s["fault"]
        success = s["status"] == 0xD6
        payload = []
        if success and fault not in ("short",):
            payload = [list(w) for w in s["rwords"]]
            if s["rcrc"]:
                payload = payload + [None]
            if fault == "short1" and len(payload) >= 2:
                payload = payload[:-1]
        size = 2 + len(payload)
        hdr = [0x07 if fault == "version" else 0x06, (size + 1) if fault == "size_big" else size,
               (s["cmd"] + 1) & 0xFF if fault == "cmd" else s["cmd"], 0x17 if fault == "tag" else 0xE1]
        resp = [hdr, [s["status"], s["ind"], s["abort"][0], s["abort"][1]]] + payload
        if resp[-1] is None:
            resp[-1] = xor_crc(resp[:-1])
            if fault == "crc":
                resp[-1] = [resp[-1][0] ^ 1] + resp[-1][1:]
        if fault == "payload" and len(resp) > 2:      # a payload bit flipped on the way (only detectable where the response carries a CRC)
            resp[2] = [resp[2][0] ^ 1] + resp[2][1:]
        resp = resp[:resp_cnt]
        writes = [(resp_addr, bytes(b for w in resp for b in w))]
        if success and fault == "none" and s["rdata_slot"] >= 0 and len(words) > s["rdata_slot"] + 1:
            daddr = struct.unpack("<I", bytes(words[1 + s["rdata_slot"]]))[0]
            dsize = struct.unpack("<H", bytes(words[1 + s["rsize_slot"]][s["rsize_half"] * 2:s["rsize_half"] * 2 + 2]))[0] if s["rsize_slot"] >= 0 else len(s["rdata"])
            writes.append((daddr, bytes(s["rdata"][:dsize])))
        for a, d in writes:
            self.mem.write(a, d)
        return writes


class Proto:
    """Duck-typed MbootProtocolBase: command packets in, responses / data out."""

    need_data_split = False
    allow_abort = False
    identifier = "twin"
    device = None

    def __init__(self):
        self.mem = Memory()
        self.fw = EleFirmware(self.mem)
        self.scen = None
        self.trace = []
        self._o = False
        self.q = []            # what the device has to say (response objects as raw bytes / data bytes)
        self.pending = None    # (addr, length) of a write_memory whose data phase is open
        self.got = b""
        self.nmu = 0

    is_opened = property(lambda s: s._o)

    def open(self):
        self._o = True

    def close(self):
        self._o = False

    def __str__(self):
        return "ele-twin"

    @staticmethod
    def generic(status, tag):
        return struct.pack("<4B2I", 0xA0, 0, 0, 2, status, tag)

    def write_command(self, packet):
        raw = packet.to_bytes(padding=False)
        tag, flags, _, n = struct.unpack_from("<4B", raw, 0)
        params = list(struct.unpack_from(f"<{n}I", raw, 4))
        s = self.scen
        self.q = []
        if tag == WRITE_MEMORY:
            addr, ln = params[0], params[1]
            if s["mbfail"] == "wr":
                self.trace.append({"ev": "wr", "a": limbs(addr), "d": [], "ok": False})
                self.q.append(self.generic(FAIL, tag))
                return
            self.pending, self.got = (addr, ln), b""
            self.q.append(self.generic(0, tag))
            if ln == 0:
                self.finish_write()
        elif tag == READ_MEMORY:
            addr, ln = params[0], params[1]
            if s["mbfail"] == "rd":
                self.trace.append({"ev": "rd", "a": limbs(addr), "n": ln, "d": [], "ok": False})
                self.q.append(self.generic(FAIL, tag))
                return
            give = ln
            if s["mbfail"] == "rd_short":
                give = max(0, ln - 4)
            data = self.mem.read(addr, give)
            self.trace.append({"ev": "rd", "a": limbs(addr), "n": ln, "d": list(data), "ok": give == ln})
            self.q.append(struct.pack("<4B2I", 0xA3, 1, 0, 2, 0, give))
            if give:
                self.q.append(("data", data))
            self.q.append(self.generic(0 if give == ln else FAIL, tag))
        elif tag == ELE_MESSAGE:
            _, ca, cn, ra, rn = params
            self.nmu += 1
            if s["mbfail"] == "mu":
                self.trace.append({"ev": "mu", "ca": limbs(ca), "cn": cn, "ra": limbs(ra), "rn": rn, "ok": False, "sub": params[0]})
                self.q.append(self.generic(FAIL, tag))
                return
            writes = self.fw.execute(s, ca, cn, ra, rn)
            self.trace.append({"ev": "mu", "ca": limbs(ca), "cn": cn, "ra": limbs(ra), "rn": rn, "ok": True, "sub": params[0]})
            self.trace.append({"ev": "dev", "w": [{"a": limbs(a), "d": list(d)} for a, d in writes]})
            self.q.append(self.generic(0, tag))
        else:
            self.trace.append({"ev": "other", "tag": tag})
            self.q.append(self.generic(10000, tag))      # unknown command

    def finish_write(self):
        addr, _ = self.pending
        self.mem.write(addr, self.got)
        self.trace.append({"ev": "wr", "a": limbs(addr), "d": list(self.got), "ok": True})
        self.q.append(self.generic(0, WRITE_MEMORY))
        self.pending = None

    def write_data(self, data):
        if self.pending is None:
            return
        self.got += bytes(data)
        if len(self.got) >= self.pending[1]:
            self.finish_write()

    def read(self, length=None):
        from spsdk.mboot.commands import parse_cmd_response

        if not self.q:
            raise TimeoutError("twin: nothing to say")
        x = self.q.pop(0)
        if isinstance(x, tuple):
            return x[1]
        return parse_cmd_response(x)
