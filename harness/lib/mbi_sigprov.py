"""Signing back ends of the C02 check: a signature provider of the plug-in kind (HSM / PKCS#11 / OpenSSL style).

SPSDK documents one interface for everything that can sign (spsdk/crypto/signature_provider.py): a concrete provider
implements `sign(data) -> bytes` and `signature_length`; it is selected by `signProvider: type=<identifier>;<param>=<value>...`
and found among the subclasses of SignatureProvider (that is how an installed plug-in module registers itself: by being
imported).  The documented front end, `SignatureProvider.get_signature()`, delivers ECDSA signatures in the format of the
image (r || s, fixed width) whatever the back end's `sign()` returns.

VerifSP is the smallest provider the interface allows (sign + signature_length, nothing else - no verify_public_key), built
on `cryptography` alone (never spsdk.crypto):
   type=verif-c02;key_file=<PEM private key>;wire=raw|der;lz=none|r|s
 * wire=der : sign() returns the ASN.1 DER ECDSA-Sig-Value (what PKCS#11 / OpenSSL back ends deliver), wire=raw : r || s;
   an RSA key signs PKCS#1 v1.5 / SHA-256 (one encoding only, `wire` is irrelevant);
 * lz=r|s   : value class of the signature itself: signs again until r (s) has a leading zero BYTE, so that the DER blob
   is shorter than usual (an HSM delivers such a signature once in 128 times; a run should not depend on that luck).
Every call is recorded in CALLS (per process) - the harness uses it to confirm that the back end a case names was the one
that produced the signature.  The module imports spsdk: import it only after lib.common.import_spsdk().
"""
from cryptography.hazmat.primitives import hashes, serialization
from cryptography.hazmat.primitives.asymmetric import ec, padding, rsa, utils

from spsdk.crypto.signature_provider import SignatureProvider

IDENTIFIER = "verif-c02"
CALLS = []  # [{"key": file, "wire": .., "lz": .., "len": bytes returned, "width": signature_length}]
MAX_TRIES = 20000


class VerifSP(SignatureProvider):
    """Minimal plug-in provider: sign() + signature_length."""

    identifier = IDENTIFIER

    def __init__(self, key_file: str, wire: str = "raw", lz: str = "none") -> None:
        with open(key_file, "rb") as f:
            self._key = serialization.load_pem_private_key(f.read(), None)
        if wire not in ("raw", "der") or lz not in ("none", "r", "s"):
            raise ValueError(f"VerifSP: wire={wire} lz={lz}")
        self._file, self._wire, self._lz = key_file, wire, lz

    @property
    def signature_length(self) -> int:
        if isinstance(self._key, rsa.RSAPrivateKey):
            return self._key.key_size // 8
        return 2 * ((self._key.curve.key_size + 7) // 8)

    def sign(self, data: bytes) -> bytes:
        if isinstance(self._key, rsa.RSAPrivateKey):
            sig = self._key.sign(data, padding.PKCS1v15(), hashes.SHA256())
        else:
            c = (self._key.curve.key_size + 7) // 8
            h = hashes.SHA256() if c <= 32 else hashes.SHA384() if c <= 48 else hashes.SHA512()
            for _ in range(MAX_TRIES):
                der = self._key.sign(data, ec.ECDSA(h))
                r, s = utils.decode_dss_signature(der)
                if self._lz == "none" or (r if self._lz == "r" else s) < 1 << 8 * (c - 1):
                    break
            else:
                raise RuntimeError("VerifSP: no signature of the wanted value class")
            sig = der if self._wire == "der" else r.to_bytes(c, "big") + s.to_bytes(c, "big")
        CALLS.append({"key": self._file, "wire": self._wire, "lz": self._lz, "len": len(sig), "width": self.signature_length})
        return sig


def take_calls():
    """Calls recorded since the last take (of this process)."""
    out = list(CALLS)
    del CALLS[:]
    return out


def spec(kind, key_file, lz="r"):
    """`signProvider` string of a back end of the case space (MbiRomMC: BackEnds); None for the plain key file route."""
    if kind == "key":
        return None
    if kind == "file":
        return f"type=file;file_path={key_file}"
    if kind == "file_der":
        return f"type=file;file_path={key_file};der_format=true"
    if kind == "plugin_raw":
        return f"type={IDENTIFIER};key_file={key_file};wire=raw"
    if kind == "plugin_der":
        return f"type={IDENTIFIER};key_file={key_file};wire=der"
    if kind == "plugin_der_lz":
        return f"type={IDENTIFIER};key_file={key_file};wire=der;lz={lz}"
    raise ValueError(f"unknown signing back end {kind}")
