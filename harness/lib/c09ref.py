"""Trusted base + reference constructions for C09 (independent of spsdk.crypto).

Primitives (the only things taken on trust): one-block AES through `cryptography` AES-ECB called directly on 16 bytes,
a pure-Python SM4 block function, hashlib, a bit-serial CRC.  Everything else (CBC, CTR, XTS, CCM, RFC 3394, CMAC, HMAC,
HKDF, the SPSDK derivations) is built here structurally over those primitives, and every primitive evaluation is
recorded: the table goes into the trace, where TLC recomputes the same constructions from spec/C09/CipherModes.tla over
the table and requires that its result, this module's result and the observation agree (clause "oracle" binds this
module to the spec; a disagreement there is a machinery failure, not a finding).
"""
import hashlib

from cryptography.hazmat.primitives.ciphers import Cipher, algorithms, modes

# ------------------------------------------------------------------ SM4 (GB/T 32907-2016), pure Python
_SM4_SBOX = bytes.fromhex(
    "d690e9fecce13db716b614c228fb2c052b679a762abe04c3aa441326498606999c4250f491ef987a33540b43edcfac62"
    "e4b31ca9c908e89580df94fa758f3fa64707a7fcf37317ba83593c19e6854fa8686b81b27164da8bf8eb0f4b70569d35"
    "1e240e5e6358d1a225227c3b01217887d40046579fd327524c3602e7a0c4c89eeabf8ad240c738b5a3f7f2cef96115a1"
    "e0ae5da49b341a55ad933230f58cb1e31df6e22e8266ca60c02923ab0d534e6fd5db3745defd8e2f03ff6a726d6c5b51"
    "8d1baf92bbddbc7f11d95c411f105ad80ac13188a5cd7bbd2d74d012b8e5b4b08969974a0c96777e65b9f109c56ec684"
    "18f07dec3adc4d2079ee5f3ed7cb3948"
)
_SM4_FK = (0xA3B1BAC6, 0x56AA3350, 0x677D9197, 0xB27022DC)
_SM4_CK = tuple(
    int.from_bytes(bytes(((4 * i + j) * 7) % 256 for j in range(4)), "big") for i in range(32)
)


def _rol(x, n):
    return ((x << n) | (x >> (32 - n))) & 0xFFFFFFFF


def _sm4_tau(a):
    return int.from_bytes(bytes(_SM4_SBOX[b] for b in a.to_bytes(4, "big")), "big")


def _sm4_round_keys(key):
    k = [int.from_bytes(key[4 * i:4 * i + 4], "big") ^ _SM4_FK[i] for i in range(4)]
    rk = []
    for i in range(32):
        b = _sm4_tau(k[i + 1] ^ k[i + 2] ^ k[i + 3] ^ _SM4_CK[i])
        k.append(k[i] ^ b ^ _rol(b, 13) ^ _rol(b, 23))
        rk.append(k[i + 4])
    return rk


def _sm4_crypt(rk, block):
    x = [int.from_bytes(block[4 * i:4 * i + 4], "big") for i in range(4)]
    for i in range(32):
        b = _sm4_tau(x[i + 1] ^ x[i + 2] ^ x[i + 3] ^ rk[i])
        x.append(x[i] ^ b ^ _rol(b, 2) ^ _rol(b, 10) ^ _rol(b, 18) ^ _rol(b, 24))
    return b"".join(v.to_bytes(4, "big") for v in (x[35], x[34], x[33], x[32]))


class BlockPrim:
    """One-block encryption / decryption under up to two keys, every evaluation recorded as (slot, x, y) with E(x) = y."""

    def __init__(self, alg, keys):
        self.alg = alg
        self.tab = []
        self._seen = set()
        self._k = {}
        for slot, key in keys.items():
            if alg == "sm4":
                rk = _sm4_round_keys(key)
                self._k[slot] = (lambda b, rk=rk: _sm4_crypt(rk, b), lambda b, rk=rk: _sm4_crypt(rk[::-1], b))
            else:
                c = Cipher(algorithms.AES(key), modes.ECB())  # single 16-byte blocks only

                def enc(b, c=c):
                    e = c.encryptor()
                    return e.update(b) + e.finalize()

                def dec(b, c=c):
                    d = c.decryptor()
                    return d.update(b) + d.finalize()

                self._k[slot] = (enc, dec)

    def _rec(self, slot, x, y):
        if (slot, x) not in self._seen:
            self._seen.add((slot, x))
            self.tab.append({"k": slot, "x": list(x), "y": list(y)})

    def E(self, x, slot=1):
        assert len(x) == 16
        y = self._k[slot][0](bytes(x))
        self._rec(slot, bytes(x), y)
        return y

    def D(self, y, slot=1):
        assert len(y) == 16
        x = self._k[slot][1](bytes(y))
        self._rec(slot, x, bytes(y))
        return x


class HashPrim:
    def __init__(self, alg):
        self.alg = alg
        self.tab = []
        self._seen = set()

    def H(self, x):
        x = bytes(x)
        y = hashlib.new(self.alg, x).digest()
        if x not in self._seen:
            self._seen.add(x)
            self.tab.append({"k": 0, "x": list(x), "y": list(y)})
        return y


HASH_BLOCK = {"sha1": 64, "sha256": 64, "sha384": 128, "sha512": 128, "md5": 64, "sm3": 64}


def xor(a, b):
    return bytes(x ^ y for x, y in zip(a, b))


def blocks(m):
    return [m[i:i + 16] for i in range(0, len(m), 16)]


def pad0(m, a=16):
    return m + bytes((-len(m)) % a)


# ------------------------------------------------------------------ constructions over the primitives
def ecb_enc(P, m):
    return b"".join(P.E(b) for b in blocks(m))


def ecb_dec(P, c):
    return b"".join(P.D(b) for b in blocks(c))


def cbc_enc(P, iv, m):
    out, prev = [], iv
    for b in blocks(m):
        prev = P.E(xor(b, prev))
        out.append(prev)
    return b"".join(out)


def cbc_dec(P, iv, c):
    out, prev = [], iv
    for b in blocks(c):
        out.append(xor(P.D(b), prev))
        prev = b
    return b"".join(out)


def ctr(P, ctr0, m):
    c = int.from_bytes(ctr0, "big")
    out = b""
    for b in blocks(m):
        out += xor(b, P.E((c % (1 << 128)).to_bytes(16, "big")))
        c += 1
    return out


def _dbl_le(t):
    v = int.from_bytes(t, "little") << 1
    if v >> 128:
        v = (v & ((1 << 128) - 1)) ^ 0x87
    return v.to_bytes(16, "little")


def _dbl_be(t):
    v = int.from_bytes(t, "big") << 1
    if v >> 128:
        v = (v & ((1 << 128) - 1)) ^ 0x87
    return v.to_bytes(16, "big")


def xts(P, tweak, m, decrypt=False):
    """XTS over one data unit with ciphertext stealing; slot 1 = data key, slot 2 = tweak key."""
    f = P.D if decrypt else P.E
    t = P.E(tweak, 2)
    n, r = divmod(len(m), 16)
    out = b""
    whole = n if r == 0 else n - 1
    for i in range(whole):
        b = m[16 * i:16 * i + 16]
        out += xor(f(xor(b, t)), t)
        t = _dbl_le(t)
    if r:
        t2 = _dbl_le(t)
        first, second = (t2, t) if decrypt else (t, t2)
        b = m[16 * whole:16 * whole + 16]
        cc = xor(f(xor(b, first)), first)
        tail = m[16 * n:]
        last = xor(f(xor(tail + cc[r:], second)), second)
        out += last + cc[:r]
    return out


def _ccm_parts(P, nonce, m, aad, tl):
    L = 15 - len(nonce)
    flags = (64 if aad else 0) | (((tl - 2) // 2) << 3) | (L - 1)
    B = bytes([flags]) + nonce + len(m).to_bytes(L, "big")
    if aad:
        B += pad0((len(aad).to_bytes(2, "big") if len(aad) < 0xFF00 else b"\xff\xfe" + len(aad).to_bytes(4, "big")) + aad)
    B += pad0(m)
    x = bytes(16)
    for b in blocks(B):
        x = P.E(xor(x, b))
    s0 = P.E(bytes([L - 1]) + nonce + (0).to_bytes(L, "big"))
    return xor(x, s0)[:tl]


def _ccm_stream(P, nonce, data):
    L = 15 - len(nonce)
    return b"".join(xor(b, P.E(bytes([L - 1]) + nonce + (i + 1).to_bytes(L, "big"))) for i, b in enumerate(blocks(data)))


def ccm_enc(P, nonce, m, aad, tl):
    return _ccm_stream(P, nonce, m) + _ccm_parts(P, nonce, m, aad, tl)


def ccm_dec(P, nonce, c, aad, tl):
    """-> (ok, plaintext)"""
    if len(c) < tl:
        return False, b""
    body, tag = c[:len(c) - tl], c[len(c) - tl:]
    m = _ccm_stream(P, nonce, body)
    return tag == _ccm_parts(P, nonce, m, aad, tl), m


KW_IV = bytes([0xA6] * 8)


def kw_wrap(P, p):
    n = len(p) // 8
    a, r = KW_IV, [p[8 * i:8 * i + 8] for i in range(n)]
    for j in range(6):
        for i in range(n):
            b = P.E(a + r[i])
            a = xor(b[:8], (n * j + i + 1).to_bytes(8, "big"))
            r[i] = b[8:]
    return a + b"".join(r)


def kw_unwrap(P, c):
    """-> (ok, key data)"""
    n = len(c) // 8 - 1
    a, r = c[:8], [c[8 * (i + 1):8 * (i + 2)] for i in range(n)]
    for j in range(5, -1, -1):
        for i in range(n - 1, -1, -1):
            b = P.D(xor(a, (n * j + i + 1).to_bytes(8, "big")) + r[i])
            a, r[i] = b[:8], b[8:]
    return a == KW_IV, b"".join(r)


def cmac(P, m):
    l0 = P.E(bytes(16))
    k1 = _dbl_be(l0)
    k2 = _dbl_be(k1)
    bl = blocks(m) or [b""]
    last = bl[-1]
    last = xor(last, k1) if len(last) == 16 else xor(last + b"\x80" + bytes(15 - len(last)), k2)
    x = bytes(16)
    for b in bl[:-1]:
        x = P.E(xor(x, b))
    return P.E(xor(x, last))


def hmac_(HP, key, m):
    B = HASH_BLOCK[HP.alg]
    k0 = HP.H(key) if len(key) > B else key
    kp = k0 + bytes(B - len(k0))
    return HP.H(xor(kp, bytes([0x5C] * B)) + HP.H(xor(kp, bytes([0x36] * B)) + m))


def hkdf(HP, salt, ikm, info, length):
    hl = hashlib.new(HP.alg).digest_size
    prk = hmac_(HP, salt if salt else bytes(hl), ikm)
    t, okm, i = b"", b"", 0
    while len(okm) < length:
        i += 1
        t = hmac_(HP, prk, t + info + bytes([i]))
        okm += t
    return okm[:length]


KS_CONST = {
    "hmac": bytes(16),
    "enc_image": bytes([1] + [0] * 15 + [2] + [0] * 15),
    "sb_kek": bytes([3] + [0] * 15 + [4] + [0] * 15),
}


def ks_derive(P, which, otfad_input=b""):
    return ecb_enc(P, otfad_input if which == "otfad" else KS_CONST[which])


def sb31_data(const12, rights, mode, bits, i):
    return (bytes(const12) + bytes(8) + bytes([(rights << 6) & 0xFF, 1 if mode == "kdk" else 16, 0, 0x20 if bits == 128 else 0x21])
            + bits.to_bytes(4, "big") + i.to_bytes(4, "big"))


def sb31_derive(P, const12, rights, mode, bits):
    out = cmac(P, sb31_data(const12, rights, mode, bits, 1))
    if bits == 256:
        out += cmac(P, sb31_data(const12, rights, mode, bits, 2))
    return out


# ------------------------------------------------------------------ bit-serial CRC (Rocksoft model, catalogue parameters)
CRC_PARAMS = {  # width, poly, init, refin, refout, xorout, check("123456789")
    "crc32": (32, 0x04C11DB7, 0xFFFFFFFF, True, True, 0xFFFFFFFF, 0xCBF43926),
    "crc32-mpeg": (32, 0x04C11DB7, 0xFFFFFFFF, False, False, 0x00000000, 0x0376E6E7),
    "crc16-xmodem": (16, 0x1021, 0x0000, False, False, 0x0000, 0x31C3),
}


def crc(alg, data):
    w, poly, reg, refin, refout, xorout, _ = CRC_PARAMS[alg]
    top, mask = 1 << (w - 1), (1 << w) - 1
    for byte in data:
        for k in range(8):
            bit = (byte >> k) & 1 if refin else (byte >> (7 - k)) & 1
            out = 1 if reg & top else 0
            reg = (reg << 1) & mask
            if out != bit:
                reg ^= poly
    if refout:
        reg = int(f"{reg:0{w}b}"[::-1], 2)
    return reg ^ xorout


def selftest():
    """Published vectors for the primitives and one per construction; raises AssertionError."""
    h = bytes.fromhex
    k = h("000102030405060708090a0b0c0d0e0f")
    P = BlockPrim("aes", {1: k})
    assert P.E(h("00112233445566778899aabbccddeeff")) == h("69c4e0d86a7b0430d8cdb78070b4c55a")  # FIPS-197 C.1
    assert P.D(h("69c4e0d86a7b0430d8cdb78070b4c55a")) == h("00112233445566778899aabbccddeeff")
    s = h("0123456789abcdeffedcba9876543210")
    S = BlockPrim("sm4", {1: s})
    assert S.E(s) == h("681edf34d206965e86b3e94f536e4246")  # GB/T 32907 A.1
    assert S.D(h("681edf34d206965e86b3e94f536e4246")) == s
    assert kw_wrap(P, h("00112233445566778899aabbccddeeff")) == h("1fa68b0a8112b447aef34bd8fb5a7b829d3e862371d2cfe5")  # RFC 3394 4.1
    k2 = h("2b7e151628aed2a6abf7158809cf4f3c")
    P2 = BlockPrim("aes", {1: k2})
    assert cmac(P2, b"") == h("bb1d6929e95937287fa37d129b756746")  # RFC 4493
    assert cmac(P2, h("6bc1bee22e409f96e93d7e117393172a")) == h("070a16b46b4d4144f79bdd9dd04a287c")
    assert cbc_enc(P2, k, h("6bc1bee22e409f96e93d7e117393172a")) == h("7649abac8119b246cee98e9b12e9197d")  # SP 800-38A F.2.1
    assert ctr(P2, h("f0f1f2f3f4f5f6f7f8f9fafbfcfdfeff"), h("6bc1bee22e409f96e93d7e117393172a")) == h("874d6191b620e3261bef6864990db6ce")  # F.5.1
    for alg, (_, _, _, _, _, _, chk) in CRC_PARAMS.items():
        assert crc(alg, b"123456789") == chk, alg
    HP = HashPrim("sha256")
    assert hmac_(HP, bytes([0x0B] * 20), b"Hi There") == h("b0344c61d8db38535ca8afceaf0bf12b881dc200c9833da726e9376c2e32cff7")  # RFC 4231 #1
    assert hkdf(HP, h("000102030405060708090a0b0c"), bytes([0x0B] * 22), h("f0f1f2f3f4f5f6f7f8f9"), 42) == h(
        "3cb25f25faacd57a90434f64d0362f2a2d2d0a90cf1a5a4c5db02d56ecc4c5bf34007208d5b887185865")  # RFC 5869 A.1
    return True
