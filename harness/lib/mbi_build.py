"""Reusable Master Boot Image construction helpers (shared by the checks C01 and C02).

Everything here DRIVES the real builder (spsdk.image.mbi) or computes facts INDEPENDENTLY of it (lengths of certificate
blocks from the DER files, CRC-32/MPEG-2 bit-serial, TrustZone preset size from the database file). No verdict is made here.

    compositions()                -> the distinct mixin compositions of the device database (read at run time) with their members
    members()                     -> every (family, target, authentication, class name) the database offers (+ predecessor names)
    V1_KINDS / V21_KINDS          -> key material menus (files under /verif/keys/mbi, copied from /repo/tests)
    v1_cert_len / v21_cert_len... -> independent length algebra of the certificate blocks
    Opts                          -> concrete option set of one image
    build_config(member, opts, workdir) / build_ctor(member, opts, workdir)  -> a ready MasterBootImage object (export() not yet called)
    parse_image(member, data, opts)                                 -> MasterBootImage.parse(...) with the same decryption key
    reattach_keys(parsed, member, opts, workdir)                    -> give a parsed object the keys the parser cannot recover
"""
import json
import os
import struct

from .common import REPO, ROOT

KEYS = os.path.join(ROOT, "keys", "mbi")
IMG = os.path.join(KEYS, "img")

TARGET_CFG = {"xip": "xip", "load_to_ram": "load-to-ram"}
AUTH_CFG = {"plain": "plain", "crc": "crc", "signed": "signed", "nxp_signed": "signed-nxp", "encrypted": "signed-encrypted"}
# every spelling the configuration schema (sch_mbi.yaml, image_type) documents for the two keys
TARGET_ALIASES = {"xip": ["xip", "Internal flash (XIP)", "External flash (XIP)", "Internal Flash (XIP)", "External Flash (XIP)"],
                  "load_to_ram": ["load-to-ram", "RAM", "ram"]}
AUTH_ALIASES = {"plain": ["plain", "Plain"], "crc": ["crc", "CRC"], "signed": ["signed", "Signed"],
                "nxp_signed": ["signed-nxp", "NXP Signed", "NXP signed", "nxp_signed"], "encrypted": ["signed-encrypted", "Encrypted + Signed", "encrypted"]}
IMAGE_TYPES = {
    "PLAIN_IMAGE": 0,
    "SIGNED_RAM_IMAGE": 1,
    "CRC_RAM_IMAGE": 2,
    "ENCRYPTED_RAM_IMAGE": 3,
    "SIGNED_XIP_IMAGE": 4,
    "CRC_XIP_IMAGE": 5,
    "SIGNED_XIP_NXP_IMAGE": 8,
}
USER_KEY_HEX = "24e517d4ac417737235b6efc9afced8224e517d4ac417737235b6efc9afced82"


def k(*p):
    return os.path.join(KEYS, *p)


# ------------------------------------------------------------------ key material menus
# certificate block v1 (RSA): roots = up to four self-signed root certificates (None = empty slot), main = used root,
# chain = chain certificates below the used root, key = private key of the LAST certificate
V1_KINDS = {
    "r1x2048": {"roots": [k("img", "selfsign_2048_v3.der.crt")], "main": 0, "chain": [], "key": k("img", "selfsign_privatekey_rsa2048.pem")},
    "r4x2048k0": {"roots": [k(f"root_k{i}_signed_cert0_noca.der.cert") for i in range(4)], "main": 0, "chain": [], "key": k("k0_cert0_2048.pem")},
    "r4x2048k2": {"roots": [k(f"root_k{i}_signed_cert0_noca.der.cert") for i in range(4)], "main": 2, "chain": [], "key": k("k2_cert0_2048.pem")},
    "r3mixed4096": {"roots": [k("img", "selfsign_4096_v3.der.crt"), k("img", "selfsign_3072_v3.der.crt"), k("img", "selfsign_2048_v3.der.crt")],
                    "main": 0, "chain": [], "key": k("img", "private_rsa4096.pem")},
    "r3mixed3072": {"roots": [k("img", "selfsign_4096_v3.der.crt"), k("img", "selfsign_3072_v3.der.crt"), k("img", "selfsign_2048_v3.der.crt")],
                    "main": 1, "chain": [], "key": k("img", "private_rsa3072.pem")},
    "chain2": {"roots": [k("img", "ca0_v3.der.crt")], "main": 0, "chain": [k("img", "crt_v3.der.crt")], "key": k("img", "crt_privatekey_rsa2048.pem")},
    "chain3": {"roots": [k("img", "ca0_v3.der.crt")], "main": 0, "chain": [k("img", "ch3_crt_v3.der.crt"), k("img", "ch3_crt2_v3.der.crt")],
               "key": k("img", "crt2_privatekey_rsa2048.pem")},
    "chain3x4096": {"roots": [k("root_k0_signed_cert0_noca.der.cert"), k("root_cert_0_ca_v3.der.crt")], "main": 1,
                    "chain": [k("chain_cert_0_v3.der.crt"), k("chain_cert_1_v3.der.crt")], "key": k("chain_cert_1_pkey_rsa4096.pem")},
}
# certificate block v2.1 (ECC): roots = public keys / certificates of one curve, isk = optional image signing key
V21_KINDS = {}
for _c, _n in (("256", 32), ("384", 48)):
    _roots = [k(f"ec_secp{_c}r1_cert{i}.pem") for i in range(4)]
    V21_KINDS[f"p{_c}x4k0"] = {"roots": _roots, "main": 0, "root_key": k(f"ec_pk_secp{_c}r1_cert0.pem"), "coord": _n, "isk": None, "udata": 0}
    V21_KINDS[f"p{_c}x4k3"] = {"roots": _roots, "main": 3, "root_key": k(f"ec_pk_secp{_c}r1_cert3.pem"), "coord": _n, "isk": None, "udata": 0}
    V21_KINDS[f"p{_c}x1"] = {"roots": _roots[:1], "main": 0, "root_key": k(f"ec_pk_secp{_c}r1_cert0.pem"), "coord": _n, "isk": None, "udata": 0}
    for _ic, _in in (("256", 32), ("384", 48)):
        if int(_ic) > int(_c):
            continue
        for _ud in (0, 96):
            V21_KINDS[f"p{_c}x4k1+isk{_ic}u{_ud}"] = {
                "roots": _roots, "main": 1, "root_key": k(f"ec_pk_secp{_c}r1_cert1.pem"), "coord": _n,
                "isk": {"pub": k(f"ec_secp{_ic}r1_sign_cert.pem"), "key": k(f"ec_pk_secp{_ic}r1_sign_cert.pem"), "coord": _in}, "udata": _ud}


def _pad4(n):
    return (n + 3) // 4 * 4


def v1_cert_len(kind):
    """Length of a certificate block v1: header 32 + per certificate (length word + DER padded to 4) + 4 x 32 root key hashes."""
    kd = V1_KINDS[kind]
    certs = [kd["roots"][kd["main"]]] + kd["chain"]
    return _pad4(32 + sum(4 + _pad4(os.path.getsize(c)) for c in certs) + 4 * 32)


def v1_sig_len(kind):
    from cryptography.hazmat.primitives.serialization import load_pem_private_key

    with open(V1_KINDS[kind]["key"], "rb") as f:
        key = load_pem_private_key(f.read(), None)
    return key.key_size // 8


def v21_cert_len(kind):
    """header 12 + flags 4 + (table of n hashes if n > 1) + root public key + (ISK: 3 words + ISK public key + user data + root signature)."""
    kd = V21_KINDS[kind]
    c = kd["coord"]
    n = len(kd["roots"])
    size = 12 + 4 + (n * c if n > 1 else 0) + 2 * c
    if kd["isk"]:
        size += 12 + 2 * kd["isk"]["coord"] + kd["udata"] + 2 * c
    return size


def v21_isk_sig(kind):
    """(offset inside the certificate block, length) of the ISK certificate signature, or (0, 0)."""
    kd = V21_KINDS[kind]
    if not kd["isk"]:
        return (0, 0)
    return (v21_cert_len(kind) - 2 * kd["coord"], 2 * kd["coord"])


def v21_sig_len(kind):
    kd = V21_KINDS[kind]
    return 2 * (kd["isk"]["coord"] if kd["isk"] else kd["coord"])


def v21_sign_key(kind):
    kd = V21_KINDS[kind]
    return kd["isk"]["key"] if kd["isk"] else kd["root_key"]


# ------------------------------------------------------------------ independent facts
def crc32_mpeg2(data, crc=0xFFFFFFFF):
    """Bit-serial CRC-32/MPEG-2 (poly 0x04C11DB7, init 0xFFFFFFFF, no reflection, no final xor) via a 256-entry table built here."""
    tab = _crc_table()
    for b in data:
        crc = ((crc << 8) & 0xFFFFFFFF) ^ tab[((crc >> 24) ^ b) & 0xFF]
    return crc


_CRC_TAB = None


def _crc_table():
    global _CRC_TAB
    if _CRC_TAB is None:
        t = []
        for i in range(256):
            c = i << 24
            for _ in range(8):
                c = ((c << 1) ^ 0x04C11DB7) & 0xFFFFFFFF if c & 0x80000000 else (c << 1) & 0xFFFFFFFF
            t.append(c)
        _CRC_TAB = t
    return _CRC_TAB


_TZ_LEN = {}
_TZ_FILE = {}


def tz_len(family, revision="latest"):
    """Size of a custom TrustZone preset block of (family, revision): 4 bytes per register of the database's reg_spec file (read directly)."""
    key = (family, revision)
    if key not in _TZ_LEN:
        import yaml

        from spsdk.utils.database import DatabaseManager, get_db

        try:
            path = get_db(family, revision).get_file_path(DatabaseManager.TZ, "reg_spec")
        except Exception:  # noqa: BLE001 - family without TrustZone data
            _TZ_LEN[key] = 0
            return 0
        if path not in _TZ_FILE:
            with open(path) as f:
                data = json.load(f) if path.endswith(".json") else yaml.safe_load(f)
            _TZ_FILE[path] = 4 * len(data)
        _TZ_LEN[key] = _TZ_FILE[path]
    return _TZ_LEN[key]


_TZ_SPEC = {}


def tz_spec(family, revision="latest"):
    """[(register name, preset value)] of the family's TrustZone block in file order, read directly from the database file."""
    key = (family, revision)
    if key not in _TZ_SPEC:
        import yaml

        from spsdk.utils.database import DatabaseManager, get_db

        path = get_db(family, revision).get_file_path(DatabaseManager.TZ, "reg_spec")
        with open(path) as f:
            data = json.load(f) if path.endswith(".json") else yaml.safe_load(f)
        _TZ_SPEC[key] = [(n, int(v, 0) if isinstance(v, str) else int(v)) for n, v in data.items()]
    return _TZ_SPEC[key]


def tz_customs(m, r):
    """A partial customisation (about half of the registers) and the block it must produce: presets overridden, file order, 32-bit LE."""
    spec = tz_spec(m["resolved"], m["revision"])
    customs, words = {}, []
    for name, preset in spec:
        if r.random() < 0.5:
            val = r.getrandbits(32)
            customs[name] = r.choice([hex(val), f"0x{val:08X}", val])
            words.append(val)
        else:
            words.append(preset)
    return customs, struct.pack(f"<{len(words)}I", *words)


def mtz_len(m):
    return tz_len(m["resolved"], m["revision"])


# ------------------------------------------------------------------ the database: compositions and members
def members(with_predecessors=True, all_revisions=True):
    """Every image the database offers: dicts family/revision/target/auth/cls/type/mixins. Predecessor (group alias) names are added as
    further families (they resolve to one current device); every chip revision of the database is a member of its own
    (the latest one under the name "latest")."""
    from spsdk.image.mbi.mbi import mbi_get_supported_families
    from spsdk.utils.database import DatabaseManager, get_db, get_device

    res = []
    fams = list(mbi_get_supported_families())
    names = [(f, f) for f in fams]
    if with_predecessors:
        try:
            pred = DatabaseManager().quick_info.devices.get_predecessors(fams)
            names += [(p, cur) for p, cur in sorted(pred.items()) if p not in fams]
        except Exception:  # noqa: BLE001
            pass
    for name, cur in names:
        dev = get_device(cur)
        revs = ["latest"]
        if all_revisions:
            revs += [r for r in dev.revisions.revision_names() if r != dev.latest_rev]
        for rev in revs:
            db = get_db(cur, rev)
            classes = db.get_dict(DatabaseManager.MBI, "mbi_classes")
            images = db.get_dict(DatabaseManager.MBI, "images")
            for target, auths in images.items():
                for auth, cn in auths.items():
                    d = classes[cn]
                    res.append({"family": name, "resolved": cur, "revision": rev, "target": target, "auth": auth, "cls": cn, "image_type": d["image_type"],
                                "type": IMAGE_TYPES[d["image_type"]], "mixins": [m.replace("Mbi_", "").replace("Mixin", "") for m in d["mixins"]]})
    return res


def comp_id(m):
    return m["image_type"].replace("_IMAGE", "") + ":" + "+".join(m["mixins"])


def compositions(mem=None):
    """Distinct (image type, ordered mixin list) -> {"id", "type", "mixins", "members": [...]} in database order."""
    out = {}
    for m in mem or members():
        cid = comp_id(m)
        out.setdefault(cid, {"id": cid, "type": m["type"], "mixins": m["mixins"], "members": []})["members"].append(m)
    return list(out.values())


# ------------------------------------------------------------------ option sets
class Opts(dict):
    """Concrete option set. Keys (all optional except app):
    app bytes; load int; tz 'disabled'|'enabled'|'custom'; tz_data bytes (the block; given to the builder as binary preset file unless
    tz_customs {register: value} is set - then the builder gets the YAML/dict form and tz_data is what must come out); hwkey bool; ks bytes|None; relocs [(bytes, dst)];
    cert kind name; certdir (shared directory of the certificate block configurations); img_ver int; sub int; fw_ver int; digest None|'sha256'|'sha384'|'sha512'|'add'; hmac_key hex str; iv bytes|None;
    lifecycle str; add_hash bool; variant int (selects the documented spelling of target / authentication names and of numbers in the configuration)"""

    def __getattr__(self, n):
        return self.get(n)


def has(m, name):
    return name in m["mixins"]


def _w(path, data):
    with open(path, "wb" if isinstance(data, (bytes, bytearray)) else "w") as f:
        f.write(data)
    return path


def cert_cfg_file(kind, workdir):
    """Write the certificate block configuration of a kind (absolute key paths) and return its path."""
    os.makedirs(workdir, exist_ok=True)
    path = os.path.join(workdir, f"cert_{kind.replace('+', '_')}.yaml")
    if os.path.exists(path):
        return path
    if kind in V1_KINDS:
        kd = V1_KINDS[kind]
        lines = ["imageBuildNumber: 1"]
        for i, r in enumerate(kd["roots"]):
            lines.append(f"rootCertificate{i}File: {r}")
        for j, c in enumerate(kd["chain"]):
            lines.append(f"chainCertificate{kd['main']}File{j}: {c}")
        lines.append(f"mainRootCertId: {kd['main']}")
    else:
        kd = V21_KINDS[kind]
        lines = [f"useIsk: {'true' if kd['isk'] else 'false'}"]
        for i, r in enumerate(kd["roots"]):
            lines.append(f"rootCertificate{i}File: {r}")
        lines.append(f"mainRootCertId: {kd['main']}")
        if kd["isk"]:
            lines.append(f"mainRootCertPrivateKeyFile: {kd['root_key']}")
            lines.append(f"signingCertificateFile: {kd['isk']['pub']}")
            lines.append("signingCertificateConstraint: 0")
            if kd["udata"]:
                lines.append(f"signCertData: {_w(os.path.join(workdir, 'udata%d.bin' % kd['udata']), bytes(range(kd['udata'])))}")
    lines.append("containerOutputFile: cert_block.bin")
    return _w(path, "\n".join(lines) + "\n")


def sign_key(kind):
    return V1_KINDS[kind]["key"] if kind in V1_KINDS else v21_sign_key(kind)


def make_config(m, o, workdir):
    """Member + option set -> configuration dictionary (files written under workdir)."""
    os.makedirs(workdir, exist_ok=True)
    cfg = {
        "family": m["family"],
        "revision": m.get("revision", "latest"),
        "outputImageExecutionTarget": TARGET_ALIASES[m["target"]][(o.variant or 0) % len(TARGET_ALIASES[m["target"]])],
        "outputImageAuthenticationType": AUTH_ALIASES[m["auth"]][(o.variant or 0) % len(AUTH_ALIASES[m["auth"]])],
        "masterBootOutputFile": os.path.join(workdir, "mbi.bin"),
        "inputImageFile": _w(os.path.join(workdir, "app.bin"), o["app"]),
    }
    num = (lambda n: n) if (o.variant or 0) % 3 == 1 else (lambda n: hex(n)) if (o.variant or 0) % 3 == 0 else (lambda n: str(n))  # number spellings
    if has(m, "LoadAddress") or (has(m, "LoadAddressOptional") and o.load is not None):
        cfg["outputImageExecutionAddress"] = num(o.load or 0)
    if has(m, "TrustZone") or has(m, "TrustZoneMandatory") or has(m, "ManifestCrc") or has(m, "ManifestDigest"):
        tz = o.tz or "enabled"
        if has(m, "TrustZone"):
            cfg["enableTrustZone"] = tz != "disabled"
        if tz == "custom" and o.tz_customs is not None:
            cfg["trustZonePresetFile"] = _w(os.path.join(workdir, "tz.json"), json.dumps(
                {"family": m["family"], "revision": m.get("revision", "latest"), "tzpOutputFile": "tz.bin", "trustZonePreset": o["tz_customs"]}, indent=1))
        elif tz == "custom":
            cfg["trustZonePresetFile"] = _w(os.path.join(workdir, "tz.bin"), o["tz_data"])
    if has(m, "HwKey"):
        cfg["enableHwUserModeKeys"] = bool(o.hwkey)
    if has(m, "KeyStore") and o.ks:
        cfg["keyStoreFile"] = _w(os.path.join(workdir, "ks.bin"), o["ks"])
    if has(m, "HmacMandatory") or has(m, "Hmac"):
        cfg["outputImageEncryptionKeyFile"] = o.hmac_key or USER_KEY_HEX
    if has(m, "CtrInitVector") and o.iv:
        cfg["CtrInitVector"] = "0x" + o["iv"].hex()
    if has(m, "CertBlockV1") or has(m, "CertBlockV21"):
        cfg["certBlock"] = cert_cfg_file(o["cert"], o.certdir or workdir)
        cfg["signPrivateKey"] = sign_key(o["cert"])
    if has(m, "ImageVersion"):
        cfg["imageVersion"] = num(o.img_ver or 0)
    if has(m, "FwVersion") or has(m, "ManifestCrc") or has(m, "ManifestDigest") or has(m, "BcaObsolete"):
        cfg["firmwareVersion"] = num(o.fw_ver or 0)
    if has(m, "ImageSubType"):
        cfg["outputImageSubtype"] = "main" if not o.sub else ("nbu" if o.get("sub_label") != "recovery" else "recovery")
    if has(m, "ManifestDigest") and o.digest:
        if o.digest == "add":
            cfg["addManifestDigest"] = True
        else:
            cfg["manifestDigestHashAlgorithm"] = o.digest
    if has(m, "RelocTable") and o.relocs:
        cfg["applicationTable"] = [
            {"binary": _w(os.path.join(workdir, f"reloc{i}.bin"), img), "destAddress": hex(dst), "load": True} for i, (img, dst) in enumerate(o["relocs"])
        ]
    if has(m, "FcfObsolete") and o.lifecycle:
        cfg["lifeCycle"] = o.lifecycle
    return cfg


def build_config(m, o, workdir):
    """YAML-level route: get_mbi_class(config) + load_from_config."""
    from spsdk.image.mbi.mbi import get_mbi_class

    cfg = make_config(m, o, workdir)
    cls = get_mbi_class(cfg)
    mbi = cls()
    mbi.load_from_config(cfg, search_paths=[workdir])
    return mbi, cfg


def trust_zone_obj(m, o):
    from spsdk.image.trustzone import TrustZone

    tz = o.tz or "enabled"
    if tz == "disabled":
        return TrustZone.disabled()
    if tz == "custom" and o.tz_customs is not None:
        return TrustZone.custom(family=m["family"], customizations=dict(o["tz_customs"]), revision=m.get("revision", "latest"))
    if tz == "custom":
        return TrustZone.from_binary(family=m["family"], raw_data=o["tz_data"], revision=m.get("revision", "latest"))
    return TrustZone.enabled()


def cert_block_obj(m, kind, workdir):
    from spsdk.crypto.certificate import Certificate
    from spsdk.crypto.signature_provider import SignatureProvider
    from spsdk.utils.crypto.cert_blocks import CertBlockV1, CertBlockV21

    def rd(p):
        with open(p, "rb") as f:
            return f.read()

    if kind in V1_KINDS:
        kd = V1_KINDS[kind]
        cb = CertBlockV1(build_number=1)
        cb.add_certificate(rd(kd["roots"][kd["main"]]))
        for c in kd["chain"]:
            cb.add_certificate(rd(c))
        for i, r in enumerate(kd["roots"]):
            cb.set_root_key_hash(i, Certificate.parse(rd(r)))
        return cb
    kd = V21_KINDS[kind]
    sp = SignatureProvider.create(f"type=file;file_path={kd['root_key']}") if kd["isk"] else None
    cb = CertBlockV21(
        root_certs=[rd(r) for r in kd["roots"]],
        used_root_cert=kd["main"],
        ca_flag=not kd["isk"],
        signature_provider=sp,
        isk_cert=rd(kd["isk"]["pub"]) if kd["isk"] else None,
        user_data=bytes(range(kd["udata"])) if kd["udata"] else None,
        constraints=0,
        family=m["family"],
    )
    cb.calculate()
    return cb


def signature_provider_obj(kind):
    from spsdk.crypto.signature_provider import SignatureProvider

    return SignatureProvider.create(f"type=file;file_path={sign_key(kind)}")


def digest_algo(o, kind):
    from spsdk.crypto.hash import EnumHashAlgorithm

    if not o.digest:
        return None
    if o.digest == "add":
        return {64: EnumHashAlgorithm.SHA256, 96: EnumHashAlgorithm.SHA384}[v21_sig_len(kind)]
    return EnumHashAlgorithm.from_label(o.digest)


def build_ctor(m, o, workdir):
    """Class-constructor route: create_mbi_class(name, family)(**members)."""
    from spsdk.image.keystore import KeySourceType, KeyStore
    from spsdk.image.mbi.mbi import create_mbi_class
    from spsdk.image.mbi.mbi_classes import MasterBootImageManifestCrc, MasterBootImageManifestDigest, MultipleImageEntry, MultipleImageTable

    kw = {"app": o["app"], "family": m["family"], "revision": m.get("revision", "latest")}
    if has(m, "LoadAddress") or has(m, "LoadAddressOptional"):
        kw["load_address"] = o.load or 0
    manifest = has(m, "ManifestCrc") or has(m, "ManifestDigest")
    if has(m, "TrustZone") or has(m, "TrustZoneMandatory") or manifest:
        kw["trust_zone"] = trust_zone_obj(m, o)
    if has(m, "HwKey"):
        kw["user_hw_key_enabled"] = bool(o.hwkey)
    if has(m, "KeyStore"):
        kw["key_store"] = KeyStore(KeySourceType.KEYSTORE, o["ks"]) if o.ks else None
    if has(m, "HmacMandatory") or has(m, "Hmac"):
        kw["hmac_key"] = o.hmac_key or USER_KEY_HEX
    if has(m, "CtrInitVector"):
        kw["ctr_init_vector"] = o.iv
    if has(m, "CertBlockV1") or has(m, "CertBlockV21"):
        kw["cert_block"] = cert_block_obj(m, o["cert"], workdir)
        kw["signature_provider"] = signature_provider_obj(o["cert"])
    if has(m, "ImageVersion"):
        kw["image_version"] = o.img_ver or 0
    if has(m, "ImageSubType"):
        kw["image_subtype"] = o.sub or 0
    if manifest or has(m, "FwVersion"):
        kw["firmware_version"] = o.fw_ver or 0
    if has(m, "ManifestCrc"):
        kw["manifest"] = MasterBootImageManifestCrc(o.fw_ver or 0, kw["trust_zone"])
    if has(m, "ManifestDigest"):
        kw["manifest"] = MasterBootImageManifestDigest(o.fw_ver or 0, kw["trust_zone"], digest_hash_algo=digest_algo(o, o["cert"]))
    if has(m, "RelocTable") and o.relocs:
        t = MultipleImageTable()
        for img, dst in o["relocs"]:
            t.add_entry(MultipleImageEntry(img, dst, MultipleImageEntry.LTI_LOAD))
        kw["app_table"] = t
    cls = create_mbi_class(m["cls"], m["family"], m.get("revision", "latest"))
    return cls(**kw), kw


def parse_image(m, data, o):
    from spsdk.image.mbi.mbi import MasterBootImage

    dek = (o.hmac_key or USER_KEY_HEX) if (has(m, "HmacMandatory") or has(m, "Hmac")) else None
    return MasterBootImage.parse(m["family"], data, dek=dek, revision=m.get("revision", "latest"))


def reattach_keys(parsed, m, o):
    """The parser cannot recover private keys: give the parsed object the signature provider (and HMAC key) of the original."""
    if has(m, "CertBlockV1") or has(m, "CertBlockV21"):
        parsed.signature_provider = signature_provider_obj(o["cert"])
    if (has(m, "HmacMandatory") or has(m, "Hmac")) and not getattr(parsed, "hmac_key", None):
        parsed.hmac_key = o.hmac_key or USER_KEY_HEX
    return parsed


def header_words(data):
    """The four words the ROM reads, decoded with struct only."""
    total, flags, w28 = struct.unpack_from("<3I", data, 0x20)
    (load,) = struct.unpack_from("<I", data, 0x34)
    return total, flags, w28, load


def find_cert_headers(data, limit=8):
    """Offsets at which a certificate block header starts: 'cert' + version 1.0 + header length 0x20, or 'chdr' + version 2.1."""
    res = []
    for magic, tail in ((b"cert", struct.pack("<2HI", 1, 0, 0x20)), (b"chdr", struct.pack("<2H", 1, 2))):
        at = data.find(magic)
        while at >= 0 and len(res) < limit:
            if data[at + 4 : at + 4 + len(tail)] == tail:
                res.append(at)
            at = data.find(magic, at + 1)
    return sorted(res)


def diff_ranges(a, b, limit=24):
    """Merged [from, to) ranges of positions where a and b differ (over the common length)."""
    n = min(len(a), len(b))
    res = []
    if a[:n] == b[:n]:
        return res
    i = 0
    while i < n and len(res) < limit:
        if a[i] != b[i]:
            j = i
            while j < n and a[j] != b[j]:
                j += 1
            # bridge gaps of up to 3 equal bytes (a signature may coincide in single bytes)
            while j < n and a[j:j + 4] != b[j:j + 4] and j - i < 1 << 20:
                j += 1
                while j < n and a[j] != b[j]:
                    j += 1
            res.append([i, j])
            i = j
        else:
            i += 1
    return res
