"""The ROM's view of the boot devices, frozen (anchors/SYS/bimgrom/romview.json).

What the boot ROM of a family does with a boot device is NOT SPSDK's to change: at which offset of the device it looks for the
flash configuration block, the XMCD, the key blobs and the application container, which container format it expects there, and
at which addresses the memory-mapped boot devices appear.  No offline document of these numbers exists next to the tree; they
were extracted ONCE from the device database at the pinned commit (`make()` below, run by hand) and are kept as a frozen anchor.
The lane reads the anchor, never the live database, for the ROM side: a change of the database that moves a segment then shows as
a disagreement between the host (live database) and the device (anchor).

classes : the distinct layouts  [kind (mbi | hab | ahab), cname (segment name of the container), pat (fill byte of the device),
          segs (header segments in front of the container: name, off, size, opt), imgOff (where the ROM looks for the container)]
devs    : one per (family, memory type) at revision "latest":  [fam, mt, cls (1-based index into classes),
          bases (addresses <<hi16, lo16>> at which the boot device is memory mapped - empty when the device is not mapped / not known)]
"""
import json
import os

from .common import ROOT

PATH = os.path.join(ROOT, "anchors", "SYS", "bimgrom", "romview.json")
KIND = {"mbi": "mbi", "hab_container": "hab", "ahab_container": "ahab", "primary_image_container_set": "ahab"}
MAPPED = {"flexspi_nor": ("flexspi",), "xspi_nor": ("xspi",), "internal": ("internal-flash", "flash")}


def _base(block):
    d = block
    while not isinstance(d, dict):      # (some blocks of the database are wrapped twice)
        d = d.description
    v = d["start_int"]
    return int(v, 0) if isinstance(v, str) else int(v)


def make():
    """Extract the view from the device database (to be run once at the pinned commit; the result is committed)."""
    from spsdk.image.bootable_image.bimg import BootableImage
    from spsdk.image.bootable_image.segments import BootableImageSegment, get_segment_class
    from spsdk.utils.database import get_db

    classes, index, devs = [], {}, []
    for fam in sorted(BootableImage.get_supported_families()):
        db = get_db(fam)
        blocks = db.device.info.memory_map._mem_map
        for mt in BootableImage.get_supported_memory_types(fam):
            descr = BootableImage.get_memory_type_config(fam, mt)
            names = list(descr["segments"])
            cont = next((n for n in names if n in KIND), None)
            if cont is None:
                continue                                    # SB 2.1 / SB 3.1 recovery images: no application container
            segs = []
            for n in names[:names.index(cont)]:
                cls = get_segment_class(BootableImageSegment.from_label(n))
                segs.append({"name": n, "off": int(descr["segments"][n]), "size": int(cls.SIZE)})
            c = {"kind": KIND[cont], "cname": cont, "pat": 255 if descr.get("image_pattern", "zeros") == "ones" else 0, "segs": segs,
                 "imgOff": int(descr["segments"][cont])}
            key = json.dumps(c, sort_keys=True)
            if key not in index:
                classes.append(c)
                index[key] = len(classes)
            bases = sorted({_base(b) for n, b in blocks.items() if n.startswith(MAPPED.get(mt.label, ("\0",)))})
            devs.append({"fam": fam, "mt": mt.label, "cls": index[key], "bases": [[a >> 16, a & 0xFFFF] for a in bases]})
    os.makedirs(os.path.dirname(PATH), exist_ok=True)
    with open(PATH, "w") as f:
        json.dump({"classes": classes, "devs": devs}, f, indent=0)
    return classes, devs


def load():
    with open(PATH) as f:
        return json.load(f)
