"""Reference side of the SB-X / DevHSM lane (spec/SYS/SbxRom.tla, SbxDev.tla) - nothing here imports spsdk.

  Device      an executable twin of the DSC bootloader below the USB-HID framing of mboot: communication buffer, reset, write / read memory and the
              three trust-provisioning commands of the DevHSM flow (DSC_HSM_CREATE_SESSION / ENC_BLK / ENC_SIGN).  It RECORDS one event per command
              with every number; whether a command is admissible is decided by TLC (SbxDev.tla recomputes every status the twin reported).
  walk        the independent executor of the loader automaton: walks container bytes along SbxRom.tla and logs one event per action; crypto facts
              are evaluated with hashlib / hmac / `cryptography` primitives called directly.  It never decides.

What SPSDK does not define and the twin therefore DEFINES (the device side implied by the host code; frozen here, used by both the device and the loader):
  blob        = 01 00 | 34 00 | AES-128-ECB(K_ENC, oem share input)  ||  HMAC-SHA256(K_MAC, those 20 bytes)            (52 bytes, layout of TpHsmBlob)
  session key = AES-CMAC(K_ENC, oem share input);   key derivation key = KDF(session key, timestamp);   key of block i = KDF(KDK, i)
                KDF = the documented CMAC counter-mode KDF of SB 3.1 (harness/c05_rom.kdf), access rights 0, 128-bit keys; AES-128-CBC, zero IV
  signature   = HMAC-SHA256(HMAC-SHA256(K_MAC, oem share input), header || blob || H(block 1))                           (OEM_PROVISIONING, 32 bytes)
                ECDSA P-256 / SHA-256, raw r || s, by the image signing key the loader is provisioned with               (OEM, NXP_PROVISIONING, 64 bytes)
"""
import hashlib
import hmac as _hmac
import struct

from cryptography.hazmat.primitives.ciphers import Cipher, algorithms, modes

import c05_rom as R5

HDR = 56          # header proper
BLOB = 52         # TP HSM blob
HASH = 32
MAN = HDR + BLOB + HASH   # 140: what is signed
CHUNK = 256
BLOCK = 4 + HASH + CHUNK  # 292
K_ENC = bytes.fromhex("7a11c0de5b0a9e3344f1d2c3b4a59687")
K_MAC = bytes.fromhex("d0c0ffee" * 8)
BIG = 2**31 - 1
W = R5.W
N = R5.N
limbs = R5.limbs


def sha(b):
    return hashlib.sha256(bytes(b)).hexdigest()[:16]


def hm(key, data):
    return _hmac.new(key, data, hashlib.sha256).digest()


def ecb(key, blk):
    c = Cipher(algorithms.AES(key), modes.ECB()).encryptor()
    return c.update(blk) + c.finalize()


def cbc_enc(key, data):
    c = Cipher(algorithms.AES(key), modes.CBC(bytes(16))).encryptor()
    return c.update(data) + c.finalize()


def make_blob(seed):
    head = struct.pack("<2BH16s", 1, 0, BLOB, ecb(K_ENC, seed))
    return head + hm(K_MAC, head)


def seed_of_blob(blob):
    c = Cipher(algorithms.AES(K_ENC), modes.ECB()).decryptor()
    return c.update(blob[4:20]) + c.finalize()


def session_key(seed):
    return R5.aes_cmac(K_ENC, seed)


def sign_key(seed):
    return hm(K_MAC, seed)


def kdf_fields(const, mode):
    return R5.kdf_fields(const, 0, mode, HASH)


def block_key(seed, ts, i):
    kdk = R5.kdf(session_key(seed), kdf_fields(ts, "kdk"))
    return R5.kdf(kdk, kdf_fields(i, "blk"))


def sig_len(image_type):
    return 32 if image_type == 2 else 64


def header_fields(d):
    """The fields of a 56-byte SB-X header as the format defines them (frozen from the golden header, anchors/SYS/sbx/golden.json)."""
    magic, vmin, vmaj, flags, nblocks, bsize, ts, fw, total, itype, desc = struct.unpack_from("<4s2H3IQ3I16s", d)
    return {"magicOk": magic == b"sbvx", "major": vmaj, "minor": vmin, "flags": W(flags), "blockCount": N(nblocks), "blockSize": N(bsize), "ts": limbs(ts, 4),
            "fw": W(fw), "totalLen": N(total), "imageType": N(itype), "desc": list(desc)}


# ---------------------------------------------------------------------------------------------------------------- the device
class Device:
    """DeviceBase-shaped twin (open / close / read / write of HID reports) of the DSC bootloader with the DevHSM commands.
    fault = (index of the command in the order the device receives them, kind): kind 'status' - the command is answered with a failure status and
    has no effect; 'empty' - a read-memory is answered with success and a data phase of length zero... kept to 'status' and 'short' (half the data)."""
    MPS = 56

    def __init__(self, fault=None):
        self.mem = {}            # base address -> bytearray (what was written there / what the device put there)
        self.session = None      # oem share input of the session
        self.events = []
        self.tx = []
        self.pending = None      # (address, length, bytearray) of a running write-memory data phase
        self.fault = fault
        self.ncmd = 0
        self._o = False
        self._t = 5000
        self.reads = 0

    # ---- DeviceBase
    is_opened = property(lambda s: s._o)
    timeout = property(lambda s: s._t, lambda s, v: setattr(s, "_t", v))

    def open(self):
        self._o = True

    def close(self):
        self._o = False

    def __str__(self):
        return "sbx-twin"

    def read(self, length, timeout=None):
        self.reads += 1
        if self.reads > 200000:
            raise KeyboardInterrupt()
        if not self.tx:
            raise TimeoutError()
        return self.tx.pop(0)

    def write(self, data, timeout=None):
        rid, _, ln = struct.unpack_from("<2BH", data)
        pl = bytes(data[4:4 + ln])
        if rid == 1:
            self.on_cmd(pl)
        elif rid == 2:
            self.on_data(pl)

    # ---- emissions
    def resp(self, rtag, status, *values):
        pl = struct.pack("<4B", rtag, 0, 0, 1 + len(values)) + struct.pack(f"<{1 + len(values)}I", status, *values)
        self.tx.append(struct.pack("<2BH", 3, 0, len(pl)) + pl)

    def data_in(self, blob):
        for i in range(0, len(blob), self.MPS):
            c = blob[i:i + self.MPS]
            self.tx.append(struct.pack("<2BH", 4, 0, len(c)) + c)

    def get(self, addr, n):
        """n bytes at addr: from the buffer that starts there (the model keeps buffers by their base address)."""
        b = self.mem.get(addr)
        if b is None or len(b) < n:
            return None
        return bytes(b[:n])

    def log(self, **k):
        self.events.append(k)

    # ---- commands
    def on_cmd(self, pl):
        tag, flags, _, n = struct.unpack_from("<4B", pl)
        n = min(n, (len(pl) - 4) // 4)
        p = list(struct.unpack_from(f"<{n}I", pl, 4))
        k = self.ncmd
        self.ncmd += 1
        fk = self.fault[1] if self.fault and self.fault[0] == k else None
        if fk == "statustp" and tag != 0x16:
            fk = "status"                                   # only trust-provisioning commands have that second shape of a refusal
        self.pending = None
        if tag == 0x07:                                     # get-property: only the packet size is of interest to the host
            if p and p[0] == 11:
                self.resp(0xA7, 0, self.MPS)
            else:
                self.resp(0xA7, 10300, 0)
            self.ncmd -= 1                                  # not a step of the exchange
            return
        if tag == 0x0B:
            self.log(ev="Reset", status=0, fault="none")
            self.session, self.mem = None, {}
            self.resp(0xA0, 0, tag)
            return
        if tag == 0x04:
            addr, ln = p[0], p[1]
            if fk == "status":
                self.log(ev="Write", addr=W(addr), len=N(ln), sha="", status=10101, fault="status")
                self.resp(0xA0, 10101, tag)
                return
            self.pending = (addr, ln, bytearray(), fk)
            self.resp(0xA0, 0, tag)
            if ln == 0:
                self.finish_write()
            return
        if tag == 0x03:
            addr, ln = p[0], p[1]
            blob = self.get(addr, ln)
            if fk == "status" or blob is None:
                self.log(ev="Read", addr=W(addr), len=N(ln), sha="", status=10200, fault=fk or "none", sent=0)
                self.resp(0xA3, 10200, 0)
                return
            if fk == "short":                               # the data phase ends early and the device says so in its final response
                blob2 = blob[:len(blob) // 2]
                self.log(ev="Read", addr=W(addr), len=N(ln), sha=sha(blob), status=10200, fault="short", sent=len(blob2))
                self.resp(0xA3, 0, ln)
                self.data_in(blob2)
                self.resp(0xA0, 10200, tag)
                return
            self.log(ev="Read", addr=W(addr), len=N(ln), sha=sha(blob), status=0, fault="none", sent=len(blob))
            self.resp(0xA3, 0, ln)
            self.data_in(blob)
            self.resp(0xA0, 0, tag)
            return
        if tag == 0x16 and p:
            self.trust(p[0], p[1:], fk)
            return
        self.log(ev="Other", tag=tag, status=10000, fault="none")
        self.resp(0xA0, 10000, tag)

    def on_data(self, pl):
        if not self.pending:
            self.log(ev="Other", tag=0, status=0, fault="none")
            return
        self.pending[2].extend(pl)
        if len(self.pending[2]) >= self.pending[1]:
            self.finish_write()

    def finish_write(self):
        addr, ln, got, fk = self.pending
        self.pending = None
        if fk == "final":                                   # the write fails while it is carried out: reported in the final response
            self.log(ev="Write", addr=W(addr), len=N(ln), sha=sha(got[:ln]), status=10101, fault="final")
            self.resp(0xA0, 10101, 0x04)
            return
        self.mem[addr] = bytearray(got[:ln])
        self.log(ev="Write", addr=W(addr), len=N(ln), sha=sha(got[:ln]), status=0, fault="none")
        self.resp(0xA0, 0, 0x04)

    def refuse(self, fk):
        """A trust-provisioning command the device does not carry out: a generic response with the status (the shape every command of the bootloader
        may be refused with); fault 'statustp': a trust-provisioning response that carries the status and nothing else."""
        if fk == "statustp":
            self.resp(0xB6, 10101)
        else:
            self.resp(0xA0, 10101, 0x16)

    def trust(self, op, a, fk):
        a = a + [0] * 5
        if op == 0x6000000:
            in_addr, in_size, out_addr, out_size = a[:4]
            seed = self.get(in_addr, in_size)
            ok = fk is None and self.session is None and in_size == 16 and out_size == BLOB and seed is not None
            blob = make_blob(seed) if ok else b""
            self.log(ev="CreateSession", inAddr=W(in_addr), inSize=N(in_size), outAddr=W(out_addr), outSize=N(out_size), status=0 if ok else 10101,
                     fault=fk or "none", seedSha=sha(seed) if seed is not None else "", blobSha=sha(blob) if ok else "")
            if ok:
                self.session = seed
                self.mem[out_addr] = bytearray(blob)
                self.resp(0xB6, 0, BLOB)
            else:
                self.refuse(fk)
        elif op == 0x6000001:
            h_addr, h_size, num, d_addr, d_size = a[:5]
            hdr = self.get(h_addr, h_size)
            plain = self.get(d_addr, d_size)
            hf = header_fields(hdr) if hdr is not None and h_size >= MAN else None
            ok = (fk is None and self.session is not None and hf is not None and plain is not None and d_size == CHUNK and hf["magicOk"]
                  and hf["imageType"] in (1, 2, 3) and num >= 1)
            cipher = b""
            if ok:
                ts = struct.unpack_from("<Q", hdr, 20)[0]
                cipher = cbc_enc(block_key(self.session, ts, num), plain)
            self.log(ev="EncBlk", hdrAddr=W(h_addr), hdrSize=N(h_size), num=N(num), dataAddr=W(d_addr), dataSize=N(d_size), status=0 if ok else 10101,
                     fault=fk or "none", hdrOk=hf is not None, hdr=hf or header_fields(bytes(HDR)), blobSha=sha(hdr[HDR:HDR + BLOB]) if hf else "",
                     hdrSha=sha(hdr) if hdr is not None else "", plainSha=sha(plain) if plain is not None else "", cipherSha=sha(cipher) if ok else "")
            if ok:
                self.mem[d_addr] = bytearray(cipher)
                self.resp(0xB6, 0, CHUNK)
            else:
                self.refuse(fk)
        elif op == 0x6000002:
            in_addr, in_size, out_addr, out_size = a[:4]
            msg = self.get(in_addr, in_size)
            ok = fk is None and self.session is not None and msg is not None and in_size == MAN and out_size == 32
            sig = hm(sign_key(self.session), msg) if ok else b""
            self.log(ev="Sign", inAddr=W(in_addr), inSize=N(in_size), outAddr=W(out_addr), outSize=N(out_size), status=0 if ok else 10101,
                     fault=fk or "none", msgSha=sha(msg) if msg is not None else "", sigSha=sha(sig) if ok else "")
            if ok:
                self.mem[out_addr] = bytearray(sig)
                self.resp(0xB6, 0, 32)
            else:
                self.refuse(fk)
        else:
            self.log(ev="Other", tag=0x16, status=10000, fault="none")
            self.resp(0xB6, 10000)


# ---------------------------------------------------------------------------------------------------------------- the loader
class Stop(Exception):
    pass


def walk(d, rom):
    """d: container bytes.  rom = {"mode": "plain" | "devhsm", "isk_pub": raw x || y of the provisioned image signing key | None, "blob": the TP HSM blob
    the builder was given (plain mode)}.  -> list of events, one per action of SbxRom.tla."""
    ev = []
    limit = len(d) // 16 + 64

    def L(_go=True, **k):
        ev.append(k)
        if not _go or len(ev) > limit:
            raise Stop()

    def need(o, n):
        if o < 0 or n < 0 or o + n > len(d):
            ev.append({"ev": "ExecutorStop", "why": f"read of {n} bytes at {o} beyond the end of the file"})
            raise Stop()

    dev = rom["mode"] == "devhsm"
    try:
        need(0, HDR)
        hf = header_fields(d)
        nblocks, bsize, total, itype = (struct.unpack_from("<I", d, o)[0] for o in (12, 16, 32, 36))
        ts = struct.unpack_from("<Q", d, 20)[0]
        L(ev="ParseHeader", magicOk=hf["magicOk"], major=hf["major"], minor=hf["minor"], blockCount=hf["blockCount"], blockSize=hf["blockSize"],
          totalLen=hf["totalLen"], fileLen=len(d), _go=hf["magicOk"] and bsize == BLOCK and nblocks >= 1)
        L(ev="HeaderFields", flags=hf["flags"], fw=hf["fw"], ts=hf["ts"], imageType=hf["imageType"], desc=hf["desc"], _go=itype in (1, 2, 3))
        slen = sig_len(itype)
        lay_ok = total == MAN + slen and len(d) == total + nblocks * bsize
        L(ev="Layout", fileLen=len(d), sigLen=slen, ok=lay_ok, _go=nblocks * bsize <= len(d) and len(d) - nblocks * bsize >= MAN)
        b0len = len(d) - nblocks * bsize
        # ---- TP HSM blob
        blob = d[HDR:HDR + BLOB]
        bver, btype, bsz = struct.unpack_from("<2BH", blob)
        mac_ok = hm(K_MAC, blob[:20]) == blob[20:]
        L(ev="Blob", at=HDR, version=bver, type=btype, size=bsz, macOk=mac_ok, sha=sha(blob), asSupplied=(not dev) and blob == rom.get("blob"),
          _go=mac_ok or not dev)
        seed = seed_of_blob(blob)
        # ---- signature over header || blob || H(block 1)
        sig = d[MAN:b0len]
        if not dev:
            ok = False
        elif itype == 2:
            ok = len(sig) == 32 and _hmac.compare_digest(hm(sign_key(seed), d[:MAN]), sig)
        else:
            ok = bool(rom.get("isk_pub")) and R5.ecdsa_ok(rom["isk_pub"], sig, d[:MAN])
        L(ev="VerifyBlock0", frm=0, to=MAN, sigAt=MAN, sigLen=len(sig), ok=ok, sigZero=sig == bytes(len(sig)), end=b0len, _go=ok or not dev)
        # ---- key derivation key
        kdk = None
        if dev:
            f = kdf_fields(ts, "kdk")
            kdk = R5.kdf(session_key(seed), f)
            L(ev="DeriveKdk", **f)
        # ---- hash chain, block keys
        expect = d[HDR + BLOB:MAN]
        stream = b""
        for i in range(1, nblocks + 1):
            at = b0len + (i - 1) * bsize
            need(at, bsize)
            b = d[at:at + bsize]
            (num,) = struct.unpack_from("<I", b)
            nxt = b[4:4 + HASH]
            hash_ok = hashlib.sha256(b).digest() == expect
            f = kdf_fields(i, "blk")
            L(ev="Block", i=i, at=at, num=N(num), hashOk=hash_ok, last=i == nblocks, nextZero=nxt == bytes(HASH), enc=dev, kdf=f, cipherAt=at + 4 + HASH,
              cipherLen=len(b) - 4 - HASH, cipherSha=sha(b[4 + HASH:]), ivZero=True, _go=hash_ok)
            expect = nxt
            stream += R5.cbc_decrypt_zero_iv(R5.kdf(kdk, f), b[4 + HASH:]) if dev else b[4 + HASH:]
        # ---- section header and commands (the command format is that of SB 3.1)
        uid, stype, seclen, spad = struct.unpack_from("<4I", stream)
        end = 16 + seclen
        fits = end <= len(stream)
        L(ev="Section", uid=N(uid), type=N(stype), len=N(seclen), rsvZero=spad == 0, streamLen=len(stream),
          padZero=fits and stream[end:] == bytes(len(stream) - end), _go=fits and uid == 1 and stype == 1)
        o, i = 16, 0
        while o < end:
            i += 1
            if o + 16 > end:
                L(ev="Cmd", i=i, at=o, tagOk=False, cmd=0, w1=W(0), w2=W(0), hasX=False, x=[W(0)] * 4, dataLen=0, dsha="", dataPadZero=False,
                  tail=0, tailZero=False, size=16, _go=False)
            tag, w1, w2, cmd = struct.unpack_from("<4I", stream, o)
            has_x = cmd in (1, 2, 7, 8, 9, 12)
            dlen = w2 if cmd in (2, 6, 7, 9, 10) else 4 * w2 if cmd == 5 else 0
            tail = 64 if cmd == 9 else 0
            size = 16 + (16 if has_x else 0) + (dlen + 15) // 16 * 16 + tail
            fits = o + size <= end
            x = list(struct.unpack_from("<4I", stream, o + 16)) if has_x and fits else [0, 0, 0, 0]
            data_at = o + 16 + (16 if has_x else 0)
            dsha, padz, tailz = "", False, False
            if fits:
                data = stream[data_at:data_at + dlen]
                dsha = hashlib.sha256(data).hexdigest()[:16] if cmd in (2, 5, 6, 7, 9, 10) else ""
                pad_end = o + size - tail
                padz = stream[data_at + dlen:pad_end] == bytes(pad_end - data_at - dlen)
                tailz = stream[pad_end:o + size] == bytes(tail)
            L(ev="Cmd", i=i, at=o, tagOk=tag == 0x55AAAA55, cmd=N(cmd), w1=W(w1), w2=W(w2), hasX=has_x, x=[W(v) for v in x], dataLen=N(dlen),
              dsha=dsha, dataPadZero=padz, tail=tail, tailZero=tailz, size=N(size), _go=fits and tag == 0x55AAAA55 and 1 <= cmd <= 14)
            o += size
        L(ev="Accept", end=o, nCmds=i, covEnd=b0len + nblocks * bsize)
    except Stop:
        pass
    except Exception as e:  # noqa: BLE001 - the executor must be total on tampered files
        ev.append({"ev": "ExecutorStop", "why": repr(e)[:120]})
    return ev


def regions(d):
    """Byte regions of a well-formed container (to CHOOSE bit positions for tampering): [(name, from, to)]."""
    nblocks, bsize = struct.unpack_from("<2I", d, 12)
    b0 = len(d) - nblocks * bsize
    r = [("hdr.magic_version", 0, 8), ("hdr.flags", 8, 12), ("hdr.block_count", 12, 16), ("hdr.block_size", 16, 20), ("hdr.timestamp", 20, 28),
         ("hdr.fw_version", 28, 32), ("hdr.total_length", 32, 36), ("hdr.image_type", 36, 40), ("hdr.description", 40, 56),
         ("blob.header", 56, 60), ("blob.oem_enc_data", 60, 76), ("blob.mac", 76, 108), ("hash_of_block1", 108, 140), ("signature", 140, b0)]
    o = b0
    for i in range(nblocks):
        tagn = "last" if i == nblocks - 1 else "first" if i == 0 else "mid"
        r += [(f"block.{tagn}.number", o, o + 4), (f"block.{tagn}.next_hash", o + 4, o + 36), (f"block.{tagn}.data", o + 36, o + bsize)]
        o += bsize
    return r


# ---------------------------------------------------------------------------------------------------------------- a builder that is not SPSDK (canary)
def ref_commands_stream(cmds):
    """cmds: [(tag, w1, w2, [x0..x3] | None, data, tail)] -> section header || commands, zero padded to whole chunks."""
    body = b""
    for t, w1, w2, x, data, tail in cmds:
        body += struct.pack("<4I", 0x55AAAA55, w1, w2, t)
        if x is not None:
            body += struct.pack("<4I", *x)
        body += data + bytes(-len(data) % 16) + bytes(tail)
    s = struct.pack("<4I", 1, 1, len(body), 0) + body
    return s + bytes(-len(s) % CHUNK)


def ref_container(seed, itype, flags, ts, fw, desc16, stream, isk_sign=None, encrypt=True, blob=None):
    """A container built from the format definition alone (device keys of the twin).  encrypt=False / blob given: the unsigned plain form."""
    chunks = [stream[i:i + CHUNK] for i in range(0, len(stream), CHUNK)]
    if encrypt:
        chunks = [cbc_enc(block_key(seed, ts, i + 1), c) for i, c in enumerate(chunks)]
    nxt = bytes(HASH)
    blocks = []
    for i in range(len(chunks), 0, -1):
        b = struct.pack("<I", i) + nxt + chunks[i - 1]
        blocks.insert(0, b)
        nxt = hashlib.sha256(b).digest()
    slen = sig_len(itype)
    head = struct.pack("<4s2H3IQ3I16s", b"sbvx", 0, 1, flags, len(chunks), BLOCK, ts, fw, MAN + slen, itype, desc16)
    man = head + (blob if blob is not None else make_blob(seed)) + nxt
    if not encrypt:
        sig = bytes(slen)
    elif itype == 2:
        sig = hm(sign_key(seed), man)
    else:
        sig = isk_sign(man)
    return man + sig + b"".join(blocks)
