"""C06 executor, third layer: the tamper placement at the granularity the format documents, and the dimensions of one flip.

fields(data, cver, max_cont) = the field classes of lib.ahab_rom2.fields with the SRK structures split into the sub-fields of the
documented layouts (names as in spec/C06/AhabRomMC.tla, operator SrkRegs):

  SRK record head (12 bytes)        srk.rec.tag / length / alg / hash_alg / key_size / reserved / flags / par_len  (+ .used / .other)
                                    +0 tag  +1 length (LE16)  +3 signing algorithm  +4 hash algorithm  +5 key size / curve
                                    +6 not used  +7 SRK flags  +8 parameter lengths (two LE16: modulus / X, exponent / Y)
  SRK table array head (version 2)  srk.array.head (version, length, tag)  srk.array.count (number of tables)  srk.array.reserved (3)
  SRK data head (version 2)         srk.data.head (version, length, tag)   srk.data.id (record number)        srk.data.reserved (3)

A `known` finding pattern is part of the oracle; it can only be as narrow as the finding key is fine.  The coarse class
`srk.rec_hdr.used` put the reserved byte (never noticed by SPSDK), the version-2 parameter lengths (ignored by SPSDK) and the version-1
parameter lengths (noticed) under one key - a change that stops noticing the version-1 lengths disappeared in it.

  key material (version-1 record, SRK data, SRK data of the certificate key)
                                    <class>.par1 = modulus / X, <class>.par2 = exponent / Y  - cut by the documented lengths of the key type

dims(...) = the dimensions a defect of the tamper lane can depend on, derived from the witness alone (file bytes + builder input):
  v1 | v2                   container version
  ecc256 .. rsa4096 | none  key type of the SRK set of the container
  c0 | cN                   the container is the first one / a later one
  blob | noblob             the signature block carries a blob (wrapped DEK)
  nocert | cert | cert.container   certificate, and whether its key signs the container
  set | clr [.beyond]       direction of the flip (0 -> 1 / 1 -> 0); for a container length additionally: the corrupted length reaches
                            beyond the end of the file (the slot then holds no complete container)
  b<k> | b+                 byte of the field that was hit (fields of at most 16 bytes) / a bulk field
"""
import struct

from . import ahab_rom as AR
from . import ahab_rom2 as AR2

REC_SUB = [("tag", 0, 1), ("length", 1, 2), ("alg", 3, 1), ("hash_alg", 4, 1), ("key_size", 5, 1), ("reserved", 6, 1), ("flags", 7, 1), ("par_len", 8, 4)]
ARR_SUB = [("srk.array.head", 0, 4), ("srk.array.count", 4, 1), ("srk.array.reserved", 5, 3)]
DATA_SUB = [("srk.data.head", 0, 4), ("srk.data.id", 4, 1), ("srk.data.reserved", 5, 3)]
# classes of bulk data (digests, key material, signatures, images): sampled, never swept bit by bit
BULK = ("image", "image.encrypted", "iae.hash", "iae.hash.pad", "iae.iv.plain", "iae.iv.encrypted", "srk.rec_key.used", "srk.rec_key.other",
        "srk.data_key", "sig.data", "cert.key_rec.hash", "cert.key_data.key", "cert.sig.data")
PAR = {"ecc256": (32, 32), "ecc384": (48, 48), "ecc521": (66, 66), "rsa2048": (256, 4), "rsa3072": (384, 4), "rsa4096": (512, 4)}   # documented parameter lengths


def fields(data, cver=1, max_cont=3, kts=None):
    """kts: key type of the SRK set per container index (builder input) - cuts the key material into its two parameters."""
    out = []
    for f in AR2.fields(data, cver, max_cont):
        cls, ci, at, nbytes, mask = f
        sub = None
        par = PAR.get((kts or {}).get(ci))
        if par and nbytes == sum(par) and (cls in ("srk.data_key", "cert.key_data.key") or (cver == 1 and cls.startswith("srk.rec_key."))):
            out += [[cls + ".par1", ci, at, par[0], (1 << (8 * par[0])) - 1], [cls + ".par2", ci, at + par[0], par[1], (1 << (8 * par[1])) - 1]]
            continue
        if cls.startswith("srk.rec_hdr.") and nbytes == 12:
            who = cls.rsplit(".", 1)[1]
            sub = [(f"srk.rec.{name}.{who}", off, n) for name, off, n in REC_SUB]
        elif cls == "srk.array_hdr" and nbytes == 8:
            sub = ARR_SUB
        elif cls == "srk.data_hdr" and nbytes == 8:
            sub = DATA_SUB
        if sub is None:
            out.append(f)
        else:
            out += [[name, ci, at + off, n, (1 << (8 * n)) - 1] for name, off, n in sub]
    return out


def structural(field):
    """A field of the structure (heads, offsets, lengths, flags, reserved bytes): every bit of it is a case of its own."""
    return field[0] not in BULK and not field[0].endswith(".par1") and field[3] <= 16


def record_index(data, cver, field):
    """Index (0..3) of the SRK record a `srk.rec.*` / `srk.rec_key.*` field belongs to, -1 for other fields."""
    cls, ci, at, _n, _m = field
    if not cls.startswith(("srk.rec.", "srk.rec_key.")):
        return -1
    c = ci * AR.slot_size(cver)
    sboff = struct.unpack_from("<H", data, c + 12)[0]
    s = c + sboff
    srk_off = struct.unpack_from("<H", data, s + 6)[0]
    t = s + srk_off + (8 if cver == 2 else 0)
    q = t + 4
    for r in range(4):
        rln = struct.unpack_from("<H", data, q + 1)[0]
        if q <= at < q + rln:
            return r
        q += rln
    return -1


def dims(data, cver, field, at, bit, cont):
    """Dimensions of the flip of bit `bit` of byte `at` (inside `field`) of the file `data`; cont = builder input of the container hit:
    {"kt", "blob", "cert": "" | "cert" | "cert.container"}.  Returns the list [version, key type, position, blob, certificate, direction, byte]."""
    cls, ci, f_at, nbytes, _mask = field
    old = (data[at] >> bit) & 1
    direction = "clr" if old else "set"
    if cls == "hdr.length":  # a container length that reaches beyond the file is a class of its own (the slot then holds no container at all)
        c = ci * AR.slot_size(cver)
        new = struct.unpack_from("<H", bytes(b ^ ((1 << bit) if c + 1 + k == at else 0) for k, b in enumerate(data[c + 1:c + 3])), 0)[0]
        if c + new > len(data):
            direction += ".beyond"
    return [f"v{cver}", cont.get("kt") or "none", "c0" if ci == 0 else "cN", "blob" if cont.get("blob") else "noblob", cont.get("cert") or "nocert",
            direction, f"b{at - f_at}" if nbytes <= 16 else "b+"]
