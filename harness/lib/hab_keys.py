"""HAB4 PKI trees for C07 under /verif/keys/hab/<tree>/{crts,keys}/ (CST naming, so that SPSDK's key auto-detection works).

Every tree: CA1 -> SRK1..SRK4 -> CSF<i>_1, IMG<i>_1.  Created once with `cryptography` (never through spsdk.crypto) and
committed; `ensure()` only generates what is missing.  `fa_*` trees have SRK certificates WITHOUT the CA flag (HAB4 fast
authentication: the SRK itself signs CSF and data, no CSFK / IMGK certificates).
"""
import datetime
import os

from cryptography import x509
from cryptography.hazmat.primitives import hashes, serialization
from cryptography.hazmat.primitives.asymmetric import ec, rsa
from cryptography.x509.oid import NameOID

from .common import ROOT

BASE = os.path.join(ROOT, "keys", "hab")

# tree -> (kind, SRK size/curve, leaf size/curve per SRK index 1..4, srk_is_ca)
TREES = {
    "rsa2048": ("rsa", 2048, (2048, 2048, 2048, 2048), True),
    "rsa3072": ("rsa", 3072, (2048, 3072, 2048, 2048), True),
    "rsa4096": ("rsa", 4096, (2048, 2048, 2048, 4096), True),
    "p256": ("ecc", "secp256r1", ("secp256r1",) * 4, True),
    "p384": ("ecc", "secp384r1", ("secp384r1",) * 4, True),
    "p521": ("ecc", "secp521r1", ("secp521r1",) * 4, True),
    "fa_rsa2048": ("rsa", 2048, (), False),
    "fa_p256": ("ecc", "secp256r1", (), False),
}
CURVES = {"secp256r1": ec.SECP256R1, "secp384r1": ec.SECP384R1, "secp521r1": ec.SECP521R1}


def _tag(kind, size):
    return f"sha256_{size}_65537" if kind == "rsa" else f"sha256_{size}"


def srk_name(tree, i):
    kind, size, _, ca = TREES[tree]
    return f"SRK{i}_{_tag(kind, size)}_v3_{'ca' if ca else 'usr'}"


def leaf_name(tree, role, i):
    kind, _, leaf, _ = TREES[tree]
    return f"{role}{i}_1_{_tag(kind, leaf[i - 1])}_v3_usr"


def crt_path(tree, name):
    return os.path.join(BASE, tree, "crts", name + "_crt.pem")


def key_path(tree, name):
    return os.path.join(BASE, tree, "keys", name + "_key.pem")


def _newkey(kind, size):
    if kind == "rsa":
        return rsa.generate_private_key(public_exponent=65537, key_size=size)
    return ec.generate_private_key(CURVES[size]())


def _cert(subject_cn, pub, issuer_cn, issuer_key, serial, ca):
    now = datetime.datetime(2024, 1, 1, tzinfo=datetime.timezone.utc)
    b = (
        x509.CertificateBuilder()
        .subject_name(x509.Name([x509.NameAttribute(NameOID.COMMON_NAME, subject_cn)]))
        .issuer_name(x509.Name([x509.NameAttribute(NameOID.COMMON_NAME, issuer_cn)]))
        .public_key(pub)
        .serial_number(serial)
        .not_valid_before(now)
        .not_valid_after(now + datetime.timedelta(days=3650 * 3))
        .add_extension(x509.BasicConstraints(ca=ca, path_length=None), critical=ca)
    )
    if ca:
        b = b.add_extension(
            x509.KeyUsage(
                digital_signature=False, content_commitment=False, key_encipherment=False, data_encipherment=False,
                key_agreement=False, key_cert_sign=True, crl_sign=True, encipher_only=False, decipher_only=False,
            ),
            critical=False,
        )
    b = b.add_extension(x509.SubjectKeyIdentifier.from_public_key(pub), critical=False)
    b = b.add_extension(x509.AuthorityKeyIdentifier.from_issuer_public_key(issuer_key.public_key()), critical=False)
    return b.sign(issuer_key, hashes.SHA256())


def _write(tree, name, key, cert):
    os.makedirs(os.path.join(BASE, tree, "crts"), exist_ok=True)
    os.makedirs(os.path.join(BASE, tree, "keys"), exist_ok=True)
    with open(key_path(tree, name), "wb") as f:
        f.write(key.private_bytes(serialization.Encoding.PEM, serialization.PrivateFormat.PKCS8, serialization.NoEncryption()))
    with open(crt_path(tree, name), "wb") as f:
        f.write(cert.public_bytes(serialization.Encoding.PEM))


def _load_key(path):
    with open(path, "rb") as f:
        return serialization.load_pem_private_key(f.read(), None)


def make_tree(tree):
    kind, size, leaf, ca = TREES[tree]
    ca_name = f"CA1_{_tag(kind, size)}_v3_ca"
    if os.path.exists(key_path(tree, ca_name)):
        ca_key = _load_key(key_path(tree, ca_name))
    else:
        ca_key = _newkey(kind, size)
        _write(tree, ca_name, ca_key, _cert(ca_name, ca_key.public_key(), ca_name, ca_key, 0x1000, True))
    for i in range(1, 5):
        sn = srk_name(tree, i)
        if os.path.exists(key_path(tree, sn)) and os.path.exists(crt_path(tree, sn)):
            srk_key = _load_key(key_path(tree, sn))
        else:
            srk_key = _newkey(kind, size)
            _write(tree, sn, srk_key, _cert(sn, srk_key.public_key(), ca_name, ca_key, 0x2000 + i, ca))
        for role in ("CSF", "IMG") if leaf else ():
            ln = leaf_name(tree, role, i)
            if os.path.exists(key_path(tree, ln)) and os.path.exists(crt_path(tree, ln)):
                continue
            k = _newkey(kind, leaf[i - 1])
            serial = 0x12345600 + i * 16 + (1 if role == "CSF" else 2)
            _write(tree, ln, k, _cert(ln, k.public_key(), sn, srk_key, serial, False))


def ensure():
    for t in TREES:
        make_tree(t)
    return BASE


if __name__ == "__main__":
    print(ensure())
