"""Executor of the C02 ROM acceptance automaton (spec/C02/MbiRom.tla) on real bytes - edition of the strengthening round.

Same contract and same trusted base as lib/mbi_rom.py (whose helpers and certificate-block-v1 walk are reused unchanged):
walk(b, rom, sec) logs one event per spec action with every number it used and decides nothing. What is new:

 * images whose payload ends before byte 64 (the image classes accept payloads from 0x38 bytes): the header regions end
   where the payload ends; a certificate block may start at 0x38 / 0x3C;
 * load-to-RAM images with HMAC whose payload ends before byte 64: the HMAC field, fixed at byte 64, then lies INSIDE the
   certificate block. The ROM's HMAC check over the first 64 bytes of the file is defined all the same and is logged as
   usual; what the ROM does with the split block is not settled offline, so the walk ends there with the event
   `CertSplit` (the specification decides whether that event is legitimate: SplitOK);
 * CheckCrc / ManifestCrc log `chain`: the value class (zero / ones / other) of the running CRC at the offsets where a
   block-wise implementation could split its computation, and of the final value - measured with the table-driven CRC on
   the exported bytes; the harness uses it to confirm that a crafted payload reached the class the generator planned;
 * Decrypt logs the class of the counter IV found in the file.
"""
import hashlib
import hmac as _hmac
import struct

from .crc_craft import value_class
from .mbi_rom import (ANY_FUSE, BIG, KS_LEN, ROM_WORDS, _Stop, _walk_v1, aes_ctr, aes_ecb, cl, crc32_mpeg2, ecdsa_ok,  # noqa: F401
                      mask_rom_words, rsa_ok, w2)

MIN_LEN = 0x38  # the four ROM words end here: the smallest payload the image classes accept
CRC_CUTS = (0x20, 0x24, 0x28, 0x30, 0x34, 0x38, 0x40, 0x200, 0x400, 0x1000)  # file offsets; 0 in a logged chain stands for "the final value"
MAN_CUTS = (0x28,)


def crc_chain(b, end, skip_at=None, cuts=CRC_CUTS):
    """Running CRC-32/MPEG-2 over b[:end] (the word at skip_at left out) -> (final value, [[cut, class] ...], {cut: value})."""
    c, pos, chain, vals = 0xFFFFFFFF, 0, [], {}
    for cut in cuts:
        if cut > end or (skip_at is not None and skip_at < cut < skip_at + 4):
            continue
        if skip_at is not None and pos <= skip_at < cut:
            c = crc32_mpeg2(b[pos:skip_at], c)
            pos = skip_at + 4
        c = crc32_mpeg2(b[pos:cut], c)
        pos = cut
        chain.append([cut, value_class(c)])
        vals[cut] = c
    if skip_at is not None and pos <= skip_at < end:
        c = crc32_mpeg2(b[pos:skip_at], c)
        pos = skip_at + 4
    c = crc32_mpeg2(b[pos:end], c)
    chain.append([0, value_class(c)])
    vals[0] = c
    return c, chain, vals


def iv_class(iv):
    v = int.from_bytes(iv, "big")
    if v == 0:
        return "zero"
    if v == (1 << 128) - 1:
        return "ones"
    if v & ((1 << 64) - 1) == (1 << 64) - 1:
        return "lo64ones"
    if v & 0xFFFFFFFF == 0xFFFFFFFF:
        return "lo32ones"
    return "other"


def walk(b, rom, sec):
    """b: file bytes. rom: {type, cb, hmac, tz, man}. sec: {userKey: bytes|None, fuse: bytes|None, plain: bytes|None}.
    Returns (events, regions) - regions: list of [class name, from, to) the walk has identified (for tamper placement)."""
    ev, reg = [], []
    n = len(b)

    def log(name, **k):
        k["ev"] = name
        for key, val in k.items():
            if isinstance(val, int) and not isinstance(val, bool):
                k[key] = cl(val)
        ev.append(k)
        return k

    def has(off, ln):
        return 0 <= off and 0 <= ln and off + ln <= n

    def stop(why):
        log("Reject", why=why)
        raise _Stop()

    def region(name, a, c):
        if c > a:
            reg.append([name, a, c])

    try:
        _walk(b, n, rom, sec, log, has, stop, region)
    except _Stop:
        pass
    except Exception as x:  # noqa: BLE001 - the walk is total: an unexpected parser error is a rejection, never a crash
        ev.append({"ev": "Reject", "why": f"executor exception {type(x).__name__}: {str(x)[:80]}"})
    for e in ev:  # facts of this edition, attached to the events of the shared v1 walk
        if e["ev"] == "Decrypt" and e.get("rd"):
            e["ivClass"] = iv_class(b[e["ivAt"]:e["ivAt"] + 16])
    return ev, reg


def _walk(b, n, rom, sec, log, has, stop, region):
    # ---- ReadIvt
    if n < MIN_LEN:
        log("ReadIvt", rd=False, fileLen=n, totalLen=0, type=0, tzType=0, ks=False, w28=[0, 0])
        stop("shorter than the header words")
    total, flags, w28 = struct.unpack_from("<3I", b, 0x20)
    typ, tz_type, ks = flags & 0x3F, (flags >> 13) & 3, bool(flags & 0x8000)
    log("ReadIvt", rd=True, fileLen=n, totalLen=total, type=typ, tzType=tz_type, ks=ks, w28=w2(w28))
    if typ != rom["type"] or total != n:
        stop("image type / total length")
    if tz_type == 3 or (tz_type == 1 and not rom["tz"]) or (ks and not rom["hmac"]):
        stop("flags")
    tz = rom["tz"] if tz_type == 1 else 0
    if rom["cb"] == 0:
        hdr_end = max(MIN_LEN, min(64, n - tz))
    else:
        hdr_end = w28 if MIN_LEN <= w28 < 64 else 64
    region("head", 0, 0x20)
    region("ivt_len", 0x20, 0x24)
    region("ivt_flags", 0x24, 0x28)
    region("crc_word" if rom["cb"] == 0 else "ivt_w28", 0x28, 0x2C)
    region("ivt_tail", 0x2C, hdr_end)

    # ---- CRC images
    if rom["cb"] == 0:
        c, chain, _ = crc_chain(b, n, skip_at=0x28)
        ok = c == w28
        log("CheckCrc", frm=0, to=n, skipAt=0x28, skipLen=4, ok=ok, chain=chain)
        if not ok:
            stop("CRC")
        if n - tz < MIN_LEN:
            stop("TrustZone block inside the header")
        region("app", 64, n - tz)
        region("tz", n - tz, n)
        log("Accept")
        return

    # ---- HMAC (+ key store)
    shift = 0
    if rom["hmac"]:
        shift = 32 + (KS_LEN if ks else 0)
        if not has(64, shift) or sec.get("userKey") is None:
            log("CheckHmac", macAt=64, macLen=32, frm=0, to=64, key="AES-ECB(userKey, 0^16)", ok=False)
            stop("HMAC region")
        key = aes_ecb(sec["userKey"], bytes(16))
        ok = _hmac.new(key, b[:64], hashlib.sha256).digest() == b[64:96]
        log("CheckHmac", macAt=64, macLen=32, frm=0, to=64, key="AES-ECB(userKey, 0^16)", ok=ok)
        if not ok:
            stop("HMAC")
        if w28 < 64:
            # the HMAC field splits the certificate block: everything behind the HMAC check is unsettled (SplitOK decides)
            region("cb_front", hdr_end, 64)
            region("hmac", 64, 96)
            region("keystore", 96, 64 + shift)
            region("unsettled", 64 + shift, n)
            log("CertSplit", at=w28)
            return
        region("hmac", 64, 96)
        region("keystore", 96, 64 + shift)

    if w28 >= BIG:
        stop("certificate block offset")
    if rom["cb"] == 1:
        _walk_v1(b, n, rom, sec, log, has, stop, region, w28, shift, tz, ks)
    else:
        _walk_v21(b, n, rom, sec, log, has, stop, region, w28, tz)


def _walk_v21(b, n, rom, sec, log, has, stop, region, w28, tz):
    c = w28
    if not has(c, 16):
        log("CertBlockV21", rd=False, magicOk=False, verOk=False, at=c, size=0)
        stop("certificate block header outside the file")
    magic, vmin, vmaj, csize = struct.unpack_from("<4s2HI", b, c)
    log("CertBlockV21", rd=True, magicOk=magic == b"chdr", verOk=(vmaj, vmin) == (2, 1), at=c, size=csize)
    if magic != b"chdr" or (vmaj, vmin) != (2, 1) or c % 4 or c < MIN_LEN:
        stop("certificate block header")
    region("app", 64, c)
    region("cb_hdr", c, c + 12)
    o = c + 12
    (rflags,) = struct.unpack_from("<I", b, o)
    nk, used, ctype, ca = (rflags >> 4) & 0xF, (rflags >> 8) & 0xF, rflags & 0xF, bool(rflags >> 31)
    clen = {1: 32, 2: 48}.get(ctype, 0)
    tlen = nk * clen if nk > 1 else 0
    key_at = o + 4 + tlen
    if not clen or not 1 <= nk <= 4 or used >= nk or not has(key_at, 2 * clen):
        log("RootKeyRecord", rd=False, at=o, nKeys=nk, used=used, curveLen=clen, ca=ca, tableLen=tlen, keyAt=key_at, keyLen=2 * clen,
            usedInTable=False, fuseOk=False)
        stop("root key record")
    H = hashlib.sha256 if clen == 32 else hashlib.sha384
    table = b[o + 4:o + 4 + tlen]
    root = b[key_at:key_at + 2 * clen]
    in_table = H(root).digest() == table[used * clen:(used + 1) * clen] if nk > 1 else True
    rkth = H(table).digest() if nk > 1 else H(root).digest()
    fuse_ok = sec.get("fuse") is not None and sec["fuse"] in (ANY_FUSE, rkth)
    log("RootKeyRecord", rd=True, at=o, nKeys=nk, used=used, curveLen=clen, ca=ca, tableLen=tlen, keyAt=key_at, keyLen=2 * clen,
        usedInTable=in_table, fuseOk=fuse_ok)
    if not in_table or not fuse_ok:
        stop("root key hash")
    region("rkr_flags", o, o + 4)
    region("rkr_table", o + 4, key_at)
    region("rkr_key", key_at, key_at + 2 * clen)
    o = key_at + 2 * clen
    signer = root
    if not ca:
        if not has(o, 12):
            log("IskCert", rd=False, ok=False, at=o, iskLen=0, udLen=0, udFlag=False, sigOff=0, sigAt=0, sigLen=0, frm=c + 12, to=0)
            stop("ISK certificate outside the file")
        sig_off, _cons, ifl = struct.unpack_from("<3I", b, o)
        ilen = {1: 32, 2: 48}.get(ifl & 0xF, 0)
        ud = sig_off - 12 - 2 * ilen
        if not ilen or ud < 0 or not has(o, sig_off + 2 * clen):
            log("IskCert", rd=False, ok=False, at=o, iskLen=2 * ilen, udLen=ud, udFlag=bool(ifl >> 31), sigOff=sig_off, sigAt=o + sig_off,
                sigLen=2 * clen, frm=c + 12, to=o + sig_off)
            stop("ISK certificate")
        isk = b[o + 12:o + 12 + 2 * ilen]
        ok = ecdsa_ok(root, b[o + sig_off:o + sig_off + 2 * clen], b[c + 12:o + sig_off])
        log("IskCert", rd=True, ok=ok, at=o, iskLen=2 * ilen, udLen=ud, udFlag=bool(ifl >> 31), sigOff=sig_off, sigAt=o + sig_off,
            sigLen=2 * clen, frm=c + 12, to=o + sig_off)
        if not ok:
            stop("ISK signature")
        region("isk_hdr", o, o + 12)
        region("isk_key", o + 12, o + 12 + 2 * ilen)
        region("isk_ud", o + 12 + 2 * ilen, o + sig_off)
        region("isk_sig", o + sig_off, o + sig_off + 2 * clen)
        o = o + sig_off + 2 * clen
        signer = isk
    log("CertBlockEnd", at=o, size=csize)
    if csize != o - c:
        stop("certificate block size")
    if not has(o, 20):
        log("Manifest", rd=False, magicOk=False, verOk=False, at=o, tzLen=0, totalLen=0, digestLen=0)
        stop("manifest outside the file")
    mmagic, mver, _fw, mtotal, mflags = struct.unpack_from("<4s4I", b, o)
    dig = {1: 32, 2: 48, 3: 64}.get(mflags & 0xF, -1) if mflags >> 31 else 0
    mtz = mtotal - 20 - (4 if rom["man"] == 2 else 0)
    log("Manifest", rd=True, magicOk=mmagic == b"imgm", verOk=mver == 0x10000, at=o, tzLen=mtz, totalLen=mtotal, digestLen=dig)
    if mmagic != b"imgm" or mver != 0x10000 or mtz != tz or dig < 0 or not has(o, mtotal):
        stop("manifest")
    region("man_hdr", o, o + 20)
    region("man_tz", o + 20, o + 20 + mtz)
    s = o + mtotal
    if rom["man"] == 2:
        cval, chain, _ = crc_chain(b, s - 4, cuts=MAN_CUTS)
        ok = cval == struct.unpack_from("<I", b, s - 4)[0]
        log("ManifestCrc", ok=ok, at=s - 4, frm=0, to=s - 4, chain=chain)
        if not ok:
            stop("manifest CRC")
        region("man_crc", s - 4, s)
    sl = len(signer)
    if not has(s, sl):
        log("VerifySigV21", rd=False, ok=False, frm=0, to=s, sigAt=s, sigLen=sl)
        stop("signature outside the file")
    ok = ecdsa_ok(signer, b[s:s + sl], b[:s])
    log("VerifySigV21", rd=True, ok=ok, frm=0, to=s, sigAt=s, sigLen=sl)
    if not ok:
        stop("image signature")
    region("sig", s, s + sl)
    end = s + sl
    if dig:
        if not has(end, dig):
            log("CheckDigest", rd=False, ok=False, at=end, len=dig, frm=0, to=s)
            stop("digest outside the file")
        hname = {32: "sha256", 48: "sha384", 64: "sha512"}[dig]
        ok = hashlib.new(hname, b[:s]).digest() == b[end:end + dig]
        log("CheckDigest", rd=True, ok=ok, at=end, len=dig, frm=0, to=s)
        if not ok:
            stop("manifest digest")
        region("digest", end, end + dig)
        end += dig
    if end != n:
        stop("bytes behind the end of the image")
    log("Accept")
