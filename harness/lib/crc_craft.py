"""Crafting payload words that drive a chained CRC-32/MPEG-2 through a chosen value (trusted base, no SPSDK / crcmod code).

A CRC is linear over GF(2): for a fixed byte stream in which one aligned 32-bit word w is free, the CRC state after any
prefix that contains the word is  f(w) = f(0) xor M.w  with an invertible 32x32 bit matrix M.  solve_word() computes M
column by column with a BIT-SERIAL CRC (deliberately not the table-driven one of lib/mbi_rom.py, which the caller uses to
check the result) and solves M.w = target xor f(0) by Gaussian elimination.  That reaches classes a random payload meets
with probability 2^-32: "the running value of a computation that is continued block by block is exactly 0 / all ones".
"""
import struct

POLY = 0x04C11DB7
INIT = 0xFFFFFFFF
TARGETS = {"zero": 0x00000000, "ones": 0xFFFFFFFF}


def crc_bits(data, c=INIT):
    """CRC-32/MPEG-2, one bit at a time: poly 04C11DB7, MSB first, no reflection, no final xor."""
    for b in data:
        c ^= b << 24
        for _ in range(8):
            c = ((c << 1) ^ POLY) & 0xFFFFFFFF if c & 0x80000000 else (c << 1) & 0xFFFFFFFF
    return c


def gf2_solve(cols, rhs):
    """w with  xor_{i : bit i of w} cols[i] == rhs  (32 columns of 32 bits); None if the system is singular."""
    n = len(cols)
    rows = []
    for j in range(32):  # one equation per output bit: coefficients in bits 0..n-1, right-hand side in bit n
        row = 0
        for i in range(n):
            row |= ((cols[i] >> j) & 1) << i
        rows.append(row | (((rhs >> j) & 1) << n))
    piv_of = {}
    r = 0
    for i in range(n):
        p = next((k for k in range(r, 32) if (rows[k] >> i) & 1), None)
        if p is None:
            continue
        rows[r], rows[p] = rows[p], rows[r]
        for k in range(32):
            if k != r and (rows[k] >> i) & 1:
                rows[k] ^= rows[r]
        piv_of[i] = r
        r += 1
    if any(row == (1 << n) for row in rows):  # 0 = 1
        return None
    w = 0
    for i, k in piv_of.items():
        w |= ((rows[k] >> n) & 1) << i
    return w


def solve_word(stream, pos, cut, target):
    """The little-endian word for stream[pos:pos+4] that makes CRC(stream[:cut]) == target (stream = the bytes the CRC runs over,
    pos + 4 <= cut <= len(stream)).  Returns None when it cannot be done."""
    if not (0 <= pos and pos + 4 <= cut <= len(stream)):
        return None
    pre = crc_bits(stream[:pos])
    tail = bytes(stream[pos + 4:cut])

    def f(w):
        return crc_bits(struct.pack("<I", w) + tail, pre)

    f0 = f(0)
    cols = [f(1 << i) ^ f0 for i in range(32)]
    w = gf2_solve(cols, target ^ f0)
    if w is None or f(w) != target:
        return None
    return w


def value_class(c):
    return "zero" if c == 0 else "ones" if c == 0xFFFFFFFF else "other"
