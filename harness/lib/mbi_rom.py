"""Executor of the C02 ROM acceptance automaton (spec/C02/MbiRom.tla) on real bytes.

walk(b, rom, sec) walks a Master Boot Image file exactly along the automaton and logs one event per spec action with every
number it used. It decides nothing: TLC (MbiRomTrace) recomputes every range from the header fields logged earlier and demands
the crypto facts to be TRUE. The walk is total: every read is bounds-checked, loops are bounded by the file length, it stops
at the first failed fact and ends every trace with an `Accept` or a `Reject` event.

Trusted base (independent of spsdk.crypto): hashlib, hmac, own table-less CRC-32/MPEG-2, `cryptography` primitives called
directly (RSA PKCS#1 v1.5 verify, ECDSA verify, AES-ECB, AES-CTR, X.509 DER parsing).
"""
import hashlib
import hmac as _hmac
import struct
import warnings

from cryptography import x509
from cryptography.hazmat.primitives import hashes
from cryptography.hazmat.primitives.asymmetric import ec, rsa
from cryptography.hazmat.primitives.asymmetric import padding as apad
from cryptography.hazmat.primitives.asymmetric import utils as autils
from cryptography.hazmat.primitives.ciphers import Cipher, algorithms, modes

warnings.filterwarnings("ignore", message=".*serial number.*")  # tampered certificates; a parser refusal is a rejection anyway
BIG = 1 << 29  # logged integers are clamped (TLC integers are 32-bit; sums of three logged numbers must not overflow)
KS_LEN = 1424
ANY_FUSE = b"*"  # golden artefacts come without the fuse value of their device: the root-key-table hash is not compared
ROM_WORDS = (0x20, 0x24, 0x28, 0x34)


# ------------------------------------------------------------------ trusted base
def _crc_table():
    tab = []
    for i in range(256):
        c = i << 24
        for _ in range(8):
            c = ((c << 1) ^ 0x04C11DB7) & 0xFFFFFFFF if c & 0x80000000 else (c << 1) & 0xFFFFFFFF
        tab.append(c)
    return tab


_TAB = _crc_table()


def crc32_mpeg2(data, c=0xFFFFFFFF):
    """CRC-32/MPEG-2: poly 04C11DB7, init FFFFFFFF, no reflection, no final xor."""
    for b in data:
        c = ((c << 8) & 0xFFFFFFFF) ^ _TAB[(c >> 24) ^ b]
    return c


def aes_ecb(key, block):
    e = Cipher(algorithms.AES(key), modes.ECB()).encryptor()
    return e.update(block) + e.finalize()


def aes_ctr(key, iv, data):
    d = Cipher(algorithms.AES(key), modes.CTR(iv)).decryptor()
    return d.update(data) + d.finalize()


def ecdsa_ok(pub, sig, data):
    """pub = X||Y, sig = r||s (fixed width); hash by the size of the signing key (P-256: SHA-256, P-384: SHA-384)."""
    n = len(pub) // 2
    if n not in (32, 48) or len(sig) != 2 * n:
        return False
    crv, h = (ec.SECP256R1(), hashes.SHA256()) if n == 32 else (ec.SECP384R1(), hashes.SHA384())
    try:
        pk = ec.EllipticCurvePublicNumbers(int.from_bytes(pub[:n], "big"), int.from_bytes(pub[n:], "big"), crv).public_key()
        pk.verify(autils.encode_dss_signature(int.from_bytes(sig[:n], "big"), int.from_bytes(sig[n:], "big")), data, ec.ECDSA(h))
        return True
    except Exception:  # noqa: BLE001 - any failure is "does not verify"
        return False


def rsa_ok(pub, sig, data, h=None):
    try:
        pub.verify(sig, data, apad.PKCS1v15(), h or hashes.SHA256())
        return True
    except Exception:  # noqa: BLE001
        return False


def mask_rom_words(data):
    d = bytearray(data)
    for o in ROM_WORDS:
        if o + 4 <= len(d):
            d[o:o + 4] = bytes(4)
    return bytes(d)


def cl(v):
    return v if -BIG < v < BIG else BIG


def w2(v):
    return [(v >> 16) & 0xFFFF, v & 0xFFFF]


class _Stop(Exception):
    pass


# ------------------------------------------------------------------ the walk
def walk(b, rom, sec):
    """b: file bytes. rom: {type, cb, hmac, tz, man}. sec: {userKey: bytes|None, fuse: bytes|None, plain: bytes|None}.
    Returns (events, regions) - regions: list of [class name, from, to) the walk has identified (for tamper placement)."""
    ev, reg = [], []
    n = len(b)

    def log(name, **k):
        k["ev"] = name
        for key, val in k.items():
            if isinstance(val, int) and not isinstance(val, bool):
                k[key] = cl(val)
        ev.append(k)
        return k

    def has(off, ln):
        return 0 <= off and 0 <= ln and off + ln <= n

    def stop(why):
        log("Reject", why=why)
        raise _Stop()

    def region(name, a, c):
        if c > a:
            reg.append([name, a, c])

    try:
        _walk(b, n, rom, sec, log, has, stop, region)
    except _Stop:
        pass
    except Exception as x:  # noqa: BLE001 - the walk is total: an unexpected parser error is a rejection, never a crash
        ev.append({"ev": "Reject", "why": f"executor exception {type(x).__name__}: {str(x)[:80]}"})
    return ev, reg


def _walk(b, n, rom, sec, log, has, stop, region):
    # ---- ReadIvt
    if n < 64:
        log("ReadIvt", rd=False, fileLen=n, totalLen=0, type=0, tzType=0, ks=False, w28=[0, 0])
        stop("shorter than the vector table")
    total, flags, w28 = struct.unpack_from("<3I", b, 0x20)
    typ, tz_type, ks = flags & 0x3F, (flags >> 13) & 3, bool(flags & 0x8000)
    log("ReadIvt", rd=True, fileLen=n, totalLen=total, type=typ, tzType=tz_type, ks=ks, w28=w2(w28))
    if typ != rom["type"] or total != n:
        stop("image type / total length")
    if tz_type == 3 or (tz_type == 1 and not rom["tz"]) or (ks and not rom["hmac"]):
        stop("flags")
    tz = rom["tz"] if tz_type == 1 else 0
    region("head", 0, 0x20)
    region("ivt_len", 0x20, 0x24)
    region("ivt_flags", 0x24, 0x28)
    region("crc_word" if rom["cb"] == 0 else "ivt_w28", 0x28, 0x2C)
    region("ivt_tail", 0x2C, 64)

    # ---- CRC images
    if rom["cb"] == 0:
        ok = crc32_mpeg2(b[0x2C:], crc32_mpeg2(b[:0x28])) == w28
        log("CheckCrc", frm=0, to=n, skipAt=0x28, skipLen=4, ok=ok)
        if not ok:
            stop("CRC")
        region("app", 64, n - tz)
        region("tz", n - tz, n)
        log("Accept")
        return

    # ---- HMAC (+ key store)
    shift = 0
    if rom["hmac"]:
        shift = 32 + (KS_LEN if ks else 0)
        if not has(64, shift) or sec.get("userKey") is None:
            log("CheckHmac", macAt=64, macLen=32, frm=0, to=64, key="AES-ECB(userKey, 0^16)", ok=False)
            stop("HMAC region")
        key = aes_ecb(sec["userKey"], bytes(16))
        ok = _hmac.new(key, b[:64], hashlib.sha256).digest() == b[64:96]
        log("CheckHmac", macAt=64, macLen=32, frm=0, to=64, key="AES-ECB(userKey, 0^16)", ok=ok)
        if not ok:
            stop("HMAC")
        region("hmac", 64, 96)
        region("keystore", 96, 64 + shift)

    if w28 >= BIG:
        stop("certificate block offset")
    if rom["cb"] == 1:
        _walk_v1(b, n, rom, sec, log, has, stop, region, w28, shift, tz, ks)
    else:
        _walk_v21(b, n, rom, sec, log, has, stop, region, w28, tz)


def _walk_v1(b, n, rom, sec, log, has, stop, region, w28, shift, tz, ks):
    c = w28 + shift
    if not has(c, 32):
        log("CertBlockV1", rd=False, at=c, magicOk=False, hdrLen=0, imgLen=0, count=0, tabLen=0)
        stop("certificate block header outside the file")
    sig4, _maj, _min, hlen, _fl, _build, img_len, count, tab_len = struct.unpack_from("<4s2H6I", b, c)
    log("CertBlockV1", rd=True, at=c, magicOk=sig4 == b"cert", hdrLen=hlen, imgLen=img_len, count=count, tabLen=tab_len)
    if sig4 != b"cert" or hlen != 32 or not 1 <= count <= 4 or tab_len <= 0 or not has(c, 32 + tab_len + 128) or c % 4:
        stop("certificate block header")
    region("app", 64 + shift, c)
    region("cb_hdr", c, c + 32)
    tab_end = c + 32 + tab_len
    cur, prev, root, last = c + 32, None, None, None
    for i in range(1, count + 1):
        if cur + 4 > tab_end:
            log("CertV1", rd=False, ok=False, i=i, at=cur, len=0, derLen=0, keyBytes=0)
            stop("certificate table overrun")
        (ln,) = struct.unpack_from("<I", b, cur)
        if ln <= 4 or cur + 4 + ln > tab_end:
            log("CertV1", rd=False, ok=False, i=i, at=cur, len=ln, derLen=0, keyBytes=0)
            stop("certificate entry length")
        der = b[cur + 4:cur + 4 + ln]
        try:
            if der[0] != 0x30 or der[1] != 0x82:
                raise ValueError("not a long-form DER sequence")
            dl = 4 + int.from_bytes(der[2:4], "big")
            if dl > ln or any(der[dl:]):
                raise ValueError("DER length / padding")
            cert = x509.load_der_x509_certificate(der[:dl])
            pub = cert.public_key()
            if not isinstance(pub, rsa.RSAPublicKey):
                raise ValueError("not RSA")
        except Exception:  # noqa: BLE001
            log("CertV1", rd=False, ok=False, i=i, at=cur, len=ln, derLen=0, keyBytes=0)
            stop("certificate does not parse")
        issuer = pub if prev is None else prev
        ok = rsa_ok(issuer, cert.signature, cert.tbs_certificate_bytes, cert.signature_hash_algorithm)
        log("CertV1", rd=True, ok=ok, i=i, at=cur, len=ln, derLen=dl, keyBytes=pub.key_size // 8)
        if not ok or ln % 4:
            stop("certificate chain")
        region("cert", cur, cur + 4 + ln)
        if root is None:
            root = pub
        prev = last = pub
        cur += 4 + ln
    if cur != tab_end:
        stop("certificate table length")
    table = b[cur:cur + 128]
    pn = root.public_numbers()
    rkh = hashlib.sha256(pn.n.to_bytes((pn.n.bit_length() + 7) // 8, "big") + pn.e.to_bytes((pn.e.bit_length() + 7) // 8, "big")).digest()
    slots = [table[i * 32:i * 32 + 32] for i in range(4)]
    idx = slots.index(rkh) if rkh in slots else -1
    fuse_ok = sec.get("fuse") is not None and sec["fuse"] in (ANY_FUSE, hashlib.sha256(table).digest())
    log("RkhTable", rd=True, at=cur, len=128, rootInTable=idx >= 0, rootIdx=idx, fuseOk=fuse_ok)
    if idx < 0 or not fuse_ok:
        stop("root key hash table")
    region("rkh", cur, cur + 128)
    cb_end = (cur + 128 + 3) // 4 * 4
    extra = 72 if rom["type"] == 3 else 0
    sig_at = cb_end + extra + tz
    sig_len = last.key_size // 8
    if not has(sig_at, sig_len):
        log("VerifySigV1", rd=False, ok=False, sigAt=sig_at, sigLen=sig_len, segs=[[0, 64], [64 + shift, sig_at]])
        stop("signature outside the file")
    signed = b[:64] + b[64 + shift:sig_at]
    ok = rsa_ok(last, b[sig_at:sig_at + sig_len], signed)
    log("VerifySigV1", rd=True, ok=ok, sigAt=sig_at, sigLen=sig_len, segs=[[0, 64], [64 + shift, sig_at]])
    if not ok or sig_at + sig_len != n or img_len != len(signed):
        stop("image signature")
    if extra:
        region("enc_ivt", cb_end, cb_end + 56)
        region("iv", cb_end + 56, cb_end + 72)
    region("tz", cb_end + extra, sig_at)
    region("sig", sig_at, n)
    if rom["type"] == 3:
        segs = [[cb_end, cb_end + 56], [56, 64], [64 + shift, c], [cb_end + 72, sig_at]]
        iv = b[cb_end + 56:cb_end + 72]
        uk = sec.get("userKey")
        from_store = ks or bool(rom.get("ksdev"))          # key store in the file, or provisioned on the device earlier
        key_name = "userKey" if from_store else "AES-ECB(masterKey, 01 0^15 02 0^15)"
        key = uk if from_store else aes_ecb(uk, bytes([1] + [0] * 15 + [2] + [0] * 15))
        ct = b"".join(b[a:z] for a, z in segs)
        plain = aes_ctr(key, iv, ct)
        exp = sec.get("plain")
        ok = exp is not None and mask_rom_words(plain) == exp
        inner = struct.unpack_from("<3I", plain, 0x20) == struct.unpack_from("<3I", b, 0x20) if len(plain) >= 0x38 else False
        log("Decrypt", rd=True, ok=ok, key=key_name, ivAt=cb_end + 56, ivLen=16, segs=segs, appLen=w28, tzLen=tz, plainLen=len(plain),
            innerHeaderSame=inner)
        if not ok:
            stop("decrypted image differs from the plaintext image")
    log("Accept")


def _walk_v21(b, n, rom, sec, log, has, stop, region, w28, tz):
    c = w28
    if not has(c, 16):
        log("CertBlockV21", rd=False, magicOk=False, verOk=False, at=c, size=0)
        stop("certificate block header outside the file")
    magic, vmin, vmaj, csize = struct.unpack_from("<4s2HI", b, c)
    log("CertBlockV21", rd=True, magicOk=magic == b"chdr", verOk=(vmaj, vmin) == (2, 1), at=c, size=csize)
    if magic != b"chdr" or (vmaj, vmin) != (2, 1) or c % 4 or c < 64:
        stop("certificate block header")
    region("app", 64, c)
    region("cb_hdr", c, c + 12)
    o = c + 12
    (rflags,) = struct.unpack_from("<I", b, o)
    nk, used, ctype, ca = (rflags >> 4) & 0xF, (rflags >> 8) & 0xF, rflags & 0xF, bool(rflags >> 31)
    clen = {1: 32, 2: 48}.get(ctype, 0)
    tlen = nk * clen if nk > 1 else 0
    key_at = o + 4 + tlen
    if not clen or not 1 <= nk <= 4 or used >= nk or not has(key_at, 2 * clen):
        log("RootKeyRecord", rd=False, at=o, nKeys=nk, used=used, curveLen=clen, ca=ca, tableLen=tlen, keyAt=key_at, keyLen=2 * clen,
            usedInTable=False, fuseOk=False)
        stop("root key record")
    H = hashlib.sha256 if clen == 32 else hashlib.sha384
    table = b[o + 4:o + 4 + tlen]
    root = b[key_at:key_at + 2 * clen]
    in_table = H(root).digest() == table[used * clen:(used + 1) * clen] if nk > 1 else True
    rkth = H(table).digest() if nk > 1 else H(root).digest()
    fuse_ok = sec.get("fuse") is not None and sec["fuse"] in (ANY_FUSE, rkth)
    log("RootKeyRecord", rd=True, at=o, nKeys=nk, used=used, curveLen=clen, ca=ca, tableLen=tlen, keyAt=key_at, keyLen=2 * clen,
        usedInTable=in_table, fuseOk=fuse_ok)
    if not in_table or not fuse_ok:
        stop("root key hash")
    region("rkr_flags", o, o + 4)
    region("rkr_table", o + 4, key_at)
    region("rkr_key", key_at, key_at + 2 * clen)
    o = key_at + 2 * clen
    signer = root
    if not ca:
        if not has(o, 12):
            log("IskCert", rd=False, ok=False, at=o, iskLen=0, udLen=0, udFlag=False, sigOff=0, sigAt=0, sigLen=0, frm=c + 12, to=0)
            stop("ISK certificate outside the file")
        sig_off, _cons, ifl = struct.unpack_from("<3I", b, o)
        ilen = {1: 32, 2: 48}.get(ifl & 0xF, 0)
        ud = sig_off - 12 - 2 * ilen
        if not ilen or ud < 0 or not has(o, sig_off + 2 * clen):
            log("IskCert", rd=False, ok=False, at=o, iskLen=2 * ilen, udLen=ud, udFlag=bool(ifl >> 31), sigOff=sig_off, sigAt=o + sig_off,
                sigLen=2 * clen, frm=c + 12, to=o + sig_off)
            stop("ISK certificate")
        isk = b[o + 12:o + 12 + 2 * ilen]
        ok = ecdsa_ok(root, b[o + sig_off:o + sig_off + 2 * clen], b[c + 12:o + sig_off])
        log("IskCert", rd=True, ok=ok, at=o, iskLen=2 * ilen, udLen=ud, udFlag=bool(ifl >> 31), sigOff=sig_off, sigAt=o + sig_off,
            sigLen=2 * clen, frm=c + 12, to=o + sig_off)
        if not ok:
            stop("ISK signature")
        region("isk_hdr", o, o + 12)
        region("isk_key", o + 12, o + 12 + 2 * ilen)
        region("isk_ud", o + 12 + 2 * ilen, o + sig_off)
        region("isk_sig", o + sig_off, o + sig_off + 2 * clen)
        o = o + sig_off + 2 * clen
        signer = isk
    log("CertBlockEnd", at=o, size=csize)
    if csize != o - c:
        stop("certificate block size")
    if not has(o, 20):
        log("Manifest", rd=False, magicOk=False, verOk=False, at=o, tzLen=0, totalLen=0, digestLen=0)
        stop("manifest outside the file")
    mmagic, mver, _fw, mtotal, mflags = struct.unpack_from("<4s4I", b, o)
    dig = {1: 32, 2: 48, 3: 64}.get(mflags & 0xF, -1) if mflags >> 31 else 0
    mtz = mtotal - 20 - (4 if rom["man"] == 2 else 0)
    log("Manifest", rd=True, magicOk=mmagic == b"imgm", verOk=mver == 0x10000, at=o, tzLen=mtz, totalLen=mtotal, digestLen=dig)
    if mmagic != b"imgm" or mver != 0x10000 or mtz != tz or dig < 0 or not has(o, mtotal):
        stop("manifest")
    region("man_hdr", o, o + 20)
    region("man_tz", o + 20, o + 20 + mtz)
    s = o + mtotal
    if rom["man"] == 2:
        ok = crc32_mpeg2(b[:s - 4]) == struct.unpack_from("<I", b, s - 4)[0]
        log("ManifestCrc", ok=ok, at=s - 4, frm=0, to=s - 4)
        if not ok:
            stop("manifest CRC")
        region("man_crc", s - 4, s)
    sl = len(signer)
    if not has(s, sl):
        log("VerifySigV21", rd=False, ok=False, frm=0, to=s, sigAt=s, sigLen=sl)
        stop("signature outside the file")
    ok = ecdsa_ok(signer, b[s:s + sl], b[:s])
    log("VerifySigV21", rd=True, ok=ok, frm=0, to=s, sigAt=s, sigLen=sl)
    if not ok:
        stop("image signature")
    region("sig", s, s + sl)
    end = s + sl
    if dig:
        if not has(end, dig):
            log("CheckDigest", rd=False, ok=False, at=end, len=dig, frm=0, to=s)
            stop("digest outside the file")
        hname = {32: "sha256", 48: "sha384", 64: "sha512"}[dig]
        ok = hashlib.new(hname, b[:s]).digest() == b[end:end + dig]
        log("CheckDigest", rd=True, ok=ok, at=end, len=dig, frm=0, to=s)
        if not ok:
            stop("manifest digest")
        region("digest", end, end + dig)
        end += dig
    if end != n:
        stop("bytes behind the end of the image")
    log("Accept")
