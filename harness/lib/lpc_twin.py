"""Executable twin of the LPC8xx UART ISP command handler + a faulty serial link, for the extras lane sys_lpcprog.

The normative description is spec/SYS/LpcIsp.tla (the trace form re-derives every return code and every memory word from the events
logged here; a twin that departs from the automaton is reported as a machinery failure, not as an observation about SPSDK).
No SPSDK import in this file.  CRC of the S command: zlib (anchored on the hardware transcript in anchors/SYS/lpcprog/golden.json)."""
import struct
import zlib

UNLOCK = 23130
BAUDS = {9600, 19200, 38400, 57600, 115200, 230400, 460800}


def s32(v):
    v &= 0xFFFFFFFF
    return v - (1 << 32) if v & 0x80000000 else v


def init_f(i):
    return (i * 40503 + 12345) % 1000003


def init_r(i):
    return (i * 7919 + 17) % 999983


def words_of(b):
    return [s32(x) for x in struct.unpack("<%dI" % (len(b) // 4), bytes(b[: len(b) // 4 * 4]))]


class Geo:
    def __init__(self, pb, sb, ns, rbase, rsize):
        self.pb, self.sb, self.ns, self.rbase, self.rsize = pb, sb, ns, rbase, rsize

    def rec(self):
        return {"pb": self.pb, "sb": self.sb, "ns": self.ns, "rbase": self.rbase, "rsize": self.rsize}


class Device:
    """The command handler. feed(bytes) -> the units it answers with (lines, raw data blocks). Logs one event per step of the automaton into self.log."""

    def __init__(self, geo, fini, ids, log, st="auto"):
        self.g, self.fini, self.ids, self.log = geo, fini, ids, log
        self.st, self.echo, self.unl, self.prep = st, True, False, set()
        nf = geo.sb * geo.ns // 4
        self.fl = bytearray(b"\xff" * (nf * 4)) if fini == "blank" else bytearray(struct.pack("<%dI" % nf, *[init_f(i) for i in range(nf)]))
        nr = geo.rsize // 4
        self.rm = bytearray(struct.pack("<%dI" % nr, *[init_r(i) for i in range(nr)]))
        self.buf = bytearray()
        self.dleft = self.dcnt = self.daddr = 0
        self.dbuf = bytearray()
        self.freq = -2
        self.busy = None                                    # scenario: (letter, rc) answered once instead of executing

    # ---- memory
    def in_flash(self, a, n):
        return a >= 0 and n >= 0 and a + n <= self.g.sb * self.g.ns

    def in_ram(self, a, n):
        return a >= self.g.rbase and n >= 0 and a + n <= self.g.rbase + self.g.rsize

    def mapped(self, a, n):
        return self.in_flash(a, n) or self.in_ram(a, n)

    def get(self, a, n):
        if a >= self.g.rbase:
            o = a - self.g.rbase
            return bytes(self.rm[o:o + n])
        return bytes(self.fl[a:a + n])

    def sectors(self, a, n):
        return set(range(a // self.g.sb, (a + n - 1) // self.g.sb + 1))

    # ---- byte stream in
    def feed(self, data):
        out = []
        self.buf += data
        while self.buf:
            if self.st == "cmd" and self.dleft > 0:
                take = min(self.dleft, len(self.buf))
                self.dbuf += self.buf[:take]
                del self.buf[:take]
                self.dleft -= take
                done = self.dleft == 0
                ev = {"ev": "ddata", "nb": take, "done": done, "w": words_of(self.dbuf) if done else []}
                self.log.append(ev)
                if done:
                    o = self.daddr - self.g.rbase
                    self.rm[o:o + len(self.dbuf)] = self.dbuf
                    self.dbuf = bytearray()
                    out.append(b"OK\r\n")
                continue
            if self.st == "auto":
                c = self.buf[0]
                del self.buf[:1]
                if c == 0x3F:
                    self.log.append({"ev": "dsync", "k": "q", "v": 0})
                    self.st = "sent"
                    out.append(b"Synchronized\r\n")
                continue
            i = self.buf.find(b"\n")
            if i < 0:
                break
            line = bytes(self.buf[:i]).rstrip(b"\r").decode("latin-1")
            del self.buf[:i + 1]
            if self.st == "sent":
                k = "sync" if line == "Synchronized" else "other"
                self.log.append({"ev": "dsync", "k": k, "v": 0})
                if k == "sync":
                    self.st = "freq"
                    out += [(line + "\r\n").encode(), b"OK\r\n"]
                else:
                    self.st = "auto"
                continue
            if self.st == "freq":
                k = "num" if line.isdigit() and int(line) < 2 ** 31 else "other"
                self.freq = int(line) if k == "num" else -1
                self.log.append({"ev": "dsync", "k": k, "v": self.freq if k == "num" else 0})
                self.st = "cmd"
                out += [(line + "\r\n").encode(), b"OK\r\n"]
                continue
            out += self.command(line)
        return out

    def command(self, line):
        if line.strip() == "":
            return []                                        # an empty line is no command (nothing settles what the ROM does: not asserted)
        out = []
        if self.echo:
            out.append((line + "\r\n").encode("latin-1"))
        tok = line.split()
        c, a, bad = tok[0], [], False
        for t in tok[1:]:
            if t.isdigit() and int(t) < 2 ** 31:
                a.append(int(t))
            elif t == "T" and c == "G":
                a.append(84)
            else:
                bad = True
        if len(c) != 1 or bad:
            c2 = c if len(c) == 1 and c.isalpha() else "?"
            rc, x = (12 if bad and c2 != "?" else 1), []
            self.log.append({"ev": "dcmd", "c": c2, "a": a, "rc": rc, "x": x, "bad": True, "forced": False})
            return out + [b"%d\r\n" % rc]
        if self.busy and self.busy[0] == c and len(self.busy) > 2 and self.busy[2] > 1:
            self.busy = (self.busy[0], self.busy[1], self.busy[2] - 1)         # not yet: the nth line with this letter is the one refused
        elif self.busy and self.busy[0] == c:
            rc, self.busy = self.busy[1], None
            self.log.append({"ev": "dcmd", "c": c, "a": a, "rc": rc, "x": [], "bad": False, "forced": True})
            return out + [b"%d\r\n" % rc]
        rc, x, raw = self.execute(c, a)
        self.log.append({"ev": "dcmd", "c": c, "a": a, "rc": rc, "x": [s32(v) for v in x], "bad": False, "forced": False})
        out.append(b"%d\r\n" % rc)
        for v in x:
            out.append(b"%d\r\n" % v)
        if raw:
            out.append(raw)
        return out

    def execute(self, c, a):
        g, n = self.g, len(a)
        valid_s = lambda: 0 <= a[0] <= a[1] < g.ns
        if c == "U":
            if n != 1:
                return 12, [], b""
            if a[0] != UNLOCK:
                return 16, [], b""
            self.unl = True
            return 0, [], b""
        if c == "A":
            if n != 1 or a[0] not in (0, 1):
                return 12, [], b""
            self.echo = a[0] == 1
            return 0, [], b""
        if c == "B":
            if n != 2:
                return 12, [], b""
            if a[0] not in BAUDS:
                return 17, [], b""
            if a[1] not in (1, 2):
                return 18, [], b""
            return 0, [], b""
        if c in "WRS" and c != "":
            if n != 2:
                return 12, [], b""
            if a[0] % 4:
                return 13, [], b""
            if not (self.in_ram(a[0], a[1]) if c == "W" else self.mapped(a[0], a[1])):
                return 14, [], b""
            if a[1] % 4 or a[1] == 0:
                return 6, [], b""
            if c == "W":
                self.dleft = self.dcnt = a[1]
                self.daddr = a[0]
                self.dbuf = bytearray()
                return 0, [], b""
            if c == "R":
                return 0, [], self.get(a[0], a[1])
            return 0, [zlib.crc32(self.get(a[0], a[1])) & 0xFFFFFFFF], b""
        if c == "P":
            if n != 2:
                return 12, [], b""
            if not valid_s():
                return 7, [], b""
            self.prep |= set(range(a[0], a[1] + 1))
            return 0, [], b""
        if c == "C":
            if n != 3:
                return 12, [], b""
            if not self.unl:
                return 15, [], b""
            if a[1] % 4:
                return 2, [], b""
            if a[0] % g.pb:
                return 3, [], b""
            if a[2] not in [g.pb * k for k in (1, 2, 4, 8, 16) if g.pb * k <= g.sb]:
                return 6, [], b""
            if not self.in_ram(a[1], a[2]):
                return 4, [], b""
            if not self.in_flash(a[0], a[2]):
                return 5, [], b""
            if not self.sectors(a[0], a[2]) <= self.prep:
                return 9, [], b""
            self.fl[a[0]:a[0] + a[2]] = self.get(a[1], a[2])
            self.prep -= self.sectors(a[0], a[2])
            return 0, [], b""
        if c in ("E", "X"):
            if n != 2:
                return 12, [], b""
            if not self.unl:
                return 15, [], b""
            unit = g.sb if c == "E" else g.pb
            if not (0 <= a[0] <= a[1] < g.sb * g.ns // unit):
                return 7, [], b""
            lo, cnt = a[0] * unit, (a[1] - a[0] + 1) * unit
            if not self.sectors(lo, cnt) <= self.prep:
                return 9, [], b""
            self.fl[lo:lo + cnt] = b"\xff" * cnt
            self.prep -= self.sectors(lo, cnt)
            return 0, [], b""
        if c == "I":
            if n != 2:
                return 12, [], b""
            if not valid_s():
                return 7, [], b""
            lo, hi = a[0] * g.sb, (a[1] + 1) * g.sb
            for o in range(lo, hi, 4):
                if self.fl[o:o + 4] != b"\xff\xff\xff\xff":
                    return 8, [o - lo, struct.unpack("<I", self.fl[o:o + 4])[0]], b""
            return 0, [], b""
        if c == "M":
            if n != 3:
                return 12, [], b""
            if a[0] % 4 or a[1] % 4:
                return 13, [], b""
            if not self.mapped(a[0], a[2]) or not self.mapped(a[1], a[2]):
                return 14, [], b""
            if a[2] % 4 or a[2] == 0:
                return 6, [], b""
            x, y = self.get(a[0], a[2]), self.get(a[1], a[2])
            for o in range(0, a[2], 4):
                if x[o:o + 4] != y[o:o + 4]:
                    return 10, [o], b""
            return 0, [], b""
        if c == "G":
            if n not in (1, 2):
                return 12, [], b""
            if not self.unl:
                return 15, [], b""
            if not self.mapped(a[0], 4):
                return 14, [], b""
            return 0, [], b""
        if c == "J":
            return 0, [self.ids["part"]], b""
        if c == "K":
            return 0, [self.ids["minor"], self.ids["major"]], b""
        if c == "N":
            return 0, [v & 0xFFFFFFFF for v in self.ids["uid"]], b""
        return 1, [], b""


class Link:
    """The UART between host and device, seen from the host as a pyserial-like object (what LPCProgInterface uses of it).
    Units: one host write() = one h2d unit; the device's answer to it is cut into d2h units (a line, or a block of raw bytes).
    fault = None | {"dir": "h2d"|"d2h", "k": unit index counted from arm(), "kind": lost|trunc|flip|late|garbage, "n": bytes for trunc}"""

    def __init__(self, dev, log):
        self.dev, self.log = dev, log
        self.inbuf = bytearray()
        self.held = bytearray()
        self.holding = False
        self.fault = None
        self.k = {"h2d": 0, "d2h": 0}
        self.baudrate = 115200
        self.is_open = False
        self.timeouts = 0
        self.budget = 200000

    def arm(self, fault):
        self.fault = fault
        self.k = {"h2d": 0, "d2h": 0}

    def hit(self, d):
        k = self.k[d]
        self.k[d] += 1
        f = self.fault
        if f and f["dir"] == d and f["k"] == k:
            return f
        return None

    # ---- pyserial surface
    def open(self):
        self.is_open = True

    def close(self):
        self.is_open = False

    def flush(self):
        pass

    def reset_input_buffer(self):
        self.inbuf = bytearray()

    def reset_output_buffer(self):
        pass

    def tick(self):
        self.budget -= 1
        if self.budget < 0:
            raise KeyboardInterrupt()

    def write(self, data):
        self.tick()
        data = bytes(data)
        if self.holding:                                     # what was late arrives now (the host had given up waiting)
            self.inbuf += self.held
            self.held = bytearray()
            self.holding = False
        f = self.hit("h2d")
        if f:
            self.log.append({"ev": "hit", "dir": "h2d", "kind": f["kind"]})
            if f["kind"] == "lost":
                return len(data)
            if f["kind"] == "trunc":
                data = data[: max(0, len(data) - f.get("n", 1))]
            elif f["kind"] == "flip" and data:
                i = f.get("n", 0) % len(data)
                data = data[:i] + bytes([data[i] ^ 0x10]) + data[i + 1:]
        for unit in self.dev.feed(data):
            f = self.hit("d2h")
            if f:
                self.log.append({"ev": "hit", "dir": "d2h", "kind": f["kind"]})
                if f["kind"] == "lost":
                    continue
                if f["kind"] == "trunc":
                    unit = unit[: max(0, len(unit) - f.get("n", 1))]
                elif f["kind"] == "garbage":
                    unit = b"@#!\r\n"
                elif f["kind"] == "late":
                    self.holding = True
            (self.held if self.holding else self.inbuf).extend(unit)
        return len(data)

    def readline(self):
        self.tick()
        i = self.inbuf.find(b"\n")
        if i < 0:
            self.timeouts += 1
            r = bytes(self.inbuf)                            # time-out: whatever arrived
            self.inbuf = bytearray()
            return r
        r = bytes(self.inbuf[: i + 1])
        del self.inbuf[: i + 1]
        return r

    def read(self, n=1):
        self.tick()
        r = bytes(self.inbuf[:n])
        del self.inbuf[:n]
        if len(r) < n:
            self.timeouts += 1
        return r

    def read_all(self):
        self.tick()
        r = bytes(self.inbuf)
        self.inbuf = bytearray()
        return r

    @property
    def in_waiting(self):
        return len(self.inbuf)


class Port:
    """What LPCProgInterface expects of a SerialDevice: open / close and the pyserial object in `_device`."""

    def __init__(self, link):
        self._device = link
        self.timeout = 1000

    @property
    def is_opened(self):
        return self._device.is_open

    def open(self):
        self._device.open()

    def close(self):
        self._device.close()

    def __str__(self):
        return "lpc-twin"
