"""Batch trace validation split over several TLC processes (each `-workers 1`, as the TLCSet/TLCGet idiom needs).

The chunks run in forked children (lib.par.pmap); every child works in its own scratch sub-directory so that the
file names lib.tlc derives from its per-process counter cannot collide.
"""
import os

from . import common, tlc
from .par import pmap


def check_complete(res, n):
    """A trace-validation run counts only if TLC reported no error of its own and its POSTCONDITION ran over all n traces
    (the trace spec prints <<"DONE", n>> from there): an evaluation error would otherwise look like 'nothing rejected'."""
    if res.errors:
        raise common.Machinery(f"trace validation ended with a TLC error: {res.errors[0]}\n" + "\n".join(res.out.splitlines()[-25:]))
    done = res.tuples("DONE")
    if not done or done[0][0] != n:
        raise common.Machinery(f"trace validation did not reach its post-condition over all {n} traces: {done}")


def ptv(spec_dir, module, traces, cfg=None, *, jobs=8, min_chunk=200, env=None, timeout=900, heap="3g"):
    """-> (rejected: {id: (matched, length, evname)}, stats: [{"distinct", "generated", "wall", "cmd", "n"}])."""
    traces = list(traces)
    if not traces:
        return {}, []
    n_chunks = max(1, min(jobs, len(traces) // max(1, min_chunk)))
    chunks = [(i, traces[i::n_chunks]) for i in range(n_chunks)]  # round robin: heavy and light traces spread evenly
    base = common.scratch()

    def work(item):
        i, part = item
        saved = common._scratch
        sub = os.path.join(base, f"ptv-{os.getpid()}-{i}")
        os.makedirs(sub, exist_ok=True)
        common._scratch = sub
        try:
            rej, res = tlc.tv(spec_dir, module, part, cfg, env=env, timeout=timeout, heap=heap)
            check_complete(res, len(part))
            return rej, {"distinct": res.distinct, "generated": res.generated, "wall": round(res.wall, 2), "cmd": res.cmd, "n": len(part)}
        finally:
            common._scratch = saved

    out = pmap(work, chunks, procs=min(jobs, len(chunks)), chunksize=1)
    rej, stats = {}, []
    for r, s in out:
        rej.update(r)
        stats.append(s)
    return rej, stats


def prun(jobs, procs=None):
    """Run several TLC jobs side by side. jobs: [("mc" | "run", args tuple, kwargs dict)] -> [TlcResult] in order.
    Each job runs in a forked child with its own scratch sub-directory; a Machinery raised by a job is re-raised here."""
    base = common.scratch()

    def work(item):
        i, (kind, args, kw) = item
        saved = common._scratch
        sub = os.path.join(base, f"prun-{os.getpid()}-{i}")
        os.makedirs(sub, exist_ok=True)
        common._scratch = sub
        try:
            return (tlc.mc if kind == "mc" else tlc.run)(*args, **kw)
        finally:
            common._scratch = saved

    items = list(enumerate(jobs))
    if len(items) < 4:  # lib.par.pmap would run them one after the other
        items += [(len(items) + k, ("noop", (), {})) for k in range(4 - len(items))]

    def guarded(item):
        if item[1][0] == "noop":
            return None
        return work(item)

    return pmap(guarded, items, procs=procs or len(items), chunksize=1)[:len(jobs)]
