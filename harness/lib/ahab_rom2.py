"""C06 executor, second layer: the optional CERTIFICATE of an AHAB signature block (spec/C06/AhabRom.tla, step Cert).

walk(data, sec) = lib.ahab_rom.walk(data, sec) with
  * one `Certificate` event per container whose signature block declares a certificate, logged in the automaton's order
    (signature block -> SRK table -> certificate -> container signature -> blob), and
  * the `VerifySignature` event extended by `byCert`: a certificate that carries the `container` permission hands its own
    public key to the container signature check (the fact `ok` is then evaluated with THAT key), otherwise the selected SRK is used.
Like the first layer it decides nothing: every offset is logged and recomputed by TLC, crypto appears as facts evaluated with
hashlib / `cryptography` primitives only.  It is total: every read is bounds-checked, an unreadable certificate ends the trace
with a `Malformed` event (for which the spec has no action).

Certificate layout (version 2; anchored on the golden anchors/C06/ahab_certificate256.bin, see certificate_selftest()):
  +0  version (2)  +1 length (LE16)  +3 tag 0xAF   +4 signature offset (LE16)  +6 ~permissions  +7 permissions
  +8  permission data (12)   +20 fuse version  +21 reserved (3)   +24 UUID (16)
  +40 SRK record of the certificate key (tag 0xE1, 12-byte head, 64-byte field with the hash of the SRK data that follows)
  ... SRK data (tag 0x5D, 8-byte head, key material X||Y resp. modulus||exponent)
  +signature offset: signature block (tag 0xD8, 8-byte head, r||s resp. RSA-PSS integer) made with the SELECTED SRK over [0, signature offset)

fields(data, cver, max_cont) = field classes of the first layer + the classes `cert.*` of every certificate.
"""
import hashlib
import struct

from . import ahab_rom as AR

TAG_CERT = 0xAF
CERT_FIXED = 40
PERM_CONTAINER = 0x01
REC_HASH = {0: hashlib.sha256, 1: hashlib.sha384, 2: hashlib.sha512}


def _head(data, off):
    ver, ln, tag = struct.unpack_from("<BHB", data, off)
    return ver, ln, tag


def _record(data, q, end):
    """SRK record (version-2 form: 12-byte head + 64-byte hash field) at q, or None."""
    if q + 12 > end:
        return None
    rtag, rln, alg = struct.unpack_from("<BHB", data, q)
    halg, ksz, rsv, flags, l1, l2 = struct.unpack_from("<BBBBHH", data, q + 4)
    return dict(tag=rtag, len=rln, alg=alg, hash=halg, ksz=ksz, rsv=rsv, flags=flags, l1=l1, l2=l2)


def selected_srk(data, sb_at, srk_off, cver, used):
    """Key of the selected SRK as the file carries it: dict(alg, ksz, hash, a, b) or None if it cannot be read."""
    n = len(data)
    try:
        t = sb_at + srk_off
        if cver == 2:
            tt = t + 8
            if tt + 4 > n:
                return None
            _ttag, tln, _tver = struct.unpack_from("<BHB", data, tt)
            recs, q = [], tt + 4
            for _ in range(4):
                r = _record(data, q, min(n, tt + tln))
                if r is None or r["tag"] != AR.TAG_SRKR or r["len"] != 12 + 64:
                    return None
                recs.append(r)
                q += r["len"]
            sd = tt + tln
            if sd + 8 > n:
                return None
            _dv, sdl, dtag = _head(data, sd)
            if dtag != AR.TAG_SRKD or sd + sdl > n or data[sd + 4] != used or used >= len(recs):
                return None
            r = recs[used]
            par = data[sd + 8:sd + sdl]
        else:
            if t + 4 > n:
                return None
            _ttag, tln, _tver = struct.unpack_from("<BHB", data, t)
            q, r, par = t + 4, None, b""
            for i in range(4):
                r = _record(data, q, min(n, t + tln))
                if r is None or r["tag"] != AR.TAG_SRKR or r["len"] != 12 + r["l1"] + r["l2"] or q + r["len"] > n:
                    return None
                if i == used:
                    par = data[q + 12:q + r["len"]]
                    break
                q += r["len"]
        if r is None or len(par) != r["l1"] + r["l2"]:
            return None
        return dict(alg=r["alg"], ksz=r["ksz"], hash=r["hash"], a=par[:r["l1"]], b=par[r["l1"]:])
    except struct.error:
        return None


def certificate_event(data, ci, at, srk, used, cert_key):
    """Event of the step Cert for the certificate at `at`.  srk: selected_srk() result or None; cert_key: (kind, a, b) the
    builder put into the certificate, or None.  Returns (event, key of the certificate as the file carries it | None)."""
    n = len(data)

    def bad(what, off, ln):
        return {"ev": "Malformed", "what": what, "at": AR.cl(off), "len": AR.cl(ln), "fileLen": AR.cl(n)}, None

    if at + CERT_FIXED > n:
        return bad("certificate", at, CERT_FIXED)
    ver, ln, tag = _head(data, at)
    sig_off, inv, perm = struct.unpack_from("<HBB", data, at + 4)
    perm_data = data[at + 8:at + 20]
    fuse = data[at + 20]
    rsv = data[at + 21:at + 24]
    uuid = data[at + 24:at + 40]
    # ---- public key: SRK record + SRK data
    q = at + CERT_FIXED
    rec = _record(data, q, n)
    if rec is None:
        return bad("certificate key record", q, 12)
    if q + rec["len"] > n or rec["len"] < 12:
        return bad("certificate key record", q, rec["len"])
    hfield = data[q + 12:q + rec["len"]]
    sd = q + rec["len"]
    if sd + 8 > n:
        return bad("certificate key data", sd, 8)
    dver, sdl, dtag = _head(data, sd)
    if sdl < 8 or sd + sdl > n:
        return bad("certificate key data", sd, sdl)
    sdata = data[sd:sd + sdl]
    hfn = REC_HASH.get(rec["hash"])
    dg = hfn(sdata).digest() if hfn else b""
    data_hash_ok = bool(dg) and hfield[:len(dg)] == dg and not any(hfield[len(dg):])
    par = sdata[8:]
    sizes_ok = (rec["alg"] == 0x27 and rec["ksz"] in AR.CURVES and (rec["l1"], rec["l2"]) == (AR.CURVES[rec["ksz"]][1],) * 2) or (
        rec["alg"] in (0x21, 0x22) and rec["ksz"] in AR.RSA_SIZES and (rec["l1"], rec["l2"]) == (AR.RSA_SIZES[rec["ksz"]], 4))
    file_key = None
    key_ok = False
    if len(par) == rec["l1"] + rec["l2"]:
        file_key = dict(alg=rec["alg"], ksz=rec["ksz"], hash=rec["hash"], a=par[:rec["l1"]], b=par[rec["l1"]:])
        if cert_key is not None:
            kind, a, b = cert_key
            key_ok = int.from_bytes(file_key["a"], "big") == a and int.from_bytes(file_key["b"], "big") == b and kind == ("ec" if rec["alg"] == 0x27 else "rsa")
    # ---- signature of the certificate
    g = at + sig_off
    if g + AR.SIGH > n:
        return bad("certificate signature", g, AR.SIGH)
    gver, gln, gtag = _head(data, g)
    if gln < AR.SIGH or g + gln > n:
        return bad("certificate signature", g, gln)
    sig = data[g + AR.SIGH:g + gln]
    sig_ok = False
    if srk is not None:
        sig_ok = AR.sig_ok(srk["alg"], srk["ksz"], srk["hash"], srk["a"], srk["b"], sig, data[at:g])
    ev = dict(ev="Certificate", ci=ci, at=at, tagOk=tag == TAG_CERT, version=ver, length=ln, sigOff=sig_off,
              permInvOk=inv == (~perm & 0xFF), perm=perm, permData=list(perm_data), fuse=fuse, rsvZero=not any(rsv), uuid=list(uuid),
              recAt=q, recTagOk=rec["tag"] == AR.TAG_SRKR, recLen=rec["len"], alg=rec["alg"], signHash=rec["hash"], keySize=rec["ksz"],
              recRsvZero=rec["rsv"] == 0, recFlags=rec["flags"], sizesOk=bool(sizes_ok),
              dataAt=sd, dataTagOk=dtag == AR.TAG_SRKD and dver == 0 and not any(data[sd + 5:sd + 8]), dataLen=sdl, dataId=data[sd + 4],
              dataHashOk=data_hash_ok, keyOk=key_ok,
              sigAt=g, sigTagOk=gtag == AR.TAG_SIG, sigVersion=gver, sigTotal=gln, sigLen=len(sig), sigRsvZero=not any(data[g + 4:g + 8]),
              signedFrom=at, signedTo=g, key=used, sigOk=sig_ok)
    for k, v in ev.items():
        if isinstance(v, int) and not isinstance(v, bool):
            ev[k] = AR.cl(v)
    return ev, file_key


def walk(data, sec):
    """sec as in lib.ahab_rom.walk plus  certkey: {ci: (kind, a, b)}  - the public key the builder put into the certificate."""
    base = AR.walk(data, sec)
    cver = sec.get("cver", 1)
    out = []
    hdr = sb = None
    pending = False
    cert_key_in_file = None
    for e in base:
        name = e["ev"]
        if name == "ContainerHeader":
            hdr, sb, pending, cert_key_in_file = e, None, False, None
        elif name == "SignatureBlock":
            sb = e
            pending = e["certOff"] != 0
        elif name in ("VerifySignature", "Blob", "ContainerEnd", "Malformed") and pending and sb is not None and hdr is not None:
            pending = False
            srk = selected_srk(data, sb["at"], sb["srkOff"], cver, hdr["used"]) if hdr["srkSet"] != 0 and sb["srkOff"] != 0 else None
            ce, cert_key_in_file = certificate_event(data, sb["ci"], sb["at"] + sb["certOff"], srk, hdr["used"], sec.get("certkey", {}).get(sb["ci"]))
            out.append(ce)
            if ce["ev"] == "Malformed":
                return out
        if name == "VerifySignature":
            e = dict(e, byCert=False)
            cert = out[-1] if out and out[-1]["ev"] == "Certificate" and out[-1]["ci"] == e["ci"] else None
            if cert is not None and cert["perm"] & PERM_CONTAINER:
                e["byCert"] = True
                e["ok"] = False
                k = cert_key_in_file
                g = e["sigAt"]
                if k is not None and g + e["length"] <= len(data):
                    e["ok"] = AR.sig_ok(k["alg"], k["ksz"], k["hash"], k["a"], k["b"], data[g + AR.SIGH:g + e["length"]], data[e["signedFrom"]:e["signedTo"]])
        out.append(e)
    return out


def fields(data, cver=1, max_cont=3):
    """Field classes of lib.ahab_rom.fields plus those of the certificate of every signed container (all inside the range the
    certificate signature covers, or its signature data)."""
    out = AR.fields(data, cver, max_cont)
    slot = AR.slot_size(cver)
    n = len(data)
    for ci in range(max_cont):
        c = ci * slot
        if not (c + AR.HDR <= n and data[c + 3] == AR.TAG_CONT):
            break
        flags, _swv, _fusev, _nimg, sboff, _rsv = struct.unpack_from("<IHBBHH", data, c + 4)
        s = c + sboff
        if (flags & 3) == 0 or s + AR.SBH > n:
            continue
        cert_off = struct.unpack_from("<H", data, s + 4)[0]
        if not cert_off:
            continue
        a = s + cert_off
        if a + CERT_FIXED + 12 > n:
            continue

        def add(cls, rel, nbytes, base=a):
            if nbytes > 0 and base + rel + nbytes <= n:
                out.append([cls, ci, base + rel, nbytes, (1 << (8 * nbytes)) - 1])

        sig_off = struct.unpack_from("<H", data, a + 4)[0]
        add("cert.version", 0, 1)
        add("cert.length", 1, 2)
        add("cert.tag", 3, 1)
        add("cert.sig_off", 4, 2)
        add("cert.perm_inv", 6, 1)
        add("cert.perm", 7, 1)
        add("cert.perm_data", 8, 12)
        add("cert.fuse_version", 20, 1)
        add("cert.reserved", 21, 3)
        add("cert.uuid", 24, 16)
        q = a + CERT_FIXED
        rln = struct.unpack_from("<H", data, q + 1)[0]
        add("cert.key_rec.head", 0, 4, q)
        add("cert.key_rec.hash_alg", 4, 1, q)
        add("cert.key_rec.key_size", 5, 1, q)
        add("cert.key_rec.reserved", 6, 1, q)
        add("cert.key_rec.flags", 7, 1, q)
        add("cert.key_rec.par_len", 8, 4, q)
        add("cert.key_rec.hash", 12, rln - 12, q)
        sd = q + rln
        if sd + 8 <= n and sd + 8 <= a + sig_off:
            sdl = struct.unpack_from("<H", data, sd + 1)[0]
            add("cert.key_data.head", 0, 4, sd)
            add("cert.key_data.id", 4, 1, sd)
            add("cert.key_data.reserved", 5, 3, sd)
            add("cert.key_data.key", 8, min(sdl, a + sig_off - sd) - 8, sd)
        g = a + sig_off
        if g + AR.SIGH <= n:
            gln = struct.unpack_from("<H", data, g + 1)[0]
            add("cert.sig.data", AR.SIGH, gln - AR.SIGH, g)
    return out


def certificate_selftest(cert_bin, srk_pub, img_pub):
    """Anchor: a golden certificate of the pinned commit (permission `container`, ECC P-256, signed by srk0 of the repository's
    test keys) must be described by certificate_event() as the layout above says.  Returns the event (all facts must be TRUE)."""
    kind, x, y = srk_pub
    srk = dict(alg=0x27, ksz=1, hash=0, a=x.to_bytes(32, "big"), b=y.to_bytes(32, "big"))
    ev, key = certificate_event(cert_bin, 0, 0, srk, 0, img_pub)
    return ev, key
