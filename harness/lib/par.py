"""Fork-based parallel map for the Python side of the checks (16 cores)."""
import multiprocessing as mp
import os

_fn = None


def _call(x):
    return _fn(x)


def pmap(fn, items, procs=None, chunksize=8):
    """Ordered parallel map. `fn` may be a closure: children are forked after it is stored in a module global."""
    global _fn
    items = list(items)
    procs = procs or min(16, os.cpu_count() or 4)
    if procs <= 1 or len(items) < 4:
        return [fn(x) for x in items]
    _fn = fn
    ctx = mp.get_context("fork")
    with ctx.Pool(procs) as pool:
        return pool.map(_call, items, chunksize=chunksize)
