"""Shared context of all checks: paths, seed, tier, scratch, verdict bookkeeping."""
import atexit
import hashlib
import json
import os
import random
import shutil
import sys
import tempfile
import time

ROOT = os.environ.get("VERIF_ROOT", "/verif")
REPO = os.environ.get("VERIF_REPO", "/repo")
SPEC = os.path.join(ROOT, "spec")


class Machinery(Exception):
    """The verification machinery itself failed (exit 2) - never a verdict about SPSDK."""


def seed():
    try:
        return int(os.environ.get("VERIF_SEED", "0"))
    except ValueError:
        return 0


_scratch = None


def scratch():
    """Private scratch directory of this run (removed at exit)."""
    global _scratch
    if _scratch is None:
        base = os.environ.get("VERIF_SCRATCH_BASE", tempfile.gettempdir())
        _scratch = tempfile.mkdtemp(prefix="verif-", dir=base)
        if not os.environ.get("VERIF_KEEP_SCRATCH"):
            atexit.register(shutil.rmtree, _scratch, True)
    return _scratch


def setup_spsdk_env():
    """Private SPSDK cache folder; must be called before spsdk is imported."""
    os.environ.setdefault("SPSDK_CACHE_FOLDER", os.path.join(scratch(), "spsdk-cache"))
    os.makedirs(os.environ["SPSDK_CACHE_FOLDER"], exist_ok=True)


def import_spsdk():
    setup_spsdk_env()
    import logging

    logging.disable(logging.CRITICAL)
    import spsdk

    if not os.path.realpath(spsdk.__file__).startswith(os.path.realpath(REPO) + os.sep):
        raise Machinery(f"wrong spsdk imported: {spsdk.__file__} (expected under {REPO})")
    return spsdk


def sha(obj):
    return hashlib.sha256(json.dumps(obj, sort_keys=True, default=str).encode()).hexdigest()[:16]


def rng(*salt):
    return random.Random(f"{seed()}|" + "|".join(str(s) for s in salt))


class Timer:
    def __init__(self):
        self.t0 = time.time()

    def s(self):
        return round(time.time() - self.t0, 3)


def eprint(*a):
    print(*a, file=sys.stderr, flush=True)


def say(*a):
    print(*a, flush=True)
