"""Executor of the C06 AHAB acceptance automaton (spec/C06/AhabRom.tla) on real bytes.

walk(data, sec) walks a complete AHAB image (all containers at their fixed slots) exactly along the automaton and logs one
event per spec action with every number it used.  It decides nothing: TLC (AhabRomTrace) recomputes every offset / range from
the fields logged earlier, compares the decoded fields with the builder's input and demands the crypto facts to be TRUE.
The walk is total: every read is bounds-checked, loops are bounded by the slot count / image count of the format, a structure
that cannot be read ends the trace with a `Malformed` event (for which the spec has no action).

fields(data) maps an accepted image to named field classes [cls, byte offset, byte count, bit mask] - the tamper placement.

Trusted base (independent of spsdk.crypto): hashlib, `cryptography` primitives called directly (ECDSA verify, RSA-PSS /
PKCS#1 v1.5 verify, AES-CBC decrypt), struct.
"""
import hashlib
import struct

from cryptography.hazmat.primitives import hashes, serialization
from cryptography.hazmat.primitives.asymmetric import ec, rsa
from cryptography.hazmat.primitives.asymmetric import padding as apad
from cryptography.hazmat.primitives.asymmetric import utils as autils
from cryptography.hazmat.primitives.ciphers import Cipher, algorithms, modes

BIG = 1 << 29  # logged integers are clamped (TLC integers are 32-bit)
HDR, IAE, SBH, SIGH = 16, 128, 16, 8
TAG_CONT, TAG_SB, TAG_SRKT, TAG_SRKR, TAG_SIG, TAG_BLOB, TAG_ARR, TAG_SRKD = 0x87, 0x90, 0xD7, 0xE1, 0xD8, 0x81, 0x5A, 0x5D
# image hash by the hash-type code of the image array entry (container version 1: 3 bits, version 2: 4 bits)
def _sm3(data=b""):
    return hashlib.new("sm3", data)  # OpenSSL's SM3 through hashlib


HASHES = {0: hashlib.sha256, 1: hashlib.sha384, 2: hashlib.sha512, 3: _sm3, 4: hashlib.sha3_256, 5: hashlib.sha3_384, 6: hashlib.sha3_512}
SIGN_HASH = {0: hashes.SHA256, 1: hashes.SHA384, 2: hashes.SHA512}
CURVES = {1: (ec.SECP256R1, 32), 2: (ec.SECP384R1, 48), 3: (ec.SECP521R1, 66)}
RSA_SIZES = {5: 256, 6: 384, 7: 512}
KEY_TYPES = {"ecc256": (0x27, 1, 0), "ecc384": (0x27, 2, 1), "ecc521": (0x27, 3, 2),
             "rsa2048": (0x22, 5, 0), "rsa3072": (0x22, 6, 0), "rsa4096": (0x22, 7, 0)}  # (algorithm, key-size code, hash code)


def slot_size(cver):
    return 0x4000 if cver == 2 else 0x400


def cl(v):
    return v if -BIG < v < BIG else BIG


def w2(v):
    return [(v >> 16) & 0xFFFF, v & 0xFFFF]


def w4(v):
    return [(v >> 48) & 0xFFFF, (v >> 32) & 0xFFFF, (v >> 16) & 0xFFFF, v & 0xFFFF]


def aes_cbc_dec(key, iv, data):
    d = Cipher(algorithms.AES(key), modes.CBC(iv)).decryptor()
    return d.update(data) + d.finalize()


def load_pub_numbers(pem_path):
    """(kind, a, b): ('ec', x, y) or ('rsa', n, e) of a PEM public key, read with `cryptography` only."""
    key = serialization.load_pem_public_key(open(pem_path, "rb").read())
    if isinstance(key, ec.EllipticCurvePublicKey):
        n = key.public_numbers()
        return ("ec", n.x, n.y)
    n = key.public_numbers()
    return ("rsa", n.n, n.e)


def sig_ok(alg, ksz, halg, a, b, sig, data):
    """Signature check with the key material of one SRK record: a||b = X||Y resp. modulus||exponent (big endian)."""
    try:
        h = SIGN_HASH[halg]()
        if alg == 0x27:
            crv, n = CURVES[ksz]
            if len(sig) != 2 * n:
                return False
            pk = ec.EllipticCurvePublicNumbers(int.from_bytes(a, "big"), int.from_bytes(b, "big"), crv()).public_key()
            pk.verify(autils.encode_dss_signature(int.from_bytes(sig[:n], "big"), int.from_bytes(sig[n:], "big")), data, ec.ECDSA(h))
            return True
        if alg in (0x21, 0x22):
            pk = rsa.RSAPublicNumbers(int.from_bytes(b, "big"), int.from_bytes(a, "big")).public_key()
            pad = apad.PSS(mgf=apad.MGF1(h), salt_length=apad.PSS.AUTO) if alg == 0x22 else apad.PKCS1v15()
            pk.verify(sig, data, pad, h)
            return True
    except Exception:  # noqa: BLE001 - any failure is "does not verify"
        return False
    return False


class _Stop(Exception):
    pass


def walk(data, sec):
    """data: file bytes.
    sec: {cver: 1|2, max_cont: int, images: {(ci, i): plain input bytes}, dek: {ci: bytes}, pool: {ci: [(kind, a, b) x4]},
          spsdk_srk_hash: {ci: [bytes, ...]}} - what the builder put in / what SPSDK reported (compared here byte-wise, the
          comparison results are logged as facts).
    Returns the event list."""
    ev = []
    n = len(data)
    cver = sec.get("cver", 1)
    slot = slot_size(cver)

    def log(name, **k):
        k["ev"] = name
        for key, val in k.items():
            if isinstance(val, int) and not isinstance(val, bool):
                k[key] = cl(val)
        ev.append(k)
        return k

    def need(off, ln, what):
        if not (0 <= off and 0 <= ln and off + ln <= n):
            log("Malformed", what=what, at=off, len=ln, fileLen=n)
            raise _Stop()

    def head(off, what, inverted=False):
        need(off, 4, what)
        if inverted:
            tag, ln, ver = struct.unpack_from("<BHB", data, off)
        else:
            ver, ln, tag = struct.unpack_from("<BHB", data, off)
        return ver, ln, tag

    try:
        n_cont = 0
        for ci in range(sec.get("max_cont", 3)):
            c = ci * slot
            if not (c + 4 <= n and data[c + 3] == TAG_CONT):
                break  # no container in this slot: the ROM stops looking
            n_cont += 1
            need(c, HDR, "container header")
            ver, ln, tag = head(c, "container header")
            flags, swv, fusev, nimg, sboff, rsv = struct.unpack_from("<IHBBHH", data, c + 4)
            srk_set, used, revoke = flags & 3, (flags >> 4) & 3, (flags >> 8) & 0xF
            other = flags & ~(0x3 | 0x30 | 0xF00)
            log("ContainerHeader", ci=ci, at=c, tagOk=tag == TAG_CONT, version=ver, length=ln, srkSet=srk_set, used=used, revoke=revoke,
                flagsOther=w2(other), sw=swv, fuse=fusev, nImages=nimg, sigBlockOff=sboff, reserved=rsv)
            if nimg > 32:
                log("Malformed", what="image count", at=c, len=nimg, fileLen=n)
                raise _Stop()
            enc_bit, hash_bits = (12, 4) if cver == 2 else (11, 3)
            for i in range(nimg):
                o = c + HDR + IAE * i
                need(o, IAE, "image array entry")
                off, size, load, entry, fl, meta = struct.unpack_from("<IIQQII", data, o)
                hfield, iv = data[o + 32:o + 96], data[o + 96:o + 128]
                ht = (fl >> 8) & ((1 << hash_bits) - 1)
                enc = bool((fl >> enc_bit) & 1)
                in_file = c + off + size <= n
                img = data[c + off:c + off + size] if in_file else b""
                hf = HASHES.get(ht)
                dig = hf(img).digest() if hf and in_file else b""
                plain_in = sec.get("images", {}).get((ci, i))
                data_ok = pad_zero = True
                dec_ok = iv_ok = True
                if enc:
                    dek = sec.get("dek", {}).get(ci)
                    if dek is None or not in_file or size % 16:
                        dec_ok = iv_ok = False
                    else:
                        plain = aes_cbc_dec(dek, iv[16:], img)
                        iv_ok = hashlib.sha256(plain).digest() == iv
                        dec_ok = plain_in is not None and plain[:len(plain_in)] == plain_in and not any(plain[len(plain_in):])
                elif plain_in is not None:
                    data_ok = img[:len(plain_in)] == plain_in and len(img) >= len(plain_in)
                    pad_zero = not any(img[len(plain_in):])
                log("ImageEntry", ci=ci, i=i, at=o, imgOff=off, imgAbs=c + off, size=size, load=w4(load), entry=w4(entry),
                    type=fl & 0xF, core=(fl >> 4) & 0xF, hashType=ht, enc=enc, boot=(fl >> 16) & 0x7FFF,
                    flagsRsvZero=(fl & (0x80000000 | (0xFFFF & ~((1 << (enc_bit + 1)) - 1)))) == 0,
                    meta=w2(meta), inFile=in_file, hashKnown=hf is not None, hashLen=len(dig),
                    hashOk=bool(dig) and hfield[:len(dig)] == dig, hashPadZero=not any(hfield[len(dig):]),
                    dataOk=data_ok, padZero=pad_zero, ivZero=not any(iv), ivOk=iv_ok, decOk=dec_ok,
                    inLen=len(plain_in) if plain_in is not None else -1)
            # ---- signature block
            s = c + sboff
            need(s, SBH, "signature block")
            sver, sln, stag = head(s, "signature block")
            cert_off, srk_off, sig_off, blob_off, key_id = struct.unpack_from("<HHHHI", data, s + 4)
            log("SignatureBlock", ci=ci, at=s, tagOk=stag == TAG_SB, version=sver, length=sln, certOff=cert_off, srkOff=srk_off,
                sigOff=sig_off, blobOff=blob_off, keyId=w2(key_id))
            if srk_set != 0:
                t = s + srk_off
                pool = sec.get("pool", {}).get(ci)
                reported = sec.get("spsdk_srk_hash", {}).get(ci)
                if cver == 2:
                    aver, aln, atag = head(t, "SRK table array")
                    need(t, 8, "SRK table array")
                    ntab = data[t + 4]
                    arr_rsv = data[t + 5:t + 8]
                    tt = t + 8
                else:
                    aver = aln = 0
                    atag = TAG_ARR
                    ntab = 1
                    arr_rsv = b""
                    tt = t
                tver, tln, ttag = head(tt, "SRK table", inverted=True)
                need(tt, tln, "SRK table")
                recs, q, recs_ok = [], tt + 4, True
                for _ in range(4):
                    if q + 12 > tt + tln:
                        recs_ok = False
                        break
                    rtag, rln, alg = struct.unpack_from("<BHB", data, q)
                    halg, ksz, rrsv, kflags, l1, l2 = struct.unpack_from("<BBBBHH", data, q + 4)
                    plen = 64 if cver == 2 else l1 + l2
                    if rtag != TAG_SRKR or rln != 12 + plen or q + rln > tt + tln:
                        recs_ok = False
                        break
                    recs.append(dict(alg=alg, hash=halg, ksz=ksz, flags=kflags, l1=l1, l2=l2, rsv=rrsv, par=data[q + 12:q + 12 + plen], len=rln))
                    q += rln
                recs_ok = recs_ok and len(recs) == 4 and q == tt + tln
                same = len({(r["alg"], r["hash"], r["ksz"], r["flags"], r["len"], r["l1"], r["l2"]) for r in recs}) == 1 if recs else False
                r0 = recs[0] if recs else dict(alg=0, hash=0, ksz=0, flags=0, l1=0, l2=0, len=0, rsv=0)
                sizes_ok = (r0["alg"] == 0x27 and r0["ksz"] in CURVES and (r0["l1"], r0["l2"]) == (CURVES[r0["ksz"]][1],) * 2) or (
                    r0["alg"] in (0x21, 0x22) and r0["ksz"] in RSA_SIZES and (r0["l1"], r0["l2"]) == (RSA_SIZES[r0["ksz"]], 4))
                table = data[tt:tt + tln]
                fuse_hash = (hashlib.sha512 if cver == 2 else hashlib.sha256)(table).digest()
                # key material: version 1 keeps it in the records, version 2 in the SRK data block of the used key
                key_par = [r["par"] for r in recs] if cver == 1 else []
                sd_at = sd_len = sd_id = 0
                sd_tag_ok = data_hash_ok = True
                if cver == 2:
                    sd_at = tt + tln
                    need(sd_at, 8, "SRK data")
                    dver, sd_len, dtag = head(sd_at, "SRK data")
                    need(sd_at, sd_len, "SRK data")
                    sd_id = data[sd_at + 4]
                    sd_tag_ok = dtag == TAG_SRKD and dver == 0 and not any(data[sd_at + 5:sd_at + 8])
                    sd = data[sd_at:sd_at + sd_len]
                    hrec = recs[sd_id] if sd_id < len(recs) else None
                    hfn = {0: hashlib.sha256, 1: hashlib.sha384, 2: hashlib.sha512}.get(hrec["hash"]) if hrec else None
                    dg = hfn(sd).digest() if hfn else b""
                    data_hash_ok = bool(dg) and hrec["par"][:len(dg)] == dg and not any(hrec["par"][len(dg):])
                    key_par = [None] * 4
                    if sd_id < 4:
                        key_par[sd_id] = sd[8:]
                keys_ok = pool is not None and len(recs) == 4
                if keys_ok:
                    for i, r in enumerate(recs):
                        par = key_par[i]
                        if par is None:
                            continue  # version 2: only the used key travels with the container
                        kind, a, b = pool[i]
                        l1 = r["l1"]
                        keys_ok = keys_ok and len(par) == r["l1"] + r["l2"] and int.from_bytes(par[:l1], "big") == a and int.from_bytes(par[l1:], "big") == b \
                            and kind == ("ec" if r["alg"] == 0x27 else "rsa")
                log("SrkTable", ci=ci, at=t, arr=cver == 2, arrTagOk=atag == TAG_ARR and aver == 0, arrLen=aln, nTables=ntab,
                    arrRsvZero=not any(arr_rsv), tabAt=tt, tagOk=ttag == TAG_SRKT, version=tver, length=tln, nRecords=len(recs),
                    recsOk=recs_ok, sameType=same, sizesOk=bool(sizes_ok), alg=r0["alg"], keySize=r0["ksz"], signHash=r0["hash"],
                    recFlags=r0["flags"], recRsvZero=all(r["rsv"] == 0 for r in recs), recLen=r0["len"],
                    keysOk=bool(keys_ok), srkDataAt=sd_at, srkDataLen=sd_len, srkDataId=sd_id, srkDataTagOk=sd_tag_ok, dataHashOk=data_hash_ok,
                    srkHashOk=reported is not None and all(h == fuse_hash for h in reported), end=(sd_at + sd_len) if cver == 2 else tt + tln)
                # ---- signature
                g = s + sig_off
                need(g, SIGH, "signature")
                gver, gln, gtag = head(g, "signature")
                need(g, max(gln, SIGH), "signature")
                g_rsv = data[g + 4:g + 8]
                sig = data[g + SIGH:g + gln]
                ok = False
                if used < len(recs) and (cver == 1 or sd_id == used):
                    r = recs[used]
                    par = key_par[used]
                    if par is not None and len(par) == r["l1"] + r["l2"]:
                        ok = sig_ok(r["alg"], r["ksz"], r["hash"], par[:r["l1"]], par[r["l1"]:], sig, data[c:g])
                log("VerifySignature", ci=ci, sigAt=g, tagOk=gtag == TAG_SIG, version=gver, length=gln, sigLen=len(sig),
                    rsvZero=not any(g_rsv), signedFrom=c, signedTo=g, key=used, ok=ok)
            if blob_off != 0:
                bl = s + blob_off
                need(bl, 8, "blob")
                bver, bln, btag = head(bl, "blob")
                bflags, bsize, balg, bmode = struct.unpack_from("<BBBB", data, bl + 4)
                log("Blob", ci=ci, at=bl, tagOk=btag == TAG_BLOB, version=bver, length=bln, keyBytes=bsize, flags=bflags, alg=balg, mode=bmode)
            log("ContainerEnd", ci=ci, end=c + ln)
        log("Accept", nContainers=n_cont, fileLen=n)
    except _Stop:
        pass
    except struct.error:
        log("Malformed", what="struct", at=0, len=0, fileLen=n)
    return ev


# ------------------------------------------------------------------ field map (tamper placement)
def fields(data, cver=1, max_cont=3):
    """Named field classes of an (accepted) image: list of [cls, ci, byte offset, byte count, bit mask over the little-endian
    field value].  Classes of a signed container lie in [container, signature) or in the signature data, plus the image
    bytes; of an unsigned container only the image bytes and the digest part of the hash fields are listed."""
    out = []
    slot = slot_size(cver)
    n = len(data)
    enc_bit, hash_bits = (12, 4) if cver == 2 else (11, 3)

    def add(cls, ci, at, nbytes, mask=None):
        if nbytes > 0:
            out.append([cls, ci, at, nbytes, mask if mask is not None else (1 << (8 * nbytes)) - 1])

    for ci in range(max_cont):
        c = ci * slot
        if not (c + HDR <= n and data[c + 3] == TAG_CONT):
            break
        flags, swv, fusev, nimg, sboff, rsv = struct.unpack_from("<IHBBHH", data, c + 4)
        signed = (flags & 3) != 0
        if signed:
            add("hdr.version", ci, c, 1)
            add("hdr.length", ci, c + 1, 2)
            add("hdr.tag", ci, c + 3, 1)
            add("hdr.flags.srk_set", ci, c + 4, 4, 0x3)
            add("hdr.flags.used_srk", ci, c + 4, 4, 0x30)
            add("hdr.flags.revoke", ci, c + 4, 4, 0xF00)
            add("hdr.flags.other", ci, c + 4, 4, 0xFFFFFFFF & ~0xF33)
            add("hdr.sw_version", ci, c + 8, 2)
            add("hdr.fuse_version", ci, c + 10, 1)
            add("hdr.n_images", ci, c + 11, 1)
            add("hdr.sigblk_off", ci, c + 12, 2)
            add("hdr.reserved", ci, c + 14, 2)
        for i in range(nimg):
            o = c + HDR + IAE * i
            off, size, load, entry, fl, meta = struct.unpack_from("<IIQQII", data, o)
            ht = (fl >> 8) & ((1 << hash_bits) - 1)
            enc = bool((fl >> enc_bit) & 1)
            hl = HASHES[ht]().digest_size if ht in HASHES else 64
            if signed:
                add("iae.offset", ci, o, 4)
                add("iae.size", ci, o + 4, 4)
                add("iae.load", ci, o + 8, 8)
                add("iae.entry", ci, o + 16, 8)
                add("iae.flags.type_core", ci, o + 24, 4, 0xFF)
                add("iae.flags.hash", ci, o + 24, 4, ((1 << hash_bits) - 1) << 8)
                add("iae.flags.encrypted", ci, o + 24, 4, 1 << enc_bit)
                add("iae.flags.boot", ci, o + 24, 4, 0x7FFF0000)
                add("iae.flags.reserved", ci, o + 24, 4, 0xFFFFFFFF & ~(0xFF | (((1 << hash_bits) - 1) << 8) | (1 << enc_bit) | 0x7FFF0000))
                add("iae.meta", ci, o + 28, 4)
                add("iae.hash.pad", ci, o + 32 + hl, 64 - hl)
                add("iae.iv.encrypted" if enc else "iae.iv.plain", ci, o + 96, 32)
            add("iae.hash", ci, o + 32, hl)
            if size and c + off + size <= n:
                add("image.encrypted" if enc else "image", ci, c + off, size)
        s = c + sboff
        if signed and s + SBH <= n:
            cert_off, srk_off, sig_off, blob_off, key_id = struct.unpack_from("<HHHHI", data, s + 4)
            add("sb.version", ci, s, 1)
            add("sb.length", ci, s + 1, 2)
            add("sb.tag", ci, s + 3, 1)
            add("sb.cert_off", ci, s + 4, 2)
            add("sb.srk_off", ci, s + 6, 2)
            add("sb.sig_off", ci, s + 8, 2)
            add("sb.blob_off", ci, s + 10, 2)
            add("sb.key_id", ci, s + 12, 4)
            t = s + srk_off
            g = s + sig_off
            if cver == 2:
                add("srk.array_hdr", ci, t, 8)
                t += 8
            tln = struct.unpack_from("<H", data, t + 1)[0]
            add("srk.table_hdr", ci, t, 4)
            q = t + 4
            for r in range(4):
                rln = struct.unpack_from("<H", data, q + 1)[0]
                if rln < 12 or q + rln > t + tln:
                    break
                who = "used" if r == ((flags >> 4) & 3) else "other"
                add(f"srk.rec_hdr.{who}", ci, q, 12)
                add(f"srk.rec_key.{who}", ci, q + 12, rln - 12)
                q += rln
            if cver == 2 and t + tln + 8 <= g:
                sdl = struct.unpack_from("<H", data, t + tln + 1)[0]
                add("srk.data_hdr", ci, t + tln, 8)
                add("srk.data_key", ci, t + tln + 8, sdl - 8)
                add("srk.pad", ci, t + tln + sdl, g - (t + tln + sdl))
            else:
                add("srk.pad", ci, t + tln, g - (t + tln))
            gln = struct.unpack_from("<H", data, g + 1)[0]
            add("sig.data", ci, g + SIGH, gln - SIGH)
    return out


def bit_positions(field):
    """All (byte offset, bit) positions of a field class entry."""
    cls, ci, at, nbytes, mask = field
    return [(at + b // 8, b % 8) for b in range(8 * nbytes) if (mask >> b) & 1]
