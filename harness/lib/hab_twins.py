"""Twin HAB4 PKI trees for C07: /verif/keys/hab/<tree>_b/{crts,keys}/ - a SECOND tree for every tree of lib.hab_keys, made with the
same parameters, hence with exactly the same FILE NAMES, subject names and serial numbers (what NXP's CST scripts produce when
they are run twice, once per product) but with different keys.  Two projects that name their material by the same relative strings
(`../keys/CSF1_1_sha256_2048_65537_v3_usr_key.pem`) then resolve, through their own search path, to different files.

The functions mirror lib.hab_keys (srk_name / leaf_name / crt_path / key_path) and accept both the base trees and the twins.
Created once with `cryptography` (never through spsdk.crypto) and committed; `ensure()` only generates what is missing.
"""
import os
import shutil

from . import hab_keys as K

SUFFIX = "_b"
BASE = K.BASE


def base(tree):
    return tree[: -len(SUFFIX)] if tree.endswith(SUFFIX) else tree


def twin(tree):
    return base(tree) + SUFFIX


def of_project(tree, proj):
    """PKI tree of project `proj` ("a": the tree itself, "b": its twin)."""
    return twin(tree) if proj == "b" else base(tree)


def srk_name(tree, i):
    return K.srk_name(base(tree), i)


def leaf_name(tree, role, i):
    return K.leaf_name(base(tree), role, i)


def crt_path(tree, name):
    return os.path.join(BASE, tree, "crts", name + "_crt.pem")


def key_path(tree, name):
    return os.path.join(BASE, tree, "keys", name + "_key.pem")


def make_twin(tree):
    """Same construction as hab_keys.make_tree, names of the base tree, files under <tree>_b."""
    b, t = base(tree), twin(tree)
    kind, size, leaf, ca = K.TREES[b]
    ca_name = f"CA1_{K._tag(kind, size)}_v3_ca"
    if os.path.exists(key_path(t, ca_name)):
        ca_key = K._load_key(key_path(t, ca_name))
    else:
        ca_key = K._newkey(kind, size)
        K._write(t, ca_name, ca_key, K._cert(ca_name, ca_key.public_key(), ca_name, ca_key, 0x1000, True))
    for i in range(1, 5):
        sn = srk_name(t, i)
        if os.path.exists(key_path(t, sn)) and os.path.exists(crt_path(t, sn)):
            srk_key = K._load_key(key_path(t, sn))
        else:
            srk_key = K._newkey(kind, size)
            K._write(t, sn, srk_key, K._cert(sn, srk_key.public_key(), ca_name, ca_key, 0x2000 + i, ca))
        for role in ("CSF", "IMG") if leaf else ():
            ln = leaf_name(t, role, i)
            if os.path.exists(key_path(t, ln)) and os.path.exists(crt_path(t, ln)):
                continue
            k = K._newkey(kind, leaf[i - 1])
            serial = 0x12345600 + i * 16 + (1 if role == "CSF" else 2)
            K._write(t, ln, k, K._cert(ln, k.public_key(), sn, srk_key, serial, False))


def ensure():
    K.ensure()
    for t in K.TREES:
        make_twin(t)
    return BASE


def same_names_different_keys(tree):
    """The point of a twin: every file name of the base tree exists in the twin, and no key file has the same content."""
    a, b = os.path.join(BASE, base(tree)), os.path.join(BASE, twin(tree))
    for sub in ("crts", "keys"):
        na, nb = sorted(os.listdir(os.path.join(a, sub))), sorted(os.listdir(os.path.join(b, sub)))
        if na != nb:
            return False
        for n in na:
            with open(os.path.join(a, sub, n), "rb") as f, open(os.path.join(b, sub, n), "rb") as g:
                if f.read() == g.read():
                    return False
    return True


def install_project(tree, proj, dest):
    """Copy the PKI tree of project `proj` to <dest>/{crts,keys} (a project directory as CST leaves it).  Idempotent."""
    src = os.path.join(BASE, of_project(tree, proj))
    for sub in ("crts", "keys"):
        d = os.path.join(dest, sub)
        if not os.path.isdir(d):
            shutil.copytree(os.path.join(src, sub), d)
    return dest


if __name__ == "__main__":
    print(ensure())
    print({t: same_names_different_keys(t) for t in K.TREES})
