"""Thin driver around TLC: model checking (MC), case/behaviour generation (GEN), batch trace validation (TV)."""
import json
import os
import re
import subprocess
import time

from .common import ROOT, SPEC, Machinery, scratch, seed

JAR = "/opt/veriftools/tla/tla2tools.jar"
DEPS = "/opt/veriftools/tla/CommunityModules-deps.jar"
LIB = os.path.join(SPEC, "lib")

_counter = [0]


class TlcResult:
    def __init__(self, rc, out, wall):
        self.rc = rc
        self.out = out
        self.wall = wall
        m = re.findall(r"(\d+) states generated, (\d+) distinct states found, (\d+) states left on queue", out)
        self.generated, self.distinct, self.left = (int(x) for x in m[-1]) if m else (0, 0, 0)
        m = re.search(r"The depth of the complete state graph search is (\d+)", out)
        self.depth = int(m.group(1)) if m else 0
        self.no_error = "Model checking completed. No error has been found." in out or (
            "Finished in" in out and "Error:" not in out and rc == 0
        )
        m = re.search(r"Error: Invariant (\S+) is violated", out)
        self.violated = m.group(1) if m else None
        if self.violated is None:
            m = re.search(r"Error: Action property (\S+) is violated", out)
            self.violated = m.group(1) if m else None
        if self.violated is None and "Temporal properties were violated" in out:
            self.violated = "<temporal>"
        if self.violated is None and "Error: Deadlock reached" in out:
            self.violated = "<deadlock>"
        self.errors = [l for l in out.splitlines() if l.startswith("Error:")]
        # coverage:  <Name line a, col b to line c, col d of module M>: distinct:generated
        self.coverage = {}
        for name, mod, d, g in re.findall(
            r"^<(\w+) line \d+, col \d+ to line \d+, col \d+ of module (\w+)>(?:: (\d+):(\d+))", out, re.M
        ):
            cur = self.coverage.get(name, (0, 0))
            self.coverage[name] = (cur[0] + int(d), cur[1] + int(g))

    def prints(self):
        """Values printed by PrintT as one line each (TLA+ strings holding JSON are decoded)."""
        res = []
        for line in self.out.splitlines():
            line = line.strip()
            if line.startswith('"') and line.endswith('"') and len(line) >= 2:
                try:
                    s = json.loads(line)
                except Exception:
                    continue
                res.append(s)
        return res

    def json_prints(self):
        res = []
        for s in self.prints():
            if s[:1] in "{[":
                try:
                    res.append(json.loads(s))
                except Exception:
                    pass
        return res

    def tuples(self, head):
        """Values printed as  <<"HEAD", a, b, ...>>  ->  list of field lists (ints / strings).
        TLC's pretty-printer wraps long tuples over several lines (at about 80 columns): a tuple is read from its opening << to the matching >>,
        across line breaks (a wrapped REJ line that is not recognised would read as an accepted trace)."""
        res = []
        out = self.out
        pat = re.compile(r'<<\s*"' + re.escape(head) + '"')
        pos = 0
        while True:
            m = pat.search(out, pos)
            if not m:
                break
            i = m.start()
            # only at the beginning of a line (a tuple printed by PrintT), not inside another value
            bol = out.rfind("\n", 0, i) + 1
            if out[bol:i].strip():
                pos = i + 1
                continue
            j, depth, instr = i, 0, False
            end = -1
            while j < len(out):
                c = out[j]
                if instr:
                    if c == "\\":
                        j += 1
                    elif c == '"':
                        instr = False
                elif c == '"':
                    instr = True
                elif out.startswith("<<", j):
                    depth += 1
                    j += 1
                elif out.startswith(">>", j):
                    depth -= 1
                    j += 1
                    if depth == 0:
                        end = j + 1
                        break
                j += 1
            if end < 0:
                break
            text = " ".join(x.strip() for x in out[i:end].splitlines())
            body = text[2:-2]
            fields = [f.strip() for f in _split_top(body)]
            vals = []
            for f in fields[1:]:
                if f.startswith('"'):
                    vals.append(json.loads(f))
                elif re.fullmatch(r"-?\d+", f):
                    vals.append(int(f))
                elif f in ("TRUE", "FALSE"):
                    vals.append(f == "TRUE")
                else:
                    vals.append(f)
            res.append(vals)
            pos = end
        return res


def _split_top(s):
    out, depth, cur, instr = [], 0, "", False
    i = 0
    while i < len(s):
        c = s[i]
        if instr:
            cur += c
            if c == "\\":
                cur += s[i + 1]
                i += 1
            elif c == '"':
                instr = False
        elif c == '"':
            instr = True
            cur += c
        elif c in "<[({":
            depth += 1
            cur += c
        elif c in ">])}":
            depth -= 1
            cur += c
        elif c == "," and depth == 0:
            out.append(cur)
            cur = ""
        else:
            cur += c
        i += 1
    if cur.strip():
        out.append(cur)
    return out


def run(
    spec_dir,
    module,
    cfg=None,
    *,
    workers=None,
    env=None,
    coverage=False,
    simulate=None,
    depth=None,
    timeout=900,
    deadlock=True,
    extra=(),
    heap="4g",
    dfs=False,
    libs=(),
):
    """Run TLC on spec/<spec_dir>/<module>.tla with <cfg>. Returns TlcResult. Raises Machinery on tool failure.
    libs: further spec directories (relative to spec/) whose modules the module extends / instantiates (composition of specifications)."""
    d = spec_dir if os.path.isabs(spec_dir) else os.path.join(SPEC, spec_dir)
    cfg = cfg or module + ".cfg"
    _counter[0] += 1
    meta = os.path.join(scratch(), f"tlc-{_counter[0]}")
    os.makedirs(meta, exist_ok=True)
    path = os.pathsep.join([LIB] + [x if os.path.isabs(x) else os.path.join(SPEC, x) for x in libs])
    java = ["java", "-XX:+UseParallelGC", f"-Xmx{heap}", "-Xss64m", f"-DTLA-Library={path}"]
    if dfs:
        java.append("-Dtlc2.tool.queue.IStateQueue=StateDeque")
    cmd = java + ["-cp", f"{JAR}:{DEPS}", "tlc2.TLC", "-metadir", meta, "-noGenerateSpecTE", "-config", cfg]
    if workers is None:
        workers = "auto"
    cmd += ["-workers", str(workers)]
    if coverage:
        cmd += ["-coverage", "1"]
    if not deadlock:
        cmd += ["-deadlock"]
    if simulate:
        cmd += ["-simulate", simulate, "-seed", str(seed())]
    if depth:
        cmd += ["-depth", str(depth)]
    cmd += list(extra) + [module + ".tla"]
    e = dict(os.environ)
    e.update({k: str(v) for k, v in (env or {}).items()})
    t0 = time.time()
    try:
        p = subprocess.run(cmd, cwd=d, env=e, capture_output=True, text=True, timeout=timeout)
    except subprocess.TimeoutExpired as x:
        raise Machinery(f"TLC timed out after {timeout}s on {module} ({cfg})") from x
    out = p.stdout + p.stderr
    r = TlcResult(p.returncode, out, time.time() - t0)
    r.cmd = " ".join(cmd[cmd.index("tlc2.TLC"):])
    # tool-level failures: parse errors, evaluation errors, java exceptions
    bad = [
        l
        for l in out.splitlines()
        if ("Parsing or semantic analysis failed" in l)
        or ("TLC threw an unexpected exception" in l)
        or ("Error: TLC encountered" in l)
        or ("Error: Evaluating" in l)
        or ("was not found" in l and "Error" in l)
        or ("Error: The configuration file" in l)
        or ("Error: In evaluation" in l)
        or l.startswith("Error: Attempted")
        or l.startswith("Error: The ")
    ]
    bad = [l for l in bad if "is violated" not in l and "The behavior up to" not in l]
    if bad:
        lines = out.splitlines()
        at = next((i for i, l in enumerate(lines) if l == bad[0] or bad[0] in l), 0)
        tail = "\n".join(lines[at:at + 25] + ["..."] + lines[-15:])
        raise Machinery(f"TLC failed on {module} ({cfg}): {bad[0]}\n{tail}")
    return r


def mc(spec_dir, module, cfg=None, *, require_actions=(), **kw):
    """Exhaustive model checking; the spec's invariants must hold and every named action must have fired."""
    kw.setdefault("coverage", True)
    r = run(spec_dir, module, cfg, **kw)
    if r.violated or not r.no_error:
        tail = "\n".join(r.out.splitlines()[-60:])
        raise Machinery(f"model checking of {module} ({cfg or module+'.cfg'}) did not pass: {r.violated}\n{tail}")
    vac = [a for a in require_actions if r.coverage.get(a, (0, 0))[1] == 0]
    if vac:
        raise Machinery(f"vacuous actions in {module}: {vac} (coverage {r.coverage})")
    return r


def tv(spec_dir, module, traces, cfg=None, *, env=None, timeout=900, heap="4g", dfs=False, libs=()):
    """Batch trace validation. traces: list of {"id":..., "ev":[...]} (JSON-able).
    The trace spec prints <<"REJ", id, matched, len, evname>> for every trace not consumed to its end.
    Returns (rejected: {id: (matched, length, evname)}, TlcResult)."""
    if not traces:
        return {}, None
    _counter[0] += 1
    path = os.path.join(scratch(), f"traces-{_counter[0]}.ndjson")
    with open(path, "w") as f:
        for t in traces:
            f.write(json.dumps(t, separators=(",", ":")) + "\n")
    e = dict(env or {})
    e["TRACE_FILE"] = path
    r = run(spec_dir, module, cfg, workers=1, env=e, deadlock=False, timeout=timeout, heap=heap, dfs=dfs, libs=libs)
    if r.violated:
        raise Machinery(f"trace spec {module} reported {r.violated}:\n" + "\n".join(r.out.splitlines()[-40:]))
    if "Finished in" not in r.out:
        raise Machinery(f"trace validation {module} did not finish:\n" + "\n".join(r.out.splitlines()[-40:]))
    # an aborted batch (e.g. a Java StackOverflowError) prints no REJ lines: without these two tests it would read as "all accepted"
    if "Model checking completed. No error has been found." not in r.out or r.errors:
        raise Machinery(f"trace validation {module} was aborted by TLC:\n" + "\n".join((r.errors or r.out.splitlines())[-20:]))
    if r.distinct < len(traces):
        raise Machinery(f"trace validation {module}: only {r.distinct} states for {len(traces)} traces")
    rej = {}
    for v in r.tuples("REJ"):
        rej[v[0]] = tuple(v[1:])
    return rej, r


def sany(path, libs=()):
    d = os.path.dirname(path)
    lp = os.pathsep.join([LIB] + [os.path.join(SPEC, x) for x in libs])
    p = subprocess.run(
        ["java", f"-DTLA-Library={lp}", "-cp", f"{JAR}:{DEPS}", "tla2sany.SANY", os.path.basename(path)],
        cwd=d,
        capture_output=True,
        text=True,
    )
    out = p.stdout + p.stderr
    ok = p.returncode == 0 and "Semantic errors" not in out and "***Parse Error***" not in out and "Fatal errors" not in out
    return ok, out
