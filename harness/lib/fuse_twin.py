"""Fuse lane (sys_fuses): the OTP device twin, its two command front ends, the fuse map of a family read from the chip description,
and the reference reader of blhost / nxpele fuse scripts.  No SPSDK class takes part in any of the decisions made here.

OTP device (what spec/SYS/Fuses.tla defines): words indexed by OTP index; a program ORs (bits go 0 -> 1 only); a word is write-protected when its
own write lock is set (program with the lock flag, or any program of a word whose map entry says "implicit") or when the lock fuse named by the
map holds a bit of the word's write-lock mask; it is read-protected when the lock fuse holds a bit of the read-lock mask.  A protected access is
answered with an error status and changes nothing.

Front ends:
  blhost  McuBoot FlashProgramOnce (tag 0x0E: index | lock << 24, byte count 4, data) / FlashReadOnce (tag 0x0F: index, byte count 4)
  nxpele  ELE messages in a communication buffer, executed by McuBoot EleMessage (tag 0x19: 0, cmd address, cmd words, response address, response words):
          READ_COMMON_FUSE 0x97 (word 1: index in bits 0..15)                 -> status word, fuse value
          WRITE_FUSE       0xD6 (word 1: bit position | bit length << 16 | lock << 31, word 2: data) -> status word, processed index
          header word: version 0x06 | size in words << 8 | command << 16 | tag << 24 (0x17 command, 0xE1 response); status 0xD6 success, 0x29 failure
"""
import importlib
import json
import os
import re
import struct
import time

ELE_TAG_CMD, ELE_TAG_RSP, ELE_VER = 0x17, 0xE1, 0x06
ELE_READ_COMMON_FUSE, ELE_WRITE_FUSE = 0x97, 0xD6
ELE_OK, ELE_FAIL = 0xD6, 0x29
ST_FAIL = 10101          # the status the twin answers a protected / failing access with (any non-zero status is a refusal)


def import_c10():
    """harness/c10.py is used unchanged; it may be in the middle of an edit by somebody else: retry before giving up."""
    last = None
    for _ in range(6):
        try:
            return importlib.import_module("c10")
        except SyntaxError as e:  # transient
            last = e
            time.sleep(20)
    raise last


def W(v):
    v &= 0xFFFFFFFF
    return [v >> 16, v & 0xFFFF]


def vint(x):
    if isinstance(x, int):
        return x
    s = str(x).strip().replace("_", "")
    if s.lower().startswith("0x"):
        return int(s, 16)
    if s.lower().startswith("0b"):
        return int(s[2:], 2)
    return int(s, 10)


class FuseMap:
    """The fuse map of one family, read from the chip description files (JSON + the grouping table of the database)."""

    def __init__(self, family, revision="latest"):
        from spsdk.utils.database import get_db   # only to LOCATE the files of the family (aliases, revisions)

        db = get_db(family, revision)
        self.family, self.revision = family, revision
        self.tool = db.get_str("fuses", "tool")
        path = db.get_file_path("fuses", "reg_spec")
        with open(path) as f:
            spec = json.load(f)
        self.words = {}
        self.order = []
        for g in spec["groups"]:
            for r in g["registers"]:
                lk = r.get("lock")
                w = {"uid": r["id"], "name": r["name"], "idx": vint(r["index_int"]), "iwl": r.get("individual_write_lock", "none"),
                     "lk": lk["register_id"] if lk else None,
                     "wm": vint(lk["write_lock_int"]) if lk and lk.get("write_lock_int") is not None else 0,
                     "rm": vint(lk["read_lock_int"]) if lk and lk.get("read_lock_int") is not None else 0,
                     "access": r.get("access", "RW"), "width": vint(r.get("reg_width", 32)), "reset": vint(r.get("reset_value_int", 0)),
                     "calculated": bool(r.get("calculated")), "bitfields": len(r.get("bitfields", []) or []),
                     "reserved": bool(r.get("is_reserved"))}
                self.words[w["uid"]] = w
                self.order.append(w["uid"])
        self.groups = {}
        for g in db.get_list("fuses", "grouped_registers", []):
            self.groups[g["uid"]] = {"uid": g["uid"], "name": g["name"], "subs": list(g["sub_regs"]), "rev": bool(g.get("reverse_subregs_order")),
                                     "reversed": bool(g.get("reversed")), "width": g.get("width")}
        self.in_group = {s: g["uid"] for g in self.groups.values() for s in g["subs"]}

    def lay(self, uids):
        """Layout records of the words named + the lock fuses they depend on (what a trace carries)."""
        need, out = [], []
        for u in uids:
            if u not in need:
                need.append(u)
            lk = self.words[u]["lk"]
            if lk and lk in self.words and lk not in need:
                need.append(lk)
        for u in need:
            w = self.words[u]
            lk = self.words.get(w["lk"]) if w["lk"] else None
            out.append({"idx": w["idx"], "lk": lk["idx"] if lk else -1, "wm": W(w["wm"]) if lk else [0, 0], "rm": W(w["rm"]) if lk else [0, 0],
                        "iwl": w["iwl"], "acc": w["access"]})
        return out


class Otp:
    """The OTP array behind both front ends."""

    def __init__(self, lay, words=None, wlocked=()):
        self.lay = {l["idx"]: l for l in lay}
        self.words = dict(words or {})
        self.wl = set(wlocked)
        self.log = []
        self.fail_at = None          # the k-th access (1-based, counted from arm()) fails in the device (error status, nothing changes)
        self.n = 0
        self.replace = False         # canary only: a device that stores instead of OR-ing
        self.quiet = False           # scenario: a ROM that answers success to the program of a protected word (and programs nothing)

    def arm(self, k):
        self.n, self.fail_at = 0, k

    def _mask(self, idx, key):
        l = self.lay.get(idx)
        if not l or l["lk"] < 0:
            return 0
        m = (l[key][0] << 16) | l[key][1]
        return self.words.get(l["lk"], 0) & m

    def wprot(self, idx):
        return idx in self.wl or self._mask(idx, "wm") != 0

    def rprot(self, idx):
        return self._mask(idx, "rm") != 0

    def read(self, idx):
        self.n += 1
        faulty = self.fail_at == self.n
        ok = not faulty and not self.rprot(idx)
        v = self.words.get(idx, 0) if ok else 0
        self.log.append({"ev": "dev", "k": "rd", "idx": idx, "val": W(v), "lock": False, "st": 0 if ok else ST_FAIL, "flt": faulty})
        return ok, v

    def program(self, idx, val, lock):
        self.n += 1
        faulty = self.fail_at == self.n
        ok = not faulty and not self.wprot(idx)
        if ok:
            self.words[idx] = val if self.replace else (self.words.get(idx, 0) | val)
            l = self.lay.get(idx)
            if lock or (l and l["iwl"] == "implicit"):
                self.wl.add(idx)
        said = ok or (self.quiet and not faulty)
        self.log.append({"ev": "dev", "k": "wr", "idx": idx, "val": W(val), "lock": bool(lock), "st": 0 if said else ST_FAIL, "flt": faulty})
        return said


def make_core(c10, otp, mps):
    """A c10.Core (used unchanged) whose program-once / read-once / ELE-message commands act on the OTP array."""

    class FuseCore(c10.Core):
        def __init__(self, mps_):
            super().__init__(mps_)
            self.otp = otp
            self.wire = []           # the commands as they crossed the McuBoot link: what FusesTrace recomputes the accesses from
            self.ele_silent = False  # scenario: the ELE answers nothing (the response buffer keeps what it held)
            self.ele_fail = None     # scenario: the n-th ELE message (1-based) is answered with a FAILURE indication by the ELE itself
            self.nele = 0

        def on_cmd(self, tag, flags, params, status):
            if status == 0 and tag == 0x0E and len(params) >= 3 and params[1] == 4:
                ok = self.otp.program(params[0] & 0xFFFFFF, params[2], bool(params[0] & (1 << 24)))
                d = self.otp.log[-1]
                self.wire.append({"ev": "wire", "be": "blhost", "tag": tag, "p": [W(x) for x in params[:3]], "st": d["st"], "flt": d["flt"]})
                self.dataout = None
                return "cmd", 0, [("resp", 0xA0, 0 if ok else ST_FAIL, [tag], True)]
            if status == 0 and tag == 0x0F and len(params) >= 2 and params[1] == 4:
                ok, v = self.otp.read(params[0] & 0xFFFFFF)
                d = self.otp.log[-1]
                self.wire.append({"ev": "wire", "be": "blhost", "tag": tag, "p": [W(x) for x in params[:2]], "st": d["st"], "flt": d["flt"], "ret": W(v)})
                self.dataout = None
                if ok:
                    return "value", 0, [("resp", 0xAF, 0, [4, v], True)]
                return "value", 0, [("resp", 0xAF, ST_FAIL, [0], True)]
            if status == 0 and tag == 0x19 and len(params) >= 5:
                self.ele(params)
                self.dataout = None
                return "cmd", 0, [("resp", 0xA0, 0, [tag], True)]
            return super().on_cmd(tag, flags, params, status)

        def ele(self, params):
            caddr, cn, raddr, rn = params[1:5]           # params[0]: reserved (sub-command), zero
            self.nele += 1
            raw = bytes(self.mem[caddr:caddr + 4 * cn])
            words = list(struct.unpack(f"<{cn}I", raw)) if cn and len(raw) == 4 * cn else []
            rec = {"ev": "wire", "be": "nxpele", "tag": 0x19, "p": [W(x) for x in words], "rn": rn, "st": ST_FAIL, "flt": False, "ret": [0, 0]}
            self.wire.append(rec)
            if not words or self.ele_silent:
                rec["lost"] = True
                return
            ver, size, cmd, tg = words[0] & 0xFF, (words[0] >> 8) & 0xFF, (words[0] >> 16) & 0xFF, words[0] >> 24
            rsp = None
            forced = self.ele_fail == self.nele
            if tg == ELE_TAG_CMD and ver == ELE_VER and size == cn:
                if cmd == ELE_READ_COMMON_FUSE and cn == 2:
                    ok, v = (False, 0) if forced else self.otp.read(words[1] & 0xFFFF)
                    rsp = [ELE_OK if ok else ELE_FAIL, v]
                    rec.update(st=0 if ok else ST_FAIL, flt=forced or self.otp.log[-1]["flt"], ret=W(v))
                elif cmd == ELE_WRITE_FUSE and cn == 3:
                    pos, ln, lock = words[1] & 0xFFFF, (words[1] >> 16) & 0x7FFF, bool(words[1] >> 31)
                    ok = False
                    if not forced and pos % 32 == 0 and ln == 32:
                        ok = self.otp.program(pos // 32, words[2], lock)
                        rec.update(flt=self.otp.log[-1]["flt"])
                    rsp = [ELE_OK if ok else ELE_FAIL, pos // 32]
                    rec.update(st=0 if ok else ST_FAIL, flt=forced or rec["flt"])
            if rsp is None:
                rsp = [ELE_FAIL]
                cmd = cmd if words else 0
            hdr = ELE_VER | ((1 + len(rsp)) << 8) | (cmd << 16) | (ELE_TAG_RSP << 24)
            out = struct.pack(f"<{1 + len(rsp)}I", hdr, *rsp)[:4 * rn]
            self.mem[raddr:raddr + len(out)] = out

    return FuseCore(mps)


# ---------------------------------------------------------------------------------------------------------------- reference script reader
_NUM = r"(0[xX][0-9a-fA-F]+|\d+)"


def read_script(text, tool):
    """-> [(index, value, lock, verify)]  |  raises ValueError on a line that is no comment and no fuse command of the tool.
    blhost : efuse-program-once <index> <data> [--verify | --no-verify] [lock | nolock]        (index: number, data: hexadecimal word)
    nxpele : write-fuse --index <n> --data <n> [--lock]"""
    out = []
    for ln in text.splitlines():
        s = ln.strip()
        if not s or s.startswith("#"):
            continue
        tok = s.split()
        if tool == "blhost":
            if tok[0] != "efuse-program-once" or len(tok) < 3:
                raise ValueError(f"not a blhost fuse command: {s}")
            idx = vint(tok[1])
            val = int(tok[2], 16)
            lock, verify = False, True
            for t in tok[3:]:
                if t == "lock":
                    lock = True
                elif t == "nolock":
                    lock = False
                elif t == "--verify":
                    verify = True
                elif t == "--no-verify":
                    verify = False
                else:
                    raise ValueError(f"unknown word '{t}' in: {s}")
        else:
            if tok[0] != "write-fuse":
                raise ValueError(f"not an nxpele fuse command: {s}")
            idx = val = None
            lock, verify = False, False
            i = 1
            while i < len(tok):
                if tok[i] in ("--index", "-i") and i + 1 < len(tok):
                    idx = vint(tok[i + 1])
                    i += 2
                elif tok[i] in ("--data", "-d") and i + 1 < len(tok):
                    val = vint(tok[i + 1])
                    i += 2
                elif tok[i] in ("--lock", "-l"):
                    lock = True
                    i += 1
                else:
                    raise ValueError(f"unknown word '{tok[i]}' in: {s}")
            if idx is None or val is None:
                raise ValueError(f"incomplete command: {s}")
        if not (0 <= val < 1 << 32) or not (0 <= idx < 1 << 24):
            raise ValueError(f"number out of range in: {s}")
        out.append((idx, val, lock, verify))
    return out
