"""Run several independent TLC jobs at the same time (threads; each job is its own JVM).

lib.tlc numbers its metadata directories / trace files with a module-level counter that is not safe under concurrent use;
`install()` replaces it by a drop-in that hands out globally unique numbers and remembers the current one per thread.
"""
import threading

from . import tlc


class _Counter(list):
    def __init__(self, start=0):
        super().__init__([start])
        self._lock = threading.Lock()
        self._local = threading.local()
        self._n = start

    def __getitem__(self, i):
        return getattr(self._local, "v", self._n)

    def __setitem__(self, i, val):  # `_counter[0] += 1` -> allocate the next unique number for this thread
        with self._lock:
            self._n += 1
            self._local.v = self._n


def install():
    if not isinstance(tlc._counter, _Counter):
        tlc._counter = _Counter(tlc._counter[0])


def parallel(jobs, max_threads=8):
    """jobs: {name: zero-argument callable}.  Returns {name: result}; the first exception (if any) is re-raised."""
    install()
    results, errors = {}, {}
    sem = threading.Semaphore(max_threads)

    def work(name, fn):
        with sem:
            try:
                results[name] = fn()
            except BaseException as e:  # noqa: BLE001 - re-raised in the caller's thread
                errors[name] = e

    threads = [threading.Thread(target=work, args=(n, f), daemon=True) for n, f in jobs.items()]
    for t in threads:
        t.start()
    for t in threads:
        t.join()
    if errors:
        raise next(iter(errors.values()))
    return results
