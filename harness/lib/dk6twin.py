"""Executable twin of the DK6 ISP reference device (spec/SYS/Dk6Dev.tla) behind a serial link that can damage the device-to-host stream,
and a small reference host (NOT SPSDK) used for the canary.  Nothing here imports spsdk; the CRC comes from zlib (trusted base).

The twin is not an oracle: every frame it receives and emits is logged and re-derived by TLC from Dk6Dev.tla (a twin that departs from the
reference device is rejected there)."""
import struct
import zlib

C_RESET, C_EXECUTE, C_SETBAUD, C_CHIPID, C_OPEN, C_ERASE, C_BLANK, C_READ, C_WRITE, C_CLOSE, C_INFO, C_UNLOCK = 0x14, 0x21, 0x27, 0x32, 0x40, 0x42, 0x44, 0x46, 0x48, 0x4A, 0x4C, 0x4E
S_OK, S_INVALID_MODE, S_BAD_STATE, S_TOO_LONG, S_OUT_OF_RANGE, S_MEM_INVALID, S_AUTH, S_NOT_BLANK, S_NOT_SUPPORTED = 0, 0xEF, 0xF0, 0xF1, 0xF2, 0xF5, 0xF7, 0xF8, 0xFF
DEFAULT_KEY = bytes.fromhex("11223344556677881122334455667788")
MAX_LEN = 512
CONFIG, MAC_ADDR, TYPE_ADDR = 3, 0x9FC70, 0x9FC60


def frame(ftype, payload=b""):
    body = struct.pack(">BHB", 0, len(payload) + 8, ftype) + bytes(payload)
    return body + struct.pack(">I", zlib.crc32(body) & 0xFFFFFFFF)


def bg(m, a):
    return (a + 37 * m + (a >> 8)) & 0xFF


def mem(i, base, length, sector, mtype, access, name):
    return {"id": i, "base": base, "len": length, "sector": sector, "type": mtype, "access": access, "name": list(name.encode())}


# device flavours: the memory table a device reports (the FLASH row of flavour 0 is the golden response of tests/dk6/test_commands.py)
FLAVOURS = [
    {"chip": list(bytes.fromhex("88888888cc000014")), "erased": 0xFF, "devtype": 5189,
     "tab": [mem(0, 0, 0x9DE00, 0x200, 1, 0x0F, "FLASH"), mem(1, 0x9E800, 0x200, 0x200, 1, 0x0F, "pSECT"), mem(2, 0x9EA00, 0x200, 0x200, 1, 0x0F, "pFlash"),
             mem(3, 0x9FC00, 0x200, 0x200, 1, 0x0F, "Config"), mem(4, 0x40000000, 0x80, 0x2, 5, 0x0F, "EFUSE"), mem(5, 0x03000000, 0x20000, 0x1, 0, 0x0F, "ROM"),
             mem(6, 0x04000000, 0x16000, 0x1, 2, 0x0F, "RAM0"), mem(7, 0x04020000, 0x10000, 0x1, 2, 0x0F, "RAM1")]},
    {"chip": list(bytes.fromhex("86c04012010000cc")), "erased": 0x00, "devtype": 9090,
     "tab": [mem(0, 0, 0x4F000, 0x200, 1, 0x0F, "FLASH"), mem(3, 0x9FC00, 0x200, 0x200, 1, 0x0F, "Config"), mem(6, 0x04000000, 0x8000, 0x1, 2, 0x0F, "RAM0")]},
    {"chip": list(bytes.fromhex("86c04014020000cc")), "erased": 0xFF, "devtype": 777,           # a device type no host-side table knows
     "tab": [mem(0, 0x1000, 0x2000, 0x100, 1, 0x0F, "FL"), mem(3, 0x9FC00, 0x200, 0x200, 1, 0x0F, "CFG"), mem(7, 0x04020000, 0x403, 0x1, 2, 0x0F, "RAM1")]},
]


def flavour(i):
    f = FLAVOURS[i % len(FLAVOURS)]
    mac = [(0xA0 + 3 * k + i) & 0xFF for k in range(8)]
    preset = [{"m": CONFIG, "a": MAC_ADDR, "d": mac}, {"m": CONFIG, "a": TYPE_ADDR, "d": list(struct.pack("<I", f["devtype"]))}]
    return {"tab": f["tab"], "chip": f["chip"], "erased": f["erased"], "preset": preset, "lvl": 0}


class Dev:
    """The reference device: unlock level, one memory handle, memories as a log of writes / erases over a background pattern."""

    def __init__(self, conf):
        self.tab = {r["id"]: r for r in conf["tab"]}
        self.chip = bytes(conf["chip"])
        self.erased = conf["erased"]
        self.log = [("w", p["m"], p["a"], bytes(p["d"])) for p in conf["preset"]]
        self.lvl, self.open, self.hmem = conf.get("lvl", 0), False, 0

    def val(self, m, a):
        for k, lm, la, d in reversed(self.log):
            n = len(d) if k == "w" else d
            if lm == m and la <= a < la + n:
                return d[a - la] if k == "w" else self.erased
        return bg(m, a)

    def content(self, m, a, n):
        return bytes(self.val(m, a + i) for i in range(n))

    def in_range(self, m, a, n):
        t = self.tab.get(m)
        return t is not None and a < 2**31 and n < 2**31 and a >= t["base"] and a - t["base"] <= t["len"] and n <= t["len"] - (a - t["base"])

    def react(self, t, p, refuse=None):
        """-> (response payload, refused); the effect is carried out unless the device refuses (refuse = status) what it would have done."""
        st, eff = self._react(t, p)
        if refuse is not None and st[0] == S_OK:
            return bytes([refuse]), True
        if eff:
            eff()
        return st, False

    def _react(self, t, p):
        say = lambda s: (bytes([s]), None)  # noqa: E731
        if t == C_UNLOCK:
            if len(p) == 1 and p[0] == 0:
                return bytes([S_OK]), lambda: setattr(self, "lvl", max(self.lvl, 1))
            if len(p) == 17 and p[0] == 1:
                return (bytes([S_OK]), lambda: setattr(self, "lvl", 2)) if p[1:] == DEFAULT_KEY else say(S_AUTH)
            return say(S_NOT_SUPPORTED)
        if t == C_CHIPID:
            if self.lvl < 1:
                return say(S_AUTH)
            return say(S_NOT_SUPPORTED) if p else (bytes([S_OK]) + self.chip, None)
        if t not in (C_RESET, C_OPEN, C_ERASE, C_BLANK, C_READ, C_WRITE, C_CLOSE, C_INFO, C_SETBAUD):
            return say(S_NOT_SUPPORTED)
        if self.lvl < 2:
            return say(S_AUTH)
        if t == C_RESET:
            if p:
                return say(S_NOT_SUPPORTED)

            def do_reset():
                self.lvl, self.open, self.hmem = 0, False, 0
            return bytes([S_OK]), do_reset
        if t == C_SETBAUD:
            return say(S_NOT_SUPPORTED) if len(p) != 5 else say(S_OK)
        if t == C_INFO:
            if len(p) != 1:
                return say(S_NOT_SUPPORTED)
            r = self.tab.get(p[0])
            if r is None:
                return say(S_MEM_INVALID)
            return bytes([S_OK, p[0]]) + struct.pack("<IIIBB", r["base"], r["len"], r["sector"], r["type"], r["access"]) + bytes(r["name"]), None
        if t == C_OPEN:
            if len(p) != 2:
                return say(S_NOT_SUPPORTED)
            if p[0] not in self.tab:
                return say(S_MEM_INVALID)

            def do_open():
                self.open, self.hmem = True, p[0]
            return bytes([S_OK, 0]), do_open
        if t == C_CLOSE:
            if len(p) != 1:
                return say(S_NOT_SUPPORTED)
            if self.open and p[0] == 0:
                return bytes([S_OK]), lambda: setattr(self, "open", False)
            return say(S_BAD_STATE)
        if len(p) < 10 or (t != C_WRITE and len(p) != 10):
            return say(S_NOT_SUPPORTED)
        h, mode, a, n = struct.unpack_from("<BBII", p)
        if not self.open or h != 0:
            return say(S_BAD_STATE)
        if mode != 0:
            return say(S_INVALID_MODE)
        if t in (C_READ, C_WRITE) and n > MAX_LEN:
            return say(S_TOO_LONG)
        if not self.in_range(self.hmem, a, n):
            return say(S_OUT_OF_RANGE)
        m = self.hmem
        if t == C_READ:
            return bytes([S_OK]) + self.content(m, a, n), None
        if t == C_WRITE:
            if len(p) - 10 != n:
                return say(S_NOT_SUPPORTED)
            return bytes([S_OK]), lambda: self.log.append(("w", m, a, bytes(p[10:])))
        if t == C_ERASE:
            return bytes([S_OK]), lambda: self.log.append(("e", m, a, n))
        return say(S_OK) if all(self.val(m, a + i) == self.erased for i in range(n)) else say(S_NOT_BLANK)


class Link:
    """Duck-typed SerialDevice: the device behind a link.  plan: {(call index, exchange index within the call): fault}
    fault = {"kind": flip | trunc | drop | late | type | err | short, "pos": byte position (taken modulo the frame length), "mask", "st", "ftype"}"""

    is_opened = True
    baudrate = 115200

    def __init__(self, conf, plan=None, budget=20000):
        self.dev = Dev(conf)
        self.plan = plan or {}
        self.rx = bytearray()     # host -> device bytes not yet a whole frame
        self.pipe = bytearray()   # device -> host bytes not yet read
        self.late = b""           # a response that is on its way but slower than the host's time-out
        self.ev = []
        self.call = -1
        self.exch = 0
        self.reads = 0
        self.budget = budget

    def begin_call(self):
        self.call += 1
        self.exch = 0
        self.reads = 0

    def open(self):
        pass

    def close(self):
        pass

    def reset_input_buffer(self):
        self.pipe.clear()

    def reset_output_buffer(self):
        pass

    def flush_late(self):
        self.pipe += self.late
        self.late = b""

    def write(self, data):
        self.flush_late()
        self.rx += bytes(data)
        while len(self.rx) >= 3:
            n = (self.rx[1] << 8) | self.rx[2]
            if self.rx[0] != 0 or n < 8:          # not a frame: the device cannot resynchronise; hand the bytes to the spec as they are
                n = len(self.rx)
            if len(self.rx) < n:
                break
            f, self.rx = bytes(self.rx[:n]), self.rx[n:]
            self.on_frame(f)
        return len(data)

    def on_frame(self, f):
        self.ev.append({"ev": "h2d", "b": list(f)})
        good = len(f) >= 8 and f[0] == 0 and ((f[1] << 8) | f[2]) == len(f) and struct.unpack(">I", f[-4:])[0] == (zlib.crc32(f[:-4]) & 0xFFFFFFFF)
        if not good:
            return                                  # the spec rejects the trace at this event
        t, p = f[3], f[4:-4]
        flt = self.plan.get((self.call, self.exch))
        self.exch += 1
        kind = flt["kind"] if flt else "none"
        e = {"ev": "d2h", "fault": kind, "fpos": 0, "st": 0, "ftype": 0}
        pl, refused = self.dev.react(t, p, refuse=flt["st"] if kind == "err" else None)
        if kind == "err":
            if not refused:
                kind = e["fault"] = "none"          # the device refuses on its own already: no fault to inject here
            else:
                e["st"] = flt["st"]
        if kind == "short":
            if t == C_READ and pl[0] == S_OK and len(pl) > 1:
                e["fpos"] = flt["pos"] % (len(pl) - 1)
                pl = pl[:1 + e["fpos"]]
            else:
                kind = e["fault"] = "none"
        out = frame(t + 1, pl)
        got = out
        if kind == "flip":
            k = e["fpos"] = flt["pos"] % len(out)
            got = out[:k] + bytes([out[k] ^ (flt.get("mask") or 1)]) + out[k + 1:]
        elif kind == "trunc":
            e["fpos"] = flt["pos"] % len(out)
            got = out[:e["fpos"]]
        elif kind == "drop":
            got = b""
        elif kind == "type":
            e["ftype"] = flt["ftype"] if flt["ftype"] != t + 1 else 0x15 if t + 1 != 0x15 else 0x4B
            got = frame(e["ftype"], pl)
        e["b"], e["got"] = list(out), list(got)
        self.ev.append(e)
        if kind == "late":
            self.late = got                         # arrives after the host has given up waiting (at the latest when the call is over)
        else:
            self.pipe += got

    def read(self, length):
        self.reads += 1
        if self.reads > self.budget:
            raise KeyboardInterrupt()
        if length is None or length <= 0:
            return b""
        out, self.pipe = bytes(self.pipe[:length]), self.pipe[length:]
        return out

    def take_events(self):
        ev, self.ev = self.ev, []
        if self.rx:                                  # bytes that never became a frame
            ev.append({"ev": "h2d", "b": list(self.rx)})
            self.rx = bytearray()
        return ev


class RefHost:
    """A small host written from the protocol definition (not SPSDK): used to produce the known-good canary trace."""

    def __init__(self, link):
        self.link = link

    def xfer(self, t, payload=b""):
        self.link.write(frame(t, payload))
        hdr = self.link.read(4)
        if len(hdr) < 4 or hdr[0] != 0:
            raise IOError("no frame")
        n = (hdr[1] << 8) | hdr[2]
        rest = self.link.read(n - 4)
        if len(rest) != n - 4 or struct.unpack(">I", rest[-4:])[0] != (zlib.crc32(hdr + rest[:-4]) & 0xFFFFFFFF) or hdr[3] != t + 1:
            raise IOError("bad frame")
        return rest[:-4]

    def ok(self, t, payload=b""):
        r = self.xfer(t, payload)
        if r[0] != S_OK:
            raise IOError(f"status {r[0]:#x}")
        return r[1:]

    def init(self):
        self.ok(C_UNLOCK, b"\x00")
        chip = self.ok(C_CHIPID)
        self.ok(C_UNLOCK, b"\x01" + DEFAULT_KEY)
        mems = []
        for i in range(8):
            r = self.xfer(C_INFO, bytes([i]))
            if r[0] == S_OK:
                mid, base, ln, sec, ty, acc = struct.unpack_from("<BIIIBB", r, 1)
                mems.append({"id": mid, "base": base, "len": ln, "sector": sec, "type": ty, "access": acc, "name": list(r[16:])})
        mac = self.access(CONFIG, "read", MAC_ADDR, 8)
        ty = struct.unpack("<I", self.access(CONFIG, "read", TYPE_ADDR, 4))[0]
        return {"chip": list(chip), "mems": mems, "mac": list(mac), "devtype": ty if ty in (5188, 5189, 9030, 9090, 32041, 32061) else 0}

    def access(self, m, op, a, n=0, data=b"", verify=False):
        self.ok(C_OPEN, bytes([m, 0x0F]))
        out = b""
        try:
            if op == "read":
                for o in range(0, n, MAX_LEN):
                    k = min(MAX_LEN, n - o)
                    r = self.ok(C_READ, struct.pack("<BBII", 0, 0, a + o, k))
                    if len(r) != k:
                        raise IOError("short read")
                    out += r
            elif op == "write":
                for o in range(0, len(data), MAX_LEN):
                    c = data[o:o + MAX_LEN]
                    self.ok(C_WRITE, struct.pack("<BBII", 0, 0, a + o, len(c)) + c)
            else:
                self.ok(C_ERASE, struct.pack("<BBII", 0, 0, a, n))
                if verify:
                    self.ok(C_BLANK, struct.pack("<BBII", 0, 0, a, n))
        except IOError:
            try:
                self.xfer(C_CLOSE, b"\x00")
            except IOError:
                pass
            raise
        self.ok(C_CLOSE, b"\x00")
        return out
