"""Key pool of the C02 check (/verif/keys/mbi_rom): RSA root / chain keys with X.509 certificates, EC root / ISK keys.

Generated ONCE with `cryptography` (never through spsdk.crypto) and committed:  /venv/bin/python harness/lib/mbi_keys.py
 * EC keys are derived deterministically from a label (private scalar = SHA-256 chain), including keys searched for a
   leading zero byte in the X resp. the Y coordinate (fixed-width coordinate encoding is part of the format).
 * RSA keys cannot be derived deterministically with `cryptography`; they are generated once and live in the pool.
Layout:
   rsa<bits>_r<i>.pem                       root private key i = 0..3            (PKCS8 PEM, no password)
   rsa<bits>_r<i>_leaf.der / _ca.der        self-signed root certificate, not CA (depth 1) / CA (depth > 1)
   rsa<bits>_c<l>.pem                       chain key of level l = 1..3
   rsa<bits>_r<i>_l1_leaf.der / _l1_ca.der  level-1 certificate signed by root i
   rsa<bits>_l2_leaf.der / _l2_ca.der       level-2 certificate signed by chain key 1;   rsa<bits>_l3_leaf.der signed by chain key 2
   rsamix_r_ca.der (2048) -> rsamix_l1_leaf.der (4096, key rsa4096_c1.pem)   a chain with mixed key sizes
   p256_<name>.pem / p256_<name>_pub.pem    EC private / public key; names r0..r3, isk, lzx, lzy  (same for p384)
"""
import datetime
import hashlib
import os

from cryptography import x509
from cryptography.hazmat.primitives import hashes, serialization
from cryptography.hazmat.primitives.asymmetric import ec, rsa
from cryptography.x509.oid import NameOID

ROOT = os.environ.get("VERIF_ROOT", "/verif")
POOL = os.path.join(ROOT, "keys", "mbi_rom")
RSA_BITS = (2048, 3072, 4096)
CURVES = {"p256": ec.SECP256R1(), "p384": ec.SECP384R1()}
ORDER = {
    "p256": 0xFFFFFFFF00000000FFFFFFFFFFFFFFFFBCE6FAADA7179E84F3B9CAC2FC632551,
    "p384": 0xFFFFFFFFFFFFFFFFFFFFFFFFFFFFFFFFFFFFFFFFFFFFFFFFC7634D81F4372DDF581A0DB248B0A77AECEC196ACCC52973,
}
EC_NAMES = ("r0", "r1", "r2", "r3", "isk", "lzx", "lzy")


def p(name):
    return os.path.join(POOL, name)


def _write(name, data):
    with open(p(name), "wb") as f:
        f.write(data)


def _pem_priv(key):
    return key.private_bytes(serialization.Encoding.PEM, serialization.PrivateFormat.PKCS8, serialization.NoEncryption())


def _pem_pub(key):
    return key.public_key().public_bytes(serialization.Encoding.PEM, serialization.PublicFormat.SubjectPublicKeyInfo)


def derive_ec(curve, label, want=None):
    """Deterministic EC key: scalar from SHA-512(label|counter); `want` in (None, 'x', 'y') asks for a leading zero byte."""
    n = ORDER[curve]
    size = 32 if curve == "p256" else 48
    ctr = 0
    while True:
        d = int.from_bytes(hashlib.sha512(f"verif/mbi_rom/{curve}/{label}/{ctr}".encode()).digest(), "big") % (n - 1) + 1
        key = ec.derive_private_key(d, CURVES[curve])
        nums = key.public_key().public_numbers()
        x0 = nums.x.to_bytes(size, "big")[0]
        y0 = nums.y.to_bytes(size, "big")[0]
        if want is None and x0 and y0:
            return key
        if want == "x" and x0 == 0 and y0:
            return key
        if want == "y" and y0 == 0 and x0:
            return key
        ctr += 1


def _name(cn):
    return x509.Name([x509.NameAttribute(NameOID.COMMON_NAME, cn), x509.NameAttribute(NameOID.ORGANIZATION_NAME, "verif C02 pool")])


def _cert(subject_cn, subject_key, issuer_cn, issuer_key, ca, serial):
    t0 = datetime.datetime(2024, 1, 1)
    b = (
        x509.CertificateBuilder()
        .subject_name(_name(subject_cn))
        .issuer_name(_name(issuer_cn))
        .public_key(subject_key.public_key())
        .serial_number(serial)
        .not_valid_before(t0)
        .not_valid_after(t0 + datetime.timedelta(days=365 * 30))
        .add_extension(x509.BasicConstraints(ca=ca, path_length=None), critical=True)
    )
    return b.sign(issuer_key, hashes.SHA256()).public_bytes(serialization.Encoding.DER)


def generate():
    os.makedirs(POOL, exist_ok=True)
    serial = [0x3CC30000ABAB0000]

    def nxt():
        serial[0] += 1
        return serial[0]

    rsak = {}
    for bits in RSA_BITS:
        for nm in ["r0", "r1", "r2", "r3", "c1", "c2", "c3"]:
            fn = f"rsa{bits}_{nm}.pem"
            if os.path.exists(p(fn)):
                key = serialization.load_pem_private_key(open(p(fn), "rb").read(), None)
            else:
                key = rsa.generate_private_key(65537, bits)
                _write(fn, _pem_priv(key))
            rsak[bits, nm] = key
        for i in range(4):
            r = rsak[bits, f"r{i}"]
            _write(f"rsa{bits}_r{i}_leaf.der", _cert(f"root{i}-{bits}", r, f"root{i}-{bits}", r, False, nxt()))
            _write(f"rsa{bits}_r{i}_ca.der", _cert(f"root{i}-{bits}", r, f"root{i}-{bits}", r, True, nxt()))
            _write(f"rsa{bits}_r{i}_l1_leaf.der", _cert(f"l1-{bits}", rsak[bits, "c1"], f"root{i}-{bits}", r, False, nxt()))
            _write(f"rsa{bits}_r{i}_l1_ca.der", _cert(f"l1-{bits}", rsak[bits, "c1"], f"root{i}-{bits}", r, True, nxt()))
        _write(f"rsa{bits}_l2_leaf.der", _cert(f"l2-{bits}", rsak[bits, "c2"], f"l1-{bits}", rsak[bits, "c1"], False, nxt()))
        _write(f"rsa{bits}_l2_ca.der", _cert(f"l2-{bits}", rsak[bits, "c2"], f"l1-{bits}", rsak[bits, "c1"], True, nxt()))
        _write(f"rsa{bits}_l3_leaf.der", _cert(f"l3-{bits}", rsak[bits, "c3"], f"l2-{bits}", rsak[bits, "c2"], False, nxt()))
    # mixed sizes: 2048-bit root, 4096-bit signing certificate
    _write("rsamix_r_ca.der", _cert("root0-2048", rsak[2048, "r0"], "root0-2048", rsak[2048, "r0"], True, nxt()))
    _write("rsamix_l1_leaf.der", _cert("l1-4096", rsak[4096, "c1"], "root0-2048", rsak[2048, "r0"], False, nxt()))
    for curve in CURVES:
        for nm in EC_NAMES:
            key = derive_ec(curve, nm, {"lzx": "x", "lzy": "y"}.get(nm))
            _write(f"{curve}_{nm}.pem", _pem_priv(key))
            _write(f"{curve}_{nm}_pub.pem", _pem_pub(key))
    with open(p("README"), "w") as f:
        f.write(__doc__)


def verify_pool():
    """Cheap structural check of the pool (used by the harness at start)."""
    missing = []
    for bits in RSA_BITS:
        for nm in ["r0", "r1", "r2", "r3", "c1", "c2", "c3"]:
            if not os.path.exists(p(f"rsa{bits}_{nm}.pem")):
                missing.append(f"rsa{bits}_{nm}.pem")
    for curve in CURVES:
        for nm in EC_NAMES:
            if not os.path.exists(p(f"{curve}_{nm}.pem")):
                missing.append(f"{curve}_{nm}.pem")
    return missing


if __name__ == "__main__":
    generate()
    print("pool written to", POOL, "files:", len(os.listdir(POOL)))
