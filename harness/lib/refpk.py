"""Pure-Python reference for public-key facts (trusted base of C08): no `cryptography`, no spsdk.

 * NIST P-256 / P-384 / P-521 arithmetic on Python integers (Jacobian coordinates), ECDSA verification, and the
   construction of a public key under which a GIVEN (r, s) is a valid signature of a given digest (public-key recovery):
   this is how the check obtains *valid* signatures with an arbitrary byte-length profile of r and s.
 * strict DER codec of  SEQUENCE { INTEGER r, INTEGER s }.
 * RSA signature verification on integers: EMSA-PKCS1-v1_5 and EMSA-PSS (MGF1 with the same hash, given salt length) - RFC 8017.
Hashes come from hashlib.  selftest() checks the curve constants and the RSA encodings against fixed facts.
"""
import hashlib

# ------------------------------------------------------------------------------------------------ curves (FIPS 186-4, D.1.2)
CURVES = {
    "secp256r1": dict(
        c=32,
        bits=256,
        p=0xFFFFFFFF00000001000000000000000000000000FFFFFFFFFFFFFFFFFFFFFFFF,
        b=0x5AC635D8AA3A93E7B3EBBD55769886BC651D06B0CC53B0F63BCE3C3E27D2604B,
        gx=0x6B17D1F2E12C4247F8BCE6E563A440F277037D812DEB33A0F4A13945D898C296,
        gy=0x4FE342E2FE1A7F9B8EE7EB4A7C0F9E162BCE33576B315ECECBB6406837BF51F5,
        n=0xFFFFFFFF00000000FFFFFFFFFFFFFFFFBCE6FAADA7179E84F3B9CAC2FC632551,
    ),
    "secp384r1": dict(
        c=48,
        bits=384,
        p=0xFFFFFFFFFFFFFFFFFFFFFFFFFFFFFFFFFFFFFFFFFFFFFFFFFFFFFFFFFFFFFFFEFFFFFFFF0000000000000000FFFFFFFF,
        b=0xB3312FA7E23EE7E4988E056BE3F82D19181D9C6EFE8141120314088F5013875AC656398D8A2ED19D2A85C8EDD3EC2AEF,
        gx=0xAA87CA22BE8B05378EB1C71EF320AD746E1D3B628BA79B9859F741E082542A385502F25DBF55296C3A545E3872760AB7,
        gy=0x3617DE4A96262C6F5D9E98BF9292DC29F8F41DBD289A147CE9DA3113B5F0B8C00A60B1CE1D7E819D7A431D7C90EA0E5F,
        n=0xFFFFFFFFFFFFFFFFFFFFFFFFFFFFFFFFFFFFFFFFFFFFFFFFC7634D81F4372DDF581A0DB248B0A77AECEC196ACCC52973,
    ),
    "secp521r1": dict(
        c=66,
        bits=521,
        p=(1 << 521) - 1,
        b=0x0051953EB9618E1C9A1F929A21A0B68540EEA2DA725B99B315F3B8B489918EF109E156193951EC7E937B1652C0BD3BB1BF073573DF883D2C34F1EF451FD46B503F00,
        gx=0x00C6858E06B70404E9CD9E3ECB662395B4429C648139053FB521F828AF606B4D3DBAA14B5E77EFE75928FE1DC127A2FFA8DE3348B3C1856A429BF97E7E31C2E5BD66,
        gy=0x011839296A789A3BC0045C8A5FB42C7D1BD998F54449579B446817AFBD17273E662C97EE72995EF42640C550B9013FAD0761353C7086A272C24088BE94769FD16650,
        n=0x01FFFFFFFFFFFFFFFFFFFFFFFFFFFFFFFFFFFFFFFFFFFFFFFFFFFFFFFFFFFFFFFFFA51868783BF2F966B7FCC0148F709A5D03BB5C9B8899C47AEBB6FB71E91386409,
    ),
}
HASHES = {"sha256": hashlib.sha256, "sha384": hashlib.sha384, "sha512": hashlib.sha512, "sha1": hashlib.sha1}


def digest(alg, data):
    return HASHES[alg](data).digest()


# a = -3 for all three curves
def _dbl(P, p):
    X, Y, Z = P
    if not Y or not Z:
        return (1, 1, 0)
    ZZ = Z * Z % p
    M = 3 * (X - ZZ) * (X + ZZ) % p
    YY = Y * Y % p
    S = 4 * X * YY % p
    X3 = (M * M - 2 * S) % p
    Y3 = (M * (S - X3) - 8 * YY * YY) % p
    Z3 = 2 * Y * Z % p
    return (X3, Y3, Z3)


def _add(P, Q, p):
    X1, Y1, Z1 = P
    X2, Y2, Z2 = Q
    if not Z1:
        return Q
    if not Z2:
        return P
    Z1Z1 = Z1 * Z1 % p
    Z2Z2 = Z2 * Z2 % p
    U1 = X1 * Z2Z2 % p
    U2 = X2 * Z1Z1 % p
    S1 = Y1 * Z2 * Z2Z2 % p
    S2 = Y2 * Z1 * Z1Z1 % p
    if U1 == U2:
        if S1 != S2:
            return (1, 1, 0)
        return _dbl(P, p)
    H = (U2 - U1) % p
    R = (S2 - S1) % p
    HH = H * H % p
    HHH = H * HH % p
    V = U1 * HH % p
    X3 = (R * R - HHH - 2 * V) % p
    Y3 = (R * (V - X3) - S1 * HHH) % p
    Z3 = H * Z1 * Z2 % p
    return (X3, Y3, Z3)


def _affine(P, p):
    X, Y, Z = P
    if not Z:
        return None
    zi = pow(Z, -1, p)
    z2 = zi * zi % p
    return (X * z2 % p, Y * z2 * zi % p)


def mul(curve, k, pt=None):
    """k * pt (pt affine, default the base point) -> affine point or None (infinity)."""
    cv = CURVES[curve]
    p = cv["p"]
    k %= cv["n"]
    if pt is None:
        pt = (cv["gx"], cv["gy"])
    Q = (pt[0], pt[1], 1)
    R = (1, 1, 0)
    for bit in bin(k)[2:] if k else "":
        R = _dbl(R, p)
        if bit == "1":
            R = _add(R, Q, p)
    return _affine(R, p)


def mul2(curve, k1, p1, k2, p2):
    """k1*p1 + k2*p2 (Shamir's trick), affine points, None = infinity."""
    cv = CURVES[curve]
    p, n = cv["p"], cv["n"]
    k1 %= n
    k2 %= n
    A = (p1[0], p1[1], 1)
    B = (p2[0], p2[1], 1)
    AB = _add(A, B, p)
    R = (1, 1, 0)
    for i in range(max(k1.bit_length(), k2.bit_length()) - 1, -1, -1):
        R = _dbl(R, p)
        b1, b2 = k1 >> i & 1, k2 >> i & 1
        if b1 and b2:
            R = _add(R, AB, p)
        elif b1:
            R = _add(R, A, p)
        elif b2:
            R = _add(R, B, p)
    return _affine(R, p)


def on_curve(curve, pt):
    cv = CURVES[curve]
    p = cv["p"]
    x, y = pt
    return 0 <= x < p and 0 <= y < p and (y * y - (x * x * x - 3 * x + cv["b"])) % p == 0


def lift_x(curve, x):
    """A point with the given x coordinate (even y) or None if x is not the abscissa of a curve point."""
    cv = CURVES[curve]
    p = cv["p"]
    if not 0 <= x < p:
        return None
    rhs = (x * x * x - 3 * x + cv["b"]) % p
    y = pow(rhs, (p + 1) // 4, p)  # all three primes are = 3 mod 4
    if y * y % p != rhs:
        return None
    if y & 1:
        y = p - y
    return (x, y)


def bits2int(curve, dig):
    """Leftmost min(len, bits(n)) bits of the digest as an integer (FIPS 186-4, 6.4)."""
    nbits = CURVES[curve]["n"].bit_length()
    e = int.from_bytes(dig, "big")
    if len(dig) * 8 > nbits:
        e >>= len(dig) * 8 - nbits
    return e


def ecdsa_verify(curve, pub, dig, r, s):
    cv = CURVES[curve]
    n = cv["n"]
    if not (1 <= r < n and 1 <= s < n) or not on_curve(curve, pub):
        return False
    e = bits2int(curve, dig)
    w = pow(s, -1, n)
    R = mul2(curve, e * w % n, (cv["gx"], cv["gy"]), r * w % n, pub)
    return R is not None and R[0] % n == r


def ecdsa_recover(curve, dig, r, s):
    """A public key Q such that (r, s) is a valid ECDSA signature of the digest under Q, or None.
    Q = r^-1 (s*R - e*G) with R a point of abscissa r (needs r < p to be an abscissa: about half of all r)."""
    cv = CURVES[curve]
    n = cv["n"]
    if not (1 <= r < n and 1 <= s < n):
        return None
    R = lift_x(curve, r)
    if R is None:
        return None
    e = bits2int(curve, dig)
    ri = pow(r, -1, n)
    Q = mul2(curve, s * ri % n, R, (-e * ri) % n, (cv["gx"], cv["gy"]))
    return Q


# ------------------------------------------------------------------------------------------------ DER  SEQUENCE { INTEGER, INTEGER }
def _der_len(n):
    if n < 128:
        return bytes([n])
    b = n.to_bytes((n.bit_length() + 7) // 8, "big")
    return bytes([0x80 | len(b)]) + b


def _der_int(v):
    b = v.to_bytes(max(1, (v.bit_length() + 7) // 8), "big")
    if b[0] & 0x80:
        b = b"\x00" + b
    return b"\x02" + _der_len(len(b)) + b


def der_sig(r, s):
    body = _der_int(r) + _der_int(s)
    return b"\x30" + _der_len(len(body)) + body


def _rd_tlv(b, i, tag):
    if i + 2 > len(b) or b[i] != tag:
        raise ValueError("tag")
    ln = b[i + 1]
    i += 2
    if ln & 0x80:
        k = ln & 0x7F
        if k == 0 or k > 2 or i + k > len(b):
            raise ValueError("length")
        ln = int.from_bytes(b[i:i + k], "big")
        if ln < 128 or (k == 2 and ln < 256):
            raise ValueError("non-minimal length")
        i += k
    if i + ln > len(b):
        raise ValueError("short")
    return b[i:i + ln], i + ln


def der_sig_decode(b):
    """Strict DER decode -> (r, s); ValueError on anything non-canonical, negative or with trailing bytes."""
    body, end = _rd_tlv(b, 0, 0x30)
    if end != len(b):
        raise ValueError("trailing")
    vals = []
    i = 0
    for _ in range(2):
        v, i = _rd_tlv(body, i, 0x02)
        if len(v) == 0 or v[0] & 0x80 or (len(v) > 1 and v[0] == 0 and not v[1] & 0x80):
            raise ValueError("integer")
        vals.append(int.from_bytes(v, "big"))
    if i != len(body):
        raise ValueError("trailing in sequence")
    return vals[0], vals[1]


# ------------------------------------------------------------------------------------------------ RSA (RFC 8017)
DIGEST_INFO = {
    "sha1": bytes.fromhex("3021300906052b0e03021a05000414"),
    "sha256": bytes.fromhex("3031300d060960864801650304020105000420"),
    "sha384": bytes.fromhex("3041300d060960864801650304020205000430"),
    "sha512": bytes.fromhex("3051300d060960864801650304020305000440"),
}


def rsa_verify_v15(n, e, alg, dig, sig):
    k = (n.bit_length() + 7) // 8
    if len(sig) != k:
        return False
    s = int.from_bytes(sig, "big")
    if s >= n:
        return False
    em = pow(s, e, n).to_bytes(k, "big")
    t = DIGEST_INFO[alg] + dig
    if k < len(t) + 11:
        return False
    return em == b"\x00\x01" + b"\xff" * (k - len(t) - 3) + b"\x00" + t


def mgf1(alg, seed, ln):
    out = b""
    ctr = 0
    while len(out) < ln:
        out += HASHES[alg](seed + ctr.to_bytes(4, "big")).digest()
        ctr += 1
    return out[:ln]


def rsa_verify_pss(n, e, alg, dig, sig, salt_len=None):
    """EMSA-PSS-VERIFY with MGF1(alg) and the given salt length (default: digest length)."""
    hlen = HASHES[alg]().digest_size
    slen = hlen if salt_len is None else salt_len
    mod_bits = n.bit_length()
    k = (mod_bits + 7) // 8
    if len(sig) != k:
        return False
    s = int.from_bytes(sig, "big")
    if s >= n:
        return False
    em_bits = mod_bits - 1
    em_len = (em_bits + 7) // 8
    m = pow(s, e, n)
    if m.bit_length() > em_len * 8:
        return False
    em = m.to_bytes(em_len, "big")
    if em_len < hlen + slen + 2 or em[-1] != 0xBC:
        return False
    masked, h = em[: em_len - hlen - 1], em[em_len - hlen - 1 : -1]
    zero_bits = 8 * em_len - em_bits
    if masked[0] >> (8 - zero_bits) if zero_bits else 0:
        return False
    db = bytes(a ^ b for a, b in zip(masked, mgf1(alg, h, len(masked))))
    db = bytes([db[0] & (0xFF >> zero_bits)]) + db[1:]
    ps_len = em_len - hlen - slen - 2
    if db[:ps_len] != bytes(ps_len) or db[ps_len] != 1:
        return False
    salt = db[len(db) - slen:] if slen else b""
    return HASHES[alg](bytes(8) + dig + salt).digest() == h


# ------------------------------------------------------------------------------------------------ self test
def selftest():
    """Fixed facts: n*G = infinity, G on the curve, a known multiple, DER canonical forms, recovery/verify agree."""
    for name, cv in CURVES.items():
        G = (cv["gx"], cv["gy"])
        if not on_curve(name, G):
            raise AssertionError(f"{name}: base point not on curve")
        if mul(name, cv["n"] - 1) != (cv["gx"], cv["p"] - cv["gy"]):
            raise AssertionError(f"{name}: (n-1)G != -G")
        two = mul(name, 2)
        if _affine(_add((G[0], G[1], 1), (G[0], G[1], 1), cv["p"]), cv["p"]) != two or not on_curve(name, two):
            raise AssertionError(f"{name}: doubling")
        if mul2(name, 5, G, 7, two) != mul(name, 19):
            raise AssertionError(f"{name}: mul2")
        dig = digest("sha256", name.encode())
        r = mul(name, 12345)[0] % cv["n"]
        Q = ecdsa_recover(name, dig, r, 777)
        if Q is None or not ecdsa_verify(name, Q, dig, r, 777) or ecdsa_verify(name, Q, dig, r, 778):
            raise AssertionError(f"{name}: recover/verify")
    # P-256: 2G from the NIST test vectors
    if mul("secp256r1", 2)[0] != 0x7CF27B188D034F7E8A52380304B51AC3C08969E277F21B35A60B48FC47669978:
        raise AssertionError("P-256 2G")
    if der_sig(1, 0x80) != bytes.fromhex("3007020101020200 80".replace(" ", "")):
        raise AssertionError("der_sig")
    for bad in ("30060201010201", "3006020101020180", "300702010102020001", "3081060201010201ff"):
        try:
            der_sig_decode(bytes.fromhex(bad))
        except ValueError:
            continue
        raise AssertionError(f"der_sig_decode accepted {bad}")
    if der_sig_decode(der_sig(255, 1 << 520)) != (255, 1 << 520):
        raise AssertionError("der round trip")
    return True
