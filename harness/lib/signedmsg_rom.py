"""Executor of the ELE acceptance automaton for AHAB SIGNED MESSAGES (spec/SYS/SignedMsg.tla) on real bytes, the field map of a
signed message (tamper placement) and a reference builder that does not use SPSDK (canary, anchor self-test).

walk(data, sec) walks one signed-message file along the automaton and logs one event per spec action with every number it used.
It decides nothing: TLC (SignedMsgTrace) recomputes every offset / length / expected payload byte from the case and from the fields
logged earlier and demands the crypto facts to be TRUE.  The walk is total (every read bounds-checked, loops bounded by the file).

Layout (anchored on anchors/SYS/signedmsg/*.bin + their configurations, see selftest()):
  +0   container header   version | length LE16 | tag 0x89 | flags LE32 | sw LE16 | fuse | reserved(0) | signature block offset LE16 | reserved LE16
  +16  message descriptor flags (bit 0: IV present / payload encrypted) | 3 reserved | IV (32)
  +52  message header     issue date LE16 (month << 12 | year) | permission | certificate version | reserved LE16 | command | reserved | unique id
                          (the unique id travels as the device reads it: 32-bit words, i.e. every group of 4 bytes of the printed UUID reversed)
  +..  payload by command
  +signature block offset: signature block (header 16, SRK table (array), signature, optional certificate, optional blob) - as in an AHAB image
  signature = over [0, signature offset) = container header || descriptor || message || signature block header || SRK table (array)

Trusted base: hashlib, hmac, struct, `cryptography` primitives called directly (ECDSA / RSA-PSS verify and sign, AES key unwrap, AES-CBC,
CMAC) - never spsdk.crypto.
"""
import hashlib
import hmac
import struct

from cryptography.hazmat.primitives import cmac as _cmac
from cryptography.hazmat.primitives import hashes, serialization
from cryptography.hazmat.primitives.asymmetric import ec
from cryptography.hazmat.primitives.asymmetric import padding as apad
from cryptography.hazmat.primitives.asymmetric import utils as autils
from cryptography.hazmat.primitives.ciphers import Cipher, algorithms, modes
from cryptography.hazmat.primitives.keywrap import InvalidUnwrap, aes_key_unwrap, aes_key_wrap

from . import ahab_rom as AR
from . import ahab_rom2 as A2

TAG_MSG = 0x89
HDR, DESC, MSGH = 16, 36, 8
MSG_AT = HDR + DESC
CMD = {"ksr": 0x3F, "kex": 0x47, "kimp": 0x4F, "fuse": 0x91, "rlc": 0xA0, "dat": 0xC8}
CMD_NAME = {v: k for k, v in CMD.items()}
FIXED_PAYLOAD = {"ksr": 12, "kex": 108, "rlc": 4, "dat": 34}
KI_MAGIC = b"edgelockenclaveimport"


def w2(v):
    return [(v >> 16) & 0xFFFF, v & 0xFFFF]


def w3(v):
    """a request value as three 16-bit limbs (48 bits; larger values are clamped to the top class 0xFFFF.. with limb 1 set)."""
    if v < 0:
        return [0xFFFF, 0xFFFF, 0xFFFF]
    if v >= 1 << 48:
        return [0xFFFF, (v >> 16) & 0xFFFF, v & 0xFFFF]
    return [(v >> 32) & 0xFFFF, (v >> 16) & 0xFFFF, v & 0xFFFF]


def hkdf_sha256(salt, ikm, info, length=32):
    prk = hmac.new(salt, ikm, hashlib.sha256).digest()
    out, t, i = b"", b"", 1
    while len(out) < length:
        t = hmac.new(prk, t + info + bytes([i]), hashlib.sha256).digest()
        out += t
        i += 1
    return out[:length]


def cmac_aes(key, data):
    c = _cmac.CMAC(algorithms.AES(key))
    c.update(data)
    return c.finalize()


def tlv_read(data, at, end):
    """One TLV record (application class, primitive: tag byte 0x40 | number; length one byte, or 0x81 / 0x82 long form) -> (number, value, next) or None."""
    if at + 2 > end:
        return None
    t = data[at]
    ln = data[at + 1]
    q = at + 2
    if ln & 0x80:
        k = ln & 0x7F
        if k == 0 or k > 2 or q + k > end:
            return None
        ln = int.from_bytes(data[q:q + k], "big")
        q += k
    if q + ln > end:
        return None
    return t, data[q:q + ln], q + ln


def payload_len(data, at, cmd, n):
    """Length of the payload that starts at `at` for the command, as the format defines it (fixed, counted, or self-delimiting), or -1."""
    name = CMD_NAME.get(cmd)
    if name in FIXED_PAYLOAD:
        return FIXED_PAYLOAD[name]
    if name == "fuse":
        return 4 + 4 * data[at + 2] if at + 4 <= n else -1
    if name == "kimp":
        q = at
        for _ in range(16):
            r = tlv_read(data, q, n)
            if r is None:
                return -1
            q = r[2]
            if r[0] == 0x5E:
                return q - at
        return -1
    return -1


class _Stop(Exception):
    pass


def walk(data, sec):
    """sec: {cver, pool: [(kind,a,b) x4] | None, spsdk_srk_hash: [bytes] | None, kimp: {key: bytes, mk: bytes, srkh: bytes|None} | None}"""
    ev = []
    n = len(data)
    cver = sec.get("cver", 1)

    def log(name, **k):
        k["ev"] = name
        for key, val in k.items():
            if isinstance(val, int) and not isinstance(val, bool):
                k[key] = AR.cl(val)
        ev.append(k)
        return k

    def need(off, ln, what):
        if not (0 <= off and 0 <= ln and off + ln <= n):
            log("Malformed", what=what, at=off, len=ln, fileLen=n)
            raise _Stop()

    def head(off, what, inverted=False):
        need(off, 4, what)
        if inverted:
            tag, ln, ver = struct.unpack_from("<BHB", data, off)
        else:
            ver, ln, tag = struct.unpack_from("<BHB", data, off)
        return ver, ln, tag

    try:
        need(0, MSG_AT + MSGH, "signed message head")
        ver, ln, tag = head(0, "container header")
        flags, swv, fusev, nimg, sboff, rsv = struct.unpack_from("<IHBBHH", data, 4)
        srk_set, used, revoke = flags & 3, (flags >> 4) & 3, (flags >> 8) & 0xF
        other = flags & ~(0x3 | 0x30 | 0xF00)
        log("MsgContainerHeader", ci=0, at=0, tagOk=tag == TAG_MSG, version=ver, length=ln, srkSet=srk_set, used=used, revoke=revoke,
            flagsOther=w2(other), sw=swv, fuse=fusev, nImages=nimg, sigBlockOff=sboff, reserved=rsv)
        log("Descriptor", at=HDR, flags=data[HDR], rsvZero=not any(data[HDR + 1:HDR + 4]), iv=list(data[HDR + 4:HDR + 36]))
        issue, perm, certv, rsv1, cmd, rsv2 = struct.unpack_from("<HBBHBB", data, MSG_AT)
        # unique id: 64 bits, or 128 bits in the version-2 format - the length for which the payload of the command ends at the signature block
        ulen = 0
        for cand in ((8, 16) if cver == 2 else (8,)):
            at = MSG_AT + MSGH + cand
            if at <= n and payload_len(data, at, cmd, n) == sboff - at:
                ulen = cand
                break
        if ulen == 0:
            ulen = 8
        need(MSG_AT + MSGH, ulen, "unique id")
        log("MessageHeader", at=MSG_AT, month=issue >> 12, year=issue & 0xFFF, perm=perm, certVer=certv, rsvZero=rsv1 == 0 and rsv2 == 0,
            cmd=cmd, uuidLen=ulen, uuid=list(data[MSG_AT + MSGH:MSG_AT + MSGH + ulen]))
        p = MSG_AT + MSGH + ulen
        plen = sboff - p
        if plen < 0 or plen > 4096:
            log("Malformed", what="payload", at=p, len=plen, fileLen=n)
            raise _Stop()
        need(p, plen, "payload")
        body = data[p:p + plen]
        declared = payload_len(data, p, cmd, n)
        facts = dict(unwrapOk=True, cmacOk=True, wrapped=[], sig=[], ivKi=[])
        if CMD_NAME.get(cmd) == "kimp":
            recs, q = {}, 0
            for _ in range(16):
                r = tlv_read(body, q, len(body))
                if r is None:
                    break
                recs[r[0]] = r[1]
                q = r[2]
            wrapped, sig, ivk = recs.get(0x55, b""), recs.get(0x5E, b""), recs.get(0x52, b"")
            ki = sec.get("kimp")
            un = cm = False
            if ki:
                salt = ki.get("srkh") or bytes(32)
                wk = hkdf_sha256(salt, ki["mk"], b"oemelefwkeyimportwrap256")
                ck = hkdf_sha256(salt, ki["mk"], b"oemelefwkeyimportcmac256")
                try:
                    if 0x52 in recs:
                        d = Cipher(algorithms.AES(wk), modes.CBC(ivk)).decryptor()
                        un = d.update(wrapped) + d.finalize() == ki["key"]
                    else:
                        un = aes_key_unwrap(wk, wrapped) == ki["key"]
                except (InvalidUnwrap, ValueError):
                    un = False
                cm = len(sig) == 16 and hmac.compare_digest(cmac_aes(ck, body[:len(body) - 16]), sig)
            facts = dict(unwrapOk=bool(un), cmacOk=bool(cm), wrapped=list(wrapped), sig=list(sig), ivKi=list(ivk))
        log("Payload", at=p, len=plen, declared=declared, bytes=list(body), **facts)
        # ---- signature block (as in an AHAB image; container index 0 at offset 0)
        s = sboff
        need(s, AR.SBH, "signature block")
        sver, sln, stag = head(s, "signature block")
        cert_off, srk_off, sig_off, blob_off, key_id = struct.unpack_from("<HHHHI", data, s + 4)
        log("SignatureBlock", ci=0, at=s, tagOk=stag == AR.TAG_SB, version=sver, length=sln, certOff=cert_off, srkOff=srk_off,
            sigOff=sig_off, blobOff=blob_off, keyId=w2(key_id))
        if srk_set != 0:
            t = s + srk_off
            pool = sec.get("pool")
            reported = sec.get("spsdk_srk_hash")
            if cver == 2:
                aver, aln, atag = head(t, "SRK table array")
                need(t, 8, "SRK table array")
                ntab = data[t + 4]
                arr_rsv = data[t + 5:t + 8]
                tt = t + 8
            else:
                aver = aln = 0
                atag = AR.TAG_ARR
                ntab = 1
                arr_rsv = b""
                tt = t
            tver, tln, ttag = head(tt, "SRK table", inverted=True)
            need(tt, tln, "SRK table")
            recs, q, recs_ok = [], tt + 4, True
            for _ in range(4):
                if q + 12 > tt + tln:
                    recs_ok = False
                    break
                rtag, rln, alg = struct.unpack_from("<BHB", data, q)
                halg, ksz, rrsv, kflags, l1, l2 = struct.unpack_from("<BBBBHH", data, q + 4)
                plen_ = 64 if cver == 2 else l1 + l2
                if rtag != AR.TAG_SRKR or rln != 12 + plen_ or q + rln > tt + tln:
                    recs_ok = False
                    break
                recs.append(dict(alg=alg, hash=halg, ksz=ksz, flags=kflags, l1=l1, l2=l2, rsv=rrsv, par=data[q + 12:q + 12 + plen_], len=rln))
                q += rln
            recs_ok = recs_ok and len(recs) == 4 and q == tt + tln
            same = len({(r["alg"], r["hash"], r["ksz"], r["flags"], r["len"], r["l1"], r["l2"]) for r in recs}) == 1 if recs else False
            r0 = recs[0] if recs else dict(alg=0, hash=0, ksz=0, flags=0, l1=0, l2=0, len=0, rsv=0)
            sizes_ok = (r0["alg"] == 0x27 and r0["ksz"] in AR.CURVES and (r0["l1"], r0["l2"]) == (AR.CURVES[r0["ksz"]][1],) * 2) or (
                r0["alg"] in (0x21, 0x22) and r0["ksz"] in AR.RSA_SIZES and (r0["l1"], r0["l2"]) == (AR.RSA_SIZES[r0["ksz"]], 4))
            table = data[tt:tt + tln]
            fuse_hash = (hashlib.sha512 if cver == 2 else hashlib.sha256)(table).digest()
            key_par = [r["par"] for r in recs] if cver == 1 else []
            sd_at = sd_len = sd_id = 0
            sd_tag_ok = data_hash_ok = True
            if cver == 2:
                sd_at = tt + tln
                need(sd_at, 8, "SRK data")
                dver, sd_len, dtag = head(sd_at, "SRK data")
                need(sd_at, sd_len, "SRK data")
                sd_id = data[sd_at + 4]
                sd_tag_ok = dtag == AR.TAG_SRKD and dver == 0 and not any(data[sd_at + 5:sd_at + 8])
                sd = data[sd_at:sd_at + sd_len]
                hrec = recs[sd_id] if sd_id < len(recs) else None
                hfn = {0: hashlib.sha256, 1: hashlib.sha384, 2: hashlib.sha512}.get(hrec["hash"]) if hrec else None
                dg = hfn(sd).digest() if hfn else b""
                data_hash_ok = bool(dg) and hrec["par"][:len(dg)] == dg and not any(hrec["par"][len(dg):])
                key_par = [None] * 4
                if sd_id < 4:
                    key_par[sd_id] = sd[8:]
            keys_ok = pool is not None and len(recs) == 4
            if keys_ok:
                for i, r in enumerate(recs):
                    par = key_par[i]
                    if par is None:
                        continue
                    kind, a, b = pool[i]
                    l1 = r["l1"]
                    keys_ok = keys_ok and len(par) == r["l1"] + r["l2"] and int.from_bytes(par[:l1], "big") == a and int.from_bytes(par[l1:], "big") == b \
                        and kind == ("ec" if r["alg"] == 0x27 else "rsa")
            log("SrkTable", ci=0, at=t, arr=cver == 2, arrTagOk=atag == AR.TAG_ARR and aver == 0, arrLen=aln, nTables=ntab,
                arrRsvZero=not any(arr_rsv), tabAt=tt, tagOk=ttag == AR.TAG_SRKT, version=tver, length=tln, nRecords=len(recs),
                recsOk=recs_ok, sameType=same, sizesOk=bool(sizes_ok), alg=r0["alg"], keySize=r0["ksz"], signHash=r0["hash"],
                recFlags=r0["flags"], recRsvZero=all(r["rsv"] == 0 for r in recs), recLen=r0["len"],
                keysOk=bool(keys_ok), srkDataAt=sd_at, srkDataLen=sd_len, srkDataId=sd_id, srkDataTagOk=sd_tag_ok, dataHashOk=data_hash_ok,
                srkHashOk=reported is not None and len(reported) > 0 and all(h == fuse_hash for h in reported), end=(sd_at + sd_len) if cver == 2 else tt + tln)
            cert, cert_key = None, None
            if cert_off != 0:          # optional certificate (format 2): logged in the automaton's order, in front of the container signature
                srk = A2.selected_srk(data, s, srk_off, cver, used)
                cert, cert_key = A2.certificate_event(data, 0, s + cert_off, srk, used, sec.get("certkey"))
                ev.append(cert)
                if cert["ev"] == "Malformed":
                    raise _Stop()
            g = s + sig_off
            need(g, AR.SIGH, "signature")
            gver, gln, gtag = head(g, "signature")
            need(g, max(gln, AR.SIGH), "signature")
            sig = data[g + AR.SIGH:g + gln]
            ok = False
            if used < len(recs) and (cver == 1 or sd_id == used):
                r = recs[used]
                par = key_par[used]
                if par is not None and len(par) == r["l1"] + r["l2"]:
                    ok = AR.sig_ok(r["alg"], r["ksz"], r["hash"], par[:r["l1"]], par[r["l1"]:], sig, data[0:g])
            by_cert = cert is not None and bool(cert["perm"] & A2.PERM_CONTAINER)
            if by_cert:                 # a certificate with the `container` permission hands in its own key for the container signature
                ok = cert_key is not None and AR.sig_ok(cert_key["alg"], cert_key["ksz"], cert_key["hash"], cert_key["a"], cert_key["b"], sig, data[0:g])
            log("VerifySignature", ci=0, sigAt=g, tagOk=gtag == AR.TAG_SIG, version=gver, length=gln, sigLen=len(sig),
                rsvZero=not any(data[g + 4:g + 8]), signedFrom=0, signedTo=g, key=used, ok=bool(ok), byCert=by_cert)
        if blob_off != 0:
            bl = s + blob_off
            need(bl, 8, "blob")
            bver, bln, btag = head(bl, "blob")
            bflags, bsize, balg, bmode = struct.unpack_from("<BBBB", data, bl + 4)
            log("Blob", ci=0, at=bl, tagOk=btag == AR.TAG_BLOB, version=bver, length=bln, keyBytes=bsize, flags=bflags, alg=balg, mode=bmode)
        log("ContainerEnd", ci=0, end=ln)
        log("MsgAccept", fileLen=n, padZero=not any(data[ln:]) if ln <= n else False)
    except _Stop:
        pass
    except (struct.error, IndexError):
        log("Malformed", what="struct", at=0, len=0, fileLen=n)
    return ev


# ------------------------------------------------------------------ field map (tamper placement)
def fields(data, cver=1):
    """Field classes of an accepted signed message inside the authenticated range: [cls, byte offset, byte count, bit mask (LE value)]."""
    out = []

    def add(cls, at, nbytes, mask=None):
        if nbytes > 0:
            out.append([cls, at, nbytes, mask if mask is not None else (1 << (8 * nbytes)) - 1])

    sboff = struct.unpack_from("<H", data, 12)[0]
    add("hdr.version", 0, 1)
    add("hdr.length", 1, 2)
    add("hdr.tag", 3, 1)
    add("hdr.flags.srk_set", 4, 4, 0x3)
    add("hdr.flags.used_srk", 4, 4, 0x30)
    add("hdr.flags.revoke", 4, 4, 0xF00)
    add("hdr.flags.other", 4, 4, 0xFFFFFFFF & ~0xF33)
    add("hdr.sw_version", 8, 2)
    add("hdr.fuse_version", 10, 1)
    add("hdr.reserved8", 11, 1)
    add("hdr.sigblk_off", 12, 2)
    add("hdr.reserved16", 14, 2)
    add("desc.flags", 16, 1)
    add("desc.reserved", 17, 3)
    add("desc.iv", 20, 32)
    add("msg.issue_date", 52, 2)
    add("msg.permission", 54, 1)
    add("msg.cert_version", 55, 1)
    add("msg.reserved16", 56, 2)
    add("msg.command", 58, 1)
    add("msg.reserved8", 59, 1)
    ev = walk(data, {"cver": cver})
    mh = next((e for e in ev if e["ev"] == "MessageHeader"), None)
    ulen = mh["uuidLen"] if mh else 8
    add("msg.uuid", 60, ulen)
    add("payload", 60 + ulen, sboff - 60 - ulen)
    s = sboff
    cert_off, srk_off, sig_off, blob_off, key_id = struct.unpack_from("<HHHHI", data, s + 4)
    add("sb.version", s, 1)
    add("sb.length", s + 1, 2)
    add("sb.tag", s + 3, 1)
    add("sb.cert_off", s + 4, 2)
    add("sb.srk_off", s + 6, 2)
    add("sb.sig_off", s + 8, 2)
    add("sb.blob_off", s + 10, 2)
    add("sb.key_id", s + 12, 4)
    if sig_off:
        t, g = s + srk_off, s + sig_off
        if cver == 2:
            add("srk.array_hdr", t, 8)
            t += 8
        tln = struct.unpack_from("<H", data, t + 1)[0]
        add("srk.table_hdr", t, 4)
        q = t + 4
        used = (data[4] >> 4) & 3
        for r in range(4):
            rln = struct.unpack_from("<H", data, q + 1)[0]
            if rln < 12 or q + rln > t + tln:
                break
            who = "used" if r == used else "other"
            add(f"srk.rec_hdr.{who}", q, 12)
            add(f"srk.rec_key.{who}", q + 12, rln - 12)
            q += rln
        if cver == 2 and t + tln + 8 <= g:
            sdl = struct.unpack_from("<H", data, t + tln + 1)[0]
            add("srk.data_hdr", t + tln, 8)
            add("srk.data_key", t + tln + 8, sdl - 8)
            add("srk.pad", t + tln + sdl, g - (t + tln + sdl))
        else:
            add("srk.pad", t + tln, g - (t + tln))
        gln = struct.unpack_from("<H", data, g + 1)[0]
        add("sig.data", g + 8, gln - 8)
    return out


def bit_positions(field):
    cls, at, nbytes, mask = field
    return [(at + b // 8, b % 8) for b in range(8 * nbytes) if (mask >> b) & 1]


# ------------------------------------------------------------------ reference builder (no SPSDK)
def wordswap(b):
    b = bytes(b)
    return b"".join(b[i:i + 4][::-1] for i in range(0, len(b), 4))


def le(v, n):
    return int(v).to_bytes(n, "little")


KEX_ORDER = ["key_store_id:4", "key_exchange_algorithm:4", "derived_key_grp:2", "salt_flags:2", "derived_key_type:2", "derived_key_size_bits:2",
             "derived_key_lifetime:4", "derived_key_usage:4", "derived_key_permitted_algorithm:4", "derived_key_lifecycle:4", "derived_key_id:4",
             "private_key_id:4"]


def tlv(num, val):
    ln = len(val)
    head = bytes([0x40 | num]) + (bytes([ln]) if ln < 128 else bytes([0x81, ln]) if ln < 256 else bytes([0x82]) + ln.to_bytes(2, "big"))
    return head + bytes(val)


def ref_payload(kind, f):
    """Payload bytes of a command from plain numbers (dict f) as the format defines them."""
    if kind == "rlc":
        return le(f["life_cycle"], 4)
    if kind == "fuse":
        return le(f["id"], 2) + le(len(f["data"]), 1) + le(f["flags"], 1) + b"".join(le(x, 4) for x in f["data"])
    if kind == "ksr":
        return bytes([0, 0, 0, 0]) + le(f["monotonic_counter"], 4) + le(f["user_sab_id"], 4)
    if kind == "dat":
        return bytes(f["challenge"]) + le(f["beacon"], 2)
    if kind == "kex":
        out = bytes([0x47, 0x07, 0, 0])
        for item in KEX_ORDER:
            name, w = item.split(":")
            out += le(f[name], int(w))
        return out + bytes(f["peer_digest"]) + bytes(f["info_digest"])
    if kind == "kimp":
        salt = f.get("srkh") or bytes(32)
        wk = hkdf_sha256(salt, f["mk"], b"oemelefwkeyimportwrap256")
        ck = hkdf_sha256(salt, f["mk"], b"oemelefwkeyimportcmac256")
        if f["wrap"] == 2:
            e = Cipher(algorithms.AES(wk), modes.CBC(bytes(f["iv"]))).encryptor()
            wrapped = e.update(f["key"]) + e.finalize()
        else:
            wrapped = aes_key_wrap(wk, f["key"])
        out = tlv(0, KI_MAGIC) + tlv(1, f["key_id"].to_bytes(4, "big")) + tlv(2, f["alg"].to_bytes(4, "big")) + tlv(3, f["usage"].to_bytes(4, "big")) \
            + tlv(4, f["type"].to_bytes(2, "big")) + tlv(5, f["bits"].to_bytes(4, "big")) + tlv(6, f["lifetime"].to_bytes(4, "big")) \
            + tlv(7, f["lifecycle"].to_bytes(4, "big")) + tlv(0x10, f["mk_id"].to_bytes(4, "big")) + tlv(0x11, f["wrap"].to_bytes(4, "big"))
        if f["wrap"] == 2:
            out += tlv(0x12, bytes(f["iv"]))
        out += tlv(0x14, (1).to_bytes(4, "big")) + tlv(0x15, wrapped)
        out += bytes([0x5E, 16])
        return out + cmac_aes(ck, out)
    raise ValueError(kind)


def ref_build(c, priv_pem, pubs):
    """A version-1 signed message with ECDSA keys built from scratch.  c: {used, revoke, sw, fuse, enc, iv, month, year, perm, certVer, kind, uuid, f}
    pubs: four (kind, x, y) tuples; priv_pem: PEM bytes of the private key of SRK `used`.  -> bytes"""
    coord = (pubs[0][1].bit_length() + 7) // 8
    coord = {32: 32, 48: 48}.get(coord, 32 if coord <= 32 else 48 if coord <= 48 else 66)
    ksz, halg = {32: (1, 0), 48: (2, 1), 66: (3, 2)}[coord]
    recs = b""
    for kind, x, y in pubs:
        recs += struct.pack("<BHB", 0xE1, 12 + 2 * coord, 0x27) + bytes([halg, ksz, 0, 0]) + struct.pack("<HH", coord, coord) \
            + x.to_bytes(coord, "big") + y.to_bytes(coord, "big")
    table = struct.pack("<BHB", 0xD7, 4 + len(recs), 0x42) + recs
    msg = struct.pack("<HBBHBB", (c["month"] << 12) | c["year"], c["perm"], c["certVer"], 0, CMD[c["kind"]], 0) + wordswap(c["uuid"]) \
        + ref_payload(c["kind"], c["f"])
    sboff = MSG_AT + len(msg)
    sig_off = (16 + len(table) + 7) // 8 * 8
    sig_len = 8 + 2 * coord
    sb_len = sig_off + sig_len
    flags = 2 | (c["used"] << 4) | (c["revoke"] << 8)
    head = struct.pack("<BHBIHBBHH", 0, sboff + sb_len, TAG_MSG, flags, c["sw"], c["fuse"], 0, sboff, 0)
    desc = bytes([1 if c["enc"] else 0, 0, 0, 0]) + (bytes(c["iv"]) if c["enc"] else bytes(32))
    sb = struct.pack("<BHBHHHHI", 0, sb_len, 0x90, 0, 16, sig_off, 0, 0) + table
    sb += bytes(sig_off - len(sb))
    signed = head + desc + msg + sb
    key = serialization.load_pem_private_key(priv_pem, None)
    h = {0: hashes.SHA256, 1: hashes.SHA384, 2: hashes.SHA512}[halg]()
    r, s_ = autils.decode_dss_signature(key.sign(signed, ec.ECDSA(h)))
    out = signed + struct.pack("<BHBI", 0, sig_len, 0xD8, 0) + r.to_bytes(coord, "big") + s_.to_bytes(coord, "big")
    return out + bytes((-len(out)) % 8), hashlib.sha256(table).digest()
