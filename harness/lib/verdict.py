"""Verdict bookkeeping: findings (known / new), replay files, evidence file."""
import fnmatch
import json
import os

from .common import ROOT, Timer, say, seed, sha


def load_known():
    path = os.path.join(ROOT, "known_findings.jsonl")
    res = []
    if os.path.exists(path):
        for line in open(path):
            line = line.strip()
            if line and not line.startswith("#"):
                res.append(json.loads(line))
    return res


class Verdict:
    """Collects observations of one check run.

    violation(key, what, witness): a real observation the R-spec rejects. If `key` matches a `known` entry of
    known_findings.jsonl it is printed as KNOWN-FINDING and does not affect the exit code, otherwise a replay file is
    written and a VIOLATION line printed (once per key).
    """

    def __init__(self, prop, tier):
        self.prop = prop
        self.tier = tier
        self.timer = Timer()
        rdir = os.path.join(ROOT, "replays", prop)
        if os.path.isdir(rdir):  # replay files are rewritten by every run
            for f in os.listdir(rdir):
                if f.endswith(".json"):
                    os.remove(os.path.join(rdir, f))
        self.known = [k for k in load_known() if k.get("property") == prop and k.get("status") == "known"]
        self.seen_known = {}
        self.violations = {}
        self.cov = {
            "evaluations": 0,
            "distinct_nontrivial": 0,
            "states": 0,
            "transitions": 0,
            "traces_validated_against_impl": 0,
            "samples": [],
            "rule": "",
        }
        self.assumptions = []
        self._distinct = set()
        self.extra = {}

    # ---- counting
    def count(self, n=1):
        self.cov["evaluations"] += n

    def nontrivial(self, case_key):
        self._distinct.add(case_key if isinstance(case_key, (str, int, tuple)) else sha(case_key))

    def sample(self, s, limit=5):
        if len(self.cov["samples"]) < limit:
            self.cov["samples"].append(s)

    def add_mc(self, r):
        """Account a TLC model-checking / generation run."""
        self.cov["states"] += r.distinct
        self.cov["transitions"] += r.generated
        self.extra.setdefault("tlc_runs", []).append(
            {"cmd": getattr(r, "cmd", ""), "distinct": r.distinct, "generated": r.generated, "depth": r.depth,
             "wall_s": round(r.wall, 2), "coverage_by_action": {k: v[1] for k, v in r.coverage.items()}}
        )

    def traces(self, n=1):
        self.cov["traces_validated_against_impl"] += n

    # ---- verdicts
    def violation(self, key, what, witness=None):
        for k in self.known:
            if fnmatch.fnmatchcase(key, k["key"]):
                if k["key"] not in self.seen_known:
                    self.seen_known[k["key"]] = {"what": k.get("what", ""), "n": 0, "first_key": key}
                self.seen_known[k["key"]]["n"] += 1
                return False
        if key not in self.violations:
            rdir = os.path.join(ROOT, "replays", self.prop)
            os.makedirs(rdir, exist_ok=True)
            body = {"property": self.prop, "key": key, "what": what, "seed": seed(), "tier": self.tier, "witness": witness}
            path = os.path.join(rdir, sha(body) + ".json")
            with open(path, "w") as f:
                json.dump(body, f, indent=1, default=str)
            self.violations[key] = {"what": what, "path": path, "n": 0}
            say(f"VIOLATION property={self.prop} replay={path}")
            say(f"  key={key}: {what}")
        self.violations[key]["n"] += 1
        return True

    def finish(self, level="model_checking"):
        for k, v in self.seen_known.items():
            say(f"KNOWN-FINDING: property={self.prop} {k} -- {v['what']} (seen {v['n']}x, e.g. {v['first_key']})")
        self.cov["distinct_nontrivial"] = len(self._distinct)
        cov = dict(self.cov)
        cov.update(self.extra)
        cov["known_findings_seen"] = {k: v["n"] for k, v in self.seen_known.items()}
        cov["violation_keys"] = {k: v["n"] for k, v in self.violations.items()}
        ev = {
            "property_id": self.prop,
            "tier": self.tier,
            "seed": seed(),
            "level": level,
            "coverage": cov,
            "assumptions": self.assumptions,
            "wall_s": self.timer.s(),
            "violations": len(self.violations),
        }
        os.makedirs(os.path.join(ROOT, "evidence"), exist_ok=True)
        with open(os.path.join(ROOT, "evidence", f"{self.prop}.json"), "w") as f:
            json.dump(ev, f, indent=1, default=str)
        say(
            f"[{self.prop}] tier={self.tier} evaluations={cov['evaluations']} distinct_nontrivial={cov['distinct_nontrivial']} "
            f"states={cov['states']} traces={cov['traces_validated_against_impl']} violations={len(self.violations)} "
            f"known={len(self.seen_known)} wall={ev['wall_s']}s"
        )
        return 1 if self.violations else 0
