"""Independent executor and independent writer for Secure Binary 1.x (extras lane sys_sb1).

run(data)    walks the bytes of a file along the acceptance automaton of spec/SYS/Sb1Rom.tla and logs ONE event per automaton step together with
             every number it used.  It decides nothing: TLC re-computes every position from the header fields / boot tags logged earlier (trace
             validation) and demands every fact TRUE.
write(given) lays a file out from the abstract content (header values, sections, abstract commands) the way the format documents it - the
             canary, the model-side twin of SPSDK's builder and the source of files SPSDK cannot write (MODE command, FILL with a full pattern word).

Written from the file format (boot-image format of the reference tool elftosb / sbtool: image header, section table, boot tags, boot commands,
SHA-1 authentication), not from spsdk/sbfile/sb1/*.  Trusted base: struct, hashlib, bit-serial CRC-32/MPEG-2 (table form self-tested against it).

The executor is TOTAL: it stops at the first event that carries a false fact, every loop is bounded by the file length.
"""
import hashlib
import struct

HDR_FMT = "<20s4sBBHIIIHHHHH2s4sQ6H6HH6s"
HDR_SIZE = struct.calcsize(HDR_FMT)
assert HDR_SIZE == 96
CMD_FMT = "<BBHIII"
INT_MAX = 2**31 - 1
FACTS = ("longEnough", "sig1ok", "digestOk", "chkOk", "tagIsTag", "crcOk", "ok")
MAX_PAYLOAD_LOG = 65536


class _Stop(Exception):
    pass


def limbs(v):
    v &= 0xFFFFFFFF
    return [v >> 16, v & 0xFFFF]


def clamp(v):
    """Sizes and block numbers are plain integers in the spec (TLC integers are 32-bit): anything beyond is no position in a file."""
    return v if v <= INT_MAX else INT_MAX


def crc32_mpeg2(data):
    c = 0xFFFFFFFF
    for b in data:
        c ^= b << 24
        for _ in range(8):
            c = ((c << 1) ^ 0x04C11DB7) & 0xFFFFFFFF if c & 0x80000000 else (c << 1) & 0xFFFFFFFF
    return c


_T = []
for _i in range(256):
    _c = _i << 24
    for _ in range(8):
        _c = ((_c << 1) ^ 0x04C11DB7) & 0xFFFFFFFF if _c & 0x80000000 else (_c << 1) & 0xFFFFFFFF
    _T.append(_c)


def crc32_fast(data):
    c = 0xFFFFFFFF
    for b in data:
        c = ((c << 8) & 0xFFFFFFFF) ^ _T[(c >> 24) ^ b]
    return c


def chk(hdr16):
    """Checksum of a boot command: 0x5A + the 15 bytes behind the checksum byte, modulo 256."""
    c = 0x5A
    for b in hdr16[1:16]:
        c = (c + b) & 0xFF
    return c


def bcd(two_bytes):
    """Version number: BCD digits, most significant byte first -> decimal number, -1 if a nibble is no decimal digit."""
    v = 0
    for b in two_bytes:
        for d in (b >> 4, b & 0xF):
            if d > 9:
                return -1
            v = v * 10 + d
    return v


def selftest():
    assert crc32_mpeg2(b"123456789") == 0x0376E6E7 and crc32_fast(b"123456789") == 0x0376E6E7
    assert crc32_mpeg2(b"\xff\xff\xff") == 0xFF000000
    assert hashlib.sha1(b"abc").hexdigest() == "a9993e364706816aba3e25717850c26c9cd0d89d"
    assert chk(bytes(16)) == 0x5A and bcd(b"\x09\x99") == 999 and bcd(b"\x0a\x00") == -1


def run(data):
    """-> list of events; the last one is Accept iff the executor walked the whole file."""
    ev = []
    nblk = len(data) // 16
    limit = 4 * nblk + 64

    def log(**k):
        ev.append(k)
        if any(k.get(f) is False for f in FACTS) or len(ev) > limit:
            raise _Stop()

    def blk(b, n=1):
        return data[b * 16:(b + n) * 16] if 0 <= b and (b + n) * 16 <= len(data) else None

    try:
        h = {"ev": "ParseHeader", "longEnough": len(data) >= HDR_SIZE, "fileBlocks": nblk, "fileRem": len(data) % 16, "sig1ok": False, "digestOk": False,
             "major": 0, "minor": 0, "sig2ok": False, "flags": 0, "imageBlocks": 0, "firstTag": 0, "firstId": [0, 0], "keyCount": 0, "keyDict": 0,
             "hdrBlocks": 0, "secCount": 0, "secHdrSize": 0, "pv": [0, 0, 0], "cv": [0, 0, 0], "driveTag": 0, "ts": [0, 0, 0]}
        if not h["longEnough"]:
            log(**h)
        (digest, sig1, major, minor, flags, image_blocks, first_tag, first_id, key_count, key_dict, hdr_blocks, sec_count, sec_hdr_size, _pad, sig2, ts,
         pv0, _a, pv1, _b, pv2, _c, cv0, _d, cv1, _e, cv2, _f, drive_tag, _pad6) = struct.unpack_from(HDR_FMT, data)
        secs_, us_ = divmod(ts, 1000000)
        be = lambda w: bcd(struct.pack("<H", w))  # noqa: E731  the two bytes as they stand in the file
        h.update(sig1ok=sig1 == b"STMP", digestOk=hashlib.sha1(data[20:96]).digest() == digest, major=major, minor=minor, sig2ok=sig2 == b"sgtl",
                 flags=flags, imageBlocks=clamp(image_blocks), firstTag=clamp(first_tag), firstId=limbs(first_id), keyCount=key_count, keyDict=key_dict,
                 hdrBlocks=hdr_blocks, secCount=sec_count, secHdrSize=sec_hdr_size, pv=[be(pv0), be(pv1), be(pv2)], cv=[be(cv0), be(cv1), be(cv2)],
                 driveTag=drive_tag, ts=[clamp(secs_ >> 16), secs_ & 0xFFFF, us_])
        log(**h)
        # section table
        for i in range(sec_count):
            at = hdr_blocks + i * sec_hdr_size
            b = blk(at)
            if b is None:
                log(ev="Truncated", at=at)
                raise _Stop()
            ident, offset, length, sflags = struct.unpack("<4I", b)
            log(ev="TableEntry", i=i, at=at, id=limbs(ident), offset=clamp(offset), length=clamp(length), flags=limbs(sflags))
        # the chain of boot tags
        pos = first_tag
        tags = []
        for i in range(sec_count):
            b = blk(pos)
            if b is None:
                log(ev="Truncated", at=clamp(pos))
                raise _Stop()
            c, tag, cflags, addr, count, dat = struct.unpack(CMD_FMT, b)
            log(ev="BootTag", i=i, at=pos, chkOk=c == chk(b), tagIsTag=tag == 1, id=limbs(addr), count=clamp(count), sflags=limbs(dat),
                last=bool(cflags & 1), cflags=cflags & 0xFFFE)
            tags.append((addr, dat, bool(cflags & 1)))
            cur, left, k = pos + 1, count, 0
            while left > 0:
                b = blk(cur)
                if b is None:
                    log(ev="Truncated", at=clamp(cur))
                    raise _Stop()
                c, tag, cflags, addr, cnt, dat = struct.unpack(CMD_FMT, b)
                e = {"ev": "Cmd", "sec": i, "i": k, "at": cur, "chkOk": c == chk(b), "tag": tag, "flags": cflags, "addr": limbs(addr), "cnt": limbs(cnt),
                     "dat": limbs(dat), "nBlk": 1, "payloadLen": 0, "crcOk": True, "payload": []}
                if tag == 2:
                    plen = (cnt + 15) // 16 * 16
                    pl = data[(cur + 1) * 16:(cur + 1) * 16 + plen] if plen <= len(data) else b""
                    e.update(payloadLen=clamp(plen), nBlk=clamp(1 + plen // 16), crcOk=len(pl) == plen and crc32_fast(pl) == dat,
                             payload=list(pl) if len(pl) == plen and plen <= MAX_PAYLOAD_LOG else [])
                log(**e)
                cur += e["nBlk"]
                left -= e["nBlk"]
                k += 1
            log(ev="SectionEnd", sec=i, next=clamp(cur))
            pos = cur
        d = data[pos * 16:pos * 16 + 20] if pos * 16 <= len(data) else b""
        log(ev="CheckDigest", at=clamp(pos), frm=0, to=clamp(pos * 16), ok=len(d) == 20 and hashlib.sha1(data[:pos * 16]).digest() == d)
        # the loader's search for the section to boot, on the tags of the chain
        res, idx = "overrun", 0
        for j, (ident, sflags, last) in enumerate(tags):
            if sflags & 1 and ident == first_id:
                res, idx = "found", j + 1
                break
            if last:
                res, idx = "notfound", j + 1
                break
        log(ev="BootSearch", result=res, index=idx)
        log(ev="Accept", nSections=len(tags))
    except _Stop:
        pass
    except struct.error:
        ev.append({"ev": "Truncated", "at": -1})
    return ev


# ---------------------------------------------------------------------------------------------------------------- the writer
def _word(p):
    return (p[0] << 16) | p[1]


def rep(x):
    """FILL: a byte / half-word pattern is replicated into the pattern word; three bytes are a word (Sb2Operands!Rep)."""
    if x < 0x100:
        return x * 0x01010101
    if x < 0x10000:
        return x * 0x00010001
    return x


def encode(c):
    """Abstract command -> (16-byte header fields, data) the way the format documents it (Sb2Operands!Encode; MODE: tag 6, data = mode word)."""
    k = c["k"]
    a, n, x, f, m = _word(c["a"]), _word(c["n"]), _word(c["x"]), c["f"], c["m"]
    mem = m[1] * 256 + m[0] * 16
    if k == "nop":
        return (0, 0, 0, 0, 0), b""
    if k == "load":
        d = bytes(c["d"])
        pad = d + bytes(-len(d) % 16)
        return (2, mem, a, len(d), crc32_fast(pad)), pad
    if k == "fill":
        return (3, 0, a, n, x if f == 1 else rep(x)), b""
    if k == "jump":
        return (4, 2 if f == 1 else 0, a, n if f == 1 else 0, x), b""
    if k == "call":
        return (5, 0, a, 0, x), b""
    if k == "mode":
        return (6, 0, 0, 0, x), b""
    if k == "erase":
        return (7, f + mem, a, n, 0), b""
    if k == "reset":
        return (8, 0, 0, 0, 0), b""
    if k == "enable":
        return (9, mem, a, n, 0), b""
    if k == "prog":
        return (10, m[1] * 256 + (1 if x else 0), a, n, x), b""
    raise ValueError(k)


def _cmd(tag, flags, addr, count, dat):
    b = bytearray(struct.pack(CMD_FMT, 0, tag, flags, addr, count, dat))
    b[0] = chk(b)
    return bytes(b)


def write(g, pad8=bytes(8), auth_pad=bytes(12), variant=None):
    """given -> bytes.  g: minor, flags, driveTag, pv, cv, us (microseconds since 2000-01-01 UTC), firstId, secs[{id, sflags, cmds}].
    variant (construction mistakes for the canary / the re-sealed files): see the code."""
    secs = []
    for s in g["secs"]:
        body = b""
        for c in s["cmds"]:
            hd, data = encode(c)
            body += _cmd(*hd) + data
        secs.append(body)
    n = len(secs)
    first_tag = 6 + n
    table, chain, pos = b"", b"", first_tag
    for j, (s, body) in enumerate(zip(g["secs"], secs)):
        cnt = len(body) // 16
        off = pos + 1
        if variant == "tab_skips_tags":
            off = pos + 1 - j
        table += struct.pack("<4I", _word(s["id"]), off, cnt, s["sflags"])
        last = j == n - 1
        chain += _cmd(1, 1 if last else 0, _word(s["id"]), cnt, s["sflags"]) + body
        pos += 1 + cnt
    image_blocks = pos + 2
    bcdw = lambda v: int(f"{v:04d}", 16).to_bytes(2, "big")  # noqa: E731
    ver = lambda v: b"".join(bcdw(x) + b"\0\0" for x in v)  # noqa: E731
    hdr = (b"STMP" + struct.pack("<BBHIIIHHHHH", 1, g["minor"], g["flags"], image_blocks, first_tag, _word(g["firstId"]), 0, first_tag, 6, n, 1)
           + pad8[:2] + (b"sgtl" if g["minor"] >= 1 else pad8[2:6]) + struct.pack("<Q", g["us"]) + ver(g["pv"]) + ver(g["cv"])
           + struct.pack("<H", g["driveTag"]) + pad8[2:8])
    assert len(hdr) == 76
    out = hashlib.sha1(hdr).digest() + hdr + table + chain
    out += hashlib.sha1(out).digest() + auth_pad
    return out


def reseal(data, changes, header_digest=False, final_digest=True):
    """Change bytes of a well-formed file ({offset: bytes}) and recompute the digests asked for: a file only ONE check of the format notices."""
    b = bytearray(data)
    for off, val in changes.items():
        b[off:off + len(val)] = val
    if header_digest:
        b[0:20] = hashlib.sha1(bytes(b[20:96])).digest()
    if final_digest:
        end = len(b) - 32
        b[end:end + 20] = hashlib.sha1(bytes(b[:end])).digest()
    return bytes(b)
