#!/bin/sh
# usage: [SEED_SRC=/tmp/mut2/out] tools/seed_confirm.sh C20 m1 "tests/utils tests/sbfile" [name under which it is stored, e.g. m3]
# Confirms a seeded change in a scratch worktree: demo passes without, fails with; named tests pass with the patch.
# Then stores it under /verif/seeded/<ID>-<m>/ (patch.diff, demo.py, notes.md, confirm.log).
ID=$1; M=$2; TESTS=$3; N=${4:-$M}
SRC=${SEED_SRC:-/tmp/mut/out}/$ID/$M
WT=/tmp/seedwt-$ID-$M
DST=/verif/seeded/$ID-$N
set -e
git -C /repo worktree add -q --detach $WT HEAD
cp /venv/lib/python3.12/site-packages/spsdk/__version__.py $WT/spsdk/__version__.py 2>/dev/null || true
mkdir -p $DST
LOG=$DST/confirm.log; : > $LOG
cd $WT
export SPSDK_CACHE_FOLDER=/tmp/seedwt-cache-$ID-$M PYTHONPATH=$WT SPSDK_ROOT=$WT
set +e
timeout 900 /venv/bin/python $SRC/demo.py >> $LOG 2>&1; R0=$?
echo "demo on unmodified tree (HEAD incl. fix commits): exit $R0" | tee -a $LOG
git apply $SRC/patch.diff; A=$?
echo "git apply: $A" | tee -a $LOG
timeout 900 /venv/bin/python $SRC/demo.py >> $LOG 2>&1; R1=$?
echo "demo with patch: exit $R1" | tee -a $LOG
if [ -n "$TESTS" ]; then
  timeout 3000 /venv/bin/python -m pytest -q -p no:cacheprovider -n 12 $TESTS 2>&1 | tail -3 | tee -a $LOG
fi
cd /
git -C /repo worktree remove --force $WT
rm -rf /tmp/seedwt-cache-$ID-$M
cp $SRC/patch.diff $SRC/demo.py $DST/
[ -f $SRC/notes.md ] && cp $SRC/notes.md $DST/
echo "RESULT $ID-$N unmodified=$R0 patched=$R1 apply=$A"
