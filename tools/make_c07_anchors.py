"""One-off: copy the golden HAB images of /repo/tests/nxpimage/data/hab/export (built by NXP's tool chain, frozen in the
repository) together with their inputs into /verif/anchors/C07/<name>/.  Run once at build time; the check never reads /repo/tests.
    PYTHONPATH=/repo:/verif/harness /venv/bin/python /verif/tools/make_c07_anchors.py
"""
import json
import os
import shutil
import sys

sys.path.insert(0, "/verif/harness")
from lib.common import import_spsdk  # noqa: E402

import_spsdk()
from cryptography import x509  # noqa: E402
from cryptography.hazmat.primitives import serialization  # noqa: E402
from spsdk.image.hab.hab_container import HabContainer  # noqa: E402
from spsdk.utils.images import BinaryImage  # noqa: E402

SRC = "/repo/tests/nxpimage/data/hab/export"
DST = "/verif/anchors/C07"
APPS = {
    # rt1040_srk_revoke_uid / _command are left out: their configuration installs the CSF2 certificate (issued by SRK2) with SRK
    # source index 0, so the certificate does not verify under the selected SRK - the automaton (rightly) stops at Install CSFK.
    "rt1050_xip_image_iar_authenticated": "led_blinky_xip_srec_iar.srec", "rt1060_flashloader_authenticated_nocak": "flashloader.srec",
    "rt1160_RAM_encrypted": "validationboard_imxrt1160_iled_blinky_cm7_int_RAM.s19", "rt1165_flashloader_authenticated": "flashloader.srec",
    "rt1165_semcnand_authenticated": "evkmimxrt1064_iled_blinky_SDRAM.s19", "rt1165_semcnand_encrypted": "evkmimxrt1064_iled_blinky_SDRAM.s19",
    "rt1170_flashloader_authenticated": "flashloader.srec", "rt1170_RAM_authenticated": "evkmimxrt1170_iled_blinky_cm7_int_RAM.s19",
    "rt1170_semcnand_authenticated": "evkmimxrt1170_iled_blinky_cm7_int_RAM.s19",
    "rt1170_RAM_unsigned": "evkmimxrt1170_iled_blinky_cm7_int_RAM_unsigned.s19", "rt1170_flashloader_unsigned": "evkmimxrt1170_flashloader.srec",
}


def der(path):
    return x509.load_pem_x509_certificate(open(path, "rb").read()).public_bytes(serialization.Encoding.DER)


for name, app in sorted(APPS.items()):
    d = os.path.join(SRC, name)
    cfgname = "config_pk.bd" if os.path.exists(os.path.join(d, "config_pk.bd")) else "config.bd"
    cfg = HabContainer.load_configuration(os.path.join(d, cfgname), [os.path.join(d, app)], search_paths=[d])
    out = os.path.join(DST, name)
    os.makedirs(out, exist_ok=True)
    shutil.copy(os.path.join(d, "output.bin"), os.path.join(out, "output.bin"))
    img = BinaryImage.load_binary_image(os.path.join(d, app))
    open(os.path.join(out, "app.bin"), "wb").write(img.export())
    opts = {k.lower(): v for k, v in cfg["options"].items()}
    secs = {}
    for s in cfg["sections"]:
        p = {}
        for o in s["options"]:
            p.update({k.lower(): v for k, v in o.items()})
        secs[s["section_id"]] = p
    meta = {"name": name, "options": {k: v for k, v in opts.items() if k not in ("dcdfilepath", "xmcdfilepath")},
            "exec_start": img.execution_start_address, "sections": {str(k): {kk: vv for kk, vv in v.items()} for k, v in secs.items()},
            "order": [s["section_id"] for s in cfg["sections"]]}

    def norm(p):
        return os.path.join(d, p.replace("\\", "/"))

    if "dcdfilepath" in opts:
        shutil.copy(norm(opts["dcdfilepath"]), os.path.join(out, "dcd.bin"))
    if 21 in secs:
        shutil.copy(norm(secs[21]["installsrk_table"]), os.path.join(out, "srk_table.bin"))
        # fuse value frozen at the pinned commit (SPSDK's report == SHA-256 over the SHA-256 of every entry, checked here)
        import hashlib

        from spsdk.image.secret import SrkTable

        tbl = SrkTable.parse(open(norm(secs[21]["installsrk_table"]), "rb").read())
        fuse = tbl.export_fuses()
        assert fuse == hashlib.sha256(b"".join(hashlib.sha256(k.export()).digest() for k in tbl)).digest()
        meta["fuse_hex"] = fuse.hex()
    if 22 in secs:
        open(os.path.join(out, "csfk.der"), "wb").write(der(norm(secs[22]["installcsfk_file"])))
    if 23 in secs:
        open(os.path.join(out, "csfk.der"), "wb").write(der(norm(secs[23]["installnocak_file"])))
        open(os.path.join(out, "imgk.der"), "wb").write(der(norm(secs[23]["installnocak_file"])))
    if 25 in secs:
        open(os.path.join(out, "imgk.der"), "wb").write(der(norm(secs[25]["installkey_file"])))
    if 27 in secs:
        shutil.copy(norm(secs[27]["secretkey_name"]), os.path.join(out, "dek.bin"))
    json.dump(meta, open(os.path.join(out, "meta.json"), "w"), indent=1, default=str)
    print(name, len(open(os.path.join(out, "output.bin"), "rb").read()), sorted(os.listdir(out)))
