#!/bin/sh
# usage: tools/seed_run.sh <seed dir name> <check id> [tier]
# Applies the seeded patch (patch.rebased.diff if present, else patch.diff) in a SCRATCH WORKTREE of /repo HEAD and runs the check against it
# (VERIF_REPO), so that /repo itself is never modified while other work is going on.  The evidence file is restored afterwards.
S=/verif/seeded/$1; C=$2; T=${3:-quick}
P=$S/patch.diff; [ -f $S/patch.rebased.diff ] && P=$S/patch.rebased.diff
WT=/tmp/seedrun-wt-$1-$$
git -C /repo worktree add -q --detach $WT HEAD || exit 3
cp /venv/lib/python3.12/site-packages/spsdk/__version__.py $WT/spsdk/__version__.py 2>/dev/null
git -C $WT apply $P || { git -C /repo worktree remove --force $WT; echo "SEED $1 patch does not apply"; exit 3; }
cp /verif/evidence/$C.json /tmp/seedrun-ev-$1-$$.json 2>/dev/null
cd /verif && VERIF_REPO=$WT ./check $C --tier $T > /tmp/seedrun-$1-$C.log 2>&1; RC=$?
cp /tmp/seedrun-ev-$1-$$.json /verif/evidence/$C.json 2>/dev/null; rm -f /tmp/seedrun-ev-$1-$$.json
git -C /repo worktree remove --force $WT
grep -E "^(VIOLATION|MACHINERY)" /tmp/seedrun-$1-$C.log | head -4
tail -1 /tmp/seedrun-$1-$C.log | cut -c1-220
echo "SEED $1 check $C tier $T exit $RC"
