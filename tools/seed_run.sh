#!/bin/sh
# usage: tools/seed_run.sh <seed dir name> <check id> [tier]   -- applies the seeded patch to /repo, runs the check, undoes it
S=/verif/seeded/$1; C=$2; T=${3:-quick}
if [ -n "$(git -C /repo status --porcelain --untracked-files=no)" ]; then echo "/repo not clean"; exit 3; fi
git -C /repo apply $S/patch.diff || exit 3
cd /verif && ./check $C --tier $T > /tmp/seedrun-$1-$C.log 2>&1; RC=$?
git -C /repo checkout -- .
grep -E "^(VIOLATION|KNOWN-FINDING|MACHINERY)" /tmp/seedrun-$1-$C.log | head -8
tail -1 /tmp/seedrun-$1-$C.log
echo "SEED $1 check $C tier $T exit $RC"
