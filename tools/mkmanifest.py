#!/usr/bin/env python3
"""Regenerates /verif/MANIFEST.json from the table below (one entry per property that has a check)."""
import json
import os

ROOT = os.path.dirname(os.path.dirname(os.path.abspath(__file__)))
BASELINE = "cd /repo && /venv/bin/python -m pytest -ra -q -p no:cacheprovider --timeout=900 --continue-on-collection-errors"

# growth lanes outside the listed properties (DESIGN.md 10.14): slug, title, what
EXTRAS = [
    ("bimgrom", "bootable image || boot ROM",
     "spec/SYS/BimgRom.tla: the ROM reads the merged image at ITS table offsets and the container found there walks the acceptance automaton of its kind "
     "(BimgRomTrace INSTANCEs MbiRom / AhabRom / HabRom of C02 / C06 / C07 unchanged) + address clauses; BimgRomMC refutes four wrong placements"),
    ("dk6", "DK6 ISP protocol",
     "spec/SYS/Dk6Dev.tla (frame grammar with CRC-32 in TLA+, request/response pairing, memory-handle state machine) || faulty link || host (Dk6.tla, host as built refuted); "
     "Dk6Trace validates sessions of the real DK6Device / dk6prog over a device twin"),
    ("lpcprog", "LPC ISP text protocol",
     "spec/SYS/LpcIsp.tla (synchronisation, echo, command grammar, return codes, sector/page model), LpcIspMC (line discipline under lost / late answers: host as built refuted), "
     "LpcIspFlow (write-to-flash flow), LpcIspTrace validates the real LPCProgProtocol / lpcprog over a device twin"),
    ("sb1", "Secure Binary 1.x",
     "spec/SYS/Sb1Rom.tla: loader acceptance automaton (header digest, section table, boot-tag chain, command checksums, final digest); Sb1RomMC refutes builder and reader as built; "
     "Sb1RomTrace validates an independent executor's walk over the bytes SecureBootV1 exports, tampered files must be rejected"),
    ("sbx", "SB-X container and DevHSM exchange",
     "spec/SYS/SbxRom.tla (loader automaton + contract of one DevHSM run), SbxDev.tla (device side), SbxFlow.tla (design model, flow as built refuted twice); "
     "SbxRomTrace validates exports and DevHSM runs of the real code against a device twin below the HID framing"),
    ("ele", "EdgeLock Enclave messaging",
     "spec/SYS/EleMsg.tla (firmware side: 28 message classes, every request word and CRC recomputed), EleMsgFlow.tla (device || bootloader || host, host as built refuted three times); "
     "EleMsgTrace validates exchanges of the real EleMessageHandlerMBoot / nxpele over a packet-level bootloader twin"),
    ("signedmsg", "AHAB signed messages",
     "spec/SYS/SignedMsg*.tla: acceptance automaton of the ELE for signed messages (container header, SRK table hash, signature coverage, per-type payload layouts); "
     "trace form validates an independent executor's walk over the bytes SPSDK exports"),
    ("fuses", "fuse programming",
     "spec/SYS/Fuses*.tla: OTP array (monotone bits, locks) || host flow as built; trace form validates the real Fuses / FuseOperator / fuse script against a device twin"),
]

# id -> (technique, level text, level note, design ref)
CHECKS = {}


def reg(pid, technique, text, note, ref, category="model_checking"):
    CHECKS[pid] = dict(technique=technique, text=text, note=note, ref=ref, category=category)


reg(
    "C20",
    "TLA+ R-spec of the helper contracts (NumHelpers.tla: number-grammar DFA, big-natural arithmetic, alignment / width / byte-order operators); "
    "TLC enumerates the case space and checks the contracts as theorems (NumHelpersMC), the real functions are executed on every case, "
    "TLC decides every recorded observation (NumHelpersTrace, batch trace validation) A token lane (sequences of grammar tokens up to 8 / 10 characters), every width up to 520 bits, hex text in its three prefix forms and pattern blocks longer than one period complete the enumerated space.",
    "Exhaustive within bounds: every string of length <= 4 (quick) / 5 (thorough) over a 16-symbol alphabet and ~17k helper cases are "
    "states of the TLC model; each is executed on the real code and the observation is accepted or rejected by TLC against the R-spec. "
    "Large values (to 2^512) are seeded samples decided by the same spec.",
    "Trusted: TLC, the 150-line recorder in harness/c20.py (encodes arguments/results, no oracle logic). Debatable strings are allowed to be refused.",
    "DESIGN.md section 4 C20",
)

reg(
    "C11",
    "TLA+ R-spec of the register file as bit-vectors (Registers.tla: views as functions of the raw bit sets; RegFile.tla: one action per public "
    "operation, refusals and read-only operations as identity steps); TLC model-checks the lemmas, generates behaviours (exhaustive to depth 2 on a "
    "tiny layout, -simulate on generated layouts), each behaviour is replayed on a real Registers object and the logged projection of the real state "
    "is validated step by step by TLC (RegFileTrace) Layouts include hex-string groups, reversed plain registers with bit-fields, digit-only / small values and targeted group histories.",
    "Model checking of the semantics within small bounds (lemmas LastWriteWins, Independent, ViewsConsistent, Frozen) + every generated behaviour "
    "executed on the real object and accepted/rejected by TLC. Exhaustive for all 2-step histories over the tiny layout's action alphabet; sampled "
    "(seeded) for 12..16-step histories on layouts with widths up to 512 bits, groups, reversed byte/sub-register order, enums, SHIFT_RIGHT.",
    "Trusted: TLC, the projection code in harness/c11.py (reads raw values / field values / enum names through the public getters). Hidden registers, "
    "alternative widths and non-zero reset values of SHIFT_RIGHT fields are outside the generated layouts.",
    "DESIGN.md section 4 C11",
)

reg(
    "C19",
    "TLA+ R-spec of the BD language (BdLang.tla: expression datatype with Eval/Dom, statement->command table; BdProg.tla: the program as a state "
    "machine over definitions and sections); TLC enumerates expression ASTs (with evaluator lemmas) and programs (exhaustive single statements, "
    "-simulate for multi-construct programs); a renderer prints them as BD text with minimal parentheses, the real BDParser + "
    "BootImageV21.load_from_config process the text, TLC (BdTrace) re-executes the program on the state machine and decides every logged "
    "option value, section id and command Key blobs, encrypt and keywrap statements are decided by an owner clause (the loaded bytes are decrypted / unwrapped with every defined key blob through an independent OTFAD model). System lane spec/SYS/SbLoadTrace.tla: BdProg composed with the SB2 boot-ROM automaton of C04 and the mboot link of C10 - BD text -> SB2.1 file -> receive_sb_file -> device twin -> ROM executor, decoded sections / commands compared with the language semantics; every third program goes through the nxpimage sb21 export and blhost receive-sb-file command-line tools.",
    "Exhaustive over all depth<=2 expression ASTs in the asserted domain (18 binary, 3 unary operators, size suffixes) and over the single-statement "
    "menu (16 statement kinds x operand forms; quick tier: seeded subset); simulated for multi-section programs with constants referring to earlier "
    "constants, several definitions per line, several options blocks, sources/extern files and 12 unsupported constructs that must be refused.",
    "Trusted: TLC, the renderer (minimal parentheses by the documented C-like precedence) and the projection of command objects to records in "
    "harness/c19.py. Operands < 2^31; redefinition of a name, mixed bool/int operands and size suffixes on non-leftmost literals are outside the "
    "asserted domain (the documentation does not settle them). Two design-level deviations of blob loads are listed in known_findings.jsonl.",
    "DESIGN.md section 4 C19",
)

reg(
    "C18",
    "TLA+ I-spec of the cache protocol (DbCache.tla, one action per file-system primitive, both cache variants) composed with the crash / advisory-lock "
    "environment and model-checked (NoFatal, NeverTrustDamaged, MutualExclusion, liveness Progress, SoloRepairs; the two pre-repair designs must be refuted); "
    "TLC-generated schedules (interleavings + kills) replayed on real forked SPSDK processes by interposition on the module globals of "
    "spsdk.utils.database; every primitive-level trace decided by TLC against the R-spec FsEnvTrace.tla (file system + lock + process death + outcome monitor) The I-spec also models the cache folder and entries merged from a stale file (NeverTrustStale; two harmless-looking design variants are refuted by TLC on every run); StaleTrace.tla decides histories with REAL edits of a private data folder (device file, add-ons / restricted overlay, new device, cached configuration file) between runs.",
    "Design-level exhaustive model checking for 2 (thorough: 3) processes, <= 1 (2) kills and all six initial file kinds, plus conformance: real processes "
    "driven along TLC schedules, solo first use on every damaged state including a sweep of truncated prefixes of both cache files (thorough: dense), late "
    "kills, two-process races through the damaged-cache handler and unsynchronised fresh interpreters; clauses NoFatal, AnswersTrue (digest of a query battery "
    "equals the run with the cache disabled), Repaired (after an epilogue process both files are valid), environment conformance of every primitive.",
    "Trusted: TLC, the scheduler / interposition layer and the probe that classifies cache files (uses SPSDK's own fingerprint function) in harness/c18.py. "
    "Lock time-outs are assumed not to fire; kills happen between primitives (states inside a write are covered by the prefix sweep).",
    "DESIGN.md section 4 C18",
)

reg(
    "C10",
    "TLA+ model of reference bootloader device || faulty device-to-host link || host as built (Mboot.tla) model-checked against the API contract "
    "(NoFalseSuccess, PartialIsFlagged, Documented, MirrorNoFault, liveness Terminates; the pre-repair host must be refuted); TLC-generated fault classes "
    "(shape, packets, kind, frame position) expanded to concrete operations, byte and bit positions and executed by the real McuBoot / SDP objects "
    "against an executable device twin below the framing layer (serial CRC frames and USB-HID reports); every recorded history (frames seen / emitted, "
    "injected fault, API result) decided by TLC against the R-specs MbootTrace.tla / SdpTrace.tla, which also constrain the twin itself Command layer MbootCmds.tla / SdpTrace: the packets that reach the device twin (tag, flags, parameter words; SDP address, format, count, value) are compared with the definition of each of 34 driven operations, arguments from boundary value classes; clause StrictFaults (NAK / abort / truncated / missing frame end the call in failure); the device's property report is checked for history independence. SDPS (SdpsTrace.tla): histories of one or two stream downloads in one process against a twin of the ROM in stream mode (command block wrapper, report ids and sizes known independently; ROM parameters read from the device files by a plain YAML reader), a lost report at every position class. Tool layer MbootCli.tla: blhost command lines through the real option parser.",
    "Model checking of the protocol design with 0..3 data packets and <= 1 (thorough: 2) faults, plus conformance of ~3000 (thorough: more) real executions: "
    "35 mboot operations (incl. generate_key_blob: two exchanges in one call) x length classes x packet sizes x both transports x cached / uncached packet size, random multi-call histories on one object, all "
    "TLC fault classes x byte/bit positions, benign not-ready bytes, device-reported errors in the first and in the final response; SDP read / write / write-file / dcd / csf / status / jump / skip-dcd over "
    "serial (data arriving in bursts) and HID with truncation at every position class and failure statuses.",
    "Trusted: TLC, the twins and result classification in harness/c10.py and c10_sdp.py (the twins are themselves checked against the spec's device "
    "automaton). HID payload corruption is not a listed fault (no integrity check exists); a 4-byte SDP status word is assumed to arrive in one piece; "
    "trust-provisioning / EdgeLock / WPC / DSC-HSM commands are not driven; SDPS has no device-to-host traffic, its only link fault is a report the link does not take.",
    "DESIGN.md section 4 C10",
)

reg(
    "C02",
    "Explicit TLA+ R-spec of the boot ROM's MBI acceptance automaton (MbiRom.tla), model-checked in abstract form over all image shapes x tampered field "
    "classes (MbiRomMC: untampered accepted, every region except the key store rejected when tampered, every region inside an authenticated interval at "
    "Accept); a Python executor walks the real bytes SPSDK exports along the automaton with an independent trusted base and logs one event per step; TLC "
    "(MbiRomTrace) decides every trace, including single-bit tamper runs whose expected verdict comes from the TLC GEN output; 100 golden images must be accepted",
    "model checking of the abstract automaton (33k states quick, 700k thorough, every action fires) + validation of every executor trace (540 exports + ~5k "
    "tampers quick; 3.8k exports + ~390k tampers thorough) over 28 protected compositions, RSA-2048/3072/4096 chains depth 1..4 incl. a mixed-size chain, "
    "P-256/P-384 root sets with every signing index, ISK, custom TrustZone, relocation tables, key store; ranges and offsets recomputed by TLC from logged header fields.",
    "Crypto content (SHA-2, HMAC, RSA/ECDSA verify, AES-ECB/CTR, CRC) is evaluated by the executor with hashlib/hmac/own CRC/cryptography primitives called "
    "directly, never through spsdk.crypto. Per-family ROM configuration and TrustZone block size are read from SPSDK's device database. DSC BCA/Vx images, plain "
    "images and payloads < 64 bytes are outside the asserted domain.",
    "DESIGN.md section 4 C02",
)

reg(
    "C05",
    "TLA+ R-spec Sb31Rom.tla (the SB 3.1 loader's acceptance automaton with coverage frontier and decoded = supplied clauses), model-checked against the "
    "documented construction and 24 construction mistakes (Complete / Sound / Covered / Located); TLC enumerates configuration, command and stream-end tours, "
    "simulates random command lists and generates all export histories from the I-spec Sb31Obj (whose as-built variant must be refuted); each case is built "
    "through SecureBinary31 / Cmd* / CertBlockV21, an independent executor walks the exported bytes, TLC batch trace validation decides every export and every "
    "single-bit-tampered file",
    "model checking (180k states quick, 2.8M thorough) + ~6k (thorough ~70k) validated traces: all 14 command types, every stream-end offset mod 256, block "
    "counts 1..275, P-256/P-384 with 1..4 roots, with/without ISK, PCK 128/256, plain and encrypted, histories of up to three exports.",
    "Crypto facts (ECDSA, SHA-256/384, AES-CBC, AES-CMAC KDF) come from hashlib and cryptography called directly. Command-layout details tagged "
    "frozen-from-source detect changes but are not independent evidence. Mixed root/ISK curves, timestamp 0 and the YAML / nxpimage layer are not exercised.",
    "DESIGN.md section 4 C05",
)

reg(
    "C13",
    "TLA+ R-spec FlashEnc.tla of the on-the-fly decryption engines at cell granularity (which context answers a fetch - first valid context containing the "
    "absolute address -, whether it decrypts, the address-derived cipher input: OTFAD address, BEE and IEE-CTR address>>4, IEE-XTS page number; what the ROM must "
    "find in each key-blob record); TLC model-checks geometry lemmas and SPSDK's chunk walk as an I-spec (whose as-built variant must be refuted), enumerates the "
    "structural case space; every case runs through the real Otfad/OtfadNxp, Iee/IeeNxp, BeeNxp code; an independent engine and ROM model loads the exported key "
    "blobs and reads the exported image cell by cell; TLC validates every logged address, byte count, context and cipher input and demands ok = TRUE for every cell, "
    "locality cut and blob",
    "Exhaustive over the TLC-enumerated space (1..3 unit-aligned disjoint regions - decrypting, bypassing, invalid - in a 12-cell window, every base cell and length) "
    "crossed with the three engines, byte tails {0,1,15,16,17}, sub-cell base offsets, engine modes, both end-address conventions and both API levels; up to 4 regions "
    "in wider windows by seeded samples; tampered key blobs must be rejected.",
    "Trusted: TLC, the cryptography AES block function, harness/c13_hw.py (reproduces the NXP image_enc artefacts and RFC 3394 / IEEE 1619 / CRC vectors on every "
    "run), the per-cell projection in c13.py. Outside the claim: an inclusive IEE end address, carry of the IEE CTR counter, page_offset != 0, the YAML/CLI layer, BEE "
    "header integrity (the format has none).",
    "DESIGN.md section 4 C13",
)

reg(
    "C14",
    "Explicit TLA+ reader automaton of the bootable-image layout (Bimg.tla) over segment tables extracted from the device database at run time; TLC model-checks the "
    "layout lemmas (NoOverlap, StartsWhereTold, DynamicFollows, InitSnap, FirstAtZero, CursorMonotone, TotalIsEnd) over every case of all 22 distinct tables and emits "
    "the cases; Python drives the real BootableImage (load_from_config, init_offset, set_init_offset, export, parse) with real MBI / HAB / AHAB / SB / FCB / XMCD "
    "payloads on all 820 (family, revision, memory type) triples, reads the exported bytes with a dumb scanner, and TLC batch trace validation (BimgTrace.tla) decides "
    "every execution",
    "model checking of the layout algebra (32k states quick, 73k thorough) + validated executions (1.5k quick, ~9.8k thorough): every subset of optional segments x "
    "payload length classes x init offsets per table, each executed on at least one triple of its table; offsets, gaps, total length, InitSnap, refusal and per-segment "
    "parse facts are recomputed by the spec.",
    "Trusted: TLC, the scanner (bytes.find and pattern compare), the payload builders (SPSDK's own public MBI / HAB / AHAB / FCB / XMCD classes, golden SB files). "
    "Segment sizes and the 1024 alignment come from the SPSDK classes at run time, offsets and fill pattern from the database. Design-level parse limitations (image "
    "starting at a non-INIT segment, full-image attempt misdetection, 516-byte XMCD) are listed in known_findings.jsonl.",
    "DESIGN.md section 4 C14",
)

reg(
    "C01",
    "TLA+ R-spec of the MBI format as a region algebra (Mbi.tla): every mixin name of the device database (read at run time, every chip revision and predecessor "
    "name) is given its format meaning; image = sequence of regions, the four ROM-owned words = record, the reader's cuts derived from the words; TLC model-checks "
    "HeaderDescribes / RoundTrip / ReadsBack / ReExport for every composition x abstract input and prints every case (MbiMC); each case is concretised and driven "
    "through load_from_config and the class constructor; length, decoded words, CRC, certificate-header / TrustZone / key-store / IV / relocation-table / manifest "
    "positions, parsed fields and the diff ranges of both re-export routes are recorded and decided event by event by TLC (MbiTrace, total verdicts)",
    "Model checking of the format algebra for 47 of 51 compositions x input classes (22k states quick / 150k thorough) plus conformance of real builds: quick ~1050 "
    "images in a seeded sample covering every value of every field per composition, thorough 24000 images on all 696 (family name, revision, target, authentication) "
    "entries of the database.",
    "Trusted: TLC, struct-level decoding and byte search in harness/c01.py, the CRC and certificate-block length formulas in lib/mbi_build.py, hashlib. Not modelled: "
    "the four compositions without a vector table (DSC / MCXC), HMAC compositions with payloads 0x38-0x3F, crypto content (C02). Design-level parser limitations "
    "(relocation-table detection, class selection by image type word, displaced custom TrustZone of v1+HMAC images) are registered as known findings.",
    "DESIGN.md section 4 C01",
)

reg(
    "C04",
    "Explicit TLA+ R-spec of the SB 2.0/2.1 boot-ROM acceptance automaton (Sb2Rom.tla: block cursor = CTR counter offset, header MAC, RFC 3394 key blob, "
    "certificate block, signature with optional SHA-256, per-section tag / tag HMAC / HMAC table over ciphertext chunks, commands with checksum and CRC, coverage "
    "bookkeeping); TLC model-checks it against an ideal writer over every small layout shape (Complete, Sound, Tamper, FreshChunks, deadlock freedom) and enumerates "
    "the shapes; Python concretises them, builds files through BootImageV20 / BootImageV21 / BootSectionV2 / Cmd*, walks them with an independent executor and "
    "projects parse() results; TLC decides every trace in batch trace validation",
    "model checking (110k states quick, 2.1M thorough, 95k shapes) + 3.3k (thorough 67k) validated traces: clean, single-bit-tampered, forged-command and wrong-KEK "
    "observations from two observers (independent ROM executor, SPSDK's own parser); 14 elftosb goldens anchor the automaton at every start.",
    "Trusted: TLC, hashlib, hmac, a pure-Python CRC-32/MPEG-2 and cryptography primitives called directly (AES-ECB block, RFC 3394 unwrap, X.509 DER, RSA PKCS#1 v1.5); "
    "nothing from spsdk.crypto or spsdk.sbfile. Field values, keys and load contents are sampled. BootImageV21.parse returning only the first section is a registered "
    "known finding (design-level).",
    "DESIGN.md section 4 C04",
)

reg(
    "C09",
    "Explicit TLA+ R-spec (CipherModes.tla) defining all modes, MACs, KDFs and SPSDK derivations over one block primitive and one hash primitive, a bit-serial CRC "
    "from catalogue parameters (Crc.tla) and the block counter as a limb-arithmetic state machine (Counter.tla); TLC proves the inversion, padding, positioning and "
    "refusal lemmas with toy primitives and the CRC check / residue values, enumerates the wrapper case space (WrapperApi) and the counter behaviours; the cases are "
    "replayed on the real code and TLC decides every observation by trace validation (ApiTrace, CounterTrace) from the table of primitive evaluations",
    "Lemmas, counter invariants (Exact, Shape, PrefixFrozen, wrap reachable) and the abstract case space are exhaustive for small constants; every real call and "
    "every counter step (15.5k traces quick, 248k thorough) is validated by TLC against values it recomputes from the R-spec.",
    "Trusted: one-block AES (cryptography ECB on 16 bytes), a pure-Python SM4, hashlib, TLC, the published vectors (RFC 3394, SP 800-38A, RFC 4493, RFC 3610, "
    "IEEE 1619, RFC 4231, RFC 5869) and two frozen repository artefacts. Messages over 256 bytes are compared with the reference constructions, which the spec binds on "
    "every short case. Behaviour the docstrings leave undefined (ragged ECB input, XTS < 16 bytes ...) is not asserted.",
    "DESIGN.md section 4 C09",
)

reg(
    "C06",
    "Two explicit TLA+ R-specs: AhabRom.tla (boot-ROM acceptance automaton over the file, authenticated-coverage intervals) and AhabLayout.tla (container slots, "
    "offsets, no overlap, update_fields / parse history); each has an MC form with an abstract builder and tamper marker proving lemmas (incl. the 64 used x revoke "
    "pairs and tamper coverage) and emitting the case space; SPSDK builds every case, an independent executor walks the bytes, TLC batch trace validation decides each "
    "walk; SPSDK's own parse and verify are decided by the same spec on valid exports and on single-bit corruptions drawn from the spec's authenticated intervals",
    "model checking (35k states quick, 151k thorough) + ~1.9k (thorough ~29k) traces of real executions over all 18 family/revision pairs, container versions 1 and 2, "
    "RSA-2048/3072/4096 and P-256/384/521 SRK tables, every used_srk_id x revoke mask, image_size_alignment variations, encrypted images.",
    "Crypto facts (SHA-2 / SM3, ECDSA and RSA-PSS verification, AES-CBC decryption) come from hashlib and cryptography called directly; offsets, ranges, coverage and "
    "decoded = input are recomputed by TLC. Format constants frozen from the documented structures plus one golden artefact. verify() authenticating the re-serialised "
    "object (many tamper classes reported clean, some crashes) is a registered design-level known finding with one key per field class.",
    "DESIGN.md section 4 C06",
)

reg(
    "C07",
    "Explicit TLA+ R-spec of HAB4 image acceptance (HabRom.tla + HabLayout.tla): IVT, boot data, DCD / XMCD, then the CSF as a command automaton (Install SRK with fuse "
    "hash, Install CSFK / IMGK with X.509 chain, Authenticate CSF and Data with CMS over exactly header + commands / the listed blocks, Install Secret Key, Decrypt Data "
    "with AES-CCM) with a coverage clause and boot-data-length bounds; TLC model-checks it over abstract images built by the documented CST layout x 13 tampered regions x "
    "11 design mutants and enumerates the cases; each is built through HabContainer.load_from_config; an independent executor walks the exported bytes; TLC batch trace "
    "validation decides every image, every single-bit-tampered copy and SPSDK's own parse of the same bytes",
    "model checking (22k states quick, 552k thorough; 17 actions fire; 7 lemmas) + validated traces (363 builds + 479 tampers quick; 5.8k builds + 24k tampers "
    "thorough): 4 layout classes (all 17 families), plain / auth / enc, none / DCD / XMCD, RSA and ECC SRK tables of 1..4 keys with every source index, NOCAK, three "
    "key-supply variants, MAC 4..16, DEK 128/192/256, application sizes around 4 KiB and 16-byte boundaries; 11 golden images accepted.",
    "SHA-256, RSA / ECDSA, X.509, CMS and AES-CCM facts come from hashlib, cryptography and asn1crypto called directly; every range is recomputed by TLC. Encrypted "
    "images not parsing back (application located by a reset-vector heuristic in ciphertext) is a registered design-level known finding. NOCAK key index, engine bytes, "
    "signing time and hash-only SRK entries are outside the asserted domain.",
    "DESIGN.md section 4 C07",
)

reg(
    "C08",
    "Two TLA+ R-specs: KeyCodec.tla (length algebra: key = (type, size, leading-byte profile), ECDSA signature = (byte length, top bit) of r and s; DER / raw / NXP "
    "lengths, codec clauses, sign/verify matrix) and KeyFlow.tla (a key going through export / parse / to-public and a signature through sign / re-encode / tamper / "
    "verify, parametric in the party: library, nxpcrypto CLI, cryptography called directly, pure Python); TLC checks the lemmas over all 30473 profiles and the complete "
    "flow graph and generates cases and behaviours; Python builds integers and pool keys with exactly the requested profile (valid signatures for arbitrary (r, s) by "
    "public-key recovery), runs SPSDK and the independent base in both directions; TLC decides every observation and trace; an I-spec of SPSDK's length sniffing "
    "predicts and names the known finding",
    "Exhaustive model checking of both specs; the codec lane is exhaustive over every length profile in both tiers; key and signature parameter matrices exhaustive at "
    "depth 2 (quick) / 3-4 with every single-bit tamper position (thorough); longer chains are seeded simulations (45k traces quick, ~300k thorough).",
    "Trusted: TLC, cryptography called directly with the standard parameters, harness/lib/refpk.py (pure-Python P-256/384/521 ECDSA verify and recovery, RSA v1.5 / PSS "
    "verify, strict DER; self-tested at every start), hashlib. Certificates, SHA-1/MD5/SM3, SM2 and PQC keys and raw private scalars are outside the asserted domain. "
    "ECDSA encoding guessed from the signature length is a registered design-level known finding.",
    "DESIGN.md section 4 C08",
)

reg(
    "C15",
    "Explicit TLA+ R-spec of debug authentication: symbolic message terms and the device acceptance automaton (DatTerms.tla), a two-party protocol with a Dolev-Yao "
    "intruder and binding invariants (Dat.tla), byte layouts per protocol version and credential class (DatLayout.tla, anchored lengths re-derived in an ASSUME); TLC "
    "model-checks the binding invariants and enumerates 164 credential cases and 2304 substitution attempts; SPSDK plays the host for every DAT family; an independent "
    "device twin walks the real bytes, evaluates the crypto facts with cryptography and hashlib and splices every substitution onto real responses; TLC batch trace "
    "validation decides every trace",
    "Protocol invariants (Accept implies the response was built for the session's challenge, that credential and beacon, and for ECC that device) exhaustively for 2 "
    "devices, 2 challenges, 2 beacons, <= 3 host answers (15k states quick, 373k thorough); every observation of the real code (338 scenarios over all 73 DAT families "
    "quick; 124 family revisions thorough) decided by TLC: offsets, lengths and signed ranges recomputed, crypto facts required TRUE, attempt verdicts equal the automaton's.",
    "Trusted: TLC, cryptography verify primitives, hashlib and the twin's walkers (anchored on 5 golden credentials and 3 challenges; container v2 follows documentation "
    "tables only). RoT hash asserted where the image tools define a value. The RSA versions do not bind the device UUID by protocol definition (stated in the spec).",
    "DESIGN.md section 4 C15",
)

reg(
    "C16",
    "TLA+ R-spec of BinaryImage as a tree and source-map algebra plus a composition-history state machine (BinImage.tla) and TLA+ acceptance automata for Intel-HEX, "
    "S-record and BIN files (ImgFiles.tla: checksums, record lengths, 32-bit addresses as limbs recomputed by TLC); TLC model-checks the lemmas over histories and over "
    "every tree of a bounded space and emits all trees and histories; each is built on real BinaryImage objects, saved and loaded in all three formats at nine 32-bit "
    "base-address classes; every observation is decided by TLC batch trace validation; files from an independent encoder are loaded by SPSDK and compared with the "
    "TLA+ decoding",
    "Model checking of the composition algebra (42k states quick, 405k thorough; 31k trees quick, 494k thorough as enumerated initial states) plus conformance of real "
    "executions: 42.7k traces / 229k events / 3.6k file round trips quick; 647k traces / 3.3M events / 48k round trips thorough.",
    "Trusted: TLC, hex-pair tokenisation of file lines, Python's own text decoding for the 'textlike' fact, the raw-file encoder (decoded by the TLA+ automata before it "
    "counts). Own binary longer than explicit size, export content of invalid trees, rand patterns and HEX/S19 gap bytes are not asserted. BIN load refusal for "
    "text-like payloads and HEX/S19 save crash with an empty patterned sub-image are registered known findings.",
    "DESIGN.md section 4 C16",
)

reg(
    "C17",
    "TLA+ R-spec of freshness (Fresh.tla: secrets are ids; Construct / Export / Restart guarded by NoSharedSecret and NoNonceReuse), model-checked under an ideal "
    "generator, plus an implementation-shaped spec of draw times (FreshImpl.tla) whose pre-repair variant predicts the reuse; TLC enumerates and simulates construction "
    "histories over kinds x how x user-supplied fields; each interpreter segment runs on the real code in a fresh interpreter with spsdk.crypto.rng.token_bytes observed "
    "from outside; secrets are read from attributes and exported bytes by independent readers and canonicalised to first-occurrence ids; TLC (FreshTrace) decides every history",
    "Exhaustive for all histories of <= 2 (quick) / <= 3 (thorough) constructions over the 13 kind x how items (29 items with user-supplied variants up to 2), same-kind "
    "restart pairs, seeded TLC-simulated interleavings and one 70..130-construction history per base item (43k states quick, 1M thorough).",
    "Trusted: TLC, the readers in c17_child.py (SB2 / MBI / OTFAD / IEE / BEE / HAB CSF offsets), cryptography keywrap / ECB / CBC. Collisions of honest >= 64-bit draws "
    "are neglected; OTFAD / IEE through configuration have nothing self-chosen; the narrow OTFAD filler is asserted only in short histories.",
    "DESIGN.md section 4 C17",
)

reg(
    "C03",
    "The documented root-of-trust constructions (cert_block_1, cert_block_21, srk_table_hab, srk_table_ahab, srk_table_ahab_v2) and both certificate-block layouts "
    "as symbolic terms in TLA+ (Rot.tla: lengths and layout decided in TLC, a Sig node over exactly root-key record + ISK header + ISK public key + user data) plus a "
    "state machine (Compute, WriteFile / ReadByPath, Build / Export / Parse / SetUserData / SetConstraints / SetImageLength); TLC enumerates key-set shapes x orders x "
    "used index x encodings x tool paths and histories of cert blocks and rewritten key files, checks the term lemmas (independence of path / used index / encoding, order "
    "and key sensitivity, single-key v2.1, table lengths) and emits every case with its term; Python evaluates the terms independently and drives every real path; TLC "
    "(RotTrace) recomputes each term and decides every observation",
    "The state machine is model-checked (the signature-caching variant must be refuted); case space and histories are enumerated by TLC; 6.5k (quick) / 49k "
    "(thorough) real executions are trace-validated against the R-spec; a canary and 15 golden anchors (incl. a frozen family -> rot-type table) run in every execution.",
    "Trusted: hashlib SHA-2, cryptography key / certificate loading and ECDSA verification called directly, an own DER length reader and v1 walker, TLC. Hash contents "
    "are evaluated outside TLA+; TLC decides structure, lengths, equality with the evaluated term and the logged facts. RSA moduli have full length, e = 65537. The "
    "stale ISK signature after a field change is a registered known finding (re-signing policy is a design decision).",
    "DESIGN.md section 4 C03",
)

reg(
    "C12",
    "TLA+ R-spec of a register-backed configuration area (CfgArea.tla extends the bit-vector register spec of C11 with the area actions Template / "
    "LoadConfig / SetValues / Export / Parse / GetConfig / NewObject, computed-field rules (inverse half-words, CRC fact, ROTKH fact), seal words, "
    "size bit-field, conditional registers, alternative-width groups); CfgAreaMC checks the property's clauses as lemmas on small layouts; "
    "CfgAreaGen -simulate emits operation schedules; every (kind, family, revision, sub-area) the area classes' own queries return is driven "
    "through canonical and generated schedules on the real classes; layouts are read from the database files, never from SPSDK's register objects; "
    "CfgAreaTrace (batch trace validation) recomputes every logged step and names the failing clause and register",
    "Model checking of the area semantics within small bounds + trace validation of every real operation. Quick: all 802 areas instantiated, 101 "
    "classes of byte-identical database content run the full schedules (template -> schema -> load -> export -> size -> parse -> re-export -> "
    "get_config -> load, edge and mixed in-range values, second object). Thorough: full schedules on every area, value sweep and generated histories.",
    "Trusted: TLC, PyYAML safe_load as the YAML judge, json, hashlib, `cryptography` for EC key generation only, a bit-serial CRC-32/MPEG-2, binary "
    "sizes from the reference manuals, register presets / offsets / seal ranges of the database as ground truth (a change that alters them consistently "
    "on both sides is outside the oracle). Hidden registers are never written (parse skips them); fuse maps have no binary form; shadow registers are "
    "not importable here; data-level clauses (no overlap, unique bit-field names, bit-fields tile the register, groups consistent) are reported once per "
    "register file with a dynamic witness in tools/findings/C12.md.",
    "DESIGN.md section 4 C12",
)

NOT_YET = {
}


def main():
    props = [json.loads(l) for l in open(os.path.join(ROOT, "properties.jsonl"))]
    checks = []
    na = []
    for p in props:
        pid = p["id"]
        if pid in CHECKS:
            c = CHECKS[pid]
            checks.append(
                {
                    "property_id": pid,
                    "quick_cmd": f"./check {pid} --tier quick",
                    "thorough_cmd": f"./check {pid} --tier thorough",
                    "evidence_file": f"/verif/evidence/{pid}.json",
                    "replay_cmd_template": f"./check {pid} --replay {{path}}",
                    "engine": "tlc",
                    "level_claimed": {"category": c["category"], "text": c["text"], "design_ref": c["ref"]},
                    "level_note": c["note"],
                    "technique": c["technique"],
                }
            )
        else:
            na.append({"property_id": pid, "reason": NOT_YET.get(pid, "check not built yet in this session (planned, see DESIGN.md section 4); no claim is made for this property at this commit")})
    m = {
        "version": 1,
        "setup_cmd": "./setup.sh",
        "hooks": {
            "guard": "SPSDK_VERIF_HOOKS",
            "enable": "not used - no source hooks; all observation is from outside (public API, DeviceBase stub, wrapped module globals in child processes), see DESIGN.md section 6",
            "baseline_off_cmd": BASELINE,
            "source_commits": [],
            "add_only": True,
        },
        "engines": [
            {
                "name": "tlc",
                "path": "/verif/harness/lib/tlc.py",
                "serves_properties": sorted(CHECKS),
                "kind_free_text": "TLC 1.8 model checking of explicit TLA+ specifications under /verif/spec + batch trace validation of observations of the real code + replay of TLC-generated cases/behaviours into the real code",
            },
            {
                "name": "system composition SbLoad (runs inside ./check C19)",
                "path": "/verif/harness/sys_sbload.py",
                "serves_properties": ["C19", "C04", "C10"],
                "kind_free_text": "spec/SYS/SbLoadTrace.tla composes BdProg (C19), the SB 2.1 ROM automaton (C04) and the mboot link (C10): BD text -> nxpimage / classes -> receive-sb-file over the device twin -> independent ROM executor, decided by TLC",
            },
            {
                "name": "extras: debug mailbox (./check sys_dbgmbox; not a listed property, observations only, always exit 0 unless the machinery fails)",
                "path": "/verif/harness/sys_dbgmbox.py",
                "serves_properties": [],
                "kind_free_text": "spec/SYS/DbgMbox.tla: design model device || DebugMailboxCommand.run as built || failing probe, model checked (host as built refuted); spec/SYS/DbgMboxTrace.tla: register accesses of the real code through a probe twin validated by TLC; results in evidence/extras/sys_dbgmbox.json",
            },
        ] + [
            {
                "name": f"extras: {title} (./check sys_{slug}; not a listed property, observations only, always exit 0 unless the machinery fails)",
                "path": f"/verif/harness/sys_{slug}.py",
                "serves_properties": [],
                "kind_free_text": text + f"; results in evidence/extras/sys_{slug}.json, write-up tools/findings/SYS-{slug}.md",
            }
            for slug, title, text in EXTRAS
            if os.path.exists(os.path.join(ROOT, "harness", f"sys_{slug}.py"))
        ],
        "checks": checks,
        "not_applicable": na,
        "notes": "Exit codes of ./check: 0 property held on everything explored, 1 VIOLATION (replay file written), 2 machinery failure. known_findings.jsonl lists known/fixed findings.",
    }
    with open(os.path.join(ROOT, "MANIFEST.json"), "w") as f:
        json.dump(m, f, indent=1)
    print(f"{len(checks)} checks, {len(na)} not claimed")


if __name__ == "__main__":
    main()
