#!/usr/bin/env python3
"""Runs the repository's pinned test command and compares with /root/.vp/BASELINE.json (stable_pass must still pass)."""
import json, subprocess, sys, xml.etree.ElementTree as ET, ast
out = sys.argv[1] if len(sys.argv) > 1 else "/tmp/baseline.junit.xml"
extra = sys.argv[2:]
cmd = ["/venv/bin/python", "-m", "pytest", "-ra", "-q", "-p", "no:cacheprovider", "--timeout=900", "--continue-on-collection-errors", f"--junitxml={out}"] + extra
subprocess.run(cmd, cwd="/repo", stdout=subprocess.DEVNULL, stderr=subprocess.DEVNULL)
b = json.load(open("/root/.vp/BASELINE.json"))
stable = b["stable_pass"]
if isinstance(stable, str):
    stable = ast.literal_eval(stable)
passed = set()
for tc in ET.parse(out).getroot().iter("testcase"):
    if not any(c.tag in ("failure", "error", "skipped") for c in tc):
        passed.add(f"{tc.get('classname')}::{tc.get('name')}")
missing = [t for t in stable if t not in passed]
print(f"baseline stable_pass: {len(stable)}; passed now: {len(passed)}; stable tests not passing now: {len(missing)}")
for t in missing[:40]:
    print("  MISSING", t)
