--------------------------- MODULE FlashEncTrace ---------------------------
(* TV form of C13.  One trace = one case (Traces[tid].case, the configuration handed to SPSDK, in cells) plus the   *)
(* events the independent engine model logged while it worked on what SPSDK exported:                               *)
(*   kind "kb"  : Blob(j, authOk, crcOk, lo, hi, vld, ade, keyOk, ctrOk, attrOk)* EndLoad(n)   - ROM loads the key blobs *)
(*   kind "img" : Cell(k, a, n, ctx, dec, inp, ok)* EndFetch(outLen)                          - engine reads the image  *)
(*   kind "loc" : Local(s, ok)* EndLocal                                                      - whole = pieces           *)
(* Every logged number (addresses as limbs, byte counts, selected context, cipher input) is recomputed by FlashEnc. *)
(* A cell that reaches into the undocumented range of an additive counter (IEE AES-CTR word + address >> 4 >= 2^32, *)
(* recomputed from the configured word case.regs[j].wh/wl) is a FetchUnsettled step: everything but `ok` is demanded; *)
(* the Local events of such a case are demanded like all others (whole = pieces does not depend on an engine model). *)
(* A call that SPSDK refused or that crashed is logged as Refused / Crash: no action matches, the trace is rejected. *)
EXTENDS FlashEnc, Json, IOUtils
Traces == ndJsonDeserialize(IOEnv.TRACE_FILE)
VARIABLES tid, l
T == Traces[tid].ev
E == T[l]
Is(e) == l <= Len(T) /\ E.e = e
Adv == l' = l + 1 /\ UNCHANGED tid
StartPhase(k) == CASE k = "kb" -> "load" [] k = "img" -> "fetch" [] OTHER -> "local"
TInit == /\ tid \in 1..Len(Traces) /\ l = 1
         /\ c = Traces[tid].case
         /\ phase = StartPhase(Traces[tid].kind)
         /\ loaded = 0
         /\ pc = IF Traces[tid].kind = "img" THEN FirstCell(Traces[tid].case) ELSE 0
         /\ TLCSet(tid, 1)
TBlob == Is("Blob") /\ (LoadBlob(E) \/ LoadFiller(E)) /\ Adv
TEndLoad == Is("EndLoad") /\ EndLoad(E) /\ Adv
TCell == Is("Cell") /\ (FetchDecrypt(E) \/ FetchUnsettled(E) \/ FetchBypass(E) \/ FetchMiss(E)) /\ Adv
TEndFetch == Is("EndFetch") /\ EndFetch(E) /\ Adv
TLocal == Is("Local") /\ Local(E) /\ Adv
TEndLocal == Is("EndLocal") /\ EndLocal(E) /\ Adv
TNext == TBlob \/ TEndLoad \/ TCell \/ TEndFetch \/ TLocal \/ TEndLocal
Constr == IF TLCGet(tid) < l THEN TLCSet(tid, l) ELSE TRUE
Post == \A i \in 1..Len(Traces) :
          \/ TLCGet(i) - 1 = Len(Traces[i].ev)
          \/ PrintT(<<"REJ", Traces[i].id, TLCGet(i) - 1, Len(Traces[i].ev),
                      Traces[i].ev[IF TLCGet(i) <= Len(Traces[i].ev) THEN TLCGet(i) ELSE Len(Traces[i].ev)].e>>)
=============================================================================
