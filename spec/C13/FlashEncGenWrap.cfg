CONSTANTS NCells = 12
 Unit = 4
 MaxCtx = 2
INIT WInit
NEXT WNext
INVARIANT Emit
CHECK_DEADLOCK FALSE
