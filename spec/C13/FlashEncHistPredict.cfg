CONSTANTS Depth = 2
 Impl = "inplace"
SPECIFICATION Spec
INVARIANT NeverRejected
CHECK_DEADLOCK FALSE
