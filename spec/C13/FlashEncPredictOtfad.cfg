CONSTANTS NCells = 12
 Unit = 4
 MaxCtx = 2
 CellBytes = 256
 Tails = {0}
 Subs = {0}
 Engines = {"otfad"}
 Wraps = {}
SPECIFICATION Spec
INVARIANT WalkAnyBase
CHECK_DEADLOCK FALSE
