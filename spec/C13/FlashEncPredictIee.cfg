CONSTANTS NCells = 12
 Unit = 4
 MaxCtx = 2
 CellBytes = 1024
 Tails = {0}
 Subs = {0}
 Engines = {"iee"}
 Wraps = {}
SPECIFICATION Spec
INVARIANT WalkIeeInclusiveEnd
CHECK_DEADLOCK FALSE
