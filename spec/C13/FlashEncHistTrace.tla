------------------------- MODULE FlashEncHistTrace -------------------------
(* TV form of the history layer of C13.  One trace = one OBJECT: Traces[tid].case is the configuration it was built from   *)
(* (as in FlashEncTrace, plus `cls`, the engine class), the events are the requests it answered, in order:                  *)
(*   Export(i, dig, cells, outLen)   BinaryImage(i, dig, cells, outLen, blobs)   ExportKeyBlobs(i, blobs)                   *)
(*   cells = what the engine model (holding the CONFIGURED keys) logged while reading the delivered image, one record per  *)
(*           cell as in a Cell event of FlashEncTrace;  dig = SHA-256 prefix of the delivered image over the plaintext's    *)
(*           extent, as four 16-bit limbs;  blobs = what the ROM model logged while loading the delivered key blobs.        *)
(* FlashEncHist recomputes every logged number, keeps the digest of the first image and demands it of every later one.      *)
(* A request SPSDK refused or that crashed is logged as Refused / Crash: no step matches, the trace is rejected.            *)
EXTENDS FlashEncHist, Json, IOUtils
Traces == ndJsonDeserialize(IOEnv.TRACE_FILE)
VARIABLES tid, l
T == Traces[tid].ev
E == T[l]
Is(e) == l <= Len(T) /\ E.e = e
Adv == l' = l + 1 /\ UNCHANGED tid
TInit == /\ tid \in 1..Len(Traces) /\ l = 1
         /\ c = Traces[tid].case
         /\ phase = "hist" /\ loaded = 0 /\ pc = 0
         /\ hn = 0 /\ first = NoDigest
         /\ TLCSet(tid, 1)
TExport == Is("Export") /\ HExport(E) /\ Adv
TBinaryImage == Is("BinaryImage") /\ HBinaryImage(E) /\ Adv
TExportKeyBlobs == Is("ExportKeyBlobs") /\ HExportKeyBlobs(E) /\ Adv
TNext == TExport \/ TBinaryImage \/ TExportKeyBlobs
Constr == IF TLCGet(tid) < l THEN TLCSet(tid, l) ELSE TRUE
Post == \A i \in 1..Len(Traces) :
          \/ TLCGet(i) - 1 = Len(Traces[i].ev)
          \/ PrintT(<<"REJ", Traces[i].id, TLCGet(i) - 1, Len(Traces[i].ev),
                      Traces[i].ev[IF TLCGet(i) <= Len(Traces[i].ev) THEN TLCGet(i) ELSE Len(Traces[i].ev)].e>>)
=============================================================================
