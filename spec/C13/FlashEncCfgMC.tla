--------------------------- MODULE FlashEncCfgMC ---------------------------
(* C13, configuration lane: from a DESCRIPTION of two BEE engines to the region headers the ROM programs them with.   *)
(* R: engine e is programmed with exactly the regions the description gives for e (Programmed) - this is what the      *)
(*    executor of the configuration lane holds the exported headers against (FlashEncGenCfg.entry, FlashEncTrace).    *)
(* I: the builder's loop - one turn per selected engine: take a protect-region block, make a header that KEEPS it,     *)
(*    add the engine's regions to the block.  Two designs of "take a block":                                           *)
(*      "fresh"   a new block in every turn                      -> HeadersAsConfigured holds (FlashEncCfgMC.cfg)      *)
(*      "hoisted" one block made in front of the loop (nothing in its constructor depends on the engine)              *)
(*                                                               -> refuted (FlashEncCfgPredict.cfg must FAIL):       *)
(*                both headers keep the same block, both list the union of the regions.                               *)
(* The harness reaches that class with real configurations: engine_selection both x two generated entries.            *)
EXTENDS Naturals, FiniteSets, TLC
CONSTANTS Design, NReg
Regs == 1..NReg
Engines == {0, 1}
VARIABLES assign,   \* the description: the engine every region is configured for
          heap,     \* protect-region blocks: id -> regions in their FAC list
          hdr,      \* engine -> id of the block its header keeps (0 = no header)
          todo,     \* engines the loop has still to visit
          nobj      \* blocks made so far
vars == <<assign, heap, hdr, todo, nobj>>

Selected(a) == {a[r] : r \in Regs}
Programmed(a, e) == {r \in Regs : a[r] = e}

Init == /\ assign \in [Regs -> Engines]
        /\ heap = [i \in 1..2 |-> {}]
        /\ hdr = [e \in Engines |-> 0]
        /\ todo = Selected(assign)
        /\ nobj = IF Design = "hoisted" THEN 1 ELSE 0
Turn == /\ todo # {}
        /\ LET e == CHOOSE x \in todo : \A y \in todo : x <= y
               obj == IF Design = "hoisted" THEN 1 ELSE nobj + 1 IN
             /\ hdr' = [hdr EXCEPT ![e] = obj]
             /\ heap' = [heap EXCEPT ![obj] = @ \cup Programmed(assign, e)]     \* add_fac mutates the block the header keeps
             /\ nobj' = obj
             /\ todo' = todo \ {e}
        /\ UNCHANGED assign
Done == todo = {} /\ UNCHANGED vars
Next == Turn \/ Done
\* what the ROM programs engine e with = the FAC list of the block the exported header of e was made from
HeadersAsConfigured ==
  todo = {} => \A e \in Engines : IF e \in Selected(assign) THEN hdr[e] # 0 /\ heap[hdr[e]] = Programmed(assign, e) ELSE hdr[e] = 0
=============================================================================
