CONSTANTS Depth = 4
 Impl = "fresh"
SPECIFICATION Spec
INVARIANT NeverRejected
INVARIANT AllEqualFirst
INVARIANT FirstIsFirst
INVARIANT Counts
INVARIANT AlphabetOK
INVARIANT Emit
CHECK_DEADLOCK FALSE
