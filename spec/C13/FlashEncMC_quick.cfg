CONSTANTS NCells = 8
 Unit = 4
 MaxCtx = 2
 CellBytes = 256
 Tails = {0, 17}
 Subs = {0, 16}
 Engines = {"otfad", "iee", "ieectr"}
 Wraps = {0, 17, 70}
SPECIFICATION Spec
INVARIANT CellsPartition
INVARIANT OwnerUnique
INVARIANT EngineLocal
INVARIANT AddrOK
INVARIANT ShrOK
INVARIANT Finished
INVARIANT CutsInside
INVARIANT WrapRecomputed
INVARIANT SettledExact
INVARIANT NoWrapAllAsserted
INVARIANT CutsIgnoreCounters
INVARIANT CutBehindWrap
INVARIANT WalkAligned
INVARIANT WalkIeeExclusiveEnd
CHECK_DEADLOCK FALSE
