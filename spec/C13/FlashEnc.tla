------------------------------ MODULE FlashEnc ------------------------------
(* C13 - the on-the-fly decryption engines (OTFAD, BEE, IEE) at cell granularity.  R-spec.               *)
(*                                                                                                        *)
(* Memory is a row of cells (one cell = C bytes, `unit` cells = one engine unit: 1 KiB for OTFAD / BEE,   *)
(* one 4 KiB page for IEE).  A case `c` fixes                                                             *)
(*   regs  : the contexts / FAC regions / key-blob regions  [lo, hi (cells, inclusive), vld, ade, chk, inp, wh, wl] *)
(*           wh, wl = the configured initial value W = wh * 65536 + wl of an ADDITIVE counter word (IEE AES-CTR: *)
(*           counter word = W + address >> 4); 0, 0 where the engine adds nothing (OTFAD: the address itself,    *)
(*           BEE: the word is zero by format, XTS: page number)                                                 *)
(*   nrec  : number of key-blob records the boot ROM loads (records beyond Len(regs) must stay invalid)   *)
(*   base, sub, len : the image occupies the bytes  base*C + sub .. + len - 1  of the window              *)
(*   oh, ol : window origin = oh * 65536 + ol  (addresses are pairs of 16-bit limbs: TLC integers are 32 bit) *)
(*   salign, rule : which cuts of the image the locality clause is checked for ("all" cell boundaries,    *)
(*                  "units" = unit boundaries only, "edges" = unit boundaries + first and last boundary)   *)
(* What is NOT SPSDK's to change: which context answers a fetch (first valid context whose range contains *)
(* the ABSOLUTE address), whether it decrypts (ADE / mode), and which address-derived value enters the    *)
(* cipher (OTFAD: the address itself, BEE / IEE-CTR: address >> 4, IEE-XTS: page number).                 *)
(* The byte-level fact "engine output = plaintext" is computed by the executor with an independent AES    *)
(* and arrives here as `ok`; the spec demands it for every cell, inside and outside the ranges.            *)
EXTENDS Naturals, Sequences, FiniteSets, TLC

VARIABLES c,       \* the case (never changes)
          phase,   \* "load" -> "fetch" -> "local" -> "done"
          loaded,  \* key-blob records loaded so far
          pc       \* fetch phase: next cell;  local phase: last cut handled
vars == <<c, phase, loaded, pc>>

Min(a, b) == IF a <= b THEN a ELSE b
Max(a, b) == IF a >= b THEN a ELSE b

\* ---------------------------------------------------------------- geometry
ImgLo(cs) == cs.base * cs.C + cs.sub
ImgHi(cs) == ImgLo(cs) + cs.len                                   \* exclusive
FirstCell(cs) == ImgLo(cs) \div cs.C
LastCell(cs) == (ImgHi(cs) - 1) \div cs.C                          \* only used when len > 0
ImgCells(cs) == IF cs.len = 0 THEN {} ELSE FirstCell(cs)..LastCell(cs)
CellLo(cs, k) == Max(k * cs.C, ImgLo(cs))                         \* first image byte in cell k
CellN(cs, k) == Min((k + 1) * cs.C, ImgHi(cs)) - CellLo(cs, k)    \* image bytes in cell k
Addr(cs, off) == <<cs.oh + (cs.ol + off) \div 65536, (cs.ol + off) % 65536>>
Shr(cs, off, bits) == cs.oh * (65536 \div bits) + (cs.ol + off) \div bits   \* (origin + off) \div bits, bits | 65536

\* ---------------------------------------------------------------- the engine
RegIdx(cs) == DOMAIN cs.regs
Hit(cs, j, k) == cs.regs[j].vld /\ cs.regs[j].lo <= k /\ k <= cs.regs[j].hi
Owner(cs, k) == IF \E j \in RegIdx(cs) : Hit(cs, j, k)
                THEN CHOOSE j \in RegIdx(cs) : Hit(cs, j, k) /\ \A i \in RegIdx(cs) : Hit(cs, i, k) => j <= i
                ELSE 0
Dec(cs, k) == Owner(cs, k) # 0 /\ cs.regs[Owner(cs, k)].ade
Inp(cs, k) == IF ~Dec(cs, k) THEN <<0, 0>>
              ELSE LET kind == cs.regs[Owner(cs, k)].inp
                       off  == CellLo(cs, k) IN
                   CASE kind = "addr" -> Addr(cs, off)
                     [] kind = "shr4" -> <<Shr(cs, off, 16), 0>>
                     [] kind = "page" -> <<Shr(cs, off, 4096), 0>>
                     [] OTHER -> <<0, 0>>
\* ---------------------------------------------------------------- additive counters and the end of their documented range
\* The counter word of IEE AES-CTR is W + (address >> 4).  What the engine does when that sum reaches 2^32 (wrap inside the word,
\* carry into the nonce) is not documented offline: "engine output = plaintext" is SETTLED only for blocks whose sum stays below
\* 2^32.  WrapBlk = number of 16-byte blocks from the window origin to the first block whose sum is 2^32 (may be <= 0), computed
\* on limbs: 2^32 - W = (65535 - wh) * 65536 + (65536 - wl).  address >> 4 < 2^28, so W < 0xC0000000 can never get there.
\* (The LOCALITY clause below says nothing about any engine: it is demanded for every cut, settled or not.)
NoWrap == 1073741824
WrapBlk(cs, j) == LET r == cs.regs[j] IN
                  IF r.inp # "shr4" \/ r.wh < 49152 THEN NoWrap
                  ELSE ((65535 - r.wh) * 65536 + (65536 - r.wl)) - (cs.oh * 4096 + (cs.ol \div 16))
LastBlk(cs, k) == (CellLo(cs, k) + CellN(cs, k) - 1) \div 16                  \* last 16-byte block of cell k that holds image bytes
Settled(cs, k) == Owner(cs, k) = 0 \/ LastBlk(cs, k) < WrapBlk(cs, Owner(cs, k))
\* FALSE only for modes the property does not describe and for cells that reach into the undocumented range of an additive counter
Asserted(cs, k) == Owner(cs, k) = 0 \/ (cs.regs[Owner(cs, k)].chk /\ Settled(cs, k))
ExpCell(cs, k) == [a |-> Addr(cs, CellLo(cs, k)), n |-> CellN(cs, k), ctx |-> Owner(cs, k), dec |-> Dec(cs, k), inp |-> Inp(cs, k)]

\* ---------------------------------------------------------------- locality: admissible cuts (cell indices)
Cuts(cs) == IF cs.len = 0 THEN {}
            ELSE LET all == {s \in (FirstCell(cs) + 1)..LastCell(cs) : s % cs.salign = 0} IN
                 CASE cs.rule = "all" \/ all = {} -> all
                   [] cs.rule = "units" -> {s \in all : s % cs.unit = 0}
                   [] OTHER -> {s \in all : s % cs.unit = 0 \/ (\A t \in all : s <= t) \/ (\A t \in all : t <= s)}
NextCut(cs, last) == IF \E s \in Cuts(cs) : s > last
                     THEN CHOOSE s \in Cuts(cs) : s > last /\ \A t \in Cuts(cs) : t > last => s <= t
                     ELSE 0

\* ---------------------------------------------------------------- the clauses on ONE observation (no run state: shared by the
\* phase automaton below and by the history layer FlashEncHist, where every export of one object is held against them)
\* record o.j unwraps authentic (RFC 3394 IV / tag), with a valid CRC, to exactly the configured context
BlobOK(cs, o) ==
  /\ o.authOk /\ o.crcOk
  /\ o.j \in 1..Len(cs.regs)
  /\ LET r == cs.regs[o.j] IN
       /\ o.lo = Addr(cs, r.lo * cs.C) /\ o.hi = Addr(cs, (r.hi + 1) * cs.C - 1)
       /\ o.vld = r.vld /\ o.ade = r.ade
       /\ o.keyOk /\ o.ctrOk /\ o.attrOk
FillerOK(cs, o) == o.j > Len(cs.regs) /\ ~o.vld
\* the engine read cell k: address, byte count, selected context, decryption, cipher input as the engine has them; output = plaintext
CellOK(cs, k, o) ==
  /\ o.k = k
  /\ LET x == ExpCell(cs, k) IN o.a = x.a /\ o.n = x.n /\ o.ctx = x.ctx /\ o.dec = x.dec /\ o.inp = x.inp
  /\ (Asserted(cs, k) => o.ok)

\* ---------------------------------------------------------------- actions (o = what was observed)
Keep == UNCHANGED c
\* the ROM unwraps record j: authentic (RFC 3394 IV / tag), CRC valid, and it carries exactly the configured context
LoadBlob(o) ==
  /\ phase = "load" /\ loaded < c.nrec /\ o.j = loaded + 1
  /\ BlobOK(c, o)
  /\ loaded' = loaded + 1 /\ UNCHANGED <<phase, pc>> /\ Keep
\* records that exist only to fill the table must not create a context
LoadFiller(o) ==
  /\ phase = "load" /\ loaded < c.nrec /\ o.j = loaded + 1
  /\ FillerOK(c, o)
  /\ loaded' = loaded + 1 /\ UNCHANGED <<phase, pc>> /\ Keep
EndLoad(o) ==
  /\ phase = "load" /\ loaded = c.nrec /\ o.n = c.nrec
  /\ phase' = "fetch" /\ pc' = FirstCell(c) /\ UNCHANGED loaded /\ Keep

FetchCommon(o) ==
  /\ phase = "fetch" /\ pc \in ImgCells(c)
  /\ CellOK(c, pc, o)
  /\ pc' = pc + 1 /\ UNCHANGED <<phase, loaded>> /\ Keep
FetchDecrypt(o) == Dec(c, pc) /\ Asserted(c, pc) /\ FetchCommon(o)            \* inside an enabled range: engine output = plaintext
FetchUnsettled(o) == Dec(c, pc) /\ ~Asserted(c, pc) /\ FetchCommon(o)         \* engine behaviour not documented: selection, address, cipher input only
FetchBypass(o)  == Owner(c, pc) # 0 /\ ~Dec(c, pc) /\ FetchCommon(o)          \* valid context without decryption: bytes as they are
FetchMiss(o)    == Owner(c, pc) = 0 /\ FetchCommon(o)                         \* outside every range: untouched
EndFetch(o) ==
  /\ phase = "fetch" /\ pc \notin ImgCells(c) /\ (c.len > 0 => pc = LastCell(c) + 1)
  /\ o.outLen >= c.len
  /\ phase' = "local" /\ pc' = 0 /\ UNCHANGED loaded /\ Keep

\* whole image = pieces encrypted at their own addresses, for every admissible cut, in increasing order.
\* This clause is independent of any engine model ("the result depends only on key material, absolute address and plaintext"):
\* it holds for every cut, also where a counter leaves its documented range (~Settled) - whatever the engine does there,
\* it does it to a 16-byte block at an address, not to "the rest of the call".
Local(o) ==
  /\ phase = "local" /\ NextCut(c, pc) # 0 /\ o.s = NextCut(c, pc)
  /\ o.ok
  /\ pc' = o.s /\ UNCHANGED <<phase, loaded>> /\ Keep
EndLocal(o) ==
  /\ phase = "local" /\ NextCut(c, pc) = 0 /\ o.n = Cardinality(Cuts(c))
  /\ phase' = "done" /\ UNCHANGED <<pc, loaded>> /\ Keep
=============================================================================
