CONSTANTS NCells = 16
 Unit = 4
 MaxCtx = 4
INIT GInit
NEXT GNext
INVARIANT Legal
INVARIANT Emit
CHECK_DEADLOCK FALSE
