--------------------------- MODULE FlashEncGenCfg ---------------------------
(* GEN form of C13 for the CONFIGURATION entry points (BeeNxp / OtfadNxp / IeeNxp.load_from_config and the           *)
(* `nxpimage bee|otfad|iee export` commands built on them).  The object route (FlashEncGen) hands SPSDK finished      *)
(* objects; here SPSDK builds the objects itself from a description, and what the schema allows to be MULTIPLE is the *)
(* case space: several key blobs / FAC regions, two BEE engines, one or two entries in `bee_engine`, entries that     *)
(* describe an engine by its regions ("gen": header generated) or by an existing header file ("bin"), the same key or *)
(* different keys in the entries, the image handed over as one data blob or as two adjacent ones.                     *)
(* TLC enumerates every shape once and prints it; it also computes - it is a fact about the configuration format, not *)
(* about SPSDK - WHICH entry describes WHICH engine (`entry`), so the expectation the hardware model is held against  *)
(* (engine e is programmed with the regions and the key of entry[e], and with nothing else) comes from here.          *)
EXTENDS FlashEncCases, TLC, Json, FiniteSets
VARIABLE g

OnSeqs  == {s \in RegSeqs : \A i \in DOMAIN s : s[i].fl = "on"}       \* BEE: a FAC region always decrypts
IeeSeqs == {s \in RegSeqs : \A i \in DOMAIN s : s[i].fl # "inv"}      \* IEE: a key blob decrypts or bypasses
KeyRels(n) == IF n > 1 THEN {"same", "diff"} ELSE {"one"}             \* n keys in the configuration: all equal / pairwise different

\* ---------------------------------------------------------------- BEE: two engines, `engine_selection`, 1..2 entries
Assign(s) == [DOMAIN s -> {0, 1}]                                     \* the engine every region belongs to
Used(a) == {a[i] : i \in DOMAIN a}
Sel(a) == IF Used(a) = {0} THEN "engine0" ELSE IF Used(a) = {1} THEN "engine1" ELSE "both"
NEnt(sel) == IF sel = "both" THEN {2} ELSE {1, 2}                      \* a second entry may be present without being selected
\* the entry (1-based position in `bee_engine`) that describes engine e; 0 = the engine is not selected.
\* "engine1" with a single entry: that entry describes engine 1 (the documented short form).
EntryOf(sel, nent, e) == CASE sel = "both" -> e + 1
                           [] sel = "engine0" -> IF e = 0 THEN 1 ELSE 0
                           [] OTHER -> IF e = 1 THEN (IF nent = 1 THEN 1 ELSE 2) ELSE 0
BeeOf(s, a) ==
  LET sel == Sel(a) IN
  UNION {{[eng |-> "bee", regs |-> s, slot |-> a, sel |-> sel, nent |-> n, kinds |-> k, keyrel |-> kr, ndata |-> 1,
           entry |-> <<EntryOf(sel, n, 0), EntryOf(sel, n, 1)>>] : k \in [1..n -> {"gen", "bin"}], kr \in KeyRels(n)} : n \in NEnt(sel)}
BeeShapes == UNION {UNION {BeeOf(s, a) : a \in Assign(s)} : s \in OnSeqs}

\* ---------------------------------------------------------------- OTFAD / IEE: a list of key blobs, a list of data blobs
FlatOf(e, s) == {[eng |-> e, regs |-> s, slot |-> [i \in DOMAIN s |-> 0], sel |-> "none", nent |-> Len(s), kinds |-> [i \in DOMAIN s |-> "gen"],
                  keyrel |-> kr, ndata |-> nd, entry |-> <<0, 0>>] : kr \in KeyRels(Len(s)), nd \in 1..2}
OtfadShapes == UNION {FlatOf("otfad", s) : s \in RegSeqs}
IeeShapes == UNION {FlatOf("iee", s) : s \in IeeSeqs}

GInit == g \in BeeShapes \cup OtfadShapes \cup IeeShapes
GNext == UNCHANGED g

\* ---------------------------------------------------------------- lemmas the executor relies on (checked on every shape)
\* every engine that owns a region is selected and described by exactly one existing entry; different engines by different
\* entries; an engine without regions is not selected (a region header without a FAC region cannot be exported)
Legal == g.eng = "bee" =>
           /\ \A e \in {0, 1} : (e \in Used(g.slot)) <=> (g.entry[e + 1] \in 1..g.nent)
           /\ \A e \in {0, 1} : e \notin Used(g.slot) => g.entry[e + 1] = 0
           /\ (g.entry[1] # 0 /\ g.entry[2] # 0) => g.entry[1] # g.entry[2]
           /\ (g.sel = "both") <=> (Used(g.slot) = {0, 1})
           /\ Len(g.kinds) = g.nent
Emit == PrintT(ToJson(g))
=============================================================================
