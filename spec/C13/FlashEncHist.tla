---------------------------- MODULE FlashEncHist ----------------------------
(* C13 - the HISTORY of one object.  R-spec, layered on FlashEnc.                                                          *)
(*                                                                                                                          *)
(* "The result depends only on (key material, absolute address, plaintext)" - hence not on what was done with the object   *)
(* before.  One object of an engine class (case field `cls`) is built from the case and then asked, any number of times and *)
(* in any order, for what it can deliver:                                                                                   *)
(*     Export          the encrypted image      Otfad / Iee .encrypt_image(image, base)   OtfadNxp / IeeNxp / BeeNxp .export_image() *)
(*     BinaryImage     key blobs + image        OtfadNxp / IeeNxp .binary_image()                                           *)
(*     ExportKeyBlobs  the key blobs            Otfad / Iee / OtfadNxp .encrypt_key_blobs()   IeeNxp.export_key_blobs()   BeeNxp.export_headers() *)
(* The clause: EVERY image an object delivers equals the FIRST one it delivered (byte for byte over the extent of the       *)
(* plaintext: the executor logs a digest, the spec keeps the first and compares) and is read back by the engine - which     *)
(* holds the CONFIGURED keys, not something taken from the object - exactly as FlashEnc demands for a single export         *)
(* (CellOK for every cell of the image: address, context, cipher input, output = plaintext inside the ranges, untouched     *)
(* outside); EVERY set of key blobs it delivers loads to the configured contexts (BlobOK / FillerOK), wherever in the       *)
(* history it was asked for.  Equality of the key-blob BYTES is not demanded (the property states what they unwrap to).     *)
EXTENDS FlashEnc

VARIABLES hn,      \* number of requests the object has answered
          first    \* digest of the first image it delivered; <<>> = none yet
hvars == <<hn, first>>

Classes == {"Otfad", "OtfadNxp", "BeeNxp", "Iee", "IeeNxp"}
NxpClasses == {"OtfadNxp", "IeeNxp"}                   \* the classes that deliver key blobs and image in one BinaryImage
EngineOf(cl) == CASE cl \in {"Otfad", "OtfadNxp"} -> "otfad" [] cl = "BeeNxp" -> "bee" [] OTHER -> "iee"
Ops(cl) == IF cl \in NxpClasses THEN {"Export", "BinaryImage", "ExportKeyBlobs"} ELSE {"Export", "ExportKeyBlobs"}
NoDigest == <<>>
DigestLen == 4                                          \* 16-bit limbs of a SHA-256 prefix (TLC integers are 32 bit)

\* an image the object delivered: read by the engine cell by cell, and the same bytes as the first one
ImgOK(o) ==
  /\ Len(o.cells) = Cardinality(ImgCells(c))
  /\ \A i \in DOMAIN o.cells : CellOK(c, FirstCell(c) + i - 1, o.cells[i])
  /\ o.outLen >= c.len
  /\ Len(o.dig) = DigestLen
  /\ (first # NoDigest => o.dig = first)
\* key blobs the object delivered: the ROM loads exactly the configured contexts, fillers create none
KbOK(o) ==
  /\ Len(o.blobs) = c.nrec
  /\ \A j \in DOMAIN o.blobs : o.blobs[j].j = j /\ (BlobOK(c, o.blobs[j]) \/ FillerOK(c, o.blobs[j]))

\* state predicates (what is demanded of the observation) ...
HReq(o, op) == o.i = hn + 1 /\ c.cls \in Classes /\ EngineOf(c.cls) = c.eng /\ op \in Ops(c.cls)
HExportOK(o) == HReq(o, "Export") /\ ImgOK(o)
HBinaryImageOK(o) == HReq(o, "BinaryImage") /\ ImgOK(o) /\ KbOK(o)
HExportKeyBlobsOK(o) == HReq(o, "ExportKeyBlobs") /\ KbOK(o)
\* ... and the steps
HStep == hn' = hn + 1 /\ UNCHANGED <<c, phase, loaded, pc>>
Remember(o) == first' = IF first = NoDigest THEN o.dig ELSE first
HExport(o) == HExportOK(o) /\ Remember(o) /\ HStep
HBinaryImage(o) == HBinaryImageOK(o) /\ Remember(o) /\ HStep
HExportKeyBlobs(o) == HExportKeyBlobsOK(o) /\ UNCHANGED first /\ HStep
=============================================================================
