CONSTANTS NCells = 12
 Unit = 4
 MaxCtx = 2
INIT GInit
NEXT GNext
INVARIANT Emit
CHECK_DEADLOCK FALSE
