CONSTANTS NCells = 12
 Unit = 4
 MaxCtx = 3
INIT GInit
NEXT GNext
INVARIANT Emit
CHECK_DEADLOCK FALSE
