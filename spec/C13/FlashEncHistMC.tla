--------------------------- MODULE FlashEncHistMC ---------------------------
(* MC + GEN form of the history layer of C13.                                                                               *)
(* The history is part of the state, so every sequence of requests is a distinct behaviour: TLC enumerates ALL histories of *)
(* at most Depth requests for every engine class, and prints every history of exactly Depth requests once (GEN: the harness *)
(* runs each of them on ONE real object per representative configuration).                                                  *)
(* The object is modelled by what it HOLDS: `held` = number of cipher layers on the image data inside it (0 = plaintext).   *)
(* An export delivers the held data with one more layer; the engine takes one layer off.  Two design variants (I-spec):     *)
(*    Impl = "fresh"   : an export works on a private copy - the object keeps the plaintext            (what the property needs) *)
(*    Impl = "inplace" : an export of an NXP-level object writes its result back into the data it holds (shallow copy)      *)
(* and two kinds of cipher:  "block" (XTS: layers add up, E(E(p)))  /  "xor" (CTR keystream: a second layer removes the first). *)
(* The observations this model produces are handed to the R-spec steps of FlashEncHist:  with "fresh" every history is      *)
(* accepted (NeverRejected, and the accepted images are all equal: AllEqualFirst); with "inplace" the SECOND image of a      *)
(* history is rejected - FlashEncHistPredict.cfg must end with NeverRejected violated (histories of length 2 suffice).      *)
EXTENDS FlashEncHist, Json
CONSTANTS Depth, Impl

VARIABLES cipher,    \* "block" / "xor"
          hist,      \* the requests so far
          held,      \* cipher layers on the data inside the object
          outs,      \* digest of every image delivered so far
          rejected   \* an observation was not a step of the R-spec
mvars == <<cipher, hist, held, outs, rejected>>

On(lo, hi) == [lo |-> lo, hi |-> hi, vld |-> TRUE, ade |-> TRUE, chk |-> TRUE, inp |-> "shr4", wh |-> 0, wl |-> 0]
Byp(lo, hi) == [lo |-> lo, hi |-> hi, vld |-> TRUE, ade |-> FALSE, chk |-> TRUE, inp |-> "none", wh |-> 0, wl |-> 0]
\* one small case per class: a decrypting region in front, a gap, a second region (bypassing; BEE: decrypting) - the image
\* starts inside the first region and ends inside the second
CaseOf(cl) == LET eng == EngineOf(cl)
                  rs  == IF eng = "bee" THEN <<On(0, 3), On(8, 11)>> ELSE <<On(0, 3), Byp(8, 11)>> IN
  [eng |-> eng, cls |-> cl, C |-> 256, unit |-> 4, oh |-> 2049, ol |-> 4096, regs |-> rs, nrec |-> IF eng = "bee" THEN 2 ELSE 4,
   base |-> 0, sub |-> 0, len |-> 9 * 256 + 17, salign |-> IF eng = "iee" THEN 4 ELSE 1, rule |-> "units"]

Apply(ci, n) == IF ci = "xor" THEN 1 - n ELSE n + 1          \* one more layer ("xor": layers counted modulo 2)
Plain(ci, n) == n = 1                                         \* the engine takes one layer off: plaintext iff exactly one layer

Init == /\ c \in {CaseOf(cl) : cl \in Classes} /\ cipher \in {"block", "xor"}
        /\ phase = "hist" /\ loaded = 0 /\ pc = 0 /\ hn = 0 /\ first = NoDigest
        /\ hist = <<>> /\ held = 0 /\ outs = <<>> /\ rejected = FALSE

\* ---------------------------------------------------------------- what the modelled object delivers
ImgLayers == Apply(cipher, held)
ObsCells == [i \in 1..Cardinality(ImgCells(c)) |->
               LET k == FirstCell(c) + i - 1 IN [k |-> k, ok |-> (~Dec(c, k)) \/ Plain(cipher, ImgLayers)] @@ ExpCell(c, k)]
ObsBlobs == [j \in 1..c.nrec |->
               IF j <= Len(c.regs)
               THEN LET r == c.regs[j] IN
                    [j |-> j, authOk |-> TRUE, crcOk |-> TRUE, lo |-> Addr(c, r.lo * c.C), hi |-> Addr(c, (r.hi + 1) * c.C - 1),
                     vld |-> r.vld, ade |-> r.ade, keyOk |-> TRUE, ctrOk |-> TRUE, attrOk |-> TRUE]
               ELSE [j |-> j, authOk |-> TRUE, crcOk |-> TRUE, lo |-> <<0, 0>>, hi |-> <<0, 0>>,
                     vld |-> FALSE, ade |-> FALSE, keyOk |-> TRUE, ctrOk |-> TRUE, attrOk |-> TRUE]]
Obs(op) == [e |-> op, i |-> hn + 1,
            dig |-> IF op = "ExportKeyBlobs" THEN <<>> ELSE <<ImgLayers, 0, 0, 0>>,
            cells |-> IF op = "ExportKeyBlobs" THEN <<>> ELSE ObsCells,
            outLen |-> IF op = "ExportKeyBlobs" THEN 0 ELSE c.len,
            blobs |-> IF op = "Export" THEN <<>> ELSE ObsBlobs]
WritesBack == Impl = "inplace" /\ c.cls \in NxpClasses
AfterImage == /\ held' = IF WritesBack THEN ImgLayers ELSE held
              /\ outs' = Append(outs, ImgLayers)
May(op) == hn < Depth /\ ~rejected /\ op \in Ops(c.cls)
Reject == rejected' = TRUE /\ UNCHANGED <<vars, hvars, cipher, hist, held, outs>>
Rec(op) == hist' = Append(hist, op) /\ UNCHANGED <<cipher, rejected>>

DoExport == /\ May("Export")
            /\ IF HExportOK(Obs("Export")) THEN HExport(Obs("Export")) /\ AfterImage /\ Rec("Export") ELSE Reject
DoBinaryImage == /\ May("BinaryImage")
                 /\ IF HBinaryImageOK(Obs("BinaryImage")) THEN HBinaryImage(Obs("BinaryImage")) /\ AfterImage /\ Rec("BinaryImage") ELSE Reject
DoExportKeyBlobs == /\ May("ExportKeyBlobs")
                    /\ IF HExportKeyBlobsOK(Obs("ExportKeyBlobs"))
                       THEN HExportKeyBlobs(Obs("ExportKeyBlobs")) /\ UNCHANGED <<held, outs>> /\ Rec("ExportKeyBlobs") ELSE Reject
Next == DoExport \/ DoBinaryImage \/ DoExportKeyBlobs
Spec == Init /\ [][Next]_<<vars, hvars, mvars>>

\* ---------------------------------------------------------------- lemmas
NeverRejected == ~rejected
\* what the R-spec accepted satisfies the clause as stated: all images of a history are the first one, and each is one layer
AllEqualFirst == \A i \in DOMAIN outs : outs[i] = outs[1] /\ Plain(cipher, outs[i])
\* the register `first` is the first image and nothing else
FirstIsFirst == IF outs = <<>> THEN first = NoDigest ELSE first = <<outs[1], 0, 0, 0>>
Counts == hn = Len(hist) /\ Len(outs) = Cardinality({i \in DOMAIN hist : hist[i] # "ExportKeyBlobs"})
\* requests outside the alphabet of a class are no step (a low-level class has no BinaryImage)
AlphabetOK == \A i \in DOMAIN hist : hist[i] \in Ops(c.cls)
\* GEN: every complete history once per class
Emit == (hn = Depth /\ cipher = "block" /\ ~rejected) => PrintT(ToJson([cls |-> c.cls, hist |-> hist]))
=============================================================================
