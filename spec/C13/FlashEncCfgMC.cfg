CONSTANTS Design = "fresh"
 NReg = 3
INIT Init
NEXT Next
INVARIANT HeadersAsConfigured
CHECK_DEADLOCK FALSE
