-------------------------- MODULE FlashEncGenWrap --------------------------
(* Second GEN form of C13: the cases around the END OF THE DOCUMENTED RANGE OF AN ADDITIVE COUNTER (IEE AES-CTR with address    *)
(* binding: counter word = W + address >> 4).  TLC enumerates, in cells: the regions (IEE: decrypting or bypassing, never     *)
(* "not valid"), the unit-aligned base cell, the length in cells, the decrypting region `wr` whose counter word reaches 2^32,  *)
(* and the cell `wc` INSIDE THE IMAGE AND INSIDE THAT REGION in which it does so.  Derived classes printed with every case:     *)
(*   inside : the image lies completely in region wr (the key blob's own encrypt entry point may be driven with the image)     *)
(*   beyond : the image goes on behind the engine unit of the wrap (a unit-aligned cut behind the wrap point exists:           *)
(*            lemma CutBehindWrap of FlashEncMC)                                                                               *)
(* The harness picks the 16-byte block inside the cell, the CTR key size, the modes of the other regions and the API level.    *)
EXTENDS FlashEncCases, TLC, Json
VARIABLE g
IeeSeqs == {rs \in RegSeqs : \A i \in DOMAIN rs : rs[i].fl # "inv"}
Min2(a, b) == IF a <= b THEN a ELSE b
Max2(a, b) == IF a >= b THEN a ELSE b
Mk(rs, b, lc, wr, wc) ==
  [regs |-> rs, base |-> b, lc |-> lc, wr |-> wr, wc |-> wc,
   inside |-> (rs[wr].lo <= b /\ b + lc - 1 <= rs[wr].hi),
   beyond |-> (b + lc > (wc \div Unit + 1) * Unit)]
\* the wrap cell lies in the region wr (a decrypting one) and in the image
WCases == UNION {UNION {UNION {UNION {{Mk(rs, b, lc, wr, wc) : wc \in Max2(rs[wr].lo, b)..Min2(rs[wr].hi, b + lc - 1)}
                                      : wr \in {i \in DOMAIN rs : rs[i].fl = "on"}}
                               : lc \in 1..(NCells - b)}
                        : b \in {x \in 0..(NCells - 1) : x % Unit = 0}}
                 : rs \in IeeSeqs}
WInit == g \in WCases
WNext == UNCHANGED g
Emit == PrintT(ToJson(g))
=============================================================================
