--------------------------- MODULE FlashEncCases ---------------------------
(* The structural case space of C13 in cells: 1..MaxCtx unit-aligned, pairwise disjoint regions (each decrypting,   *)
(* valid-but-bypassing or not valid) in a window of NCells cells.  Shared by the MC form and the GEN form.          *)
EXTENDS Naturals, Sequences
CONSTANTS NCells,      \* window size in cells
          Unit,        \* cells per engine unit
          MaxCtx       \* regions per case (1..MaxCtx)
Ranges == {r \in (0..(NCells - 1)) \X (0..(NCells - 1)) : r[1] % Unit = 0 /\ (r[2] + 1) % Unit = 0 /\ r[1] <= r[2]}
Flags == {"on", "byp", "inv"}          \* decrypting / valid but bypassing / not valid
RegChoices == {[lo |-> r[1], hi |-> r[2], fl |-> f] : r \in Ranges, f \in Flags}
\* ordered by address, pairwise disjoint (the property's quantifier; the order of the key blobs is permuted at concretisation)
RegSeqs == UNION {{s \in [1..n -> RegChoices] : \A i \in 1..(n - 1) : s[i].hi < s[i + 1].lo} : n \in 1..MaxCtx}
=============================================================================
