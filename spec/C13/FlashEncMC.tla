----------------------------- MODULE FlashEncMC -----------------------------
(* MC form of C13: the abstract case space (region placements x bases x lengths x tails x engines), the   *)
(* engine run over every case with the values the spec itself expects, lemmas about the geometry that the  *)
(* trace form relies on, and - as I-spec - SPSDK's chunk walk, model-checked against the engine.           *)
EXTENDS FlashEnc, FlashEncCases
CONSTANTS CellBytes,   \* bytes per cell
          Tails,       \* byte tails of the image length
          Subs,        \* byte offsets of the base inside its cell (multiples of 16)
          Engines,     \* subset of {"otfad", "bee", "iee", "ieectr"}   (iee = AES-XTS, ieectr = AES-CTR with address binding)
          Wraps        \* ieectr: where the additive counter word reaches 2^32, in 16-byte blocks from the window origin (NoneAt = nowhere)

NoneAt == 99999
OH == 2049
OL == 4096
O4 == OH * 4096 + (OL \div 16)                                       \* origin >> 4
IsIee(eng) == eng \in {"iee", "ieectr"}
InpOf(eng) == CASE eng = "otfad" -> "addr" [] eng \in {"bee", "ieectr"} -> "shr4" [] OTHER -> "page"
\* the initial counter word W with  W + O4 + d = 2^32,  as limbs: W = (2^32 - 1) - (O4 + d - 1)
WordFor(d) == IF d = NoneAt THEN [wh |-> 0, wl |-> 0]
              ELSE [wh |-> 65535 - ((O4 + d - 1) \div 65536), wl |-> 65535 - ((O4 + d - 1) % 65536)]
MkReg(eng, r, d) == [lo |-> r.lo, hi |-> r.hi, vld |-> r.fl # "inv", ade |-> r.fl = "on", chk |-> TRUE, inp |-> InpOf(eng),
                     wh |-> WordFor(d).wh, wl |-> WordFor(d).wl]
MkCase(eng, rs, b, sub, lc, tail, d) ==
  [eng |-> eng, C |-> CellBytes, unit |-> Unit, oh |-> OH, ol |-> OL,
   regs |-> [i \in DOMAIN rs |-> MkReg(eng, rs[i], d)], nrec |-> Len(rs) + 1,
   base |-> b, sub |-> sub, len |-> lc * CellBytes + tail,
   salign |-> IF IsIee(eng) THEN Unit ELSE 1, rule |-> "all", wrapAt |-> d]
\* engine-specific part of the quantifier: IEE data addresses are page aligned and its regions are never "not valid";
\* a BEE FAC region is always on
Admissible(eng, rs, b, sub) ==
  /\ (IsIee(eng) => b % Unit = 0 /\ sub = 0 /\ \A i \in DOMAIN rs : rs[i].fl # "inv")
  /\ (eng = "bee" => \A i \in DOMAIN rs : rs[i].fl = "on")
Fits(cs) == ImgHi(cs) <= NCells * CellBytes

Init == /\ \E eng \in Engines, rs \in RegSeqs, b \in 0..(NCells - 1), sub \in Subs, lc \in 0..NCells, tail \in Tails, d \in Wraps \cup {NoneAt} :
             /\ Admissible(eng, rs, b, sub)
             /\ (eng # "ieectr" => d = NoneAt)
             /\ c = MkCase(eng, rs, b, sub, lc, tail, d)
        /\ Fits(c)
        /\ phase = "load" /\ loaded = 0 /\ pc = 0

\* the engine run with exactly the expected observations (what a conforming implementation produces)
ExpBlob(j) == LET r == c.regs[j] IN
  [j |-> j, authOk |-> TRUE, crcOk |-> TRUE, lo |-> Addr(c, r.lo * c.C), hi |-> Addr(c, (r.hi + 1) * c.C - 1),
   vld |-> r.vld, ade |-> r.ade, keyOk |-> TRUE, ctrOk |-> TRUE, attrOk |-> TRUE]
ExpFetch(k) == [k |-> k, ok |-> TRUE] @@ ExpCell(c, k)
DoLoadBlob == loaded + 1 <= Len(c.regs) /\ \E o \in {ExpBlob(loaded + 1)} : LoadBlob(o)
DoLoadFiller == \E o \in {[j |-> loaded + 1, vld |-> FALSE]} : LoadFiller(o)
DoEndLoad == \E o \in {[n |-> c.nrec]} : EndLoad(o)
DoFetchDecrypt == \E o \in {ExpFetch(pc)} : FetchDecrypt(o)
DoFetchUnsettled == \E o \in {[ExpFetch(pc) EXCEPT !.ok = FALSE]} : FetchUnsettled(o)   \* `ok` is not demanded there
DoFetchBypass == \E o \in {ExpFetch(pc)} : FetchBypass(o)
DoFetchMiss == \E o \in {ExpFetch(pc)} : FetchMiss(o)
DoEndFetch == \E o \in {[outLen |-> c.len]} : EndFetch(o)
DoLocal == \E o \in {[s |-> NextCut(c, pc), ok |-> TRUE]} : Local(o)
DoEndLocal == \E o \in {[n |-> Cardinality(Cuts(c))]} : EndLocal(o)
Next == DoLoadBlob \/ DoLoadFiller \/ DoEndLoad \/ DoFetchDecrypt \/ DoFetchUnsettled \/ DoFetchBypass \/ DoFetchMiss \/ DoEndFetch \/ DoLocal \/ DoEndLocal
Spec == Init /\ [][Next]_vars

\* ---------------------------------------------------------------- lemmas (R-spec)
\* lemmas about the case are evaluated once per case (the case never changes along a behaviour)
AtStart == phase = "load" /\ loaded = 0
RECURSIVE SumN(_, _)
SumN(cs, S) == IF S = {} THEN 0 ELSE LET k == CHOOSE x \in S : TRUE IN CellN(cs, k) + SumN(cs, S \ {k})
\* the cells partition the image: every byte is fetched exactly once
CellsPartition == AtStart =>
                  /\ SumN(c, ImgCells(c)) = c.len
                  /\ \A k \in ImgCells(c) : /\ CellN(c, k) > 0
                                            /\ (k # FirstCell(c) => CellLo(c, k) = k * c.C)
                                            /\ (k # LastCell(c) => CellLo(c, k) + CellN(c, k) = (k + 1) * c.C)
\* disjoint ranges: at most one context can answer, so "first matching" is "the matching" context
OwnerUnique == AtStart => \A k \in 0..(NCells - 1) : Cardinality({j \in RegIdx(c) : Hit(c, j, k)}) <= 1
\* the engine's decision for a cell is a function of the regions and the absolute cell only (locality at the model level):
\* the same cell in any other image placement over the same regions gets the same context
EngineLocal == AtStart => \A k \in ImgCells(c) :
                 LET d == [c EXCEPT !.base = k, !.sub = 0, !.len = c.C] IN
                 Owner(d, k) = Owner(c, k) /\ Dec(d, k) = Dec(c, k)
\* 16-bit limbs stay limbs; the address of a cell is origin + offset
AddrOK == AtStart => \A k \in ImgCells(c) : LET a == Addr(c, CellLo(c, k)) IN
            /\ a[2] \in 0..65535 /\ (a[1] - c.oh) * 65536 + a[2] = c.ol + CellLo(c, k)
\* the address-derived cipher inputs (address >> 4, page number) computed on limbs equal the ones computed on the number
ShrOK == AtStart => \A k \in ImgCells(c) : LET off == CellLo(c, k)
                                               n   == c.oh * 65536 + c.ol + off IN
            Shr(c, off, 16) = n \div 16 /\ Shr(c, off, 4096) = n \div 4096
\* the run ends, having fetched every cell and handled every cut
Finished == phase = "done" => loaded = c.nrec
CutsInside == AtStart => \A s \in Cuts(c) : s \in ImgCells(c) /\ s * c.C > ImgLo(c) /\ s * c.C < ImgHi(c) /\ s % c.salign = 0

\* ---------------------------------------------------------------- additive counter (IEE AES-CTR): the documented range and the cuts
\* the limb arithmetic of WrapBlk gives back the block the case was built for:  W + (origin >> 4) + WrapBlk = 2^32
WrapRecomputed == AtStart => \A j \in RegIdx(c) :
                    /\ WrapBlk(c, j) = (IF c.wrapAt = NoneAt \/ c.regs[j].inp # "shr4" THEN NoWrap ELSE c.wrapAt)
                    /\ (WrapBlk(c, j) # NoWrap =>
                          LET x == O4 + WrapBlk(c, j) IN
                          /\ (c.regs[j].wl + (x % 65536)) % 65536 = 0
                          /\ c.regs[j].wh + (x \div 65536) + (IF x % 65536 = 0 THEN 0 ELSE 1) = 65536)
\* a cell is settled iff EVERY block of it that holds image bytes stays below the wrap; inside a region the settled cells are a prefix
SettledExact == AtStart => \A k \in ImgCells(c) : Dec(c, k) =>
                  /\ (Settled(c, k) <=> \A b \in (CellLo(c, k) \div 16)..LastBlk(c, k) : b < WrapBlk(c, Owner(c, k)))
                  /\ \A k2 \in ImgCells(c) : (k2 < k /\ Owner(c, k2) = Owner(c, k) /\ Settled(c, k)) => Settled(c, k2)
\* without a wrap in reach everything the property describes is asserted (the new clause takes nothing away from the old domain)
NoWrapAllAsserted == (AtStart /\ c.wrapAt = NoneAt) => \A k \in ImgCells(c) : Asserted(c, k)
\* the locality clause does not look at counters: the admissible cuts of a case with a wrap are those of the same case without
CutsIgnoreCounters == AtStart => Cuts(c) = Cuts([c EXCEPT !.regs = [j \in DOMAIN c.regs |-> [c.regs[j] EXCEPT !.wh = 0, !.wl = 0]]])
\* what the generator relies on: when the wrap falls inside the image and the image goes on beyond the engine unit of the wrap,
\* the end of that unit is an admissible cut - a piece that starts BEHIND the wrap point exists
CutBehindWrap == (AtStart /\ c.wrapAt # NoneAt) =>
                   LET uEnd == ((c.wrapAt * 16) \div (c.unit * c.C) + 1) * (c.unit * c.C) IN
                   (c.wrapAt * 16 >= ImgLo(c) /\ uEnd < ImgHi(c)) => (uEnd \div c.C) \in Cuts(c) /\ (uEnd \div 16) > c.wrapAt

\* ---------------------------------------------------------------- I-spec: SPSDK's walk (as built), sub = 0 only
\* chunks of one unit are taken FROM THE BASE; a chunk is encrypted by the context that contains its first address and
\* the address `endIncl` passes as its end (OTFAD: last byte; IEE: last byte + 1, against region end `rend`)
U(cs) == cs.unit * cs.C
ChunkLo(cs, k) == ImgLo(cs) + ((k * cs.C - ImgLo(cs)) \div U(cs)) * U(cs)
ChunkHi(cs, k) == Min(ChunkLo(cs, k) + U(cs), ImgHi(cs))                       \* exclusive
WalkCtx(cs, k, endExcl, rendExcl) ==
  LET first == ChunkLo(cs, k)
      last  == IF endExcl THEN ChunkHi(cs, k) ELSE ChunkHi(cs, k) - 1
      In(j, x) == cs.regs[j].lo * cs.C <= x /\ x <= (IF rendExcl THEN (cs.regs[j].hi + 1) * cs.C ELSE (cs.regs[j].hi + 1) * cs.C - 1)
      M == {j \in RegIdx(cs) : cs.regs[j].vld /\ cs.regs[j].ade /\ In(j, first) /\ In(j, last)} IN
  IF M = {} THEN 0 ELSE CHOOSE j \in M : \A i \in M : j <= i
EngineCtx(cs, k) == IF Dec(cs, k) THEN Owner(cs, k) ELSE 0
WalkOK(endExcl, rendExcl) == (AtStart /\ c.sub = 0) => \A k \in ImgCells(c) : WalkCtx(c, k, endExcl, rendExcl) = EngineCtx(c, k)
\* holds: with a unit-aligned base the walk agrees with the engine (OTFAD / BEE style: inclusive end, inclusive test) ...
WalkAligned == c.base % c.unit = 0 => WalkOK(FALSE, FALSE)
\* ... and so does the IEE style (exclusive end passed to the inclusive test) when the configured end is the exclusive one
WalkIeeExclusiveEnd == c.base % c.unit = 0 => WalkOK(TRUE, TRUE)
\* predicted defects (checked with FlashEncPredict*.cfg, expected to be VIOLATED):
WalkAnyBase == WalkOK(FALSE, FALSE)                           \* base = 16 byte aligned but not unit aligned: straddling chunk stays plain
WalkIeeInclusiveEnd == c.base % c.unit = 0 => WalkOK(TRUE, FALSE)   \* inclusive configured end: last page of the range stays plain
=============================================================================
