---------------------------- MODULE FlashEncGen ----------------------------
(* GEN form of C13: TLC enumerates the structural case space (region placements x base cell x length in cells) and  *)
(* prints every case once; the harness adds the byte-level parts (tails, sub-cell base offsets, engine modes, keys). *)
EXTENDS FlashEncCases, TLC, Json
VARIABLE g
GInit == /\ g \in {[regs |-> rs, base |-> b, lc |-> lc] : rs \in RegSeqs, b \in 0..(NCells - 1), lc \in 0..NCells}
         /\ g.base + g.lc <= NCells
GNext == UNCHANGED g
Emit == PrintT(ToJson(g))
=============================================================================
