----------------------------- MODULE AhabLayoutMC -----------------------------
(* C06 - MC / GEN form of the layout rules.  A case is a list of containers with images of given     *)
(* stored size, gap and offset mode; the I-spec assigns offsets the documented way; the object then   *)
(* lives through  Update -> Export -> Update -> Export -> Parse -> Update -> Export.                   *)
(* Lemmas: automatic and consistent explicit offsets never collide, are aligned and not below the      *)
(* start address; explicit offsets are kept; a colliding explicit offset is detected (refused);        *)
(* offsets never move after the first Update (action property Frozen).                                 *)
(* GEN: the Emit action prints every case with its concrete explicit offsets, the predicted placement  *)
(* and the predicted collision flag.                                                                   *)
EXTENDS AhabLayout, Json, IOUtils

Full == IF "MC_FULL" \in DOMAIN IOEnv THEN IOEnv.MC_FULL = "1" ELSE FALSE

Memories == {"standard", "nand_2k", "nand_4k", "serial_downloader"}
Start(cver, m) == IF cver = 2 THEN (IF m \in {"nand_2k", "nand_4k"} THEN 48128 ELSE 49152)      \* 0xBC00 / 0xC000
                              ELSE (IF m \in {"nand_2k", "nand_4k"} THEN 7168 ELSE 8192)          \* 0x1C00 / 0x2000
AlOf(m) == CASE m = "nand_2k" -> 2048 [] m = "nand_4k" -> 4096 [] OTHER -> 1024
SlotOf(cver) == IF cver = 2 THEN 16384 ELSE 1024
CLenOf(n) == 16 + 128 * n + 16 + 312 + 72              \* unsigned or P-256 signed container: always inside its slot

Sizes == IF Full THEN {512, 768, 1536} ELSE {512, 768}
Modes == {"auto", "same", "later"}
Opt == [size : Sizes, mode : Modes]
Structs == IF Full THEN { <<1>>, <<2>>, <<1, 1>>, <<1, 2>>, <<2, 1>>, <<2, 2>> } ELSE { <<1>>, <<2>>, <<1, 2>>, <<2, 1>> }
(* a case: structure, two options used alternately by the images, gap behind the first image,           *)
(* collide (the last image of container 1 gets an explicit offset that collides)                         *)
Cases ==
  { c \in [cver : {1, 2}, mem : Memories, st : Structs, o1 : Opt, o2 : Opt, gap : {0, 1024}, collide : BOOLEAN] :
      /\ (~Full => c.o1 = c.o2 /\ c.gap = 0 /\ c.cver = 1)
      /\ (c.cver = 2 => c.o1 = c.o2 /\ c.gap = 0)
      /\ (c.gap # 0 => c.o1 = c.o2)
      /\ (c.mem = "serial_downloader" => c.o1.mode = "auto" /\ c.o2.mode = "auto" /\ ~c.collide) }   \* explicit offsets are ignored there

(* flat list of abstract images: [ci, size, gap, mode] ; explicit modes only in container 1 (both readings of the offset agree there) *)
RECURSIVE Imgs(_, _, _, _)
Imgs(c, ci, j, n) ==
  IF ci > Len(c.st) THEN << >>
  ELSE IF j > c.st[ci] THEN Imgs(c, ci + 1, 1, n)
  ELSE LET o == IF n % 2 = 0 THEN c.o1 ELSE c.o2 IN
       << [ci |-> ci, size |-> o.size, gap |-> (IF n = 0 THEN c.gap ELSE 0), mode |-> (IF ci = 1 THEN o.mode ELSE "auto")] >>
       \o Imgs(c, ci, j + 1, n + 1)
Abstract(c) == Imgs(c, 1, 1, 0)
(* concrete explicit offsets: walk the automatic placement; "same" pins the automatic value, "later" moves one alignment step on *)
RECURSIVE Concrete(_, _, _, _)
Concrete(c, imgs, k, cur) ==
  IF k > Len(imgs) THEN << >>
  ELSE LET last1 == k = c.st[1]
           first == IF imgs[1].mode = "later" THEN Start(c.cver, c.mem) + AlOf(c.mem) ELSE Start(c.cver, c.mem)
           o == IF c.collide /\ last1 THEN (IF k = 1 THEN 8 ELSE first)                   \* onto the first image resp. into container 0
                ELSE IF imgs[k].mode = "later" THEN cur + AlOf(c.mem) ELSE cur
           ex == (c.collide /\ last1) \/ imgs[k].mode # "auto"
       IN << [size |-> imgs[k].size, gap |-> imgs[k].gap, off |-> (IF ex THEN o ELSE 0), ci |-> imgs[k].ci] >>
          \o Concrete(c, imgs, k + 1, AlignUp(o + imgs[k].size + imgs[k].gap, AlOf(c.mem)))
Conc(c) == Concrete(c, Abstract(c), 1, Start(c.cver, c.mem))
Placed(c) == Asg(AlOf(c.mem), Conc(c), 1, Start(c.cver, c.mem))
Proj(c, offs) ==
  [conts |-> [i \in 1..Len(c.st) |->
     [at |-> (i - 1) * SlotOf(c.cver), len |-> CLenOf(c.st[i]),
      img |-> LET first == IF i = 1 THEN 0 ELSE IF i = 2 THEN c.st[1] ELSE c.st[1] + c.st[2] IN
              [j \in 1..c.st[i] |-> [off |-> offs[first + j], size |-> Conc(c)[first + j].size]]]]]
Lay(c) ==
  [slot |-> SlotOf(c.cver), start |-> Start(c.cver, c.mem), al |-> AlOf(c.mem), refuse |-> c.collide,
   explicit |-> [i \in 1..Len(c.st) |-> LET first == IF i = 1 THEN 0 ELSE IF i = 2 THEN c.st[1] ELSE c.st[1] + c.st[2] IN
                                        [j \in 1..c.st[i] |-> Conc(c)[first + j].off]]]

VARIABLES case, ph, offs
vars == <<case, ph, offs>>
Unassigned(c) == [k \in 1..Len(Conc(c)) |-> Conc(c)[k].off]
Init == case \in Cases /\ ph = "Loaded" /\ offs = Unassigned(case)
Update1 == ph = "Loaded" /\ offs' = Placed(case) /\ ph' = "Updated" /\ UNCHANGED case
Export1 == ph = "Updated" /\ ph' = (IF NoOverlap(Proj(case, offs)) THEN "Exported" ELSE "Refused") /\ UNCHANGED <<case, offs>>
(* a locked object: update_fields leaves every offset alone *)
Update2 == ph = "Exported" /\ offs' = offs /\ ph' = "Updated2" /\ UNCHANGED case
Export2 == ph = "Updated2" /\ ph' = "Exported2" /\ UNCHANGED <<case, offs>>
Parse   == ph = "Exported2" /\ ph' = "Parsed" /\ UNCHANGED <<case, offs>>
Update3 == ph = "Parsed" /\ offs' = offs /\ ph' = "Updated3" /\ UNCHANGED case
Export3 == ph = "Updated3" /\ ph' = "Exported3" /\ UNCHANGED <<case, offs>>
Emit == /\ ph \in {"Exported3", "Refused"}
        /\ PrintT(ToJson([cver |-> case.cver, mem |-> case.mem, st |-> case.st, refuse |-> case.collide, start |-> Start(case.cver, case.mem),
                          al |-> AlOf(case.mem), imgs |-> Conc(case), placed |-> Placed(case)]))
        /\ ph' = "Emitted" /\ UNCHANGED <<case, offs>>
Stutter == ph = "Emitted" /\ UNCHANGED vars
Next == Update1 \/ Export1 \/ Update2 \/ Export2 \/ Parse \/ Update3 \/ Export3 \/ Emit \/ Stutter
Spec == Init /\ [][Next]_vars

(* ---- lemmas *)
P == Proj(case, offs)
Assigned == ph # "Loaded"
ValidNeverCollides == (Assigned /\ ~case.collide) => NoOverlap(P)
CollisionRefused   == (case.collide /\ Assigned) => ph \notin {"Exported", "Updated2", "Exported2", "Parsed", "Updated3", "Exported3"}
ValidExported      == (~case.collide) => ph # "Refused"
ExplicitAreKept    == Assigned => ExplicitKept(Lay(case), P)
FixedSlots         == ContainersFixed(Lay(case), P)
AutoAligned        == (Assigned /\ ~case.collide) =>
                        \A k \in 1..Len(offs) : offs[k] >= Start(case.cver, case.mem) /\ (k > 1 => offs[k] % AlOf(case.mem) = 0)
GapFree            == (Assigned /\ ~case.collide) =>                             \* automatic placement leaves less than one alignment step
                        \A k \in 2..Len(offs) : Conc(case)[k].off = 0 =>
                           offs[k] - (offs[k - 1] + Conc(case)[k - 1].size + Conc(case)[k - 1].gap) < AlOf(case.mem)
Frozen == [][ph # "Loaded" => offs' = offs]_vars
=============================================================================
