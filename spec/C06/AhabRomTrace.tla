---------------------------- MODULE AhabRomTrace ----------------------------
(* C06 - TV form: batch validation of executor traces against the acceptance automaton of          *)
(* AhabRom.tla.  A trace = what the builder put in (exp) + one logged event per step.               *)
(*   export traces:   walk of a real export ... Accept, then SpsdkRoundTrip (third observer: parse  *)
(*                    back, equal object, equal re-export, verify() without error);                 *)
(*                    or the single event ExportRefused (allowed only when the input is invalid).    *)
(*   tamper traces:   walk of a file with one flipped bit - they have to be REJECTED here (the       *)
(*                    harness counts them; an accepted one is a hole in the automaton).              *)
(*   observer traces: walk of the good export ... Accept, Tamper(at) with `at` inside the            *)
(*                    authenticated intervals accumulated by the walk, then SpsdkTamperVerdict -     *)
(*                    SPSDK's parse / verify() must have reported the corruption.                    *)
(* A trace is accepted when it is consumed to its end.                                              *)
EXTENDS AhabRom, Json, IOUtils
Traces == ndJsonDeserialize(IOEnv.TRACE_FILE)
VARIABLES tid, l, s
tvars == <<tid, l, s>>
T == Traces[tid].ev
E == T[l]
rom == Traces[tid].exp
Is(e) == l <= Len(T) /\ E.ev = e
Adv == l' = l + 1 /\ UNCHANGED tid
TInit == tid \in 1..Len(Traces) /\ l = 1 /\ s = S0 /\ TLCSet(tid, 1)

ContainerHeader == Is("ContainerHeader") /\ HdrOK(rom, s, E)    /\ s' = HdrNx(rom, s, E)    /\ Adv
ImageEntry      == Is("ImageEntry")      /\ ImgOK(rom, s, E)    /\ s' = ImgNx(rom, s, E)    /\ Adv
SignatureBlock  == Is("SignatureBlock")  /\ SigBlkOK(rom, s, E) /\ s' = SigBlkNx(rom, s, E) /\ Adv
SrkTable        == Is("SrkTable")        /\ SrkOK(rom, s, E)    /\ s' = SrkNx(rom, s, E)    /\ Adv
Certificate     == Is("Certificate")     /\ CertOK(rom, s, E)   /\ s' = CertNx(rom, s, E)   /\ Adv
VerifySignature == Is("VerifySignature") /\ SigOK(rom, s, E)    /\ s' = SigNx(rom, s, E)    /\ Adv
Blob            == Is("Blob")            /\ BlobOK(rom, s, E)   /\ s' = BlobNx(rom, s, E)   /\ Adv
ContainerEnd    == Is("ContainerEnd")    /\ EndOK(rom, s, E)    /\ s' = EndNx(rom, s, E)    /\ Adv
Accept          == Is("Accept")          /\ AcceptOK(rom, s, E) /\ s' = AcceptNx(rom, s, E) /\ Adv
(* the export was refused by SPSDK: only an invalid input may be refused, and nothing follows *)
ExportRefused   == Is("ExportRefused") /\ s.st = "Hdr" /\ s.ci = 0 /\ l = Len(T) /\ MustRefuse(rom)
                   /\ s' = [s EXCEPT !.st = "Refused"] /\ Adv
(* an invalid input that ends in a non-SPSDK exception did not produce an image either *)
ExportCrashed   == Is("ExportCrashed") /\ s.st = "Hdr" /\ s.ci = 0 /\ l = Len(T) /\ MustRefuse(rom)
                   /\ s' = [s EXCEPT !.st = "Refused"] /\ Adv
(* SPSDK exported an image of an invalid input (decided in its export trace): its own verifier has to report the file *)
InvalidExported == Is("InvalidExported") /\ s.st = "Hdr" /\ s.ci = 0 /\ l = 1 /\ MustRefuse(rom)
                   /\ s' = [s EXCEPT !.st = "Tampered"] /\ Adv
(* third observer on the accepted export *)
SpsdkRoundTrip  == /\ Is("SpsdkRoundTrip") /\ s.st = "Accepted"
                   /\ E.crash = "" /\ E.parseOk /\ E.equalObj /\ E.reexportEq /\ E.verifyClean
                   /\ s' = [s EXCEPT !.st = "Observed"] /\ Adv
(* observer traces start from the accepted walk of the export trace they refer to (same file of traces) *)
Resume          == /\ Is("Resume") /\ l = 1 /\ E.ref \in 1..Len(Traces)
                   /\ LET r == Run(Traces[E.ref].exp, S0, Traces[E.ref].ev, 1) IN r.st = "Accepted" /\ s' = r
                   /\ Adv
(* a single-bit corruption of an authenticated byte of the accepted export *)
Tamper          == /\ Is("Tamper") /\ s.st \in {"Accepted", "Observed"} /\ InCov(s, E.at)
                   /\ s' = [s EXCEPT !.st = "Tampered"] /\ Adv
SpsdkTamperVerdict == /\ Is("SpsdkTamperVerdict") /\ s.st = "Tampered"
                      /\ E.crash = "" /\ E.reported
                      /\ s' = [s EXCEPT !.st = "Observed"] /\ Adv
TNext == ContainerHeader \/ ImageEntry \/ SignatureBlock \/ SrkTable \/ Certificate \/ VerifySignature \/ Blob \/ ContainerEnd \/ Accept
         \/ ExportRefused \/ ExportCrashed \/ InvalidExported \/ Resume \/ SpsdkRoundTrip \/ Tamper \/ SpsdkTamperVerdict
Constr == IF TLCGet(tid) < l THEN TLCSet(tid, l) ELSE TRUE
Post == \A i \in 1..Len(Traces) :
          \/ TLCGet(i) - 1 = Len(Traces[i].ev)
          \/ PrintT(<<"REJ", Traces[i].id, TLCGet(i) - 1, Len(Traces[i].ev),
                      Traces[i].ev[IF TLCGet(i) <= Len(Traces[i].ev) THEN TLCGet(i) ELSE Len(Traces[i].ev)].ev>>)
=============================================================================
