------------------------------ MODULE AhabLayout ------------------------------
(* C06 - offsets of an AHAB image: fixed container slots, image offsets explicit or assigned       *)
(* automatically, no two images (and no image and container) overlap, and the history clause:      *)
(* once offsets are assigned (update_fields, or parse) they never move again.                       *)
(*                                                                                                 *)
(* R clauses (decide):  ContainersFixed, ExplicitKept, NoOverlap, InsideFile, Stable,               *)
(*                      RefusedIffColliding (a colliding input is refused, a valid one exported).   *)
(* I clauses (explore / drift only): Asg - the documented automatic placement "with proper          *)
(*                      alignment after the previous one" as SPSDK implements it today.             *)
(*                                                                                                 *)
(* lay  = [slot, start (first image address of the target memory), al (alignment of automatically   *)
(*         placed images), clen (container lengths), refuse (predicted), explicit (per container,    *)
(*         per image: explicit offset or 0)]                                                         *)
(* proj = projection of the real object: conts = sequence of [at, len, img = sequence of [off, size]]*)
EXTENDS Integers, Sequences, FiniteSets, TLC

AlignUp(n, a) == ((n + a - 1) \div a) * a
Ov(a, b) == a[1] < b[2] /\ b[1] < a[2]

(* ---- flattening *)
RECURSIVE FlatFrom(_, _)
FlatFrom(conts, i) == IF i > Len(conts) THEN << >> ELSE conts[i].img \o FlatFrom(conts, i + 1)
Flat(conts) == FlatFrom(conts, 1)
ImgIv(p) == { <<im.off, im.off + im.size>> : im \in { Flat(p.conts)[k] : k \in 1..Len(Flat(p.conts)) } }
ImgSeq(p) == Flat(p.conts)
ContIv(p) == { <<p.conts[i].at, p.conts[i].at + p.conts[i].len>> : i \in 1..Len(p.conts) }

(* ---- R clauses over a projection *)
ContainersFixed(lay, p) == \A i \in 1..Len(p.conts) : p.conts[i].at = (i - 1) * lay.slot
ExplicitKept(lay, p) ==
  \A i \in 1..Len(p.conts) : \A j \in 1..Len(p.conts[i].img) :
     lay.explicit[i][j] # 0 => p.conts[i].img[j].off = lay.explicit[i][j]
NoOverlap(p) ==
  LET F == ImgSeq(p) IN
  /\ \A a, b \in 1..Len(F) : a < b /\ F[a].size > 0 /\ F[b].size > 0 => ~Ov(<<F[a].off, F[a].off + F[a].size>>, <<F[b].off, F[b].off + F[b].size>>)
  /\ \A a \in 1..Len(F) : F[a].size > 0 => \A c \in ContIv(p) : ~Ov(<<F[a].off, F[a].off + F[a].size>>, c)
  /\ \A c, d \in ContIv(p) : c = d \/ ~Ov(c, d)
InsideFile(p, fileLen) == \A k \in 1..Len(ImgSeq(p)) : ImgSeq(p)[k].off + ImgSeq(p)[k].size <= fileLen
Offsets(p) == [i \in 1..Len(p.conts) |-> [j \in 1..Len(p.conts[i].img) |-> <<p.conts[i].img[j].off, p.conts[i].img[j].size>>]]
Stable(p, q) == Offsets(p) = Offsets(q)

(* ---- I clause: the automatic placement.  imgs = flat sequence of [size, gap, off] *)
RECURSIVE Asg(_, _, _, _)
Asg(al, imgs, k, cur) ==
  IF k > Len(imgs) THEN << >>
  ELSE LET o == IF imgs[k].off > 0 THEN imgs[k].off ELSE cur
       IN << o >> \o Asg(al, imgs, k + 1, AlignUp(o + imgs[k].size + imgs[k].gap, al))
=============================================================================
