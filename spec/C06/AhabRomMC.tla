------------------------------ MODULE AhabRomMC ------------------------------
(* C06 - MC / GEN form of the AHAB acceptance automaton.                                            *)
(* An abstract image is built from a shape by the layout rules of the documented format (regions),  *)
(* one named region of it may be tampered with (t), and the automaton of AhabRom.tla walks it.       *)
(* Crypto facts are abstract: a primary check (image hash, decryption / IV, container signature,      *)
(* SRK hash) fails exactly when the tampered region meets the bytes it authenticates; an auxiliary    *)
(* check (keys of the table = keys of the builder) MAY fail then (both outcomes explored); structure  *)
(* is left intact - this is the strongest adversary, so `TamperRejected` says that coverage alone     *)
(* already forces Reject.                                                                            *)
(* Lemmas: untampered images are accepted for every used_srk_id x srk_revoke_mask in which the used   *)
(* key is not revoked and rejected in the other pairs; a tamper of any region that is not declared    *)
(* don't-care is rejected; a don't-care tamper is accepted; every other region lies inside an         *)
(* authenticated interval at Accept; nothing authenticated lies beyond the file.                      *)
(* GEN: the terminal action prints one JSON line per (shape, tampered region class, verdict).         *)
(* The tour is a set of CELLS (container version, key type, region class): the harness has to execute  *)
(* every cell the model rejects on real bytes (a tampered walk of a real export of that version and key *)
(* type).  On the plainest signed shape the SRK structures are split into their documented sub-fields   *)
(* (SrkRegs; lemma SrkRegsTile) and every key type is enumerated in both container versions.            *)
EXTENDS AhabRom, Json, IOUtils

Full == IF "MC_FULL" \in DOMAIN IOEnv THEN IOEnv.MC_FULL = "1" ELSE FALSE

AllKts == {"ecc256", "ecc384", "ecc521", "rsa2048", "rsa3072", "rsa4096"}
Kts == AllKts
(* the plainest signed shape (one plain image, no unsigned container in front, no blob, no certificate, nothing revoked): on it the  *)
(* quick configuration enumerates EVERY key type in both container versions, and the SRK structures are tampered with at the          *)
(* granularity of their documented sub-fields (SrkRegs) - the tour then has one cell per container version x key type x sub-field    *)
Plainest(sh) == sh.srkSet # 0 /\ sh.nImg = 1 /\ ~sh.pre /\ ~sh.enc /\ ~sh.ext /\ sh.cert = "none" /\ sh.revoke = 0
QuickKts(sh) == IF Plainest(sh) THEN AllKts ELSE IF sh.cver = 2 THEN {"ecc256"} ELSE {"ecc256", "rsa2048"}
(* shape: cver, pre (an unsigned one-image container sits in slot 0 in front of the main container),  *)
(*        srkSet / used / revoke / kt of the main container, nImg, enc (image 0 encrypted, blob),      *)
(*        ext (image 0 size-extended: stored size > input length),                                     *)
(*        cert (optional certificate: none / plain = without the `container` permission, the SRK signs   *)
(*        the container / container = its key signs the container), signer (the SRK that signed the      *)
(*        certificate: the selected one, or another key of the set - which the ROM must refuse)           *)
Shapes ==
  { sh \in [cver : {1, 2}, pre : BOOLEAN, srkSet : {0, 2}, used : 0..3, revoke : 0..15, kt : Kts \cup {"none"},
            nImg : {1, 2}, enc : BOOLEAN, ext : BOOLEAN, cert : {"none", "plain", "container"}, signer : 0..3] :
      /\ (sh.cert = "none" => sh.signer = sh.used)
      /\ (sh.cert # "none" => sh.cver = 2 /\ sh.srkSet # 0 /\ sh.revoke = 0 /\ ~sh.pre /\ ~sh.ext)   \* the version-2 certificate format
      /\ (sh.signer # sh.used => sh.nImg = 1 /\ ~sh.enc)                          \* the wrong signers on the plainest shape
      /\ (sh.srkSet = 0 <=> sh.kt = "none")
      /\ (sh.srkSet = 0 => sh.used = 0 /\ sh.revoke = 0)
      /\ (sh.enc => ~sh.ext)
      /\ (sh.revoke # 0 => ~sh.pre /\ sh.nImg = 1 /\ ~sh.enc /\ ~sh.ext)         \* the revoking pairs on the plainest shape
      /\ (~Full /\ sh.revoke # 0 => sh.cver = 1 /\ sh.kt = "ecc256")                \* quick: all 64 pairs for one key type
      /\ (~Full /\ sh.srkSet # 0 => sh.kt \in QuickKts(sh)) }                      \* quick: every key type on the plainest shape

(* ---- the documented layout *)
Al(cver, n) == IF cver = 2 THEN n ELSE ((n + 7) \div 8) * 8
ImgLen == 700
ImgSize(sh, j) == IF j = 0 /\ sh.ext THEN 1536 ELSE 1024
ImgBase(sh) == 8 * Slot(sh.cver)                     \* first image behind the container slots
KeyBitsOf(sh) == 128
Main(sh) == IF sh.pre THEN 1 ELSE 0
CAt(sh) == Main(sh) * Slot(sh.cver)
SbAt(sh) == CAt(sh) + HdrLen + IaeLen * sh.nImg
Signed(sh) == sh.srkSet # 0
TabLen(sh) == TabHdrLen + 4 * RecLen(sh.cver, sh.kt)
SrkLen(sh) == IF sh.cver = 2 THEN ArrHdrLen + TabLen(sh) + DataHdrLen + ParLen(sh.kt) ELSE TabLen(sh)
SigOff(sh) == IF Signed(sh) THEN Al(sh.cver, SbHdrLen + SrkLen(sh)) ELSE 0
SigTot(sh) == IF Signed(sh) THEN SigHdrLen + SigLen(sh.kt) ELSE 0
Cert(sh) == sh.cert # "none"
CertOff(sh) == IF Cert(sh) THEN SigOff(sh) + SigTot(sh) ELSE 0                   \* the certificate follows the signature
CertSigOff(sh) == IF Cert(sh) THEN CertFixed + RecLen(2, sh.kt) + DataHdrLen + ParLen(sh.kt) ELSE 0
CertLen(sh) == IF Cert(sh) THEN CertSigOff(sh) + SigHdrLen + SigLen(sh.kt) ELSE 0
CertPerm(sh) == IF sh.cert = "container" THEN 1 ELSE 2                           \* `container` resp. `debug`
Zeros(n) == [i \in 1..n |-> 0]
CertExp(sh) == [present |-> Cert(sh), perm |-> (IF Cert(sh) THEN CertPerm(sh) ELSE 0), permData |-> Zeros(12), fuse |-> (IF Cert(sh) THEN 3 ELSE 0),
                uuid |-> Zeros(16), signer |-> (IF Cert(sh) THEN sh.signer ELSE 0)]
NoCert == [present |-> FALSE, perm |-> 0, permData |-> Zeros(12), fuse |-> 0, uuid |-> Zeros(16), signer |-> 0]
BlobOff(sh) == IF ~sh.enc THEN 0 ELSE IF Signed(sh) THEN Al(sh.cver, SigOff(sh) + SigTot(sh) + CertLen(sh)) ELSE SbHdrLen
BlobLen(sh) == IF sh.enc THEN BlobFixed + KeyBitsOf(sh) \div 8 ELSE 0
SbLen(sh) == IF sh.enc THEN BlobOff(sh) + BlobLen(sh) ELSE IF Signed(sh) THEN SigOff(sh) + SigTot(sh) + CertLen(sh) ELSE SbHdrLen
CLen(sh) == HdrLen + IaeLen * sh.nImg + SbLen(sh)
PreLen == HdrLen + IaeLen + SbHdrLen
ImgAt(sh, j) == ImgBase(sh) + 2048 * (j + 1)          \* image j of the main container; the pre container's image sits at ImgBase
FileLen(sh) == ImgAt(sh, sh.nImg - 1) + 2048
IaeAt(sh, j) == CAt(sh) + HdrLen + IaeLen * j
HashT(sh, j) == IF j = 0 THEN 2 ELSE 0                 \* SHA-512 for image 0, SHA-256 otherwise

Exp(sh) ==
  LET img(j) == [len |-> ImgLen, ht |-> HashT(sh, j), enc |-> (j = 0 /\ sh.enc), off |-> 0, type |-> 3, core |-> 1, boot |-> 0,
                 meta |-> <<0, 0>>, load |-> <<0, 0, 0, 4096>>, entry |-> <<0, 0, 0, 4096>>]
      main == [srkSet |-> sh.srkSet, used |-> sh.used, revoke |-> sh.revoke, gdet |-> 0, sw |-> 1, fuse |-> 2, kt |-> sh.kt,
               blob |-> sh.enc, keyBits |-> (IF sh.enc THEN KeyBitsOf(sh) ELSE 0), keyId |-> (IF sh.enc THEN <<0, 5>> ELSE <<0, 0>>),
               cert |-> CertExp(sh),
               img |-> [j \in 1..sh.nImg |-> img(j - 1)]]
      pre == [srkSet |-> 0, used |-> 0, revoke |-> 0, gdet |-> 0, sw |-> 0, fuse |-> 0, kt |-> "none", blob |-> FALSE, keyBits |-> 0,
              keyId |-> <<0, 0>>, cert |-> NoCert, img |-> << [img(1) EXCEPT !.ht = 1] >>]
  IN [cver |-> sh.cver, maxImg |-> 8, refuse |-> FALSE, cont |-> IF sh.pre THEN <<pre, main>> ELSE <<main>>]

R(n, a, b) == [n |-> n, a |-> a, b |-> b]
NonEmpty(seq) == SelectSeq(seq, LAMBDA r : r.b > r.a)
RECURSIVE IaeRegs(_, _)
IaeRegs(sh, j) ==
  IF j >= sh.nImg THEN << >> ELSE
    LET o == IaeAt(sh, j)  hl == HashLen(HashT(sh, j))
        p == IF Signed(sh) THEN "" ELSE "u." IN
    << R(p \o "iae", o, o + 32), R("iae.hash", o + 32, o + 32 + hl), R(p \o "iae.hash.pad", o + 32 + hl, o + 96),
       R(IF j = 0 /\ sh.enc THEN "iae.iv.encrypted" ELSE p \o "iae.iv.plain", o + 96, o + 128),
       R(IF j = 0 /\ sh.enc THEN "image.encrypted" ELSE "image", ImgAt(sh, j), ImgAt(sh, j) + ImgSize(sh, j)),
       R("gap", ImgAt(sh, j) + ImgSize(sh, j), ImgAt(sh, j) + 2048) >> \o IaeRegs(sh, j + 1)
(* ---- the SRK structures by sub-field (documented layouts; class names = those of the executor, harness/lib/ahab_rom3.py):           *)
(* record head: +0 tag, +1 length (2), +3 signing algorithm, +4 hash algorithm, +5 key size, +6 not used, +7 flags, +8 the two       *)
(* parameter lengths (4); behind it the key material (version 1) resp. the hash of the SRK data (version 2).  Version 2 puts an     *)
(* array head (version / length / tag, number of tables, 3 reserved bytes) in front of the table and the SRK data of the used key    *)
(* (head: version / length / tag, record number, 3 reserved bytes; key material) behind it.                                          *)
RecSub == << <<"tag", 0, 1>>, <<"length", 1, 3>>, <<"alg", 3, 4>>, <<"hash_alg", 4, 5>>, <<"key_size", 5, 6>>, <<"reserved", 6, 7>>,
             <<"flags", 7, 8>>, <<"par_len", 8, 12>> >>
Who(sh, r) == IF r = sh.used THEN "used" ELSE "other"
RecRegs(sh, q, r) ==
  [i \in 1..Len(RecSub) |-> R("srk.rec." \o RecSub[i][1] \o "." \o Who(sh, r), q + RecSub[i][2], q + RecSub[i][3])]
  \o << R("srk.rec_key." \o Who(sh, r), q + RecHdrLen, q + RecLen(sh.cver, sh.kt)) >>
SrkRegs(sh, at) ==
  LET tab == IF sh.cver = 2 THEN at + ArrHdrLen ELSE at
      rl  == RecLen(sh.cver, sh.kt)
      q0  == tab + TabHdrLen
      sd  == tab + TabLen(sh) IN
  (IF sh.cver = 2 THEN << R("srk.array.head", at, at + 4), R("srk.array.count", at + 4, at + 5), R("srk.array.reserved", at + 5, at + ArrHdrLen) >> ELSE << >>)
  \o << R("srk.table_hdr", tab, q0) >>
  \o RecRegs(sh, q0, 0) \o RecRegs(sh, q0 + rl, 1) \o RecRegs(sh, q0 + 2 * rl, 2) \o RecRegs(sh, q0 + 3 * rl, 3)
  \o (IF sh.cver = 2 THEN << R("srk.data.head", sd, sd + 4), R("srk.data.id", sd + 4, sd + 5), R("srk.data.reserved", sd + 5, sd + DataHdrLen),
                              R("srk.data_key", sd + DataHdrLen, sd + DataHdrLen + ParLen(sh.kt)) >> ELSE << >>)
Regions(sh) ==
  LET c == CAt(sh)  s == SbAt(sh)  p == IF Signed(sh) THEN "" ELSE "u." IN
  NonEmpty(
    (IF sh.pre THEN << R("u.hdr", 0, HdrLen), R("u.iae", HdrLen, HdrLen + 32), R("iae.hash", HdrLen + 32, HdrLen + 32 + 48),
                       R("u.iae.hash.pad", HdrLen + 32 + 48, HdrLen + 96), R("u.iae.iv.plain", HdrLen + 96, HdrLen + IaeLen),
                       R("u.sb", HdrLen + IaeLen, PreLen), R("gap", PreLen, c),
                       R("image", ImgBase(sh), ImgBase(sh) + 1024), R("gap", ImgBase(sh) + 1024, ImgBase(sh) + 2048) >>
                ELSE << >>)
    \o << R(p \o "hdr", c, c + HdrLen) >> \o IaeRegs(sh, 0)
    \o << R(p \o "sb", s, s + SbHdrLen),
          R("srk", s + SbHdrLen, s + (IF Signed(sh) /\ ~Plainest(sh) THEN SbHdrLen + SrkLen(sh) ELSE SbHdrLen)) >>
    \o (IF Plainest(sh) THEN SrkRegs(sh, s + SbHdrLen) ELSE << >>)
    \o << R("srk.pad", s + SbHdrLen + SrkLen(sh), s + SigOff(sh)),
          R("sig.hdr", s + SigOff(sh), s + SigOff(sh) + (IF Signed(sh) THEN SigHdrLen ELSE 0)),
          R("sig.data", s + SigOff(sh) + SigHdrLen, s + SigOff(sh) + SigTot(sh)),
          R("cert", s + CertOff(sh), s + CertOff(sh) + CertSigOff(sh)),
          R("cert.sig.hdr", s + CertOff(sh) + CertSigOff(sh), s + CertOff(sh) + CertSigOff(sh) + (IF Cert(sh) THEN SigHdrLen ELSE 0)),
          R("cert.sig.data", s + CertOff(sh) + CertSigOff(sh) + SigHdrLen, s + CertOff(sh) + CertLen(sh)),
          R("blob.pad", s + SigOff(sh) + SigTot(sh) + CertLen(sh), s + (IF sh.enc /\ Signed(sh) THEN BlobOff(sh) ELSE 0)),
          R("blob", s + BlobOff(sh), s + BlobOff(sh) + BlobLen(sh)),
          R("gap", c + CLen(sh), ImgBase(sh)) >>)

(* regions no check of the format authenticates: gaps, the wrapped DEK (device bound, opaque), the signature header's   *)
(* reserved word, and - in a container that is not signed - everything but the image bytes and their digests             *)
DontCare == {"gap", "blob", "blob.pad", "sig.hdr", "cert.sig.hdr", "u.hdr", "u.iae", "u.iae.hash.pad", "u.iae.iv.plain", "u.sb"}

VARIABLES shape, t, s, rom, reg          \* rom = Exp(shape) and reg = Regions(shape) are computed once per behaviour
vars == <<shape, t, s, rom, reg>>
TReg == reg[t]
Hit(a, b) == t # 0 /\ TReg.a < b /\ a < TReg.b           \* the tampered region meets [a, b)
Aux(hit) == IF hit THEN BOOLEAN ELSE {TRUE}                \* an auxiliary check may or may not notice
IsRevoked(sh) == Signed(sh) /\ Revoked(sh.used, sh.revoke)
IsWrongSigner(sh) == Cert(sh) /\ sh.signer # sh.used

Init == /\ shape \in Shapes
        /\ t \in (IF shape.revoke = 0 /\ ~IsWrongSigner(shape) THEN 0..Len(Regions(shape)) ELSE {0})     \* tamper runs on the valid shapes
        /\ s = S0 /\ rom = Exp(shape) /\ reg = Regions(shape)
Step(ok, nx) == s' = (IF ok THEN nx ELSE [s EXCEPT !.st = "Rejected"]) /\ UNCHANGED <<shape, t, rom, reg>>
InPre == shape.pre /\ s.ci = 0

ContainerHeader == s.st = "Hdr" /\ s.ci < Len(rom.cont) /\
  LET e == IF InPre THEN [ci |-> 0, at |-> 0, tagOk |-> TRUE, version |-> ContVersion(shape.cver), reserved |-> 0, srkSet |-> 0, used |-> 0,
                          revoke |-> 0, flagsOther |-> <<0, 0>>, sw |-> 0, fuse |-> 0, nImages |-> 1, sigBlockOff |-> HdrLen + IaeLen,
                          length |-> PreLen]
           ELSE [ci |-> s.ci, at |-> CAt(shape), tagOk |-> TRUE, version |-> ContVersion(shape.cver), reserved |-> 0, srkSet |-> shape.srkSet,
                 used |-> shape.used, revoke |-> shape.revoke, flagsOther |-> <<0, 0>>, sw |-> 1, fuse |-> 2, nImages |-> shape.nImg,
                 sigBlockOff |-> HdrLen + IaeLen * shape.nImg, length |-> CLen(shape)]
  IN Step(HdrOK(rom, s, e), HdrNx(rom, s, e))
ImageEntry == s.st = "Img" /\
  LET j == s.k
      pre == InPre
      o == IF pre THEN HdrLen ELSE IaeAt(shape, j)
      at == IF pre THEN ImgBase(shape) ELSE ImgAt(shape, j)
      size == IF pre THEN 1024 ELSE ImgSize(shape, j)
      ht == IF pre THEN 1 ELSE HashT(shape, j)
      enc == ~pre /\ j = 0 /\ shape.enc
      hitImg == Hit(at, at + size)
      e == [ci |-> s.ci, i |-> j, at |-> o, imgOff |-> at - s.c.at, imgAbs |-> at, size |-> size, inFile |-> TRUE,
            hashType |-> ht, hashKnown |-> TRUE, hashLen |-> HashLen(ht),
            hashOk |-> ~(hitImg \/ Hit(o + 32, o + 32 + HashLen(ht))), hashPadZero |-> TRUE,
            enc |-> enc, type |-> 3, core |-> 1, boot |-> 0, flagsRsvZero |-> TRUE, meta |-> <<0, 0>>,
            load |-> <<0, 0, 0, 4096>>, entry |-> <<0, 0, 0, 4096>>, inLen |-> ImgLen,
            dataOk |-> ~hitImg, padZero |-> TRUE, ivZero |-> ~enc,
            decOk |-> ~(hitImg \/ Hit(o + 96, o + 128)), ivOk |-> ~(hitImg \/ Hit(o + 96, o + 128))]
  IN Step(ImgOK(rom, s, e), ImgNx(rom, s, e))
SignatureBlock == s.st = "SigBlk" /\
  LET e == IF InPre THEN [ci |-> 0, at |-> HdrLen + IaeLen, tagOk |-> TRUE, version |-> SbVersion(shape.cver), length |-> SbHdrLen,
                          certOff |-> 0, srkOff |-> 0, sigOff |-> 0, blobOff |-> 0, keyId |-> <<0, 0>>]
           ELSE [ci |-> s.ci, at |-> SbAt(shape), tagOk |-> TRUE, version |-> SbVersion(shape.cver), length |-> SbLen(shape), certOff |-> CertOff(shape),
                 srkOff |-> (IF Signed(shape) THEN SbHdrLen ELSE 0), sigOff |-> SigOff(shape), blobOff |-> BlobOff(shape),
                 keyId |-> (IF shape.enc THEN <<0, 5>> ELSE <<0, 0>>)]
  IN Step(SigBlkOK(rom, s, e), SigBlkNx(rom, s, e))
SrkTable == s.st = "Srk" /\
  LET at == SbAt(shape) + SbHdrLen
      tabAt == IF shape.cver = 2 THEN at + ArrHdrLen ELSE at
      hit == Hit(at, at + SrkLen(shape)) IN
  \E kok \in Aux(hit) :
    LET e == [ci |-> s.ci, at |-> at, arr |-> shape.cver = 2, arrTagOk |-> TRUE, nTables |-> 1, arrRsvZero |-> TRUE, tabAt |-> tabAt,
              arrLen |-> (IF shape.cver = 2 THEN SrkLen(shape) ELSE 0), tagOk |-> TRUE, version |-> TabVersion(shape.cver),
              length |-> TabLen(shape), nRecords |-> 4, recsOk |-> TRUE, sameType |-> TRUE, sizesOk |-> TRUE, recRsvZero |-> TRUE,
              recFlags |-> 0, alg |-> KeyAlg(shape.kt), keySize |-> KeySize(shape.kt), signHash |-> SignHash(shape.kt),
              recLen |-> RecLen(shape.cver, shape.kt), keysOk |-> kok, srkHashOk |-> ~Hit(tabAt, tabAt + TabLen(shape)),
              srkDataAt |-> (IF shape.cver = 2 THEN tabAt + TabLen(shape) ELSE 0),
              srkDataLen |-> (IF shape.cver = 2 THEN DataHdrLen + ParLen(shape.kt) ELSE 0), srkDataId |-> shape.used,
              srkDataTagOk |-> TRUE, dataHashOk |-> ~hit, end |-> at + SrkLen(shape)]
    IN Step(SrkOK(rom, s, e), SrkNx(rom, s, e))
Certificate == s.st = "Cert" /\
  LET at == SbAt(shape) + CertOff(shape)
      g == at + CertSigOff(shape)
      kt == shape.kt
      hitKey == Hit(at + CertFixed, g)                                                   \* record and key material of the certificate key
      hitSigned == Hit(at, g) \/ Hit(g + SigHdrLen, g + SigHdrLen + SigLen(kt)) IN        \* what the certificate signature authenticates
  \E kok \in Aux(hitKey) :
    LET e == [ci |-> s.ci, at |-> at, tagOk |-> TRUE, version |-> CertVersion, length |-> CertLen(shape), sigOff |-> CertSigOff(shape),
              permInvOk |-> TRUE, perm |-> CertPerm(shape), permData |-> Zeros(12), fuse |-> 3, rsvZero |-> TRUE, uuid |-> Zeros(16),
              recAt |-> at + CertFixed, recTagOk |-> TRUE, recLen |-> RecLen(2, kt), recRsvZero |-> TRUE, recFlags |-> 0, sizesOk |-> TRUE,
              alg |-> KeyAlg(kt), keySize |-> KeySize(kt), signHash |-> SignHash(kt),
              dataAt |-> at + CertFixed + RecLen(2, kt), dataTagOk |-> TRUE, dataLen |-> DataHdrLen + ParLen(kt), dataHashOk |-> ~hitKey,
              keyOk |-> kok, sigAt |-> g, sigTagOk |-> TRUE, sigVersion |-> 0, sigLen |-> SigLen(kt), sigTotal |-> SigHdrLen + SigLen(kt),
              signedFrom |-> at, signedTo |-> g, key |-> shape.used,
              sigOk |-> ~hitSigned /\ shape.signer = shape.used]            \* made by the selected SRK, nothing it covers touched
    IN Step(CertOK(rom, s, e), CertNx(rom, s, e))
VerifySignature == s.st = "Sig" /\
  LET g == SbAt(shape) + SigOff(shape)
      e == [ci |-> s.ci, tagOk |-> TRUE, version |-> 0, sigAt |-> g, signedFrom |-> CAt(shape), signedTo |-> g, key |-> shape.used,
            byCert |-> shape.cert = "container",
            ok |-> ~(Hit(CAt(shape), g) \/ Hit(g + SigHdrLen, g + SigTot(shape))), sigLen |-> SigLen(shape.kt), length |-> SigTot(shape)]
  IN Step(SigOK(rom, s, e), SigNx(rom, s, e))
Blob == s.st = "Blob" /\
  LET e == [ci |-> s.ci, tagOk |-> TRUE, version |-> 0, at |-> SbAt(shape) + BlobOff(shape), keyBytes |-> KeyBitsOf(shape) \div 8,
            length |-> BlobLen(shape)]
  IN Step(BlobOK(rom, s, e), BlobNx(rom, s, e))
ContainerEnd == s.st = "End" /\
  LET e == [ci |-> s.ci, end |-> (IF InPre THEN PreLen ELSE CAt(shape) + CLen(shape))] IN Step(EndOK(rom, s, e), EndNx(rom, s, e))
Accept == s.st = "Hdr" /\ s.ci = Len(rom.cont) /\
  LET e == [nContainers |-> Len(rom.cont), fileLen |-> FileLen(shape)] IN Step(AcceptOK(rom, s, e), AcceptNx(rom, s, e))
Emit == /\ s.st \in {"Accepted", "Rejected"}
        /\ PrintT(ToJson([cver |-> shape.cver, pre |-> shape.pre, srkSet |-> shape.srkSet, used |-> shape.used, revoke |-> shape.revoke,
                          kt |-> shape.kt, nImg |-> shape.nImg, enc |-> shape.enc, ext |-> shape.ext, cert |-> shape.cert, signer |-> shape.signer,
                          cls |-> (IF t = 0 THEN "none" ELSE TReg.n), verdict |-> s.st]))
        /\ s' = [s EXCEPT !.st = "Emitted"] /\ UNCHANGED <<shape, t, rom, reg>>
Stutter == s.st = "Emitted" /\ UNCHANGED vars
Next == ContainerHeader \/ ImageEntry \/ SignatureBlock \/ SrkTable \/ Certificate \/ VerifySignature \/ Blob \/ ContainerEnd \/ Accept \/ Emit \/ Stutter
Spec == Init /\ [][Next]_vars

(* ---- lemmas *)
Done == s.st \in {"Accepted", "Rejected", "Emitted"}
UntamperedAccepted == (t = 0 /\ ~IsRevoked(shape) /\ ~IsWrongSigner(shape)) => s.st # "Rejected"       \* a valid image is accepted for every non-revoking pair
RevokedRejected    == IsRevoked(shape) => s.st # "Accepted"
WrongSignerRejected == IsWrongSigner(shape) => s.st # "Accepted"                  \* a certificate signed by a non-selected SRK is never accepted
TamperRejected     == (s.st = "Accepted" /\ t # 0) => TReg.n \in DontCare
DontCareAccepted   == (s.st = "Rejected" /\ t # 0) => TReg.n \notin DontCare
RegionsCovered == s.st = "Accepted" =>
  \A i \in 1..Len(reg) : reg[i].n \notin DontCare => \E iv \in s.cov : iv[1] <= reg[i].a /\ reg[i].b <= iv[2]
NothingBeyond == s.st = "Accepted" => \A iv \in s.cov \cup s.imgs \cup s.conts : iv[2] <= FileLen(shape)
(* the sub-fields of the SRK structures tile the SRK area exactly: no byte of it is left out of the tour, none belongs to two classes *)
SrkRegsTile == Plainest(shape) =>
  LET at == SbAt(shape) + SbHdrLen
      rs == SrkRegs(shape, at) IN
  /\ rs[1].a = at /\ rs[Len(rs)].b = at + SrkLen(shape)
  /\ \A i \in 1..Len(rs) : rs[i].a < rs[i].b /\ (i < Len(rs) => rs[i].b = rs[i + 1].a)
ContainersInSlots == s.st = "Accepted" => \A c \in s.conts : c[1] % Slot(shape.cver) = 0
=============================================================================
