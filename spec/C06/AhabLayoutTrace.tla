---------------------------- MODULE AhabLayoutTrace ----------------------------
(* C06 - TV form of the layout clauses: the projection (container offsets, image offsets and sizes)  *)
(* of the real AHABImage object along  Load, Update, Export, Update, Export, Parse, Update, Export.    *)
(* R mode (MODE = "R", decides): containers in their slots, explicit offsets kept, an exported image   *)
(* has no overlap and lies inside the file, a predicted collision is never exported, and once offsets  *)
(* are assigned (first Update / Parse) they never move again.                                          *)
(* I mode (MODE = "I", drift only): additionally the first Update places the images exactly where the   *)
(* documented automatic placement (Asg) puts them.                                                      *)
EXTENDS AhabLayout, Json, IOUtils
Traces == ndJsonDeserialize(IOEnv.TRACE_FILE)
IMode == IF "MODE" \in DOMAIN IOEnv THEN IOEnv.MODE = "I" ELSE FALSE
VARIABLES tid, l, ph, q
tvars == <<tid, l, ph, q>>
T == Traces[tid].ev
E == T[l]
lay == Traces[tid].lay
Is(e) == l <= Len(T) /\ E.ev = e
Adv == l' = l + 1 /\ UNCHANGED tid
TInit == tid \in 1..Len(Traces) /\ l = 1 /\ ph = "Start" /\ q = [conts |-> << >>] /\ TLCSet(tid, 1)

AsPlaced(p) == LET F == ImgSeq(p) IN [k \in 1..Len(F) |-> F[k].off]
Load   == /\ Is("Load") /\ ph = "Start" /\ ContainersFixed(lay, E.p)
          /\ ph' = "Loaded" /\ q' = E.p /\ Adv
Update == /\ Is("Update") /\ ph \in {"Loaded", "Assigned", "Exported"}
          /\ ContainersFixed(lay, E.p) /\ ExplicitKept(lay, E.p)
          /\ (ph # "Loaded" => Stable(q, E.p))                         \* a locked object keeps every offset
          /\ (IMode /\ ph = "Loaded" /\ lay.drift => AsPlaced(E.p) = Asg(lay.al, lay.flat, 1, lay.start))
          /\ ph' = (IF ph = "Loaded" THEN "Assigned" ELSE ph) /\ q' = E.p /\ Adv
Export == /\ Is("Export") /\ ph \in {"Assigned", "Exported"} /\ Stable(q, E.p)
          /\ (E.ok => ~lay.refuse /\ NoOverlap(E.p) /\ InsideFile(E.p, E.fileLen))
          /\ (~E.ok => ph = "Assigned" /\ l = Len(T))                 \* only the first export may be refused (decided by AhabRomTrace), nothing follows
          /\ ph' = "Exported" /\ UNCHANGED q /\ Adv
Parse  == /\ Is("Parse") /\ ph = "Exported" /\ ContainersFixed(lay, E.p) /\ Stable(q, E.p)    \* parse restores the same offsets and sizes
          /\ UNCHANGED <<ph, q>> /\ Adv
TNext == Load \/ Update \/ Export \/ Parse
Constr == IF TLCGet(tid) < l THEN TLCSet(tid, l) ELSE TRUE
Post == \A i \in 1..Len(Traces) :
          \/ TLCGet(i) - 1 = Len(Traces[i].ev)
          \/ PrintT(<<"REJ", Traces[i].id, TLCGet(i) - 1, Len(Traces[i].ev),
                      Traces[i].ev[IF TLCGet(i) <= Len(Traces[i].ev) THEN TLCGet(i) ELSE Len(Traces[i].ev)].ev>>)
=============================================================================
