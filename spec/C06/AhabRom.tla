------------------------------- MODULE AhabRom -------------------------------
(* C06 - R-spec: the boot ROM's / ELE's acceptance procedure for an AHAB image, as an automaton     *)
(* over the file.  This module is the normative part shared by every form of the specification:     *)
(*   <Step>OK(rom, s, e)  - the clause checked in step <Step>, over the facts e read from the file  *)
(*   <Step>Nx(rom, s, e)  - the automaton's registers after the step                                *)
(* AhabRomMC.tla drives it with an abstract image builder (the format as documented) and a tamper   *)
(* marker and model-checks the lemmas; AhabRomTrace.tla drives it with the events an executor has   *)
(* logged while walking the real bytes SPSDK exported (every number is recomputed here).            *)
(*                                                                                                 *)
(* rom = what the device expects and what the builder put in ("decoded content = builder input"):   *)
(*   [cver    - container format version: 1 (slots of 0x400, tag 0x87 version 0) or 2 (slots of      *)
(*              0x4000, version 2, SRK table array with SRK data),                                   *)
(*    maxImg  - images per container the family allows,                                             *)
(*    cont    - sequence of containers, each                                                        *)
(*              [srkSet (0 none / 2 oem), used, revoke, gdet, sw, fuse, kt (key type of the SRK set  *)
(*               or "none"), blob, keyBits, keyId (two 16-bit limbs),                                *)
(*               cert - the optional certificate [present, perm (permission byte), permData (12      *)
(*                      bytes), fuse, uuid (16 bytes), signer (index of the SRK whose private key     *)
(*                      signed the certificate - the ROM accepts it only from the SELECTED SRK)],     *)
(*               img - sequence of [len, ht, enc, off (explicit image offset, 0 = automatic), type,  *)
(*                     core, boot, meta (2 limbs), load, entry (4 limbs each)]],                      *)
(*    refuse  - the generator (AhabLayout) has predicted a collision: the export has to be refused]  *)
(* s   = registers: st (control state), ci (container index), c (header), k (image index),          *)
(*       sb (signature block), cert (certificate), sigEnd, imgs (image intervals of the whole      *)
(*       file), conts (container intervals), hp (hash-protected intervals of the current            *)
(*       container), cov (authenticated intervals).                                                  *)
(* Crypto appears only as facts (hashOk, ok, decOk ...) evaluated by the executor with a trusted     *)
(* base that is independent of SPSDK.                                                                *)
EXTENDS Integers, Sequences, FiniteSets, TLC

HdrLen    == 16        \* container header
IaeLen    == 128       \* image array entry
SbHdrLen  == 16        \* signature block header
SigHdrLen == 8         \* signature header (version, length, tag, reserved word)
ArrHdrLen == 8         \* SRK table array header (version 2)
TabHdrLen == 4         \* SRK table header
RecHdrLen == 12        \* SRK record header
DataHdrLen == 8        \* SRK data header (version 2)
BlobFixed == 56        \* blob header (8) + wrapping overhead (48)
CertFixed == 40        \* certificate: head (4), signature offset (2), ~permissions, permissions, permission data (12),
                       \* fuse version + 3 reserved bytes, UUID (16); then the SRK record and SRK data of its key, then its signature
CertVersion == 2

Slot(cver)        == IF cver = 2 THEN 16384 ELSE 1024     \* containers sit at k * Slot
ContVersion(cver) == IF cver = 2 THEN 2 ELSE 0
SbVersion(cver)   == IF cver = 2 THEN 1 ELSE 0
TabVersion(cver)  == IF cver = 2 THEN 67 ELSE 66          \* 0x43 / 0x42

Pow2(i) == IF i = 0 THEN 1 ELSE IF i = 1 THEN 2 ELSE IF i = 2 THEN 4 ELSE 8
Revoked(used, mask) == (mask \div Pow2(used)) % 2 = 1
Overlaps(a, b) == a[1] < b[2] /\ b[1] < a[2]

HashLen(ht) == CASE ht \in {0, 3, 4} -> 32 [] ht \in {1, 5} -> 48 [] ht \in {2, 6} -> 64 [] OTHER -> 0
Ecc(kt)     == kt \in {"ecc256", "ecc384", "ecc521"}
Coord(kt)   == CASE kt = "ecc256" -> 32 [] kt = "ecc384" -> 48 [] kt = "ecc521" -> 66 [] OTHER -> 0
Modulus(kt) == CASE kt = "rsa2048" -> 256 [] kt = "rsa3072" -> 384 [] kt = "rsa4096" -> 512 [] OTHER -> 0
SigLen(kt)  == IF Ecc(kt) THEN 2 * Coord(kt) ELSE Modulus(kt)            \* r || s  resp. one modulus-sized integer
ParLen(kt)  == IF Ecc(kt) THEN 2 * Coord(kt) ELSE Modulus(kt) + 4        \* X || Y  resp. modulus || exponent
KeyAlg(kt)  == IF Ecc(kt) THEN 39 ELSE 34                                \* 0x27 ECDSA, 0x22 RSA-PSS
KeySize(kt) == CASE kt = "ecc256" -> 1 [] kt = "ecc384" -> 2 [] kt = "ecc521" -> 3
                 [] kt = "rsa2048" -> 5 [] kt = "rsa3072" -> 6 [] kt = "rsa4096" -> 7 [] OTHER -> 0
SignHash(kt) == CASE kt = "ecc384" -> 1 [] kt = "ecc521" -> 2 [] OTHER -> 0     \* SHA-256 / 384 / 512 by curve, RSA: SHA-256
RecLen(cver, kt) == RecHdrLen + (IF cver = 2 THEN 64 ELSE ParLen(kt))          \* version 2 records hold a 512-bit hash of the SRK data

S0 == [st |-> "Hdr", ci |-> 0, c |-> [x |-> 0], k |-> 0, sb |-> [x |-> 0], cert |-> [x |-> 0], sigEnd |-> 0,
       imgs |-> {}, conts |-> {}, hp |-> {}, cov |-> {}]

X(rom, s) == rom.cont[s.ci + 1]
HasCert(rom, s) == X(rom, s).cert.present
SignsContainer(perm) == perm % 2 = 1      \* permission bit 0 (`container`): the key of the certificate signs the container

(* ------------------------------------------------------------------ container header *)
HdrOK(rom, s, e) ==
  /\ s.st = "Hdr" /\ s.ci < Len(rom.cont) /\ e.ci = s.ci
  /\ e.at = s.ci * Slot(rom.cver)                          \* containers sit at their fixed offsets
  /\ e.tagOk /\ e.version = ContVersion(rom.cver) /\ e.reserved = 0
  /\ e.srkSet = X(rom, s).srkSet /\ e.used = X(rom, s).used /\ e.revoke = X(rom, s).revoke      \* decoded = builder input
  /\ e.flagsOther = <<X(rom, s).gdet * 16, 0>>             \* glitch-detector behaviour in bits 20..21, nothing else
  /\ e.sw = X(rom, s).sw /\ e.fuse = X(rom, s).fuse
  /\ e.nImages = Len(X(rom, s).img) /\ e.nImages \in 1..rom.maxImg
  /\ e.sigBlockOff = HdrLen + IaeLen * e.nImages           \* header || image array || signature block
  /\ e.length >= e.sigBlockOff + SbHdrLen
HdrNx(rom, s, e) == [s EXCEPT !.c = e, !.k = 0, !.hp = {}, !.st = "Img"]

(* ------------------------------------------------------------------ image array entry *)
ImgOK(rom, s, e) ==
  LET I == X(rom, s).img[s.k + 1] IN
  /\ s.st = "Img" /\ e.ci = s.ci /\ e.i = s.k /\ s.k < s.c.nImages
  /\ e.at = s.c.at + HdrLen + IaeLen * s.k
  /\ e.imgAbs = s.c.at + e.imgOff                          \* offsets are relative to the container
  /\ e.inFile
  /\ e.hashType = I.ht /\ e.hashKnown /\ e.hashLen = HashLen(I.ht)
  /\ e.hashOk /\ e.hashPadZero                             \* hash of the addressed, size-extended bytes under the declared algorithm
  /\ e.enc = I.enc /\ e.type = I.type /\ e.core = I.core /\ e.boot = I.boot /\ e.flagsRsvZero
  /\ e.meta = I.meta /\ e.load = I.load /\ e.entry = I.entry
  /\ e.inLen = I.len /\ e.size >= I.len
  /\ IF I.enc THEN e.decOk /\ e.ivOk /\ ~e.ivZero            \* decrypts with the DEK to the input; SHA-256(plain) = IV field
              ELSE e.dataOk /\ e.padZero                     \* the entry points at the bytes of its image, extension is zero
  /\ (I.off # 0 => e.imgAbs = I.off)                       \* an explicit offset is kept
  /\ \A iv \in s.imgs : e.size = 0 \/ ~Overlaps(iv, <<e.imgAbs, e.imgAbs + e.size>>)        \* no two images overlap
ImgNx(rom, s, e) ==
  LET iv == <<e.imgAbs, e.imgAbs + e.size>>
      dg == <<e.at + 32, e.at + 32 + e.hashLen>> IN
  [s EXCEPT !.imgs = IF e.size > 0 THEN @ \cup {iv} ELSE @,
            !.hp = (IF e.size > 0 THEN @ \cup {iv} ELSE @) \cup {dg} \cup (IF e.enc THEN {<<e.at + 96, e.at + 128>>} ELSE {}),
            !.k = @ + 1,
            !.st = IF s.k + 1 < s.c.nImages THEN "Img" ELSE "SigBlk"]

(* ------------------------------------------------------------------ signature block *)
SigBlkOK(rom, s, e) ==
  /\ s.st = "SigBlk" /\ e.ci = s.ci /\ e.tagOk /\ e.version = SbVersion(rom.cver)
  /\ e.at = s.c.at + s.c.sigBlockOff
  /\ s.c.length = s.c.sigBlockOff + e.length               \* the container length covers exactly header, array and signature block
  /\ (HasCert(rom, s) <=> e.certOff # 0)                   \* the optional certificate is there iff the builder put one in
  /\ (e.certOff # 0 => X(rom, s).srkSet # 0 /\ e.certOff > e.sigOff /\ e.certOff + CertFixed < e.length)
  /\ IF X(rom, s).srkSet = 0 THEN e.srkOff = 0 /\ e.sigOff = 0
                             ELSE e.srkOff = SbHdrLen /\ e.sigOff > e.srkOff /\ e.sigOff + SigHdrLen <= e.length
  /\ (X(rom, s).blob <=> e.blobOff # 0)
  /\ e.keyId = (IF X(rom, s).blob THEN X(rom, s).keyId ELSE <<0, 0>>)
  /\ (e.blobOff # 0 => e.blobOff > e.sigOff /\ e.blobOff > e.certOff /\ e.blobOff >= SbHdrLen /\ e.blobOff < e.length)
  /\ (rom.cver = 1 => e.sigOff % 8 = 0 /\ e.blobOff % 8 = 0)                               \* 64-bit alignment of the blocks
  /\ (X(rom, s).srkSet = 0 /\ ~X(rom, s).blob => e.length = SbHdrLen)
SigBlkNx(rom, s, e) ==
  [s EXCEPT !.sb = e, !.sigEnd = 0,
            !.st = IF X(rom, s).srkSet # 0 THEN "Srk" ELSE IF X(rom, s).blob THEN "Blob" ELSE "End"]

(* ------------------------------------------------------------------ SRK table (array) *)
SrkOK(rom, s, e) ==
  LET kt == X(rom, s).kt IN
  /\ s.st = "Srk" /\ e.ci = s.ci /\ e.at = s.sb.at + s.sb.srkOff
  /\ IF rom.cver = 2
       THEN /\ e.arr /\ e.arrTagOk /\ e.nTables = 1 /\ e.arrRsvZero /\ e.tabAt = e.at + ArrHdrLen
            /\ e.srkDataAt = e.tabAt + e.length /\ e.srkDataTagOk /\ e.srkDataLen = DataHdrLen + ParLen(kt)
            /\ e.srkDataId = s.c.used /\ e.dataHashOk            \* the used key travels as SRK data, its record holds the hash of it
            /\ e.arrLen = ArrHdrLen + e.length + e.srkDataLen /\ e.end = e.srkDataAt + e.srkDataLen
       ELSE ~e.arr /\ e.tabAt = e.at /\ e.end = e.tabAt + e.length
  /\ e.tagOk /\ e.version = TabVersion(rom.cver)
  /\ e.nRecords = 4 /\ e.recsOk /\ e.sameType /\ e.sizesOk /\ e.recRsvZero /\ e.recFlags = 0
  /\ e.alg = KeyAlg(kt) /\ e.keySize = KeySize(kt) /\ e.signHash = SignHash(kt)
  /\ e.recLen = RecLen(rom.cver, kt) /\ e.length = TabHdrLen + 4 * e.recLen
  /\ e.keysOk                                              \* the table holds the four keys of the builder's SRK set, in order
  /\ e.srkHashOk                                           \* the SRK hash SPSDK reports (fuse value) = hash of the exported table
  /\ s.sb.sigOff >= e.end - s.sb.at /\ s.sb.sigOff < e.end - s.sb.at + 8       \* the signature follows the table
SrkNx(rom, s, e) == [s EXCEPT !.st = IF HasCert(rom, s) THEN "Cert" ELSE "Sig"]

(* ------------------------------------------------------------------ certificate (optional, version-2 format) *)
(* The certificate is authenticated by ITS OWN signature, made with the selected SRK over the certificate from its first     *)
(* byte up to (not including) its signature - whatever its permissions are.  It lies behind the container signature, so the   *)
(* container signature covers only its offset (signature block header), never its bytes.                                      *)
CertOK(rom, s, e) ==
  LET x == X(rom, s)
      kt == x.kt IN
  /\ s.st = "Cert" /\ e.ci = s.ci /\ rom.cver = 2 /\ HasCert(rom, s)
  /\ e.at = s.sb.at + s.sb.certOff
  /\ e.tagOk /\ e.version = CertVersion
  /\ e.permInvOk /\ e.perm = x.cert.perm                   \* decoded = builder input
  /\ e.permData = x.cert.permData /\ e.fuse = x.cert.fuse /\ e.rsvZero /\ e.uuid = x.cert.uuid
  /\ e.recAt = e.at + CertFixed /\ e.recTagOk /\ e.recLen = RecLen(2, kt) /\ e.recRsvZero /\ e.recFlags = 0 /\ e.sizesOk
  /\ e.alg = KeyAlg(kt) /\ e.keySize = KeySize(kt) /\ e.signHash = SignHash(kt)     \* a key of the type of the SRK set
  /\ e.dataAt = e.recAt + e.recLen /\ e.dataTagOk /\ e.dataLen = DataHdrLen + ParLen(kt)
  /\ e.dataHashOk                                         \* the record holds the hash of the key material that follows
  /\ e.keyOk                                              \* the key of the builder
  /\ e.sigOff = CertFixed + e.recLen + e.dataLen /\ e.sigAt = e.at + e.sigOff          \* the signature follows the key
  /\ e.sigTagOk /\ e.sigVersion = 0 /\ e.sigLen = SigLen(kt) /\ e.sigTotal = SigHdrLen + e.sigLen
  /\ e.length = e.sigOff + e.sigTotal
  /\ e.signedFrom = e.at /\ e.signedTo = e.sigAt          \* exactly the certificate up to its signature
  /\ e.key = s.c.used /\ ~Revoked(s.c.used, s.c.revoke)   \* with the selected SRK, which must not be revoked
  /\ e.sigOk
CertNx(rom, s, e) ==
  [s EXCEPT !.cert = e, !.st = "Sig",
            !.cov = @ \cup {<<e.at, e.sigAt>>, <<e.sigAt + SigHdrLen, e.sigAt + e.sigTotal>>}]

(* ------------------------------------------------------------------ container signature *)
SigOK(rom, s, e) ==
  LET kt == X(rom, s).kt
      endOff == s.sb.sigOff + e.length
      tailOff == IF HasCert(rom, s) THEN s.sb.certOff + s.cert.length ELSE endOff IN      \* end of the last block in front of the blob
  /\ s.st = "Sig" /\ e.ci = s.ci /\ e.tagOk /\ e.version = 0
  /\ e.sigAt = s.sb.at + s.sb.sigOff
  /\ e.signedFrom = s.c.at /\ e.signedTo = e.sigAt         \* exactly header || image array || signature block up to the signature
  /\ e.key = s.c.used /\ ~Revoked(s.c.used, s.c.revoke)    \* the selected SRK, which must not be revoked
  /\ e.byCert = (HasCert(rom, s) /\ SignsContainer(s.cert.perm))    \* ... unless a certificate with the `container` permission hands in its key
  /\ e.ok
  /\ e.sigLen = SigLen(kt) /\ e.length = SigHdrLen + e.sigLen
  /\ (HasCert(rom, s) => s.sb.certOff >= endOff /\ s.sb.certOff < endOff + 8)           \* the certificate follows the signature
  /\ IF X(rom, s).blob THEN s.sb.blobOff >= tailOff /\ s.sb.blobOff < tailOff + 8 ELSE s.sb.length = tailOff
SigNx(rom, s, e) ==
  [s EXCEPT !.sigEnd = e.sigAt + e.length,
            !.cov = @ \cup {<<s.c.at, e.sigAt>>, <<e.sigAt + SigHdrLen, e.sigAt + e.length>>},
            !.st = IF X(rom, s).blob THEN "Blob" ELSE "End"]

(* ------------------------------------------------------------------ blob (wrapped DEK) *)
BlobOK(rom, s, e) ==
  /\ s.st = "Blob" /\ e.ci = s.ci /\ e.tagOk /\ e.version = 0
  /\ e.at = s.sb.at + s.sb.blobOff
  /\ e.keyBytes * 8 = X(rom, s).keyBits /\ e.length = BlobFixed + e.keyBytes
  /\ s.sb.length = s.sb.blobOff + e.length
BlobNx(rom, s, e) == [s EXCEPT !.st = "End"]

(* ------------------------------------------------------------------ end of one container *)
EndOK(rom, s, e) == s.st = "End" /\ e.ci = s.ci /\ e.end = s.c.at + s.c.length
EndNx(rom, s, e) ==
  [s EXCEPT !.conts = @ \cup {<<s.c.at, e.end>>},
            !.cov = @ \cup s.hp,          \* image bytes and digests: protected by the (signed) array entry resp. by the hash check
            !.ci = @ + 1, !.st = "Hdr"]

(* ------------------------------------------------------------------ whole image *)
Disjoint(S) == \A a, b \in S : a = b \/ ~Overlaps(a, b)
AcceptOK(rom, s, e) ==
  /\ s.st = "Hdr" /\ s.ci = Len(rom.cont) /\ e.nContainers = s.ci          \* every container of the input, and nothing else
  /\ ~rom.refuse                                                           \* a predicted collision must not have been exported
  /\ \A iv \in s.imgs \cup s.conts : iv[2] <= e.fileLen
  /\ Disjoint(s.conts)                                                     \* a container ends before the next slot
  /\ \A i \in s.imgs : \A c \in s.conts : ~Overlaps(i, c)                   \* no image lies inside a container
AcceptNx(rom, s, e) == [s EXCEPT !.st = "Accepted"]

(* ------------------------------------------------------------------ the walk as a function (used to resume from an accepted export) *)
StepOK(rom, s, e) ==
  CASE e.ev = "ContainerHeader" -> HdrOK(rom, s, e)    [] e.ev = "ImageEntry"      -> ImgOK(rom, s, e)
    [] e.ev = "SignatureBlock"  -> SigBlkOK(rom, s, e) [] e.ev = "SrkTable"        -> SrkOK(rom, s, e)
    [] e.ev = "VerifySignature" -> SigOK(rom, s, e)    [] e.ev = "Blob"            -> BlobOK(rom, s, e)
    [] e.ev = "ContainerEnd"    -> EndOK(rom, s, e)    [] e.ev = "Accept"          -> AcceptOK(rom, s, e)
    [] e.ev = "Certificate"     -> CertOK(rom, s, e)
    [] OTHER -> FALSE
StepNx(rom, s, e) ==
  CASE e.ev = "ContainerHeader" -> HdrNx(rom, s, e)    [] e.ev = "ImageEntry"      -> ImgNx(rom, s, e)
    [] e.ev = "SignatureBlock"  -> SigBlkNx(rom, s, e) [] e.ev = "SrkTable"        -> SrkNx(rom, s, e)
    [] e.ev = "VerifySignature" -> SigNx(rom, s, e)    [] e.ev = "Blob"            -> BlobNx(rom, s, e)
    [] e.ev = "ContainerEnd"    -> EndNx(rom, s, e)    [] e.ev = "Certificate"     -> CertNx(rom, s, e)
    [] OTHER                    -> AcceptNx(rom, s, e)
RECURSIVE Run(_, _, _, _)
Run(rom, s, evs, i) ==
  IF i > Len(evs) \/ s.st = "Accepted" THEN s
  ELSE IF StepOK(rom, s, evs[i]) THEN Run(rom, StepNx(rom, s, evs[i]), evs, i + 1) ELSE [s EXCEPT !.st = "Rejected"]

InCov(s, at) == \E iv \in s.cov : iv[1] <= at /\ at < iv[2]
WrongSigner(x) == x.cert.present /\ x.cert.signer # x.used       \* a certificate signed by an SRK that is not the selected one
MustRefuse(rom) == rom.refuse \/ \E i \in 1..Len(rom.cont) : \/ rom.cont[i].srkSet # 0 /\ Revoked(rom.cont[i].used, rom.cont[i].revoke)
                                                            \/ WrongSigner(rom.cont[i])
=============================================================================
