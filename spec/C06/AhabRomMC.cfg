SPECIFICATION Spec
INVARIANT UntamperedAccepted
INVARIANT RevokedRejected
INVARIANT WrongSignerRejected
INVARIANT TamperRejected
INVARIANT DontCareAccepted
INVARIANT RegionsCovered
INVARIANT NothingBeyond
INVARIANT ContainersInSlots
INVARIANT SrkRegsTile
CHECK_DEADLOCK TRUE
