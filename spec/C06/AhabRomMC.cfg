SPECIFICATION Spec
INVARIANT UntamperedAccepted
INVARIANT RevokedRejected
INVARIANT WrongSignerRejected
INVARIANT TamperRejected
INVARIANT DontCareAccepted
INVARIANT RegionsCovered
INVARIANT NothingBeyond
INVARIANT ContainersInSlots
CHECK_DEADLOCK TRUE
