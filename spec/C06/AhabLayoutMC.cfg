SPECIFICATION Spec
INVARIANT ValidNeverCollides
INVARIANT CollisionRefused
INVARIANT ValidExported
INVARIANT ExplicitAreKept
INVARIANT FixedSlots
INVARIANT AutoAligned
INVARIANT GapFree
PROPERTY Frozen
CHECK_DEADLOCK TRUE
