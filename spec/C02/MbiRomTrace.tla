---------------------------- MODULE MbiRomTrace ----------------------------
(* C02 - TV form: batch validation of executor traces against the ROM automaton of MbiRom.tla.     *)
(* A trace = the ROM configuration of the device (rom) + one logged event per ROM step; every      *)
(* step must satisfy the clause of MbiRom.tla over the LOGGED numbers and the registers the spec    *)
(* accumulated from the earlier events.  A trace is accepted when it is consumed to its end, and    *)
(* its end must be the Accept event (there is no action for the executor's Reject event) - or, for  *)
(* the unsettled corner of MbiRom.tla only, the CertSplit event: SplitOK over the header the spec    *)
(* has read AND the payload length the harness supplied (Traces[tid].pay, aligned payload incl.      *)
(* relocation table) must both say that the payload ends before byte 64, so that no other image can  *)
(* leave the automaton that way.                                                                     *)
EXTENDS MbiRom, Json, IOUtils
Traces == ndJsonDeserialize(IOEnv.TRACE_FILE)
VARIABLES tid, l, s
tvars == <<tid, l, s>>
T == Traces[tid].ev
E == T[l]
rom == Traces[tid].rom
Is(e) == l <= Len(T) /\ E.ev = e
Adv == l' = l + 1 /\ UNCHANGED tid
TInit == tid \in 1..Len(Traces) /\ l = 1 /\ s = S0 /\ TLCSet(tid, 1)

ReadIvt      == Is("ReadIvt")      /\ IvtOK(rom, s, E)    /\ s' = IvtNx(rom, s, E)    /\ Adv
CheckCrc     == Is("CheckCrc")     /\ CrcOK(rom, s, E)    /\ s' = CrcNx(rom, s, E)    /\ Adv
CheckHmac    == Is("CheckHmac")    /\ HmacOK(rom, s, E)   /\ s' = HmacNx(rom, s, E)   /\ Adv
CertSplit    == Is("CertSplit") /\ l = Len(T) /\ Traces[tid].pay < IvtLen /\ Traces[tid].pay = Word(s.h.w28)
                /\ SplitOK(rom, s, E)   /\ s' = SplitNx(rom, s, E)  /\ Adv
CertBlockV1  == Is("CertBlockV1")  /\ Cb1OK(rom, s, E)    /\ s' = Cb1Nx(rom, s, E)    /\ Adv
CertV1       == Is("CertV1")       /\ Cert1OK(rom, s, E)  /\ s' = Cert1Nx(rom, s, E)  /\ Adv
RkhTable     == Is("RkhTable")     /\ RkhOK(rom, s, E)    /\ s' = RkhNx(rom, s, E)    /\ Adv
VerifySigV1  == Is("VerifySigV1")  /\ Sig1OK(rom, s, E)   /\ s' = Sig1Nx(rom, s, E)   /\ Adv
Decrypt      == Is("Decrypt")      /\ DecOK(rom, s, E)    /\ s' = DecNx(rom, s, E)    /\ Adv
CertBlockV21 == Is("CertBlockV21") /\ Cb21OK(rom, s, E)   /\ s' = Cb21Nx(rom, s, E)   /\ Adv
RootKeyRecord == Is("RootKeyRecord") /\ RkrOK(rom, s, E)  /\ s' = RkrNx(rom, s, E)    /\ Adv
IskCert      == Is("IskCert")      /\ IskOK(rom, s, E)    /\ s' = IskNx(rom, s, E)    /\ Adv
CertBlockEnd == Is("CertBlockEnd") /\ CbEndOK(rom, s, E)  /\ s' = CbEndNx(rom, s, E)  /\ Adv
Manifest     == Is("Manifest")     /\ ManOK(rom, s, E)    /\ s' = ManNx(rom, s, E)    /\ Adv
ManifestCrc  == Is("ManifestCrc")  /\ ManCrcOK(rom, s, E) /\ s' = ManCrcNx(rom, s, E) /\ Adv
VerifySigV21 == Is("VerifySigV21") /\ Sig21OK(rom, s, E)  /\ s' = Sig21Nx(rom, s, E)  /\ Adv
CheckDigest  == Is("CheckDigest")  /\ DigOK(rom, s, E)    /\ s' = DigNx(rom, s, E)    /\ Adv
Accept       == Is("Accept") /\ l = Len(T) /\ AcceptOK(rom, s) /\ s' = AcceptNx(rom, s) /\ Adv
TNext == ReadIvt \/ CheckCrc \/ CheckHmac \/ CertSplit \/ CertBlockV1 \/ CertV1 \/ RkhTable \/ VerifySigV1 \/ Decrypt \/ CertBlockV21
         \/ RootKeyRecord \/ IskCert \/ CertBlockEnd \/ Manifest \/ ManifestCrc \/ VerifySigV21 \/ CheckDigest \/ Accept
Constr == IF TLCGet(tid) < l THEN TLCSet(tid, l) ELSE TRUE
Post == \A i \in 1..Len(Traces) :
          \/ TLCGet(i) - 1 = Len(Traces[i].ev)
          \/ PrintT(<<"REJ", Traces[i].id, TLCGet(i) - 1, Len(Traces[i].ev),
                      Traces[i].ev[IF TLCGet(i) <= Len(Traces[i].ev) THEN TLCGet(i) ELSE Len(Traces[i].ev)].ev>>)
=============================================================================
