SPECIFICATION Spec
INVARIANT UntamperedAccepted
INVARIANT TamperRejected
INVARIANT DontCareAccepted
INVARIANT RegionsCovered
INVARIANT NothingBeyond
CHECK_DEADLOCK TRUE
