SPECIFICATION Spec
INVARIANT UntamperedAccepted
INVARIANT TamperRejected
INVARIANT DontCareAccepted
INVARIANT RegionsCovered
INVARIANT NothingBeyond
INVARIANT UnsettledOnlyInCorner
INVARIANT CornerNeverAccepted
INVARIANT SplitPrefixCovered
INVARIANT SpecialsAccepted
INVARIANT BackEndsAccepted
INVARIANT AsDeliveredRejected
INVARIANT UdLengthsAccepted
INVARIANT PaddedUnsignedRejected
CHECK_DEADLOCK TRUE
