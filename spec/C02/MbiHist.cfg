INIT HInit
NEXT HNext
VIEW HView
INVARIANT HTypeOK
INVARIANT HistoryAccepted
INVARIANT KeptRejected
INVARIANT RegisterFollows
CHECK_DEADLOCK FALSE
