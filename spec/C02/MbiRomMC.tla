------------------------------ MODULE MbiRomMC ------------------------------
(* C02 - MC / GEN form of the ROM acceptance automaton.                                            *)
(* An abstract image is built from a shape by the layout rules of the documented format (Build),   *)
(* one named region of it may be tampered with (t), and the ROM of MbiRom.tla walks it.  Crypto    *)
(* facts are abstract: a primary check (CRC, HMAC, signature, digest, fuse hash) fails exactly when *)
(* the tampered region meets the bytes it authenticates or its tag; an auxiliary check (certificate *)
(* chain, key-in-table) MAY fail then (both outcomes explored); structure is left intact - this is  *)
(* the strongest adversary, so `TamperRejected` says that coverage alone already forces Reject.      *)
(* Lemmas: untampered images of every shape are accepted; a tamper of any region except the key     *)
(* store is rejected; a tamper of the key store is accepted (declared don't-care); every region     *)
(* except the key store lies inside an authenticated interval at Accept.                            *)
(* GEN: the terminal action prints one JSON line per (kind, tampered field class, verdict).         *)
(* Strengthening round: (1) payloads that end before byte 64 (56, 60) are shapes of every kind; for  *)
(* the load-to-RAM kinds with HMAC they are the unsettled corner of MbiRom.tla (CertSplit): lemmas    *)
(* UnsettledOnlyInCorner, CornerNeverAccepted, SplitPrefixCovered.  (2) Specials: the value classes    *)
(* of CHAINED computations that a random input never meets - the running / final CRC value exactly     *)
(* 0 or all ones at every offset where a block-wise implementation may split (image CRC, manifest CRC), *)
(* the AES-CTR counter start 0 / all ones / low word(s) all ones (carry, wrap).  The ROM is indifferent *)
(* to them (one pass; lemma SpecialsAccepted) - GEN emits them as the plan the harness has to REACH     *)
(* with crafted payloads in every image class of the kind.                                              *)
(* Strengthening round (seed C02-m8): (3) the SIGNING BACK END is a dimension of the case space: who       *)
(* produces a signature (BackEnds: key file, built-in file provider, the same delivering DER, a plug-in     *)
(* provider delivering r || s / DER / DER of a signature with a leading zero byte) - separately for the      *)
(* image signature (be.img) and for the ISK certificate signature made with the root key (be.isk).  The     *)
(* format has ONE signature field: r || s of fixed width (RSA: the modulus width); what a back end puts on   *)
(* the wire (Wire) is not part of it, so the abstract image of a shape does not depend on be (be.emb =       *)
(* "nxp": lemma BackEndsAccepted).  be.emb = "img" / "isk" is the image in which the blob of a DER back end *)
(* is stored as delivered in that field: the bytes the ROM reads at the signature offset, in the signer's    *)
(* width, are then not a signature (the fact is FALSE; every length that follows the blob only adds reasons) *)
(* - lemma AsDeliveredRejected, the reason why the dimension is explored.                                    *)
(* GEN emits every (kind, curve, ISK, be) as the plan the harness has to BUILD in every composition.         *)
(* Strengthening round (seed C02-m10): (4) the LENGTH CLASS OF THE ISK USER DATA is a dimension of the case  *)
(* space: none / a multiple of 4 (small, the limit) / 1, 2, 3 mod 4 (small, just below the limit) - UdPlan.   *)
(* The ISK certificate is header words || ISK public key || user data || signature; the ROM finds the          *)
(* signature through the offset word and verifies it over the bytes in front of it AS THEY STAND IN THE FILE.  *)
(* shape.udx says what the signer of the certificate saw: "exported" - those bytes (the format); "given" - the  *)
(* user data as the caller gave them while the exported certificate carries them padded to a multiple of 4.      *)
(* For a multiple of 4 the two are the same image; otherwise the padding bytes lie inside the verified range     *)
(* and outside the signed one: the fact of IskCert is FALSE - lemma PaddedUnsignedRejected, the reason why the    *)
(* dimension is explored - while every length field is consistent.  Lemma UdLengthsAccepted: the ROM model         *)
(* accepts the image of the format for every length class.  GEN emits every (kind, curve, ISK, ud) of UdPlan        *)
(* together with UdRoutes (configuration route / classes with the family / classes without a family) as the plan    *)
(* the harness has to BUILD in every composition: the tool may REFUSE a length (it does so for lengths that are      *)
(* no multiple of 4 wherever it knows the family) - what it EXPORTS is decided like any other image.                *)
EXTENDS MbiRom, Json, IOUtils

Full == IF "MC_FULL" \in DOMAIN IOEnv THEN IOEnv.MC_FULL = "1" ELSE FALSE

Kinds == {"crc_xip", "crc_ram", "v1_xip", "v1_ram", "v1_enc", "v21_dig", "v21_crc"}
RomOf(k) ==
  CASE k = "crc_xip" -> [type |-> 5, cb |-> 0,  hmac |-> FALSE, tz |-> 412, man |-> 0, ksdev |-> FALSE]
    [] k = "crc_ram" -> [type |-> 2, cb |-> 0,  hmac |-> FALSE, tz |-> 412, man |-> 0, ksdev |-> FALSE]
    [] k = "v1_xip"  -> [type |-> 4, cb |-> 1,  hmac |-> FALSE, tz |-> 464, man |-> 0, ksdev |-> FALSE]
    [] k = "v1_ram"  -> [type |-> 1, cb |-> 1,  hmac |-> TRUE,  tz |-> 1140, man |-> 0, ksdev |-> FALSE]
    [] k = "v1_enc"  -> [type |-> 3, cb |-> 1,  hmac |-> TRUE,  tz |-> 1140, man |-> 0, ksdev |-> FALSE]
    [] k = "v21_dig" -> [type |-> 4, cb |-> 21, hmac |-> FALSE, tz |-> 556, man |-> 1, ksdev |-> FALSE]
    [] k = "v21_crc" -> [type |-> 4, cb |-> 21, hmac |-> FALSE, tz |-> 980, man |-> 2, ksdev |-> FALSE]

AppLens == IF Full THEN {56, 60, 64, 68, 300, 4096, 20004} ELSE {56, 60, 64, 300}
KeyBytes == IF Full THEN {256, 384, 512} ELSE {256, 384}
Depths == IF Full THEN 1..4 ELSE {1, 3}
CertLen(kb) == CASE kb = 256 -> 800 [] kb = 384 -> 1060 [] OTHER -> 1320       \* padded DER length (abstract, multiple of 4)
UdLens == IF Full THEN {0, 4, 32, 96} ELSE {0, 4}
(* the length classes of the ISK user data, explored on one representative layout per (kind, curve, ISK) - UdShape *)
UdLimit == 96
UdOdd  == {1, 2, 3, UdLimit - 3, UdLimit - 2, UdLimit - 1} \cup (IF Full THEN {5, 6, 7, 33, 34, 35, 61, 62, 63} ELSE {})
UdPlan == {0, 4, UdLimit} \cup UdOdd \cup (IF Full THEN {32, 64} ELSE {})
UdRoutes == {"cfg", "class_family", "class"}     \* how the harness hands the user data to the tool (the ROM never sees it)

(* special value classes of chained computations: [what, cut (byte offset of the running value; 0 = the final value), cls] *)
NoSp   == [what |-> "none", cut |-> 0, cls |-> "any"]
CrcCuts == {32, 36, 40, 48, 52, 56, 64, 0}          \* word boundaries around the skipped CRC word at 40, end of the ROM words, end of the table
           \cup (IF Full THEN {512, 1024, 4096} ELSE {})   \* chunk sizes of an implementation that streams the image
SpCrc  == [what : {"crc"}, cut : CrcCuts, cls : {"zero", "ones"}]
SpMan  == [what : {"mancrc"}, cut : {40, 0}, cls : {"zero", "ones"}]
(* "drawn": the counter start is not given by the user but drawn by the tool itself (class constructor without ctr_init_vector): the ROM *)
(* decrypts with the value it finds in the image, whatever it is - the value class the executor sees is "other"                       *)
SpCtr  == [what : {"ctr"}, cut : {0}, cls : {"zero", "ones", "lo32ones", "lo64ones", "drawn"}]
Specials(kind) == {NoSp} \cup (CASE kind \in {"crc_xip", "crc_ram"} -> SpCrc [] kind = "v21_crc" -> SpMan [] kind = "v1_enc" -> SpCtr [] OTHER -> {})

UdShape(sh) == sh.isk # 0 /\ sh.app = 300 /\ sh.tzType = 0 /\ sh.nKeys = 1 /\ ~sh.dig
Shapes ==
  [kind : {"crc_xip", "crc_ram"}, app : AppLens, tzType : {0, 1, 2}, ks : {FALSE}, depth : {0}, kb : {0},
   nKeys : {0}, used : {0}, curve : {0}, isk : {0}, ud : {0}, udx : {"exported"}, dig : {FALSE}]
  \cup
  [kind : {"v1_xip"}, app : AppLens, tzType : {0, 1, 2}, ks : {FALSE}, depth : Depths, kb : KeyBytes,
   nKeys : {0}, used : {0}, curve : {0}, isk : {0}, ud : {0}, udx : {"exported"}, dig : {FALSE}]
  \cup
  [kind : {"v1_ram", "v1_enc"}, app : AppLens, tzType : {0, 1, 2}, ks : BOOLEAN, depth : Depths, kb : KeyBytes,
   nKeys : {0}, used : {0}, curve : {0}, isk : {0}, ud : {0}, udx : {"exported"}, dig : {FALSE}]
  \cup
  { sh \in [kind : {"v21_dig", "v21_crc"}, app : (IF Full THEN AppLens ELSE {56, 300}), tzType : {0, 1}, ks : {FALSE}, depth : {0}, kb : {0},
            nKeys : (IF Full THEN 1..4 ELSE {1, 3}), used : 0..3, curve : {32, 48}, isk : {0, 64, 96}, ud : UdLens \cup UdPlan,
            udx : {"exported", "given"}, dig : BOOLEAN] :
      /\ (sh.ud \notin UdLens => UdShape(sh))                       \* the length classes: one representative layout
      /\ (sh.udx = "given" => UdShape(sh) /\ sh.ud % 4 # 0)         \* signed as given, exported padded: differs only off a multiple of 4
      /\ sh.used < sh.nKeys /\ (Full \/ sh.used \in {0, sh.nKeys - 1}) /\ (sh.isk = 0 => sh.ud = 0) /\ sh.isk <= 2 * sh.curve
      /\ (sh.app < IvtLen => sh.nKeys = 1 /\ sh.ud = 0)           \* the small payloads: one key class is enough
      /\ (sh.kind = "v21_crc" => ~sh.dig) }
(* a special is explored on one representative shape per kind (it is a property of the content, not of the layout) *)
SpShape(sh) == sh.app = (IF sh.kind \in {"crc_xip", "crc_ram"} /\ Full THEN 4096 ELSE 300) /\ sh.tzType = 0 /\ ~sh.ks /\ sh.depth \in {0, 1} /\ sh.kb \in {0, 256} /\ sh.nKeys \in {0, 1}
               /\ sh.curve \in {0, 32} /\ sh.isk = 0 /\ ~sh.dig

(* ---- signing back ends: [img - who signs the image, isk - who signs the ISK certificate (root key), emb - how the blob is embedded] *)
BackEnds == {"key", "file", "file_der", "plugin_raw", "plugin_der", "plugin_der_lz"}
DerBackEnds == {"file_der", "plugin_der", "plugin_der_lz"}
BackEndsOf(kind) == IF RomOf(kind).cb = 21 THEN BackEnds ELSE BackEnds \ {"plugin_der_lz"}     \* RSA: one encoding, no value class of r / s
Wire(kind, b) == IF RomOf(kind).cb = 21 /\ b \in DerBackEnds THEN "der" ELSE "raw"            \* what sign() of the back end delivers
NoBe(sh) == [img |-> (IF RomOf(sh.kind).cb = 0 THEN "none" ELSE "key"), isk |-> (IF sh.isk = 0 THEN "none" ELSE "key"), emb |-> "nxp"]
(* explored on one representative layout per (kind, curve, ISK): the back end changes no length and no offset *)
BeShape(sh) == RomOf(sh.kind).cb # 0 /\ sh.app = 300 /\ sh.tzType = 0 /\ ~sh.ks /\ sh.depth \in {0, 1} /\ sh.kb \in {0, 256} /\ sh.nKeys \in {0, 1}
               /\ sh.ud = 0 /\ ~sh.dig
BackEndChoices(sh) ==
  IF ~BeShape(sh) THEN {NoBe(sh)}
  ELSE { b \in [img : BackEndsOf(sh.kind), isk : (IF sh.isk = 0 THEN {"none"} ELSE BackEndsOf(sh.kind)), emb : {"nxp", "img", "isk"}] :
           b.emb # "nxp" => Wire(sh.kind, b[b.emb]) = "der" }          \* emb names the field that holds a DER blob as delivered

(* ---- the documented layout: regions [n, a, b) of the image of a shape *)
R(n, a, b) == [n |-> n, a |-> a, b |-> b]
NonEmpty(seq) == SelectSeq(seq, LAMBDA r : r.b > r.a)
Min(a, b) == IF a < b THEN a ELSE b
HeadRegs(w28name, app) == << R("head", 0, OffTotal), R("ivt_len", OffTotal, OffFlags), R("ivt_flags", OffFlags, OffW28),
                         R(w28name, OffW28, OffW28 + 4), R("ivt_tail", OffW28 + 4, Min(IvtLen, app)) >>   \* the payload may end before byte 64

BuildCrc(sh, rom) ==
  LET tz == TzBytes(rom, sh.tzType)  fl == sh.app + tz IN
  [fileLen |-> fl, w28 |-> 0, imgLen |-> 0,
   reg |-> NonEmpty(HeadRegs("crc_word", sh.app) \o << R("app", IvtLen, sh.app), R("tz", sh.app, fl) >>)]

RECURSIVE CertRegs(_, _, _, _)
CertRegs(i, n, at, len) == IF i > n THEN << >> ELSE << R("cert", at, at + 4 + len) >> \o CertRegs(i + 1, n, at + 4 + len, len)

BuildV1(sh, rom) ==
  LET shift == Shift(rom, sh.ks)
      cbAt == sh.app + shift
      tab == sh.depth * (4 + CertLen(sh.kb))
      rkhAt == cbAt + V1HdrLen + tab
      cbEnd == rkhAt + RkhLen
      ex == EncExtra(rom)
      tz == TzBytes(rom, sh.tzType)
      sigAt == cbEnd + ex + tz
  IN IF rom.hmac /\ sh.app < IvtLen
     THEN \* the corner: the block starts at sh.app, the HMAC (and key store) cut it in two at byte 64; same number of bytes
          [fileLen |-> sigAt + sh.kb, w28 |-> sh.app, imgLen |-> sigAt - shift, cbAt |-> cbAt, tabLen |-> tab, rkhAt |-> rkhAt,
           cbEnd |-> cbEnd, sigAt |-> sigAt,
           reg |-> NonEmpty(HeadRegs("ivt_w28", sh.app) \o
                    << R("cb_front", sh.app, IvtLen), R("hmac", IvtLen, IvtLen + HmacLen), R("keystore", IvtLen + HmacLen, IvtLen + shift),
                       R("unsettled", IvtLen + shift, sigAt + sh.kb) >>)]
     ELSE
     [fileLen |-> sigAt + sh.kb, w28 |-> sh.app, imgLen |-> sigAt - shift, cbAt |-> cbAt, tabLen |-> tab, rkhAt |-> rkhAt,
      cbEnd |-> cbEnd, sigAt |-> sigAt,
      reg |-> NonEmpty(HeadRegs("ivt_w28", sh.app) \o
               << R("hmac", IvtLen, IvtLen + (IF rom.hmac THEN HmacLen ELSE 0)),
                  R("keystore", IvtLen + HmacLen, IvtLen + shift),
                  R("app", IvtLen + shift, cbAt), R("cb_hdr", cbAt, cbAt + V1HdrLen) >>
               \o CertRegs(1, sh.depth, cbAt + V1HdrLen, CertLen(sh.kb)) \o
               << R("rkh", rkhAt, cbEnd), R("enc_ivt", cbEnd, cbEnd + (IF ex > 0 THEN EncIvtLen ELSE 0)),
                  R("iv", cbEnd + EncIvtLen, cbEnd + ex), R("tz", cbEnd + ex, sigAt), R("sig", sigAt, sigAt + sh.kb) >>)]

BuildV21(sh, rom) ==
  LET cbAt == sh.app
      rkrAt == cbAt + V21HdrLen
      tabLen == IF sh.nKeys > 1 THEN sh.nKeys * sh.curve ELSE 0
      keyAt == rkrAt + 4 + tabLen
      rkrEnd == keyAt + 2 * sh.curve
      udOut == IF sh.udx = "given" THEN Align4(sh.ud) ELSE sh.ud       \* the user data bytes that stand in the exported certificate
      iskSigAt == rkrEnd + 12 + sh.isk + udOut
      cbEnd == IF sh.isk = 0 THEN rkrEnd ELSE iskSigAt + 2 * sh.curve
      tz == TzBytes(rom, sh.tzType)
      manLen == ManHdrLen + tz + (IF rom.man = 2 THEN 4 ELSE 0)
      sigAt == cbEnd + manLen
      signer == IF sh.isk = 0 THEN 2 * sh.curve ELSE sh.isk
      dig == IF sh.dig THEN signer \div 2 ELSE 0
  IN [fileLen |-> sigAt + signer + dig, w28 |-> sh.app, imgLen |-> 0, cbAt |-> cbAt, rkrAt |-> rkrAt, tabLen |-> tabLen, keyAt |-> keyAt,
      rkrEnd |-> rkrEnd, udOut |-> udOut, iskSigAt |-> iskSigAt, cbEnd |-> cbEnd, manLen |-> manLen, sigAt |-> sigAt, signer |-> signer, digLen |-> dig,
      reg |-> NonEmpty(HeadRegs("ivt_w28", sh.app) \o
               << R("app", IvtLen, cbAt), R("cb_hdr", cbAt, rkrAt), R("rkr_flags", rkrAt, rkrAt + 4), R("rkr_table", rkrAt + 4, keyAt),
                  R("rkr_key", keyAt, rkrEnd),
                  R("isk_hdr", rkrEnd, IF sh.isk = 0 THEN rkrEnd ELSE rkrEnd + 12),
                  R("isk_key", rkrEnd + 12, IF sh.isk = 0 THEN 0 ELSE rkrEnd + 12 + sh.isk),
                  R("isk_ud", rkrEnd + 12 + sh.isk, IF sh.isk = 0 THEN 0 ELSE iskSigAt),
                  R("isk_sig", iskSigAt, IF sh.isk = 0 THEN 0 ELSE cbEnd),
                  R("man_hdr", cbEnd, cbEnd + ManHdrLen), R("man_tz", cbEnd + ManHdrLen, cbEnd + ManHdrLen + tz),
                  R("man_crc", cbEnd + ManHdrLen + tz, sigAt), R("sig", sigAt, sigAt + signer), R("digest", sigAt + signer, sigAt + signer + dig) >>)]

Build(sh) == LET rom == RomOf(sh.kind) IN
  IF rom.cb = 0 THEN BuildCrc(sh, rom) ELSE IF rom.cb = 1 THEN BuildV1(sh, rom) ELSE BuildV21(sh, rom)

DontCare == {"keystore"}

VARIABLES shape, sp, be, t, s, img                        \* img = Build(shape), kept in the state so that it is computed once
vars == <<shape, sp, be, t, s, img>>
rom == RomOf(shape.kind)
TReg == img.reg[t]
Hit(a, b) == t # 0 /\ TReg.a < b /\ a < TReg.b           \* the tampered region meets [a, b)
Aux(hit) == IF hit THEN BOOLEAN ELSE {TRUE}                \* an auxiliary check may or may not notice
W2(n) == <<n \div 65536, n % 65536>>

Corner == rom.hmac /\ shape.app < IvtLen                  \* the HMAC field lies inside the certificate block
Init == /\ shape \in Shapes /\ img = Build(shape) /\ s = S0
        /\ sp \in (IF SpShape(shape) THEN Specials(shape.kind) ELSE {NoSp})
        /\ be \in (IF sp = NoSp THEN BackEndChoices(shape) ELSE {NoBe(shape)})
        /\ t \in (IF sp = NoSp /\ be = NoBe(shape) /\ shape.udx = "exported" THEN 0..Len(img.reg) ELSE {0})
Step(ok, nx) == s' = (IF ok THEN nx ELSE [s EXCEPT !.st = "Rejected"]) /\ UNCHANGED <<shape, sp, be, t, img>>
UdUnsigned == shape.udx = "given" /\ img.udOut # shape.ud           \* exported bytes in front of the ISK signature that its signer never saw
AsIs(role) == be.emb = role /\ Wire(shape.kind, be[role]) = "der"  \* a DER blob sits where the ROM reads r || s
CrcChain(cuts) == \* what an executor reports: the planned special at its cut, "other" elsewhere
  LET cs == { c \in cuts : c = 0 \/ c <= img.fileLen }
      f(c) == <<c, IF sp.what \in {"crc", "mancrc"} /\ sp.cut = c THEN sp.cls ELSE "other">>
      RECURSIVE Sq(_)
      Sq(S) == IF S = {} THEN << >> ELSE LET c == CHOOSE x \in S : TRUE IN <<f(c)>> \o Sq(S \ {c})
  IN Sq(cs)

ReadIvt == s.st = "Ivt" /\
  LET e == [rd |-> TRUE, type |-> rom.type, totalLen |-> img.fileLen, fileLen |-> img.fileLen, tzType |-> shape.tzType,
            ks |-> shape.ks, w28 |-> W2(img.w28)] IN Step(IvtOK(rom, s, e), IvtNx(rom, s, e))
CheckCrc == s.st = "Crc" /\
  LET e == [ok |-> ~Hit(0, img.fileLen), frm |-> 0, to |-> img.fileLen, skipAt |-> OffW28, skipLen |-> 4, chain |-> CrcChain(CrcCuts)]
  IN Step(CrcOK(rom, s, e), CrcNx(rom, s, e))
CheckHmac == s.st = "Hmac" /\
  LET e == [ok |-> ~Hit(0, IvtLen + HmacLen), macAt |-> IvtLen, macLen |-> HmacLen, frm |-> 0, to |-> IvtLen, key |-> "AES-ECB(userKey, 0^16)"]
  IN Step(HmacOK(rom, s, e), HmacNx(rom, s, e))
CertSplit == s.st = "Cert" /\ Corner /\ LET e == [at |-> img.w28] IN Step(SplitOK(rom, s, e), SplitNx(rom, s, e))
CertBlockV1 == s.st = "Cert" /\ rom.cb = 1 /\ ~Corner /\
  LET e == [rd |-> TRUE, magicOk |-> TRUE, at |-> img.cbAt, hdrLen |-> V1HdrLen, imgLen |-> img.imgLen, count |-> shape.depth, tabLen |-> img.tabLen]
  IN Step(Cb1OK(rom, s, e), Cb1Nx(rom, s, e))
CertV1 == s.st = "CertV1" /\ \E ok \in Aux(Hit(s.cb.at + V1HdrLen, s.cur + 4 + CertLen(shape.kb))) :
  LET e == [rd |-> TRUE, ok |-> ok, i |-> s.idx, at |-> s.cur, len |-> CertLen(shape.kb), derLen |-> CertLen(shape.kb) - 1, keyBytes |-> shape.kb]
  IN Step(Cert1OK(rom, s, e), Cert1Nx(rom, s, e))
RkhTable == s.st = "Rkh" /\ \E inT \in Aux(Hit(img.cbAt + V1HdrLen, img.cbEnd)) :
  LET e == [rd |-> TRUE, at |-> img.rkhAt, len |-> RkhLen, rootInTable |-> inT, rootIdx |-> 0, fuseOk |-> ~Hit(img.rkhAt, img.cbEnd)]
  IN Step(RkhOK(rom, s, e), RkhNx(rom, s, e))
VerifySigV1 == s.st = "Sig1" /\
  LET e == [rd |-> TRUE, ok |-> ~(Hit(0, IvtLen) \/ Hit(IvtLen + s.shift, img.fileLen)) /\ ~AsIs("img"), sigAt |-> img.sigAt, sigLen |-> shape.kb,
            segs |-> << <<0, IvtLen>>, <<IvtLen + s.shift, img.sigAt>> >>]
  IN Step(Sig1OK(rom, s, e), Sig1Nx(rom, s, e))
Decrypt == s.st = "Dec" /\
  LET tz == TzBytes(rom, shape.tzType)
      e == [rd |-> TRUE, ok |-> TRUE, key |-> (IF shape.ks THEN "userKey" ELSE "AES-ECB(masterKey, 01 0^15 02 0^15)"),
            ivAt |-> img.cbEnd + EncIvtLen, ivLen |-> IvLen,
            segs |-> << <<img.cbEnd, img.cbEnd + EncIvtLen>>, <<EncIvtLen, IvtLen>>, <<IvtLen + s.shift, img.cbAt>>, <<img.cbEnd + EncIvtLen + IvLen, img.sigAt>> >>,
            appLen |-> img.w28, tzLen |-> tz, plainLen |-> img.w28 + tz, ivClass |-> (IF sp.what = "ctr" /\ sp.cls # "drawn" THEN sp.cls ELSE "other")]
  IN Step(DecOK(rom, s, e), DecNx(rom, s, e))
CertBlockV21 == s.st = "Cert" /\ rom.cb = 21 /\
  LET e == [rd |-> TRUE, magicOk |-> TRUE, verOk |-> TRUE, at |-> img.cbAt, size |-> img.cbEnd - img.cbAt] IN Step(Cb21OK(rom, s, e), Cb21Nx(rom, s, e))
RootKeyRecord == s.st = "Rkr" /\ \E inT \in Aux(Hit(img.rkrAt, img.rkrEnd)) :
  LET e == [rd |-> TRUE, at |-> img.rkrAt, nKeys |-> shape.nKeys, used |-> shape.used, curveLen |-> shape.curve, ca |-> shape.isk = 0,
            tableLen |-> img.tabLen, keyAt |-> img.keyAt, keyLen |-> 2 * shape.curve, usedInTable |-> inT,
            fuseOk |-> ~(IF shape.nKeys > 1 THEN Hit(img.rkrAt + 4, img.keyAt) ELSE Hit(img.keyAt, img.rkrEnd))]
  IN Step(RkrOK(rom, s, e), RkrNx(rom, s, e))
IskCert == s.st = "Isk" /\
  LET e == [rd |-> TRUE, ok |-> ~Hit(img.rkrAt, img.cbEnd) /\ ~AsIs("isk") /\ ~UdUnsigned, at |-> img.rkrEnd, iskLen |-> shape.isk,
            udLen |-> img.udOut, udFlag |-> shape.ud > 0,       \* what an executor reads: the length the offset word implies
            sigOff |-> 12 + shape.isk + img.udOut, sigAt |-> img.iskSigAt, sigLen |-> 2 * shape.curve, frm |-> img.rkrAt, to |-> img.iskSigAt]
  IN Step(IskOK(rom, s, e), IskNx(rom, s, e))
CertBlockEnd == s.st = "CbEnd" /\ LET e == [at |-> img.cbEnd, size |-> img.cbEnd - img.cbAt] IN Step(CbEndOK(rom, s, e), CbEndNx(rom, s, e))
Manifest == s.st = "Man" /\
  LET e == [rd |-> TRUE, magicOk |-> TRUE, verOk |-> TRUE, at |-> img.cbEnd, tzLen |-> TzBytes(rom, shape.tzType), totalLen |-> img.manLen, digestLen |-> img.digLen]
  IN Step(ManOK(rom, s, e), ManNx(rom, s, e))
ManifestCrc == s.st = "ManCrc" /\
  LET e == [ok |-> ~Hit(0, img.sigAt), at |-> img.sigAt - 4, frm |-> 0, to |-> img.sigAt - 4, chain |-> CrcChain({40, 0})]
  IN Step(ManCrcOK(rom, s, e), ManCrcNx(rom, s, e))
VerifySigV21 == s.st = "Sig21" /\
  LET e == [rd |-> TRUE, ok |-> ~Hit(0, img.sigAt + img.signer) /\ ~AsIs("img"), frm |-> 0, to |-> img.sigAt, sigAt |-> img.sigAt, sigLen |-> img.signer]
  IN Step(Sig21OK(rom, s, e), Sig21Nx(rom, s, e))
CheckDigest == s.st = "Dig" /\
  LET e == [rd |-> TRUE, ok |-> ~(Hit(0, img.sigAt) \/ Hit(img.sigAt + img.signer, img.fileLen)), at |-> img.sigAt + img.signer, len |-> img.digLen, frm |-> 0, to |-> img.sigAt]
  IN Step(DigOK(rom, s, e), DigNx(rom, s, e))
Accept == s.st = "Done" /\ Step(AcceptOK(rom, s), AcceptNx(rom, s))
Emit == /\ s.st \in {"Accepted", "Rejected", "Unsettled"}
        /\ PrintT(ToJson([kind |-> shape.kind, cls |-> (IF t = 0 THEN "none" ELSE TReg.n), verdict |-> s.st, enc |-> rom.type = 3,
                           corner |-> Corner, app |-> shape.app, sp |-> sp, be |-> be, beShape |-> BeShape(shape),
                           curve |-> shape.curve, isk |-> shape.isk, ud |-> shape.ud, udx |-> shape.udx, udOut |-> (IF rom.cb = 21 THEN img.udOut ELSE 0),
                           udClass |-> UdClass(shape.ud), udShape |-> (UdShape(shape) /\ shape.ud \in UdPlan), udRoutes |-> UdRoutes]))
        /\ s' = [s EXCEPT !.st = "End"] /\ UNCHANGED <<shape, sp, be, t, img>>
Stutter == s.st = "End" /\ UNCHANGED vars
Next == ReadIvt \/ CheckCrc \/ CheckHmac \/ CertSplit \/ CertBlockV1 \/ CertV1 \/ RkhTable \/ VerifySigV1 \/ Decrypt \/ CertBlockV21 \/ RootKeyRecord
        \/ IskCert \/ CertBlockEnd \/ Manifest \/ ManifestCrc \/ VerifySigV21 \/ CheckDigest \/ Accept \/ Emit \/ Stutter
Spec == Init /\ [][Next]_vars

(* ---- lemmas *)
UntamperedAccepted == (t = 0 /\ be.emb = "nxp" /\ shape.udx = "exported") => s.st # "Rejected"
TamperRejected == (s.st = "Accepted" /\ t # 0) => TReg.n \in DontCare
DontCareAccepted == (s.st = "Rejected" /\ t # 0) => TReg.n \notin DontCare
RegionsCovered == s.st = "Accepted" =>
  \A i \in 1..Len(img.reg) : img.reg[i].n \notin DontCare =>
     Reach(s.cov, img.reg[i].a, Cardinality(s.cov)) >= img.reg[i].b       \* authenticated intervals, chained, span the region
NothingBeyond == s.st = "Accepted" => \A iv \in s.cov \cup s.dc : iv[2] <= img.fileLen
(* the unsettled corner: reached exactly by the images it is meant for, never accepted, and its settled prefix (first 64 bytes + HMAC) is covered *)
UnsettledOnlyInCorner == s.st = "Unsettled" => Corner
CornerNeverAccepted == Corner => s.st # "Accepted"
SplitPrefixCovered == (s.st = "Unsettled" /\ t # 0) => TReg.n \in {"keystore", "unsettled"}
(* special value classes of chained computations change nothing for the ROM *)
SpecialsAccepted == (sp # NoSp /\ s.st \in {"Accepted", "Rejected", "Unsettled"}) => s.st = "Accepted"
(* signing back ends: whoever signs, the image of the format is accepted; a DER blob stored as delivered never is *)
BackEndsAccepted == (be.emb = "nxp" /\ shape.udx = "exported" /\ t = 0 /\ ~Corner /\ s.st \in {"Accepted", "Rejected", "Unsettled"}) => s.st = "Accepted"
AsDeliveredRejected == be.emb # "nxp" => s.st \notin {"Accepted", "Unsettled"}
(* ISK user data: the image of the format is accepted for every length class; user data exported padded but signed as given never are *)
UdLengthsAccepted == (UdShape(shape) /\ shape.udx = "exported" /\ t = 0 /\ be.emb = "nxp" /\ s.st \in {"Accepted", "Rejected", "Unsettled"}) => s.st = "Accepted"
PaddedUnsignedRejected == shape.udx = "given" => s.st \notin {"Accepted", "Unsettled"}
=============================================================================
