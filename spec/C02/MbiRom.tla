------------------------------- MODULE MbiRom -------------------------------
(* C02 - R-spec: the boot ROM's acceptance procedure for a Master Boot Image, as an automaton over *)
(* the file.  This module is the normative part shared by every form of the specification:         *)
(*   <Step>OK(rom, s, e)   - the clause the ROM checks in step <Step>, over the facts e it reads   *)
(*   <Step>Nx(rom, s, e)   - the ROM's registers after the step                                    *)
(*   Covered(s)            - the coverage clause at Accept                                         *)
(* MbiRomMC.tla drives it with an abstract image builder (the format as documented) and a tamper   *)
(* marker and model-checks the lemmas; MbiRomTrace.tla drives it with the events an executor has   *)
(* logged while walking the real bytes SPSDK exported (e = logged event, every number recomputed).  *)
(*                                                                                                 *)
(* rom  = configuration of the ROM for the device / boot mode:                                     *)
(*        [type  - the image type the device is set up to boot (IVT flags bits 0..5),              *)
(*         cb    - 0: CRC image, 1: certificate block v1 (RSA), 21: certificate block v2.1 (ECDSA),*)
(*         hmac  - load-to-RAM image with HMAC (+ optional key store) behind byte 64,              *)
(*         tz    - size of the TrustZone preset block of the device (0: none),                     *)
(*         man   - 0: no manifest, 1: manifest with optional digest, 2: manifest with CRC]         *)
(* s    = ROM registers: st (control state), h (IVT words), shift, cb (block header), cur, idx,     *)
(*        keyBytes, cbEnd, signer (length of the key that signs the image), man, end (cursor),      *)
(*        cov (authenticated intervals), dc (bytes the ROM does not authenticate by definition).    *)
(* Crypto appears only as facts: e.ok etc. are evaluated by the executor with an independent base.  *)
EXTENDS Integers, Sequences, FiniteSets, TLC

IvtLen   == 64          \* the first 64 bytes (vector table with the four ROM words) are what the HMAC covers
MinLen   == 56          \* 0x38: the four ROM words end here - the smallest payload an image can have
OffTotal == 32          \* 0x20 total image length
OffFlags == 36          \* 0x24 image type and flags
OffW28   == 40          \* 0x28 CRC value or offset of the certificate block
HmacLen  == 32
KsLen    == 1424        \* key store
V1HdrLen == 32          \* certificate block v1 header
RkhLen   == 128         \* 4 x SHA-256
EncIvtLen == 56         \* copy of the encrypted first 56 bytes behind the certificate block
IvLen    == 16
V21HdrLen == 12
ManHdrLen == 20

Align4(n) == ((n + 3) \div 4) * 4
Word(w) == w[1] * 65536 + w[2]                 \* 32-bit word logged as two 16-bit limbs (TLC integers are 32-bit signed)
Shift(rom, ks) == IF rom.hmac THEN HmacLen + (IF ks THEN KsLen ELSE 0) ELSE 0
TzBytes(rom, tzType) == IF tzType = 1 THEN rom.tz ELSE 0          \* 0 default, 1 custom preset data, 2 disabled

S0 == [st |-> "Ivt", h |-> [x |-> 0], shift |-> 0, cb |-> [x |-> 0], cur |-> 0, idx |-> 0, keyBytes |-> 0,
       cbEnd |-> 0, signer |-> 0, man |-> [x |-> 0], end |-> 0, cov |-> {}, dc |-> {}]

(* ------------------------------------------------------------------ ReadIvt *)
IvtOK(rom, s, e) ==
  /\ s.st = "Ivt" /\ e.rd
  /\ e.type = rom.type                                   \* the device boots this image type only
  /\ e.totalLen = e.fileLen                              \* the length word describes the bytes emitted
  /\ e.fileLen >= MinLen
  /\ e.tzType \in {0, 1, 2} /\ (e.tzType = 1 => rom.tz > 0)
  /\ (e.ks => rom.hmac)
  /\ (rom.cb # 0 => e.w28[1] < 16384)                     \* an offset, not a CRC value (also keeps Word() inside TLC's integers)
  /\ (IF rom.hmac THEN IvtLen + Shift(rom, e.ks) ELSE MinLen) + TzBytes(rom, e.tzType) <= e.fileLen
IvtNx(rom, s, e) ==
  [s EXCEPT !.h = e, !.st = IF rom.cb = 0 THEN "Crc" ELSE IF rom.hmac THEN "Hmac" ELSE "Cert"]

(* ------------------------------------------------------------------ CRC images *)
(* The ROM runs ONE pass over the image: no running value is special to it.  e.chain reports the class of the running  *)
(* value at the offsets where a block-wise implementation may split its computation (0 = the final value); it is  *)
(* the dimension the generator (MbiRomMC: Specials) drives through zero / all ones - the verdict never depends on it. *)
ValueClasses == {"zero", "ones", "other"}
ChainWF(e, end) == \A i \in 1..Len(e.chain) : e.chain[i][1] \in 0..end /\ e.chain[i][2] \in ValueClasses
CrcOK(rom, s, e) ==
  /\ s.st = "Crc" /\ e.ok
  /\ e.frm = 0 /\ e.to = s.h.fileLen /\ e.skipAt = OffW28 /\ e.skipLen = 4      \* whole image, CRC word skipped
  /\ ChainWF(e, s.h.fileLen)
CrcNx(rom, s, e) == [s EXCEPT !.st = "Done", !.cov = {<<0, s.h.fileLen>>}, !.end = s.h.fileLen]

(* ------------------------------------------------------------------ HMAC over the first 64 bytes *)
HmacOK(rom, s, e) ==
  /\ s.st = "Hmac" /\ e.ok
  /\ e.macAt = IvtLen /\ e.macLen = HmacLen /\ e.frm = 0 /\ e.to = IvtLen
  /\ e.key = "AES-ECB(userKey, 0^16)"
HmacNx(rom, s, e) ==
  [s EXCEPT !.st = "Cert", !.shift = Shift(rom, s.h.ks),
            !.cov = @ \cup {<<IvtLen, IvtLen + HmacLen>>},                         \* the MAC field is verified, not signed
            !.dc = IF s.h.ks THEN {<<IvtLen + HmacLen, IvtLen + HmacLen + KsLen>>} ELSE {}]   \* key store: device-bound blob

(* ------------------------------------------------------------------ the unsettled corner *)
(* A load-to-RAM image with HMAC whose payload ends before byte 64: the HMAC field (fixed at byte 64) lies INSIDE the *)
(* certificate block.  The HMAC clause above is settled for it (first 64 bytes of the file, whatever they are); what *)
(* the ROM does with a split block is not described anywhere offline, so the automaton stops in "Unsettled" - it    *)
(* neither accepts nor rejects.  The clause is exact: any other image in state "Cert" has to show its block.         *)
SplitOK(rom, s, e) == s.st = "Cert" /\ rom.hmac /\ Word(s.h.w28) < IvtLen /\ e.at = Word(s.h.w28)
SplitNx(rom, s, e) == [s EXCEPT !.st = "Unsettled"]

(* ------------------------------------------------------------------ certificate block v1 *)
Cb1OK(rom, s, e) ==
  /\ s.st = "Cert" /\ rom.cb = 1 /\ e.rd /\ e.magicOk
  /\ e.at = Word(s.h.w28) + s.shift /\ e.at % 4 = 0 /\ e.at >= (IF rom.hmac THEN IvtLen ELSE MinLen) + s.shift
  /\ e.hdrLen = V1HdrLen /\ e.count \in 1..4 /\ e.tabLen > 0 /\ e.tabLen % 4 = 0
  /\ e.at + V1HdrLen + e.tabLen + RkhLen <= s.h.fileLen
Cb1Nx(rom, s, e) == [s EXCEPT !.st = "CertV1", !.cb = e, !.cur = e.at + V1HdrLen, !.idx = 1]

Cert1OK(rom, s, e) ==
  /\ s.st = "CertV1" /\ e.rd /\ e.ok                     \* signature of certificate i verifies under certificate i-1 (root: self-signed)
  /\ e.i = s.idx /\ s.idx <= s.cb.count
  /\ e.at = s.cur /\ e.len % 4 = 0 /\ e.derLen <= e.len /\ e.len < e.derLen + 4
  /\ e.at + 4 + e.len <= s.cb.at + V1HdrLen + s.cb.tabLen
  /\ e.keyBytes \in {256, 384, 512}
  /\ (e.i = s.cb.count => e.at + 4 + e.len = s.cb.at + V1HdrLen + s.cb.tabLen)     \* the table is exactly the certificates
Cert1Nx(rom, s, e) ==
  [s EXCEPT !.cur = e.at + 4 + e.len, !.idx = @ + 1, !.keyBytes = e.keyBytes,
            !.st = IF e.i = s.cb.count THEN "Rkh" ELSE "CertV1"]

RkhOK(rom, s, e) ==
  /\ s.st = "Rkh" /\ e.rd
  /\ e.at = s.cur /\ e.len = RkhLen
  /\ e.rootInTable /\ e.rootIdx \in 0..3                 \* SHA-256(n || e) of the root certificate is one of the four entries
  /\ e.fuseOk                                            \* SHA-256(table) is the value programmed into the fuses
RkhNx(rom, s, e) ==
  [s EXCEPT !.cbEnd = Align4(e.at + RkhLen), !.signer = s.keyBytes, !.st = "Sig1"]

(* what follows the block: (encrypted types) encrypted IVT copy + counter IV, TrustZone preset data, signature *)
EncExtra(rom) == IF rom.type = 3 THEN EncIvtLen + IvLen ELSE 0
Sig1At(rom, s) == s.cbEnd + EncExtra(rom) + TzBytes(rom, s.h.tzType)
Sig1OK(rom, s, e) ==
  /\ s.st = "Sig1" /\ e.rd /\ e.ok                       \* RSA PKCS#1 v1.5 / SHA-256 under the key of the LAST certificate
  /\ e.sigAt = Sig1At(rom, s) /\ e.sigLen = s.signer
  /\ e.sigAt + e.sigLen = s.h.fileLen                    \* the signature ends the image
  /\ e.segs = << <<0, IvtLen>>, <<IvtLen + s.shift, e.sigAt>> >>   \* every byte before the signature but HMAC / key store
  /\ s.cb.imgLen = e.sigAt - s.shift                     \* the authenticated length field is the signed length
Sig1Nx(rom, s, e) ==
  [s EXCEPT !.cov = @ \cup {<<0, IvtLen>>, <<IvtLen + s.shift, e.sigAt>>, <<e.sigAt, e.sigAt + e.sigLen>>},
            !.end = e.sigAt + e.sigLen, !.st = IF rom.type = 3 THEN "Dec" ELSE "Done"]

DecOK(rom, s, e) ==
  /\ s.st = "Dec" /\ e.rd /\ e.ok                        \* AES-CTR plaintext = application (+ relocation table) || TrustZone data
  \* the image key is the user key of the key store - the one in the file, or one provisioned on the device earlier (rom.ksdev) - else it is derived from the OTP master key
  /\ e.key = (IF s.h.ks \/ rom.ksdev THEN "userKey" ELSE "AES-ECB(masterKey, 01 0^15 02 0^15)")
  /\ e.ivAt = s.cbEnd + EncIvtLen /\ e.ivLen = IvLen
  /\ e.segs = << <<s.cbEnd, s.cbEnd + EncIvtLen>>, <<EncIvtLen, IvtLen>>, <<IvtLen + s.shift, s.cb.at>>,
                 <<s.cbEnd + EncIvtLen + IvLen, Sig1At(rom, s)>> >>
  /\ e.appLen = Word(s.h.w28) /\ e.tzLen = TzBytes(rom, s.h.tzType)
  /\ e.plainLen = e.appLen + e.tzLen
  /\ e.ivClass \in {"zero", "ones", "lo32ones", "lo64ones", "other"}     \* any counter start is good: 128-bit big-endian increment
DecNx(rom, s, e) == [s EXCEPT !.st = "Done"]

(* ------------------------------------------------------------------ certificate block v2.1 *)
Cb21OK(rom, s, e) ==
  /\ s.st = "Cert" /\ rom.cb = 21 /\ e.rd /\ e.magicOk /\ e.verOk
  /\ e.at = Word(s.h.w28) /\ e.at % 4 = 0 /\ e.at >= MinLen
Cb21Nx(rom, s, e) == [s EXCEPT !.st = "Rkr", !.cb = e]

RkrOK(rom, s, e) ==
  /\ s.st = "Rkr" /\ e.rd
  /\ e.at = s.cb.at + V21HdrLen
  /\ e.nKeys \in 1..4 /\ e.used < e.nKeys /\ e.curveLen \in {32, 48}
  /\ e.tableLen = (IF e.nKeys > 1 THEN e.nKeys * e.curveLen ELSE 0)
  /\ e.keyAt = e.at + 4 + e.tableLen /\ e.keyLen = 2 * e.curveLen
  /\ e.usedInTable                                       \* H(root public key) = table[used]   (one key: no table)
  /\ e.fuseOk                                            \* H(table) resp. H(root public key) is the value in the fuses
RkrNx(rom, s, e) ==
  [s EXCEPT !.cur = e.keyAt + e.keyLen, !.signer = e.keyLen, !.st = IF e.ca THEN "CbEnd" ELSE "Isk"]

IskOK(rom, s, e) ==
  /\ s.st = "Isk" /\ e.rd /\ e.ok                        \* ECDSA under the selected root key
  /\ e.at = s.cur /\ e.iskLen \in {64, 96}
  /\ e.sigOff = 12 + e.iskLen + e.udLen /\ e.udLen >= 0 /\ (e.udFlag <=> e.udLen > 0)
  \* The user data are the bytes between the ISK public key and the place the signature-offset word names, EXACTLY AS THEY STAND
  \* IN THE FILE: whatever their length (none / a multiple of 4 / 1, 2, 3 mod 4 - UdClass), the signature is made over every one of
  \* them (e.to = e.sigAt) and over nothing else.  That the length be a multiple of 4 is a rule the TOOL imposes on its callers per
  \* family (its data base); no offline source says that the ROM refuses other lengths, so the ROM model does not decide it: a
  \* refusal of the tool is fine, an exported block has to satisfy this clause and every clause that follows.
  /\ e.sigAt = e.at + e.sigOff /\ e.sigLen = s.signer
  /\ e.frm = s.cb.at + V21HdrLen /\ e.to = e.sigAt       \* root key record || ISK header, key and user data
UdClass(n) == IF n = 0 THEN "none" ELSE IF n % 4 = 0 THEN "aligned" ELSE IF n % 4 = 1 THEN "r1" ELSE IF n % 4 = 2 THEN "r2" ELSE "r3"
IskNx(rom, s, e) == [s EXCEPT !.cur = e.sigAt + e.sigLen, !.signer = e.iskLen, !.st = "CbEnd"]

CbEndOK(rom, s, e) == s.st = "CbEnd" /\ e.at = s.cur /\ e.size = s.cur - s.cb.at
CbEndNx(rom, s, e) == [s EXCEPT !.cbEnd = s.cur, !.st = "Man"]

ManOK(rom, s, e) ==
  /\ s.st = "Man" /\ rom.man \in {1, 2} /\ e.rd /\ e.magicOk /\ e.verOk
  /\ e.at = s.cbEnd
  /\ e.tzLen = TzBytes(rom, s.h.tzType)
  /\ e.totalLen = ManHdrLen + e.tzLen + (IF rom.man = 2 THEN 4 ELSE 0)
  /\ e.digestLen \in (IF rom.man = 2 THEN {0} ELSE {0, s.signer \div 2})     \* digest uses the hash of the signature
ManNx(rom, s, e) == [s EXCEPT !.man = e, !.cur = e.at + e.totalLen, !.st = IF rom.man = 2 THEN "ManCrc" ELSE "Sig21"]

ManCrcOK(rom, s, e) ==
  /\ s.st = "ManCrc" /\ e.ok
  /\ e.at = s.cur - 4 /\ e.frm = 0 /\ e.to = s.cur - 4
  /\ ChainWF(e, s.cur - 4)
ManCrcNx(rom, s, e) == [s EXCEPT !.st = "Sig21"]

Sig21OK(rom, s, e) ==
  /\ s.st = "Sig21" /\ e.rd /\ e.ok                      \* ECDSA under the ISK resp. the selected root key
  /\ e.frm = 0 /\ e.to = s.cur /\ e.sigAt = s.cur /\ e.sigLen = s.signer       \* exactly the bytes that precede it
Sig21Nx(rom, s, e) ==
  [s EXCEPT !.cov = @ \cup {<<0, e.sigAt>>, <<e.sigAt, e.sigAt + e.sigLen>>}, !.cur = e.sigAt, !.end = e.sigAt + e.sigLen,
            !.st = IF s.man.digestLen > 0 THEN "Dig" ELSE "Done"]

DigOK(rom, s, e) ==
  /\ s.st = "Dig" /\ e.rd /\ e.ok
  /\ e.at = s.end /\ e.len = s.man.digestLen /\ e.frm = 0 /\ e.to = s.cur       \* digest of the signed bytes, behind the signature
DigNx(rom, s, e) == [s EXCEPT !.cov = @ \cup {<<e.at, e.at + e.len>>}, !.end = e.at + e.len, !.st = "Done"]

(* ------------------------------------------------------------------ Accept: coverage *)
RECURSIVE Reach(_, _, _)
Reach(iv, p, n) ==                                        \* how far [0, p) extends through the intervals iv (n = fuel)
  IF n = 0 THEN p
  ELSE LET nxt == { a \in iv : a[1] <= p /\ a[2] > p } IN
       IF nxt = {} THEN p ELSE Reach(iv, (CHOOSE a \in nxt : \A b \in nxt : b[2] <= a[2])[2], n - 1)
Covered(s) == Reach(s.cov \cup s.dc, 0, Cardinality(s.cov \cup s.dc)) = s.h.fileLen
AcceptOK(rom, s) == s.st = "Done" /\ s.end = s.h.fileLen /\ Covered(s)
AcceptNx(rom, s) == [s EXCEPT !.st = "Accepted"]
=============================================================================
