------------------------------- MODULE MbiHist -------------------------------
(* C02 - HISTORIES of the objects an image is built from, each exported image judged by the ROM of MbiRom.tla.   *)
(* (strengthening round, seed C02-m11)                                                                            *)
(* The property speaks of EVERY image SPSDK exports.  An image is exported from objects - the MasterBootImage      *)
(* object with its application, the certificate block object - and these objects have a life before the export:   *)
(* a certificate block is used for one image and then for another one of a different size, an MBI object is        *)
(* exported, gets another application and is exported again, a block signs an SB2.1 container first, a block or a   *)
(* whole MBI object is read back out of an exported image (parse / binary `certBlock:` of the configuration).       *)
(* The FORMAT has no memory: what the ROM reads in an image depends on that image alone - for certificate block v1  *)
(* the header word `image length` is the authenticated length of THIS image (Sig1OK: s.cb.imgLen = e.sigAt -       *)
(* s.shift).  The objects do have memory: the block object carries the header it was last exported with (cbl).       *)
(*                                                                                                                  *)
(* State: the block object in hand (cbl: its length register, 0 = never written; src: who wrote it last), the live *)
(* MBI object (obj: its payload, 0 = none; age: new / exported / parsed), the last exported image (last, lastHdr).   *)
(* History actions: NewCb, NewMbi(a), SetApp(a), Export, Sb (SB2.1 container signed with the block), Parse (the      *)
(* last image read back into a new MBI object and a new block object), CbBin (the block cut out of the last image    *)
(* and read back through the configuration entry).  Export builds the abstract image by the layout rules of          *)
(* MbiRomMC (Build) and lets the ROM actions of MbiRomMC walk it; Judge records the verdict.                         *)
(* hx = "format": the exporter writes the header of the format (recomputed for this image) - lemma HistoryAccepted: *)
(* whatever the history, the image is accepted.  hx = "kept": an exporter that writes the length only into a block   *)
(* that has none yet - lemma KeptRejected: the image is rejected exactly when the history left the length of          *)
(* something else in the block; this is the reason why the dimension is explored (every source of a stale length is  *)
(* reached: lemma-side non-vacuity is checked by the harness on the GEN lines).                                      *)
(* GEN: the program so far (prog) is part of the state but NOT of the VIEW, so TLC (breadth first, one worker) keeps  *)
(* ONE shortest program per abstract state; Judge prints the program of every distinct (abstract state, Export) -   *)
(* the plan the harness has to replay on real objects in every composition of the kind.                              *)
EXTENDS MbiRomMC

HApps == IF Full THEN {64, 300, 4096} ELSE {64, 300}      \* payloads of different sizes (not the unsettled corner)
SbLen == 1904                                             \* what an SB2.1 container writes into the block: ITS header length (no MBI has it)
HasCb(k)  == RomOf(k).cb # 0
HasLen(k) == RomOf(k).cb = 1                              \* certificate block v1: the header carries an image length

HShape(k, a) == LET cb == RomOf(k).cb IN
  [kind |-> k, app |-> a, tzType |-> 0, ks |-> FALSE, depth |-> (IF cb = 1 THEN 1 ELSE 0), kb |-> (IF cb = 1 THEN 256 ELSE 0),
   nKeys |-> (IF cb = 21 THEN 1 ELSE 0), used |-> 0, curve |-> (IF cb = 21 THEN 32 ELSE 0), isk |-> (IF cb = 21 THEN 64 ELSE 0),
   ud |-> 0, udx |-> "exported", dig |-> FALSE]
LenOf(k, a) == Build(HShape(k, a)).imgLen                 \* the authenticated length of the image of payload a (0: the kind has no such field)

VARIABLES hk,      \* kind of the images of this behaviour
          hx,      \* exporter model: "format" / "kept"
          cbl,     \* length register of the certificate block object in hand (0: never written / no such register)
          src,     \* who wrote the block in hand last: fresh / own (export of the live object) / other (export of an earlier object) / sb / parsed / bin
          obj,     \* payload of the live MBI object (0: none)
          age,     \* of the live object: none / new / exported / parsed
          last,    \* payload of the last exported image (0: none)
          lastHdr, \* header length of the last exported image
          ph,      \* "hist" / "rom" (the ROM walks the image just exported)
          pre,     \* abstract state in front of the export under judgement
          prog     \* the program so far (not in the VIEW)
hvars == <<hk, hx, cbl, src, obj, age, last, lastHdr, ph, pre, prog>>
romvars == <<shape, sp, be, t, s, img>>
NoPre == [cbl |-> 0, src |-> "-", age |-> "-", rel |-> "-", chg |-> "-"]
Op(o, a) == [op |-> o, a |-> a, v |-> "-", cbl |-> 0, src |-> "-", age |-> "-", rel |-> "-", chg |-> "-"]
(* the payload of the live object against the last exported image (all kinds: lengths, CRC, manifest, signature follow the payload) *)
Chg(a, l) == IF l = 0 THEN "first" ELSE IF a = l THEN "same" ELSE IF a > l THEN "grown" ELSE "shrunk"
Rel(k, c, a) == IF c = 0 THEN "none" ELSE IF c = LenOf(k, a) THEN "same" ELSE IF c = SbLen THEN "sb" ELSE IF c > LenOf(k, a) THEN "longer" ELSE "shorter"

HInit == /\ hk \in Kinds /\ hx \in {"format", "kept"}
         /\ cbl = 0 /\ src = "fresh" /\ obj = 0 /\ age = "none" /\ last = 0 /\ lastHdr = 0 /\ ph = "hist" /\ pre = NoPre /\ prog = << >>
         /\ shape = HShape(hk, 64) /\ img = Build(shape) /\ s = S0 /\ sp = NoSp /\ be = NoBe(shape) /\ t = 0

Hist == ph = "hist"
Log(o) == prog' = Append(prog, o)
NewCb == /\ Hist /\ HasCb(hk) /\ src # "fresh"
         /\ cbl' = 0 /\ src' = "fresh" /\ obj' = 0 /\ age' = "none" /\ Log(Op("NewCb", 0))
         /\ UNCHANGED <<hk, hx, last, lastHdr, ph, pre>> /\ UNCHANGED romvars
NewMbi(a) == /\ Hist /\ age # "new"                       \* the block in hand goes into the new object
             /\ obj' = a /\ age' = "new" /\ src' = (IF src = "own" THEN "other" ELSE src) /\ Log(Op("NewMbi", a))
             /\ UNCHANGED <<hk, hx, cbl, last, lastHdr, ph, pre>> /\ UNCHANGED romvars
SetApp(a) == /\ Hist /\ obj # 0 /\ a # obj
             /\ obj' = a /\ Log(Op("SetApp", a))
             /\ UNCHANGED <<hk, hx, cbl, src, age, last, lastHdr, ph, pre>> /\ UNCHANGED romvars
Sb == /\ Hist /\ HasLen(hk) /\ src # "sb"
      /\ cbl' = SbLen /\ src' = "sb" /\ Log(Op("Sb", 0))
      /\ UNCHANGED <<hk, hx, obj, age, last, lastHdr, ph, pre>> /\ UNCHANGED romvars
Parse == /\ Hist /\ last # 0 /\ age # "parsed"
         /\ obj' = last /\ age' = "parsed" /\ cbl' = lastHdr /\ src' = (IF HasCb(hk) THEN "parsed" ELSE src) /\ Log(Op("Parse", 0))
         /\ UNCHANGED <<hk, hx, last, lastHdr, ph, pre>> /\ UNCHANGED romvars
CbBin == /\ Hist /\ HasCb(hk) /\ last # 0 /\ src # "bin"
         /\ cbl' = lastHdr /\ src' = "bin" /\ obj' = 0 /\ age' = "none" /\ Log(Op("CbBin", 0))
         /\ UNCHANGED <<hk, hx, last, lastHdr, ph, pre>> /\ UNCHANGED romvars
(* the header word the exporter writes: the format recomputes it for this image; the "kept" exporter leaves what the block holds *)
Hdr == IF hx = "format" \/ cbl = 0 THEN LenOf(hk, obj) ELSE cbl
Export == /\ Hist /\ obj # 0
          /\ pre' = [cbl |-> cbl, src |-> src, age |-> age, rel |-> Rel(hk, cbl, obj), chg |-> Chg(obj, last)]
          /\ shape' = HShape(hk, obj) /\ img' = [Build(shape') EXCEPT !.imgLen = Hdr] /\ s' = S0
          /\ cbl' = (IF HasLen(hk) THEN Hdr ELSE 0) /\ src' = (IF HasCb(hk) THEN "own" ELSE src)
          /\ age' = (IF age = "new" THEN "exported" ELSE age) /\ last' = obj /\ lastHdr' = (IF HasLen(hk) THEN Hdr ELSE 0) /\ ph' = "rom"
          /\ Log([op |-> "Export", a |-> obj, v |-> "-", cbl |-> cbl, src |-> src, age |-> age, rel |-> Rel(hk, cbl, obj), chg |-> Chg(obj, last)])
          /\ UNCHANGED <<hk, hx, obj, sp, be, t>>
(* the ROM of MbiRomMC walks the image *)
Rom == /\ ph = "rom" /\ UNCHANGED hvars
       /\ (ReadIvt \/ CheckCrc \/ CheckHmac \/ CertSplit \/ CertBlockV1 \/ CertV1 \/ RkhTable \/ VerifySigV1 \/ Decrypt \/ CertBlockV21
           \/ RootKeyRecord \/ IskCert \/ CertBlockEnd \/ Manifest \/ ManifestCrc \/ VerifySigV21 \/ CheckDigest \/ Accept)
Judged == ph = "rom" /\ s.st \in {"Accepted", "Rejected", "Unsettled"}
Judge == /\ Judged
         /\ prog' = [prog EXCEPT ![Len(prog)].v = s.st]
         /\ PrintT(ToJson([kind |-> hk, hx |-> hx, verdict |-> s.st, pre |-> pre, prog |-> prog']))
         /\ ph' = "hist" /\ pre' = NoPre /\ s' = S0
         /\ UNCHANGED <<hk, hx, cbl, src, obj, age, last, lastHdr>> /\ UNCHANGED <<shape, sp, be, t, img>>
DoNewMbi == \E a \in HApps : NewMbi(a)
DoSetApp == \E a \in HApps : SetApp(a)
HNext == NewCb \/ DoNewMbi \/ DoSetApp \/ Sb \/ Parse \/ CbBin \/ Export \/ Rom \/ Judge
HView == <<hk, hx, cbl, src, obj, age, last, lastHdr, ph, pre, shape, sp, be, t, s, img>>

(* ---- lemmas *)
HTypeOK == /\ obj \in HApps \cup {0} /\ last \in HApps \cup {0} /\ ph \in {"hist", "rom"} /\ age \in {"none", "new", "exported", "parsed"}
           /\ src \in {"fresh", "own", "other", "sb", "parsed", "bin"} /\ (~HasLen(hk) => cbl = 0 /\ lastHdr = 0)
Stale == pre.rel \in {"sb", "longer", "shorter"}          \* the block in hand held the length of something else
(* the format has no memory: whatever the objects went through, the exported image is accepted *)
HistoryAccepted == (hx = "format" /\ Judged) => s.st = "Accepted"
(* an exporter that keeps the length a block already holds is rejected exactly for the stale histories *)
KeptRejected == (hx = "kept" /\ Judged) => (s.st = "Rejected" <=> Stale) /\ (s.st = "Accepted" <=> ~Stale)
(* under the format the register of the block in hand is the header of the last image it was exported in *)
RegisterFollows == (hx = "format" /\ Hist /\ src \in {"own", "other", "parsed", "bin"} /\ HasLen(hk)) => (cbl = lastHdr /\ cbl = LenOf(hk, last))
=============================================================================
