--------------------------- MODULE NumHelpersMC ---------------------------
(* MC / GEN form of the C20 R-spec: the abstract case space is the set of initial states, the   *)
(* contracts are checked as theorems over it, and every non-string case is emitted for replay.  *)
EXTENDS NumHelpers, Json
CONSTANTS MaxLen,      \* strings up to this length over Alphabet (exhaustive)
          MaxN         \* small integers 0..MaxN
VARIABLES fn, a
vars == <<fn, a>>
Alphabet == {"0", "1", "7", "9", "a", "f", "b", "o", "x", "_", "u", "l", "g", "-", " ", "+"}
Strings == UNION {[1..k -> Alphabet] : k \in 0..MaxLen}
Iota(n) == [i \in 1..n |-> i]
FoldBig(b) == LET F[i \in 0..Len(b)] == IF i = 0 THEN 0 ELSE F[i - 1] * 256 + b[Len(b) + 1 - i] IN F[Len(b)]
Pats == {[kind |-> "zeros"], [kind |-> "ones"], [kind |-> "inc"], [kind |-> "bytes", b |-> <<171>>],
         [kind |-> "bytes", b |-> <<18, 52>>], [kind |-> "bytes", b |-> <<1, 2, 3>>]}
\* boundary values of every byte length 1..9 as big naturals, plus zero
BigMenu == {<<>>} \cup UNION {{ [i \in 1..k |-> IF i = k THEN 1 ELSE 0],          \* 256^(k-1)
                               [i \in 1..k |-> 255],                               \* 256^k - 1
                               [i \in 1..k |-> IF i = k THEN 128 ELSE i] } : k \in 1..9}
BcdParts == {<<>>, <<"0">>, <<"1">>, <<"9">>, <<"1", "2">>, <<"9", "9", "9">>, <<"9", "9", "9", "9">>,
             <<"1", "2", "3", "4", "5">>, <<"a">>, <<"1", "a">>, <<"-", "1">>, <<"g">>, <<"+", "1">>, <<"1", "_", "0">>}
HexMenu == {<<"0", "0", "0", "1">>, <<"0">>, <<"f", "F">>, <<"0", "1", "a", "b">>, <<"1", "2", "3">>, <<"g", "0">>, <<"0", "1", "0", "2", "0", "3">>,
            \* hex text whose first characters look like the prefix of another radix: "0b.." is hexadecimal 0B.., "0o.." is no hex text at all
            <<"0", "b">>, <<"0", "b", "1", "0">>, <<"0", "B", "1", "f">>, <<"0", "b", "0", "1", "0", "1">>, <<"0", "o", "1", "7">>, <<"0", "O">>, <<"0", "x">>}
Init ==
  \/ fn = "value_to_int_str"  /\ a \in [s : Strings]
  \/ fn = "value_to_int_bytes" /\ a \in [b : UNION {{RevSeq(PadLE(n, k)) : k \in {Len(n), Len(n) + 1}} : n \in BigMenu}]
  \/ fn = "align"             /\ a \in [n : 0..MaxN, a : (0 - 1)..MaxN]
  \/ fn = "align_big"         /\ a \in [n : BigMenu, a : {1, 2, 3, 4, 7, 16, 255, 256, 257, 4096}]
  \/ fn = "align_block"       /\ a \in [d : {Iota(k) : k \in 0..9}, a : {0 - 1, 0, 1, 2, 3, 4, 5, 8, 16}, p : Pats]
  \/ fn = "extend_block"      /\ a \in [d : {Iota(k) : k \in 0..5}, len : 0..8, pad : {0, 255, 90}]
  \/ fn = "pattern_block"     /\ a \in [p : Pats, n : 0..9]
  \/ fn = "bytes_cnt"         /\ a \in [n : BigMenu, a2n : BOOLEAN, bcnt : 0..10]
  \/ fn = "value_to_bytes"    /\ a \in [n : BigMenu, a2n : BOOLEAN, bcnt : 0..10, little : BOOLEAN]
  \/ fn = "check_range"       /\ a \in [x : 0..(MaxN \div 2), lo : 0..(MaxN \div 2), hi : 0..(MaxN \div 2)]
  \/ fn = "swap16"            /\ a \in [b : {n \in BigMenu : Len(n) <= 3}]
  \/ fn = "swap32"            /\ a \in [b : {n \in BigMenu : Len(n) <= 5}]
  \/ fn = "reverse_bits"      /\ a \in [bits : UNION {[1..k -> {0, 1}] : k \in 1..8}]
  \/ fn = "rev_longs"         /\ a \in [b : {Iota(k) : k \in 0..12}]
  \/ fn = "change_endianness" /\ a \in [b : {Iota(k) : k \in 1..12}]
  \/ fn = "swap_bytes"        /\ a \in [b : {Iota(k) : k \in 0..13}]
  \/ fn = "bcd_version"       /\ a \in [parts : UNION {[1..k -> BcdParts] : k \in {3}} \cup {<<<<"1">>, <<"2">>>>, <<<<"1">>, <<"2">>, <<"3">>, <<"4">>>>, <<<<"1">>>>}]
  \/ fn \in {"blk_is_aligned", "blk_align", "blk_to_num"} /\ a \in [n : 0..(2 * MaxN)]
  \/ fn = "hex_string"        /\ a \in [s : HexMenu, size : 0..3]
Next == UNCHANGED vars
E == Expected(fn, a)
\* ---- theorems over the case space
Total == E.k \in {"ret", "err", "any", "noalt"}
AlignContract == fn = "align" /\ a.a >= 1 => E.v >= a.n /\ E.v % a.a = 0 /\ E.v - a.n < a.a
AlignBigContract == fn = "align_big" => /\ ModSmall(E.v, a.a) = 0                                  \* a multiple ...
                                        /\ \E d \in 0..(a.a - 1) : AddSmall(a.n, d) = E.v          \* ... in n .. n+a-1, hence the smallest
                                        /\ (Len(a.n) <= 3 => E.v = BigOfInt(Align(FoldBig(a.n), a.a)))   \* agrees with the small definition
AlignBlockContract == fn = "align_block" /\ a.a >= 1 =>
      /\ Len(E.v) = Align(Len(a.d), a.a) /\ SubSeq(E.v, 1, Len(a.d)) = a.d           \* padding is only ever appended
      /\ (Len(a.d) % a.a = 0 => E.v = a.d)
Involutions == /\ fn = "rev_longs" /\ E.k = "ret" => RevInLongs(E.v) = a.b
               /\ fn = "swap_bytes" => SwapPairsAny(E.v) = a.b /\ Len(E.v) = Len(a.b) /\ (E.k = "ret" <=> Len(a.b) % 2 = 0)
               /\ fn = "reverse_bits" => RevBits(E.v) = a.bits
               /\ fn = "change_endianness" /\ E.k = "ret" => Expected(fn, [b |-> E.v]).v = a.b
               /\ fn = "swap16" /\ E.k = "ret" => Expected(fn, [b |-> E.v]).v = a.b
               /\ fn = "swap32" /\ E.k = "ret" => Expected(fn, [b |-> E.v]).v = a.b
RoundTrip == fn = "value_to_bytes" /\ E.k # "err" =>
               /\ (IF a.little THEN Norm(E.v) ELSE BigOfBE(E.v)) = a.n
               /\ Len(E.v) = BytesCnt(a.n, a.a2n, a.bcnt).v
MinimalWidth == fn = "bytes_cnt" /\ a.bcnt = 0 => E.v >= BytesOfBig(a.n) /\ (~a.a2n => E.v = BytesOfBig(a.n)) /\ E.v < BytesOfBig(a.n) + 4
\* a well-formed decimal / prefixed string of digits has its mathematical value (checked on the generated strings that
\* consist of digits only): value = fold of digits
DigitsOnly == fn = "value_to_int_str" /\ Len(a.s) >= 1 /\ (\A i \in 1..Len(a.s) : a.s[i] \in {"1", "7", "9"}) =>
               /\ E.k = "ret" /\ ~E.v.neg
               /\ E.v.m = BigOfInt(LET F[i \in 0..Len(a.s)] == IF i = 0 THEN 0 ELSE F[i - 1] * 10 + DV[a.s[i]] IN F[Len(a.s)])
RejectsGarbage == fn = "value_to_int_str" /\ (Len(a.s) = 0 \/ \E i \in 1..Len(a.s) : a.s[i] = "g") => E.k = "err"
Emit == fn = "value_to_int_str" \/ PrintT(ToJson([fn |-> fn, a |-> a]))
=============================================================================
