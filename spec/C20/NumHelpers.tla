----------------------------- MODULE NumHelpers -----------------------------
(* R-spec of C20: the contracts of SPSDK's conversion helpers, written as operators over small   *)
(* integers, byte sequences (Seq(0..255)) and "big naturals" (little-endian byte sequences       *)
(* without trailing zero byte, so that values up to 2^512 stay inside TLC's 32-bit integers).    *)
(*                                                                                               *)
(* Expected(fn, a) is the verdict the contract prescribes for one call:                          *)
(*    [k |-> "ret", v |-> value]   the call must return exactly this value                       *)
(*    [k |-> "err"]                the call must be refused with an SPSDK error                  *)
(*    [k |-> "any", v |-> value]   debatable input: refuse, or return exactly this value         *)
(* Conforms(o) decides one observation o = [fn, a, out] recorded from the real code.             *)
EXTENDS Integers, Sequences, FiniteSets, TLC

\* ------------------------------------------------------------------ big naturals
RECURSIVE Norm(_)
Norm(b) == IF Len(b) > 0 /\ b[Len(b)] = 0 THEN Norm(SubSeq(b, 1, Len(b) - 1)) ELSE b
RECURSIVE MulAddFrom(_, _, _, _)
MulAddFrom(b, i, m, c) ==                       \* (b[i..] * m + c), m <= 256, c < 256*... stays < 2^17
  IF i > Len(b) THEN (IF c = 0 THEN <<>> ELSE IF c < 256 THEN <<c>> ELSE <<c % 256, c \div 256>>)
  ELSE LET t == b[i] * m + c IN <<t % 256>> \o MulAddFrom(b, i + 1, m, t \div 256)
MulAdd(b, m, d) == Norm(MulAddFrom(b, 1, m, d))
RECURSIVE BigOfInt(_)
BigOfInt(n) == IF n = 0 THEN <<>> ELSE <<n % 256>> \o BigOfInt(n \div 256)
RevSeq(b) == [i \in 1..Len(b) |-> b[Len(b) + 1 - i]]
BigOfBE(b) == Norm(RevSeq(b))                    \* big-endian byte string -> big natural
BytesOfBig(n) == IF Len(n) = 0 THEN 1 ELSE Len(n)           \* minimal byte count, 0 needs one byte
PadLE(n, k) == n \o [i \in 1..(k - Len(n)) |-> 0]           \* little-endian bytes of exact length k (k >= Len(n))

RECURSIVE ModFrom(_, _, _, _)
ModFrom(b, i, a, r) == IF i = 0 THEN r ELSE ModFrom(b, i - 1, a, (r * 256 + b[i]) % a)     \* a < 2^23
ModSmall(b, a) == ModFrom(b, Len(b), a, 0)                                                   \* big natural mod small integer
RECURSIVE AddFrom(_, _, _)
AddFrom(b, i, c) == IF c = 0 THEN SubSeq(b, i, Len(b))
                    ELSE IF i > Len(b) THEN BigOfInt(c)
                    ELSE LET t == b[i] + c IN <<t % 256>> \o AddFrom(b, i + 1, t \div 256)
AddSmall(b, d) == Norm(AddFrom(b, 1, d))                                                     \* big natural + small integer
AlignBig(n, a) == AddSmall(n, (a - ModSmall(n, a)) % a)

\* ------------------------------------------------------------------ number grammar (value_to_int on strings)
\* decimal | 0x hex | 0b binary | 0o octal ; single '_' between digits ; suffix u,l,ul,lu,ll,ull,llu
DV == ("0" :> 0) @@ ("1" :> 1) @@ ("2" :> 2) @@ ("3" :> 3) @@ ("4" :> 4) @@ ("5" :> 5) @@ ("6" :> 6) @@ ("7" :> 7)
      @@ ("8" :> 8) @@ ("9" :> 9) @@ ("a" :> 10) @@ ("b" :> 11) @@ ("c" :> 12) @@ ("d" :> 13) @@ ("e" :> 14) @@ ("f" :> 15)
UpperOf == ("A" :> "a") @@ ("B" :> "b") @@ ("C" :> "c") @@ ("D" :> "d") @@ ("E" :> "e") @@ ("F" :> "f")
           @@ ("X" :> "x") @@ ("O" :> "o") @@ ("U" :> "u") @@ ("L" :> "l")
IsUpper(c) == c \in DOMAIN UpperOf
Low(c) == IF IsUpper(c) THEN UpperOf[c] ELSE c
\* Characters outside ASCII reach the spec as CLASS tags (the recorder maps them; TLC never sees the code points): "<Zs>" a Unicode space (str.strip
\* removes it: tolerated like a blank), "<Nd>" a decimal digit of another script, "<No>" another numeric character, "<L>" a letter - none of the last
\* three is a digit of the grammar, whatever a regular-expression class or int() may think of them.
IsWs(c) == c \in {" ", "\t", "\n", "<Zs>"}
Dig(c, b) == c \in DOMAIN DV /\ DV[c] < b
GoodSuffixes == {<<>>, <<"u">>, <<"l">>, <<"u","l">>, <<"l","u">>, <<"l","l">>, <<"u","l","l">>, <<"l","l","u">>}

\* DFA state: q, base, val (big), odd (something merely tolerated was seen), suf, neg
St0 == [q |-> "start", base |-> 10, val |-> <<>>, odd |-> FALSE, suf |-> <<>>, neg |-> FALSE]
Delta(st, c0) ==
  LET c == Low(c0)
      s == IF IsUpper(c0) THEN [st EXCEPT !.odd = TRUE] ELSE st
  IN CASE s.q = "start" /\ IsWs(c)                -> [s EXCEPT !.odd = TRUE]
       [] s.q = "start" /\ c \in {"+", "-"}       -> [s EXCEPT !.q = "sign", !.odd = TRUE, !.neg = (c = "-")]
       [] s.q \in {"start", "sign"} /\ c = "0"    -> [s EXCEPT !.q = "zero"]
       [] s.q \in {"start", "sign"} /\ Dig(c, 10) -> [s EXCEPT !.q = "num", !.val = MulAdd(<<>>, 10, DV[c])]
       [] s.q \in {"start", "sign"} /\ c = "_"    -> [s EXCEPT !.q = "us", !.odd = TRUE]
       [] s.q = "zero" /\ c = "x"                 -> [s EXCEPT !.q = "pfx", !.base = 16]
       [] s.q = "zero" /\ c = "b"                 -> [s EXCEPT !.q = "pfx", !.base = 2]
       [] s.q = "zero" /\ c = "o"                 -> [s EXCEPT !.q = "pfx", !.base = 8]
       [] s.q = "zero" /\ Dig(c, 10)              -> [s EXCEPT !.q = "num", !.odd = TRUE, !.val = MulAdd(<<>>, 10, DV[c])]   \* "017": decimal 17 or refused, never octal
       [] s.q = "pfx" /\ Dig(c, s.base)           -> [s EXCEPT !.q = "num", !.val = MulAdd(<<>>, s.base, DV[c])]
       [] s.q = "pfx" /\ c = "_"                  -> [s EXCEPT !.q = "us", !.odd = TRUE]
       [] s.q \in {"num", "us"} /\ Dig(c, s.base) -> [s EXCEPT !.q = "num", !.val = MulAdd(s.val, s.base, DV[c])]
       [] s.q \in {"zero", "num"} /\ c = "_"      -> [s EXCEPT !.q = "us"]
       [] s.q = "us" /\ c = "_"                   -> [s EXCEPT !.odd = TRUE]
       [] s.q \in {"zero", "num", "us"} /\ c \in {"u", "l"}
                                                  -> [s EXCEPT !.q = "suf", !.suf = <<c>>, !.odd = (s.odd \/ s.q = "us")]
       [] s.q = "suf" /\ c \in {"u", "l"} /\ Len(s.suf) < 3 -> [s EXCEPT !.suf = Append(s.suf, c)]
       [] s.q \in {"zero", "num", "us", "suf", "end"} /\ IsWs(c)
                                                  -> [s EXCEPT !.q = "end", !.odd = (s.odd \/ TRUE)]
       [] OTHER                                   -> [s EXCEPT !.q = "dead"]
RECURSIVE RunFrom(_, _, _)
RunFrom(s, i, st) == IF i > Len(s) \/ st.q = "dead" THEN st ELSE RunFrom(s, i + 1, Delta(st, s[i]))
Run(s) == RunFrom(s, 1, St0)
\* q = "us" at the end of input: trailing underscore, tolerated at most
ParseNumber(s) ==
  LET f == Run(s)
      accepting == f.q \in {"zero", "num", "us", "suf", "end"}
      odd == f.odd \/ f.q = "us" \/ f.suf \notin GoodSuffixes
      v == [neg |-> f.neg /\ Len(f.val) > 0, m |-> f.val]
  IN IF ~accepting THEN [k |-> "err"] ELSE IF odd THEN [k |-> "any", v |-> v] ELSE [k |-> "ret", v |-> v]

\* ------------------------------------------------------------------ alignment and blocks
Align(n, a) == ((n + a - 1) \div a) * a                          \* smallest multiple of a that is >= n
Rep(pat, n) == [i \in 1..n |-> pat[((i - 1) % Len(pat)) + 1]]    \* pattern repeated from phase 0
Inc(n) == [i \in 1..n |-> (i - 1) % 256]
PatBlock(p, n) == CASE p.kind = "zeros" -> [i \in 1..n |-> 0]
                    [] p.kind = "ones"  -> [i \in 1..n |-> 255]
                    [] p.kind = "inc"   -> Inc(n)
                    [] p.kind = "bytes" -> Rep(p.b, n)
AlignBlock(d, a, p) == d \o PatBlock(p, Align(Len(d), a) - Len(d))

\* ------------------------------------------------------------------ byte order
RevInLongs(b) == [i \in 1..Len(b) |-> b[((i - 1) \div 4) * 4 + 4 - ((i - 1) % 4)]]      \* Len(b) % 4 = 0
SwapPairs(b) == [i \in 1..Len(b) |-> IF i % 2 = 1 THEN b[i + 1] ELSE b[i - 1]]          \* Len(b) % 2 = 0
\* the only length-preserving involution that exchanges the bytes of every complete pair: a trailing single byte stays where it is
SwapPairsAny(b) == [i \in 1..Len(b) |-> IF i % 2 = 0 THEN b[i - 1] ELSE IF i = Len(b) THEN b[i] ELSE b[i + 1]]
RevBits(bits) == RevSeq(bits)                                                           \* bit list, index 1 = msb

\* ------------------------------------------------------------------ widths
Ceil4(c) == ((c + 3) \div 4) * 4
StdWidth(c, a2n) == IF a2n /\ c > 2 THEN Ceil4(c) ELSE c          \* "standard sizes 1,2,4,8,12,16,20"
\* bcnt = 0 encodes "not given"
BytesCnt(n, a2n, bcnt) ==
  LET c == BytesOfBig(n)  w == StdWidth(c, a2n)
  IN IF bcnt = 0 THEN [k |-> "ret", v |-> w]
     ELSE IF c > bcnt THEN [k |-> "err"]
     ELSE IF w > bcnt THEN [k |-> "any", v |-> bcnt]              \* fits, but not after rounding to a standard size
     ELSE [k |-> "ret", v |-> bcnt]
ValueToBytes(n, a2n, bcnt, little) ==
  LET c == BytesCnt(n, a2n, bcnt)
  IN IF c.k = "err" THEN c
     ELSE [k |-> c.k, v |-> IF little THEN PadLE(n, c.v) ELSE RevSeq(PadLE(n, c.v))]

\* ------------------------------------------------------------------ BCD versions "#.#.#"
BcdPart(p) ==                                     \* p: sequence of 1-char strings; 1..4 decimal digits -> BCD number
  IF Len(p) \in 1..4 /\ \A i \in 1..Len(p) : Dig(p[i], 10)
  THEN LET F[i \in 0..Len(p)] == IF i = 0 THEN 0 ELSE F[i - 1] * 16 + DV[p[i]] IN F[Len(p)]
  ELSE -1
BcdVersion(parts) ==
  IF Len(parts) # 3 \/ \E i \in 1..Len(parts) : BcdPart(parts[i]) = -1 THEN [k |-> "err"]
  ELSE [k |-> "ret", v |-> [i \in 1..3 |-> BcdPart(parts[i])]]

\* ------------------------------------------------------------------ hex strings of an expected size (literal form)
HexString(s, size) ==                              \* s: sequence of lower/upper hex digit characters, optional 0x stripped by the recorder
  IF Len(s) = 2 * size /\ size >= 1 /\ \A i \in 1..Len(s) : Dig(Low(s[i]), 16)
  THEN [k |-> "ret", v |-> [i \in 1..size |-> DV[Low(s[2 * i - 1])] * 16 + DV[Low(s[2 * i])]]]
  ELSE IF Len(s) < 2 * size /\ Len(s) >= 1 /\ size >= 1 /\ \A i \in 1..Len(s) : Dig(Low(s[i]), 16)
  THEN [k |-> "any",                               \* shorter literal: refuse, or left-pad with zeros (the numeric reading)
        v |-> LET z == [i \in 1..(2 * size - Len(s)) |-> "0"] \o s
              IN [i \in 1..size |-> DV[Low(z[2 * i - 1])] * 16 + DV[Low(z[2 * i])]]]
  ELSE IF Len(s) > 2 * size /\ size >= 1 /\ (\A i \in 1..Len(s) : Dig(Low(s[i]), 16)) /\ (\A i \in 1..(Len(s) - 2 * size) : s[i] = "0")
  THEN [k |-> "any",                               \* longer literal whose surplus digits are zeros: refuse, or the numeric reading
        v |-> LET z == SubSeq(s, Len(s) - 2 * size + 1, Len(s))
              IN [i \in 1..size |-> DV[Low(z[2 * i - 1])] * 16 + DV[Low(z[2 * i])]]]
  ELSE [k |-> "err"]

\* ------------------------------------------------------------------ hex strings of an expected size (FILE form)
\* a.kind = "text": the file holds hexadecimal text (a.s, optional 0x inside a.s stripped by the recorder) - the literal contract applies;
\* a.kind = "bin" : the file holds a.d, bytes that are NOT valid UTF-8 text: they are the key itself, of exactly the expected size
HexFile(a) == IF a.kind = "text" THEN HexString(a.s, a.size)
              ELSE IF Len(a.d) = a.size /\ a.size >= 1 THEN [k |-> "ret", v |-> a.d] ELSE [k |-> "err"]

\* ------------------------------------------------------------------ the contract table
Ret(v) == [k |-> "ret", v |-> v]
Err == [k |-> "err"]
Expected(fn, a) ==
  CASE fn \in {"value_to_int_str", "value_to_int_uni"} -> ParseNumber(a.s)
    [] fn = "value_to_int_bytes" -> Ret([neg |-> FALSE, m |-> BigOfBE(a.b)])
    [] fn = "align"              -> IF a.a <= 0 THEN Err ELSE Ret(Align(a.n, a.a))
    [] fn = "align_big"          -> IF a.a <= 0 THEN Err ELSE Ret(AlignBig(a.n, a.a))
    [] fn = "align_block"        -> IF a.a <= 0 THEN Err ELSE Ret(AlignBlock(a.d, a.a, a.p))
    [] fn = "extend_block"       -> IF a.len < Len(a.d) THEN Err ELSE Ret(a.d \o [i \in 1..(a.len - Len(a.d)) |-> a.pad])
    [] fn = "pattern_block"      -> Ret(PatBlock(a.p, a.n))
    [] fn = "bytes_cnt"          -> BytesCnt(a.n, a.a2n, a.bcnt)
    [] fn = "value_to_bytes"     -> ValueToBytes(a.n, a.a2n, a.bcnt, a.little)
    [] fn = "check_range"        -> Ret(a.lo <= a.x /\ a.x <= a.hi)
    [] fn = "swap16"             -> IF Len(a.b) > 2 THEN Err ELSE Ret(Norm(RevSeq(PadLE(a.b, 2))))   \* value given as big natural
    [] fn = "swap32"             -> IF Len(a.b) > 4 THEN Err ELSE Ret(Norm(RevSeq(PadLE(a.b, 4))))
    [] fn = "reverse_bits"       -> Ret(RevBits(a.bits))
    [] fn = "rev_longs"          -> IF Len(a.b) % 4 # 0 THEN Err ELSE Ret(RevInLongs(a.b))
    [] fn = "change_endianness"  -> IF Len(a.b) = 1 THEN Ret(a.b) ELSE IF Len(a.b) = 2 THEN Ret(RevSeq(a.b))
                                    ELSE IF Len(a.b) % 4 # 0 THEN Err ELSE Ret(RevInLongs(a.b))
    \* an odd length: the documentation does not say whether that is invalid input. What the contract does say: a byte-order helper is an
    \* involution and never gives the input another meaning - so the call is refused (in whatever way), or answers the one value that keeps both
    [] fn = "swap_bytes"         -> IF Len(a.b) % 2 = 0 THEN Ret(SwapPairs(a.b)) ELSE [k |-> "noalt", v |-> SwapPairsAny(a.b)]
    [] fn = "bcd_version"        -> BcdVersion(a.parts)
    [] fn = "blk_is_aligned"     -> Ret(a.n % 16 = 0)
    [] fn = "blk_align"          -> Ret(Align(a.n, 16))
    [] fn = "blk_to_num"         -> IF a.n % 16 # 0 THEN Err ELSE Ret(a.n \div 16)
    [] fn = "hex_string"         -> HexString(a.s, a.size)
    [] fn = "hex_file"           -> HexFile(a)

Conforms(o) ==
  LET e == Expected(o.fn, o.a)
  IN CASE e.k = "ret" -> o.out.k = "ret" /\ o.out.v = e.v
       [] e.k = "err" -> o.out.k = "err"
       [] e.k = "any" -> o.out.k = "err" \/ (o.out.k = "ret" /\ o.out.v = e.v)
       [] e.k = "noalt" -> o.out.k \in {"err", "exc"} \/ (o.out.k = "ret" /\ o.out.v = e.v)
=============================================================================
