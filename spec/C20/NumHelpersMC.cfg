CONSTANTS MaxLen = 4
 MaxN = 40
INIT Init
NEXT Next
INVARIANT Total
INVARIANT AlignContract
INVARIANT AlignBigContract
INVARIANT AlignBlockContract
INVARIANT Involutions
INVARIANT RoundTrip
INVARIANT MinimalWidth
INVARIANT DigitsOnly
INVARIANT RejectsGarbage
INVARIANT Emit
CHECK_DEADLOCK FALSE
