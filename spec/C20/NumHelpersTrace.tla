-------------------------- MODULE NumHelpersTrace --------------------------
(* TV form: every observation recorded from the real code (one call = one behaviour of length 1) *)
(* is decided by Conforms; rejected observations are listed, nothing stops at the first one.     *)
EXTENDS NumHelpers, Json, IOUtils
Obs == ndJsonDeserialize(IOEnv.TRACE_FILE)
VARIABLE i
Init == i \in 1..Len(Obs)
Next == UNCHANGED i
Check == Conforms(Obs[i]) \/ PrintT(<<"REJ", Obs[i].id, 0, 1, Obs[i].fn, Expected(Obs[i].fn, Obs[i].a).k, Obs[i].out.k>>)
Post == TLCGet("distinct") = Len(Obs) \/ PrintT(<<"INCOMPLETE", TLCGet("distinct"), Len(Obs)>>)
=============================================================================
