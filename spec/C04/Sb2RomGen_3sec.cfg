CONSTANTS MaxSecs = 3
 MaxHm = 2
 MaxCmds = 1
 MaxPay = 1
 Chains = {"k0", "ch2"}
INIT GenInit
NEXT GenNext
CHECK_DEADLOCK FALSE
