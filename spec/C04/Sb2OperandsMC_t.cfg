CONSTANTS Pairs = TRUE
 BigLens = {65534, 65535, 65536, 65537}
INIT Init
NEXT Next
INVARIANT OneClass
INVARIANT RepAgree
INVARIANT Encodable
INVARIANT WidthSensitive
INVARIANT FieldSensitive
INVARIANT Emit
CHECK_DEADLOCK FALSE
