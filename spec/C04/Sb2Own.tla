------------------------------- MODULE Sb2Own -------------------------------
(* C04, OWNERSHIP of what is handed to the builder.  "The ROM decodes exactly what was given to the builder":   *)
(* an argument is given at ONE moment - when the caller makes the call that hands it over.  Where the API admits *)
(* a caller-owned MUTABLE buffer (a bytearray as the data of a LOAD command), the caller goes on owning that     *)
(* buffer: it patches it for the next slot, refills it with the next chunk, truncates it, extends it.  What was  *)
(* given is what the buffer held WHEN it was given; nothing the caller does to its own buffer afterwards - before *)
(* the command is put into a section, before the first export that carries it - may show up in a file.           *)
(* (The buffer is modified only while a command made from it has not been exported yet: after the construction   *)
(* and before the first export.  The file is exported again afterwards, so later exports are still bound.)       *)
(*                                                                                                               *)
(* The abstract state: one work buffer of the caller (gen = how often the caller has modified it so far), the    *)
(* command objects made from it (given = gen at the moment of the call; form = the buffer itself, or a copy the  *)
(* caller made - the control), where those objects were put (appended to the last section of the live image, as  *)
(* a new section; the same object may be put twice), queries and exports in between.                             *)
(*                                                                                                               *)
(* The file version (SB 2.0 unsigned / signed, SB 2.1 without / with SHA-256) and the length class of the buffer  *)
(* (a multiple of the cipher block or not; a touch may change it) are rotated over the histories by the harness.  *)
(*                                                                                                               *)
(*  GEN : TLC enumerates all histories up to MaxLen calls that end in an export and hand over at least one       *)
(*        command (Emit, printed from the Export action); the harness replays each on a real object with a real  *)
(*        bytearray, every export is walked by the ROM executor and the whole history is one trace of            *)
(*        Sb2RomTrace (kind "hist": the buffer and the content are state of that spec - HTouch changes the       *)
(*        buffer and nothing else, HMake reads the buffer as it is at that moment).                              *)
(*  MC  : what an object carries into a file is modelled as the I-part.  With Holds = "snapshot" (the object     *)
(*        keeps what it was given) ExportCarriesGiven holds in every history; with Holds = "alias" (the object   *)
(*        keeps a reference to the caller's buffer until it first pads / re-binds its data, i.e. until the first *)
(*        query or export that reaches it) TLC must refute it - the harness runs both, so the history space      *)
(*        provably reaches that class of defect; Holds = "late" (the copy is taken when the object is put into a *)
(*        section instead of when it is made) must be refuted as well.                                           *)
EXTENDS Naturals, Sequences, FiniteSets, TLC, Json
CONSTANTS MaxLen,      \* calls per history
          Holds,       \* "snapshot" | "alias" | "late", see above
          EmitOn       \* BOOLEAN: print every history that ends in an export (GEN)
VARIABLES gen,         \* modifications of the buffer by its owner so far
          objs,        \* command objects made so far: [given, form, put (times put into a section), putAt (gen when first put), fixed (gen the object
                       \* re-bound its data at, -1 = not yet), exported (a file has carried it)]
          secs,        \* the live image: sections = sequences of object numbers (0 = the command without payload the image is constructed with)
          acts
vars == <<gen, objs, secs, acts>>

MaxSecs == 3
MaxCmds == 3
MaxObjs == 2
Forms == {"buf", "copy"}
Touches == {"poke", "shrink", "grow"}      \* in place (same length) / shorter / longer
Places == {"append", "newsec"}
None == 0 - 1

Init == gen = 0 /\ objs = <<>> /\ secs = << <<0>> >> /\ acts = <<>>
Room == Len(acts) < MaxLen
Rec(a) == acts' = Append(acts, a)
LastObj == objs[Len(objs)]
NoOrphan == IF objs = <<>> THEN TRUE ELSE LastObj.put > 0          \* every object made has been put somewhere before the next thing happens to the image
InImage(o) == \E s \in 1..Len(secs) : \E j \in 1..Len(secs[s]) : secs[s][j] = o

\* ---- I-part: what an object carries into a file
Carried(o, fx) == CASE Holds = "snapshot" -> o.given
                    [] Holds = "late"     -> IF o.form = "copy" THEN o.given ELSE o.putAt
                    [] OTHER              -> IF o.form = "copy" THEN o.given ELSE IF fx >= 0 THEN fx ELSE gen
\* a query or an export reaches every object of the image: an object that still refers to the buffer re-binds its data now
Reach == [k \in 1..Len(objs) |-> IF InImage(k) /\ objs[k].fixed = None THEN [objs[k] EXCEPT !.fixed = gen] ELSE objs[k]]
Loads == LET Flat[s \in 0..Len(secs)] == IF s = 0 THEN <<>> ELSE Flat[s - 1] \o SelectSeq(secs[s], LAMBDA x : x > 0) IN Flat[Len(secs)]

Emit == EmitOn /\ objs # <<>> => PrintT(ToJson([acts |-> acts']))

DoMake == /\ Room /\ Len(objs) < MaxObjs /\ NoOrphan
          /\ \E f \in Forms : /\ objs' = Append(objs, [given |-> gen, form |-> f, put |-> 0, putAt |-> None, fixed |-> None, exported |-> FALSE])
                              /\ Rec([a |-> "Make", form |-> f])
          /\ UNCHANGED <<gen, secs>>
DoPut == /\ Room /\ objs # <<>> /\ LastObj.put < 2
         /\ \E p \in Places :
              /\ \/ p = "append" /\ Len(secs[Len(secs)]) < MaxCmds /\ secs' = [secs EXCEPT ![Len(secs)] = Append(@, Len(objs))]
                 \/ p = "newsec" /\ Len(secs) < MaxSecs /\ secs' = Append(secs, <<Len(objs)>>)
              /\ Rec([a |-> "Put", place |-> p])
         /\ objs' = [objs EXCEPT ![Len(objs)].put = @ + 1, ![Len(objs)].putAt = IF @ = None THEN gen ELSE @]
         /\ UNCHANGED gen
Fresh == \E k \in 1..Len(objs) : ~objs[k].exported         \* a command has been constructed that no file has carried yet
DoTouch == /\ Room /\ Fresh
           /\ \E t \in Touches : Rec([a |-> "Touch", kind |-> t])
           /\ gen' = gen + 1 /\ UNCHANGED <<objs, secs>>
DoQuery == /\ Room /\ objs # <<>> /\ NoOrphan /\ objs' = Reach /\ Rec([a |-> "Query"]) /\ UNCHANGED <<gen, secs>>
DoExport == /\ Room /\ NoOrphan /\ objs' = [k \in 1..Len(objs) |-> [Reach[k] EXCEPT !.exported = TRUE]]
            /\ Rec([a |-> "Export", loads |-> [k \in 1..Len(Loads) |-> [given |-> objs[Loads[k]].given, carried |-> Carried(Reach[Loads[k]], Reach[Loads[k]].fixed)]]])
            /\ UNCHANGED <<gen, secs>> /\ Emit
Next == DoMake \/ DoPut \/ DoTouch \/ DoQuery \/ DoExport

\* ---- lemmas
\* every export of every history carries, for every LOAD, what the buffer held when the command was made
ExportCarriesGiven == \A k \in 1..Len(acts) : acts[k].a = "Export" => \A j \in 1..Len(acts[k].loads) : acts[k].loads[j].carried = acts[k].loads[j].given
\* what was given is determined by the calls alone: the number of modifications BEFORE the call that made the object (declarative restatement)
TouchesBefore(n) == Cardinality({k \in 1..n : acts[k].a = "Touch"})
MakeAt(i) == CHOOSE n \in 1..Len(acts) : acts[n].a = "Make" /\ Cardinality({k \in 1..n : acts[k].a = "Make"}) = i
GivenIsTheBufferThen == \A i \in 1..Len(objs) : objs[i].given = TouchesBefore(MakeAt(i))
\* the contents stay inside the small layouts the ROM automaton is model-checked on
InShapeSpace == Len(secs) \in 1..MaxSecs /\ \A s \in 1..Len(secs) : Len(secs[s]) \in 1..MaxCmds
=============================================================================
