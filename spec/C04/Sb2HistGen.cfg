CONSTANTS MaxLen = 4
 Vers = {"21", "21sha", "20s", "20u"}
 Inits = {1, 2}
 Recompute = TRUE
 EmitOn = TRUE
INIT Init
NEXT Next
INVARIANT ExportDescribes
INVARIANT ContentIsFold
INVARIANT InShapeSpace
CHECK_DEADLOCK FALSE
