------------------------------- MODULE Sb2Rom -------------------------------
(* R-spec of C04: the boot ROM's acceptance procedure for Secure Binary 2.0 / 2.1, as an automaton over a     *)
(* file of 16-byte blocks.  Nothing in here is SPSDK's to change: block layout, where each MAC / signature /  *)
(* counter comes from, which bytes each check covers.                                                          *)
(*                                                                                                             *)
(* Every action takes an EVENT e - the facts one step reads from the file: numeric fields as decoded, and the  *)
(* crypto facts (ok, chkOk, ...) which TLA+ cannot compute.  The action RE-COMPUTES every offset / range from  *)
(* the header fields seen earlier and demands equality, demands every fact TRUE, and accumulates the set of    *)
(* authenticated blocks.  The same actions are driven                                                          *)
(*   - by an ideal writer over all small layouts (Sb2RomMC: lemmas, GEN of shapes), and                        *)
(*   - by the events an independent executor logged on real exported bytes (Sb2RomTrace: trace validation).    *)
(* 32-bit words are pairs <<hi16, lo16>> (TLC integers are 32-bit).                                            *)
EXTENDS Naturals, Integers, Sequences, FiniteSets, TLC

VARIABLES st,       \* control state of the loader
          hdr,      \* the image header as parsed (event of ParseHeader)
          cur,      \* block cursor; the AES-CTR counter of block b is  nonce counter + b  (so ctrOff must equal the block index)
          sec,      \* number of boot sections completed
          needCert, \* SB 2.0 signed: the clear-text certificate section is still to come
          hm,       \* HMAC table of the current section: [n, per, count, k]
          body,     \* first block of the current section's body
          left,     \* blocks of the current section not yet consumed by commands
          cmdAt,    \* block of the next command
          cov,      \* set of blocks covered by a verified MAC / signature / key-wrap integrity check so far
          certEnd,  \* byte offset of the end of the certificate block (16-aligned)
          sigEnd,   \* byte offset behind the signature
          macSum,   \* sum of the HMAC-table sizes of all sections seen
          dec       \* decoded content: sequence of sections [uid, hmacCount, cmds: sequence of raw command records]
rvars == <<st, hdr, cur, sec, needCert, hm, body, left, cmdAt, cov, certEnd, sigEnd, macSum, dec>>

HeaderBlocks  == 6        \* 96 bytes
MacBlocks     == 2        \* HMAC-SHA256
KeyBlobBlocks == 5        \* RFC 3394 wrap of DEK || MAC (72 bytes) + 8 filler bytes
Prefix        == HeaderBlocks + MacBlocks + KeyBlobBlocks        \* 13 blocks = 208 bytes
SigLens       == {256, 384, 512}
FlagSigned    == 8
FlagUnsigned  == 4
FlagSha       == 32768
Blocks(a, b)  == a..(b - 1)                                       \* half-open block interval
Align16(n)    == ((n + 15) \div 16) * 16
W(x)          == x[1] * 65536 + x[2]                              \* value of a limb pair (only used where hi < 32768)
Tags          == {0, 2, 3, 4, 5, 7, 8, 9, 10, 11, 12, 13}         \* NOP LOAD FILL JUMP CALL ERASE RESET MEM_ENABLE PROG FW_VERSION_CHECK WR_KEYSTORE_TO_NV WR_KEYSTORE_FROM_NV
TagLoad       == 2

V21      == hdr.minor = 1
Signed   == hdr.flags % 16 = FlagSigned
ShaFlag  == V21 /\ (hdr.flags \div FlagSha) % 2 = 1

RInit == /\ st = "Header" /\ hdr = [minor |-> 0, flags |-> 0] /\ cur = 0 /\ sec = 0 /\ needCert = FALSE
         /\ hm = [n |-> 0, per |-> 0, count |-> 0, k |-> 0] /\ body = 0 /\ left = 0 /\ cmdAt = 0 /\ cov = {}
         /\ certEnd = 0 /\ sigEnd = 0 /\ macSum = 0 /\ dec = <<>>

ParseHeader(e) ==
  /\ st = "Header"
  /\ e.longEnough /\ e.sig1ok /\ e.sig2ok /\ e.fileRem = 0
  /\ e.major = 2 /\ e.minor \in {0, 1}
  /\ e.hdrBlocks = HeaderBlocks /\ e.kbBlock = HeaderBlocks + MacBlocks /\ e.kbCount = KeyBlobBlocks
  /\ IF e.minor = 1
     THEN /\ e.flags \in {FlagSigned, FlagSigned + FlagSha}             \* SB 2.1 is always signed; optional SHA-256 of the sections
          /\ e.certOff = Prefix * 16                                     \* certificate block right behind the key blob
          /\ e.imageBlocks = e.fileBlocks                                \* the header describes the bytes emitted
     ELSE /\ e.flags \in {FlagSigned, FlagUnsigned}
          /\ (e.flags = FlagSigned => e.certOff = (Prefix + 1 + 2 + 2) * 16)   \* behind tag, tag HMAC and one HMAC entry of the certificate section
          /\ (e.flags = FlagUnsigned => e.imageBlocks = e.fileBlocks)
          /\ e.imageBlocks <= e.fileBlocks                               \* the signature follows the image
  /\ e.imageBlocks > Prefix
  /\ hdr' = e /\ st' = "KeyBlob"
  /\ UNCHANGED <<cur, sec, needCert, hm, body, left, cmdAt, cov, certEnd, sigEnd, macSum, dec>>

UnwrapKeyBlob(e) ==
  /\ st = "KeyBlob" /\ e.ok /\ e.at = hdr.kbBlock /\ e.n = hdr.kbCount
  /\ cov' = cov \cup Blocks(e.at, e.at + e.n)
  /\ st' = IF V21 THEN "Cert" ELSE "HdrMac20"
  /\ UNCHANGED <<hdr, cur, sec, needCert, hm, body, left, cmdAt, certEnd, sigEnd, macSum, dec>>

\* SB 2.0: header MAC = HMAC(MAC key, header)
CheckHeaderMac20(e) ==
  /\ st = "HdrMac20" /\ e.ok /\ e.over = <<0, HeaderBlocks * 16>>
  /\ cov' = cov \cup Blocks(0, HeaderBlocks + MacBlocks)
  /\ cur' = Prefix /\ needCert' = Signed /\ st' = "Tag"
  /\ UNCHANGED <<hdr, sec, hm, body, left, cmdAt, certEnd, sigEnd, macSum, dec>>

\* certificate block v1: header(32) + certificate table + 4 root key hashes, 16-aligned; chain verifies, root key hash is in the table
CertBlockOk(e, at) ==
  /\ e.hdrOk /\ e.at = at /\ e.chainOk /\ e.rootInTable
  /\ e.count \in 1..4 /\ e.rootIdx \in 0..3
  /\ e.walkedLen = e.tableLen                                            \* the table length field equals the sum of its entries
  /\ e.endOff = Align16(e.at + 32 + e.tableLen + 128)

ParseCertBlock21(e) ==
  /\ st = "Cert" /\ CertBlockOk(e, hdr.certOff)
  /\ e.imgLen \in {e.endOff} \cup (IF ShaFlag THEN {e.endOff + 32} ELSE {})   \* bytes authenticated together with the block
  /\ certEnd' = e.endOff /\ st' = "Sig21"
  /\ UNCHANGED <<hdr, cur, sec, needCert, hm, body, left, cmdAt, cov, sigEnd, macSum, dec>>

\* SB 2.1: the header's first_boot_tag_block must be the block right behind the signature (clause kept apart so that the trace form can report
\* it by name and still validate the rest of the file)
FirstTag21Ok(e) == hdr.firstTag = (e.sigAt + e.sigLen) \div 16
VerifySignature21(e) ==
  /\ st = "Sig21" /\ e.ok
  /\ e.frm = 0 /\ e.to = certEnd + (IF ShaFlag THEN 32 ELSE 0) /\ e.sigAt = e.to   \* header, MAC, key blob, cert block [, SHA-256]
  /\ e.sigLen \in SigLens /\ (e.sigAt + e.sigLen) % 16 = 0
  /\ sigEnd' = e.sigAt + e.sigLen
  /\ cov' = cov \cup Blocks(0, (e.sigAt + e.sigLen) \div 16)
  /\ cur' = (e.sigAt + e.sigLen) \div 16 /\ st' = IF ShaFlag THEN "Sha" ELSE "Tag"
  /\ UNCHANGED <<hdr, sec, needCert, hm, body, left, cmdAt, certEnd, macSum, dec>>

CheckSha(e) ==
  /\ st = "Sha" /\ e.ok /\ e.at = certEnd /\ e.frm = sigEnd /\ e.to = hdr.fileBlocks * 16   \* digest over all boot sections
  /\ st' = "Tag"
  /\ UNCHANGED <<hdr, cur, sec, needCert, hm, body, left, cmdAt, cov, certEnd, sigEnd, macSum, dec>>

\* section = encrypted tag block, HMAC of the tag block, HMAC table (n entries over ciphertext chunks), body of `count` blocks
SectionTag(e) ==
  /\ st = "Tag" /\ cur < hdr.imageBlocks
  /\ e.sane /\ e.at = cur /\ e.ctrOff = cur                              \* counter = nonce counter + block index
  /\ e.chkOk /\ e.tagIsTag /\ e.tagHmacOk
  /\ e.count >= 1 /\ e.hmacCount >= 1 /\ e.hmacCount <= e.count
  /\ IF needCert
     THEN /\ e.cert /\ e.markOk /\ (e.flags \div 2) % 2 = 1 /\ e.hmacCount = 1          \* clear-text section marked 'sign'
     ELSE /\ ~e.cert /\ e.sec = sec /\ e.flags % 4 = 1                   \* bootable, encrypted
          /\ (sec = 0 => e.uid = hdr.firstId)                            \* the header names the first boot section
  /\ hm' = [n |-> e.hmacCount, per |-> e.count \div e.hmacCount, count |-> e.count, k |-> 0]
  /\ body' = cur + 3 + 2 * e.hmacCount /\ left' = e.count /\ cmdAt' = cur + 3 + 2 * e.hmacCount
  /\ cur + 3 + 2 * e.hmacCount + e.count <= hdr.imageBlocks
  /\ cov' = cov \cup Blocks(cur, cur + 3)                                \* tag block + its HMAC
  /\ dec' = IF needCert THEN dec ELSE Append(dec, [uid |-> e.uid, hmacCount |-> e.hmacCount, cmds |-> <<>>])
  /\ st' = IF V21 /\ sec = 0 THEN "HdrMac21" ELSE "Hmac"
  /\ UNCHANGED <<hdr, cur, sec, needCert, certEnd, sigEnd, macSum>>

\* SB 2.1: header MAC = HMAC(MAC key, tag HMAC || HMAC table of the first section)
CheckHeaderMac21(e) ==
  /\ st = "HdrMac21" /\ e.ok
  /\ e.over = <<(cur + 1) * 16, (cur + 3 + 2 * hm.n) * 16>>
  /\ cov' = cov \cup Blocks(HeaderBlocks, HeaderBlocks + MacBlocks)
  /\ st' = "Hmac"
  /\ UNCHANGED <<hdr, cur, sec, needCert, hm, body, left, cmdAt, certEnd, sigEnd, macSum, dec>>

SectionHmac(e) ==
  /\ st = "Hmac" /\ e.ok /\ e.k = hm.k /\ (~needCert => e.sec = sec)
  /\ e.entryAt = cur + 3 + 2 * hm.k
  /\ e.firstBlk = body + hm.k * hm.per
  /\ e.nBlk = IF hm.k = hm.n - 1 THEN hm.count - hm.per * (hm.n - 1) ELSE hm.per     \* the last chunk absorbs the remainder
  /\ cov' = cov \cup Blocks(e.entryAt, e.entryAt + 2) \cup Blocks(e.firstBlk, e.firstBlk + e.nBlk)
  /\ hm' = [hm EXCEPT !.k = @ + 1]
  /\ st' = IF hm.k = hm.n - 1 THEN (IF needCert THEN "CertBody" ELSE "Cmd") ELSE "Hmac"
  /\ UNCHANGED <<hdr, cur, sec, needCert, body, left, cmdAt, certEnd, sigEnd, macSum, dec>>

\* SB 2.0 signed: the body of the certificate section is the certificate block
ParseCertBlock20(e) ==
  /\ st = "CertBody" /\ CertBlockOk(e, body * 16) /\ e.at = hdr.certOff
  /\ e.endOff = (body + hm.count) * 16
  /\ certEnd' = e.endOff /\ left' = 0 /\ st' = "Cmd"
  /\ UNCHANGED <<hdr, cur, sec, needCert, hm, body, cmdAt, cov, sigEnd, macSum, dec>>

\* one command: 16-byte header with checksum; LOAD carries its payload padded to whole blocks with a CRC-32 over the padded payload
Cmd(e) ==
  /\ st = "Cmd" /\ ~needCert /\ left > 0 /\ e.sec = sec /\ e.at = cmdAt /\ e.chkOk
  /\ e.i = Len(dec[Len(dec)].cmds)
  /\ e.tag \in Tags
  /\ IF e.tag = TagLoad
     THEN /\ e.crcOk /\ e.cnt[1] < 32768 /\ e.payloadLen = Align16(W(e.cnt)) /\ e.nBlk = 1 + e.payloadLen \div 16
     ELSE e.nBlk = 1
  /\ e.nBlk <= left
  /\ cmdAt' = cmdAt + e.nBlk /\ left' = left - e.nBlk
  /\ dec' = [dec EXCEPT ![Len(dec)].cmds = Append(@, [tag |-> e.tag, flags |-> e.flags, addr |-> e.addr, cnt |-> e.cnt, dat |-> e.dat,
                                                       payloadLen |-> e.payloadLen, nBlk |-> e.nBlk])]
  /\ UNCHANGED <<st, hdr, cur, sec, needCert, hm, body, cov, certEnd, sigEnd, macSum>>

SectionEnd(e) ==
  /\ st = "Cmd" /\ left = 0 /\ e.next = body + hm.count
  /\ (~needCert => e.sec = sec /\ dec[Len(dec)].cmds # <<>>)
  /\ cur' = e.next /\ macSum' = macSum + hm.n
  /\ sec' = IF needCert THEN sec ELSE sec + 1
  /\ needCert' = FALSE
  /\ st' = "Tag"
  /\ UNCHANGED <<hdr, hm, body, left, cmdAt, cov, certEnd, sigEnd, dec>>

\* SB 2.0 signed: signature over everything in front of it, placed behind the image
VerifySignature20(e) ==
  /\ st = "Tag" /\ ~V21 /\ Signed /\ ~needCert /\ cur = hdr.imageBlocks /\ e.ok
  /\ e.frm = 0 /\ e.to = hdr.imageBlocks * 16 /\ e.sigAt = e.to
  /\ e.sigLen \in SigLens /\ e.sigAt + e.sigLen = hdr.fileBlocks * 16
  /\ hdr.firstTag = certEnd \div 16                                      \* first boot tag right behind the certificate section
  /\ sigEnd' = e.sigAt + e.sigLen
  /\ cov' = cov \cup Blocks(0, hdr.fileBlocks)
  /\ st' = "Signed20"
  /\ UNCHANGED <<hdr, cur, sec, needCert, hm, body, left, cmdAt, certEnd, macSum, dec>>

Accept(e) ==
  /\ st = (IF ~V21 /\ Signed THEN "Signed20" ELSE "Tag")
  /\ cur = hdr.imageBlocks /\ e.cur = cur /\ e.nSections = sec /\ sec >= 1
  /\ (~V21 /\ ~Signed => hdr.firstTag = Prefix)
  /\ cov = Blocks(0, hdr.fileBlocks)                                     \* no block outside signature / MAC / key-wrap coverage
  /\ hdr.maxMac = macSum                                                 \* the header announces the total number of section MACs
  /\ st' = "Accepted"
  /\ UNCHANGED <<hdr, cur, sec, needCert, hm, body, left, cmdAt, cov, certEnd, sigEnd, macSum, dec>>

\* ---- structural boundaries.  The block positions an event speaks of: where a part of the file (header, header MAC, key blob, certificate
\* block, digest, signature, section tag, tag HMAC, HMAC-table entry, HMAC chunk, command, section) begins or ends.  A file cut at such a
\* position is the corruption class TRUNCATION at its most dangerous: every part in front of the cut is complete and verifies.  Used by the MC
\* form (every layout is cut at every boundary of its ideal event list) and by the trace form (the driver must have cut the real file at every
\* boundary of the events the automaton consumed).
BoundsOf(e) ==
  CASE e.ev = "ParseHeader"     -> {0, e.hdrBlocks, e.kbBlock, e.kbBlock + e.kbCount, e.imageBlocks}
    [] e.ev = "CheckHeaderMac"  -> {e.over[1] \div 16, e.over[2] \div 16}
    [] e.ev = "ParseCertBlock"  -> {e.at \div 16, e.endOff \div 16}
    [] e.ev = "CheckSha"        -> {e.at \div 16, e.at \div 16 + 2}
    [] e.ev = "VerifySignature" -> {e.sigAt \div 16, (e.sigAt + e.sigLen) \div 16}
    [] e.ev = "SectionTag"      -> {e.at, e.at + 1, e.at + 3}
    [] e.ev = "SectionHmac"     -> {e.entryAt, e.entryAt + 2, e.firstBlk, e.firstBlk + e.nBlk}
    [] e.ev = "Cmd"             -> {e.at, e.at + 1, e.at + e.nBlk}
    [] e.ev = "SectionEnd"      -> {e.next}
    [] OTHER -> {}
BoundsOfAll(es) == UNION {BoundsOf(es[k]) : k \in 1..Len(es)}
=============================================================================
