------------------------------ MODULE Sb2Config ------------------------------
(* C04, the CONFIGURATION PATH.  "Every SB 2.1 file SPSDK builds" includes the files `nxpimage sb21 export`    *)
(* builds from a command file (BD) or a YAML configuration: BootImageV21.load_from_config turns a dictionary   *)
(* of statements into the command list.  This module is the statement CASE SPACE of that path and what each    *)
(* statement MEANS as an abstract boot command (Expected) - in the vocabulary of Sb2Operands, so that the ROM   *)
(* automaton + Matches decide a file built from a configuration exactly as they decide a file built through    *)
(* the command classes.                                                                                        *)
(*                                                                                                             *)
(*   statement kind  x  memory option class  x  data source kind                                               *)
(*   - kinds: load, fill, erase, enable, keystore_to_nv / _from_nv, version_check, jump, call, reset            *)
(*   - memory option: absent; internal memory (0); a documented memory NAME (sdcard, qspi, ...); the numeric   *)
(*     id of a named memory; a numeric id with no name (group id in bits 8..11, device id in bits 0..7) -      *)
(*     numbers as integers and as strings (YAML)                                                               *)
(*   - data source of a load: a FILE, a binary BLOB (one word as the BD parser hands it over, several words    *)
(*     comma separated as in YAML), an integer PATTERN (fill; fuse / IFR programming)                          *)
(* The memory names and their ids are facts of the boot ROM / the BD language (MCU bootloader: memory id =      *)
(* group << 8 | device; `load sdcard ...` = `load @288 ...`), not of SPSDK.                                     *)
(* MC: lemmas below over every case; GEN: every case is emitted with its expectation (Emit) and built in       *)
(* every run.                                                                                                  *)
EXTENDS Sb2Operands, Json
VARIABLE cc

\* ---- memories (ROM): name -> <<group id, device id>>
MemName == [qspi |-> <<0, 1>>, ifr |-> <<0, 4>>, fuse |-> <<0, 4>>, semcnor |-> <<0, 8>>, flexspinor |-> <<0, 9>>,
            semcnand |-> <<1, 0>>, spinand |-> <<1, 1>>, spieeprom |-> <<1, 16>>, i2ceeprom |-> <<1, 17>>,
            sdcard |-> <<1, 32>>, mmccard |-> <<1, 33>>]
ProgMem == <<0, 4>>                                   \* fuse / IFR: a load of a word to it is the PROGRAM command
DataNames == DOMAIN MemName \ {"ifr", "fuse"}
Internal == <<0, 0>>
NamedIds == {MemName[n] : n \in DataNames}
OtherIds == {<<3, 9>>, <<15, 0>>, <<15, 255>>, <<1, 254>>, <<0, 255>>, <<0, 2>>, <<2, 32>>}      \* no name; group bits set / clear
\* memory option as written: form "none" (absent), "int", "str" (the number as a string), "name"
MemOpt(form, name, id, class) == [form |-> form, name |-> name, id |-> id, class |-> class]
NoOpt == MemOpt("none", "", Internal, "none")
MemOpts == {NoOpt, MemOpt("int", "", Internal, "internal")}
           \cup {MemOpt("name", n, MemName[n], "name") : n \in DataNames}
           \cup {MemOpt(f, "", id, "mapped-id") : f \in {"int", "str"}, id \in NamedIds}
           \cup {MemOpt(f, "", id, "unmapped-id") : f \in {"int", "str"}, id \in OtherIds}
ProgOpts == {MemOpt("name", "ifr", ProgMem, "name"), MemOpt("name", "fuse", ProgMem, "name"), MemOpt("int", "", ProgMem, "mapped-id")}
KsIds == {<<0, 1>>, <<0, 8>>, <<0, 9>>}              \* key-store commands take the id of a non-volatile memory as a number

\* ---- values
BaseA == <<8192, 4096>>      \* 0x20001000
HighA == <<65535, 65532>>    \* 0xFFFFFFFC
BaseN == <<0, 512>>
BaseX == <<50130, 57840>>    \* 0xC3D2E1F0
Data(n) == [i \in 1..n |-> (i * 37 + n) % 256]
\* blob words: the byte order of a blob word is not settled on this path (known finding of C19): every word has four equal bytes
Words(bs) == [i \in 1..(4 * Len(bs)) |-> bs[(i + 3) \div 4]]
WordOf(b) == <<b * 257, b * 257>>

\* ---- statements.  src: "file" | "blob" (one word, BD) | "words" (comma separated, YAML) | "pattern" | "none"
\* a, n, x: address; length / size / version / stack pointer; argument / pattern.  opt: "nolen" | "nosp" | "" ; num: "int" | "str" (numbers as strings)
St(kind, mem, src, a, n, x, f, d, opt, num) ==
  [kind |-> kind, mem |-> mem, src |-> src, a |-> a, n |-> n, x |-> x, f |-> f, d |-> d, opt |-> opt, num |-> num]
Cmd(k, a, n, x, f, m, d) == [k |-> k, a |-> a, n |-> n, x |-> x, f |-> f, m |-> m, d |-> d]

LoadFile == {St("load", m, "file", a, Zero, Zero, 0, Data(l), "", "int") : m \in MemOpts, a \in {BaseA}, l \in {21}}
            \cup {St("load", m, "file", HighA, Zero, Zero, 0, Data(16), "", "str") : m \in {NoOpt, MemOpt("name", "sdcard", MemName["sdcard"], "name")}}
LoadBlob == {St("load", m, "blob", BaseA, Zero, Zero, 0, Words(<<90>>), "", "int") : m \in MemOpts}
LoadWords == {St("load", m, "words", BaseA, Zero, Zero, 0, Words(<<90, 60, 165, 17, 255>>), "", "int") : m \in MemOpts}
\* fuse / IFR programming: one or two words as a blob, one word as an integer
Prog == {St("load", m, "blob", BaseA, WordOf(90), Zero, 0, <<>>, "", "int") : m \in ProgOpts}
        \cup {St("load", m, "blob", BaseA, WordOf(165), WordOf(60), 0, <<>>, "", "int") : m \in ProgOpts}
        \cup {St("load", m, "pattern", <<0, 48>>, <<291, 17767>>, Zero, 0, <<>>, "", "int") : m \in ProgOpts}
Fill == {St("fill", NoOpt, "pattern", BaseA, n, x, 0, <<>>, "", "int") : n \in {<<0, 4>>, BaseN}, x \in {<<0, 90>>, <<0, 4773>>, BaseX}}
        \cup {St("fill", NoOpt, "pattern", BaseA, <<0, 4>>, x, 0, <<>>, "nolen", num) : x \in {<<0, 255>>, <<0, 65535>>, BaseX}, num \in {"int", "str"}}
Erase == {St("erase", m, "none", BaseA, BaseN, Zero, 0, <<>>, "", "int") : m \in MemOpts}
         \cup {St("erase", m, "none", Zero, Zero, Zero, 1, <<>>, "nolen", "int") : m \in MemOpts}                        \* erase all
         \cup {St("erase", NoOpt, "none", Zero, Zero, Zero, 2, <<>>, "nolen", "int")}                                      \* erase unsecure all
         \cup {St("erase", NoOpt, "none", HighA, <<32768, 0>>, Zero, 0, <<>>, "", "str")}
Enable == {St("enable", m, "none", BaseA, <<0, 4>>, Zero, 0, <<>>, "nolen", "int") : m \in MemOpts}                       \* documented default size 4
          \cup {St("enable", m, "none", BaseA, BaseN, Zero, 0, <<>>, "", "int") : m \in {MemOpt("name", "qspi", MemName["qspi"], "name"), MemOpt("int", "", <<3, 9>>, "unmapped-id")}}
Ks == {St(k, MemOpt("int", "", id, "mapped-id"), "none", a, Zero, Zero, 0, <<>>, "", "int") : k \in {"keystore_to_nv", "keystore_from_nv"}, id \in KsIds, a \in {BaseA, HighA}}
Ver == {St("version_check", NoOpt, "none", Zero, n, Zero, f, <<>>, "", "int") : f \in 0..1, n \in {<<0, 1>>, <<32768, 0>>}}
Jump == {St("jump", NoOpt, "none", a, Zero, x, 0, <<>>, "nosp", "int") : a \in {BaseA, HighA}, x \in {Zero, BaseX}}
        \cup {St("jump", NoOpt, "none", BaseA, n, BaseX, 1, <<>>, "", "int") : n \in {Zero, BaseN, HighA}}               \* stack pointer 0 is a stack pointer
        \cup {St("jump", NoOpt, "none", BaseA, Zero, Zero, 0, <<>>, "noarg", "str")}
Call == {St("call", NoOpt, "none", a, Zero, x, 0, <<>>, "", "int") : a \in {BaseA, HighA}, x \in {Zero, BaseX}}
        \cup {St("call", NoOpt, "none", BaseA, Zero, Zero, 0, <<>>, "noarg", "int")}
Reset == {St("reset", NoOpt, "none", Zero, Zero, Zero, 0, <<>>, "", "int")}
Cases == LoadFile \cup LoadBlob \cup LoadWords \cup Prog \cup Fill \cup Erase \cup Enable \cup Ks \cup Ver \cup Jump \cup Call \cup Reset

\* ---- what a statement means
IsProg(s) == s.kind = "load" /\ s.mem.id = ProgMem /\ s.src \in {"blob", "pattern"}
Expected(s) ==
  CASE IsProg(s)                 -> Cmd("prog", s.a, s.n, s.x, 0, s.mem.id, <<>>)
    [] s.kind = "load"           -> Cmd("load", s.a, Zero, Zero, 0, s.mem.id, s.d)
    [] s.kind = "fill"           -> Cmd("fill", s.a, s.n, s.x, 0, Internal, <<>>)
    [] s.kind = "erase"          -> Cmd("erase", s.a, s.n, Zero, s.f, s.mem.id, <<>>)
    [] s.kind = "enable"         -> Cmd("enable", s.a, s.n, Zero, 0, s.mem.id, <<>>)
    [] s.kind = "keystore_to_nv" -> Cmd("ks_to_nv", s.a, Zero, Zero, 0, s.mem.id, <<>>)
    [] s.kind = "keystore_from_nv" -> Cmd("ks_from_nv", s.a, Zero, Zero, 0, s.mem.id, <<>>)
    [] s.kind = "version_check"  -> Cmd("vercheck", Zero, s.n, Zero, s.f, Internal, <<>>)
    [] s.kind = "jump"           -> Cmd("jump", s.a, s.n, s.x, s.f, Internal, <<>>)
    [] s.kind = "call"           -> Cmd("call", s.a, Zero, s.x, 0, Internal, <<>>)
    [] s.kind = "reset"          -> Cmd("reset", Zero, Zero, Zero, 0, Internal, <<>>)

Init == cc \in Cases
Next == UNCHANGED cc
Exp == Expected(cc)
Emit == PrintT(ToJson([st |-> cc, exp |-> Exp]))

\* ---- lemmas over the case space
\* the ideal writer's header for the expectation is what Matches accepts
Encodable == Matches(Encode(Exp), Exp)
\* a memory option that names another memory than the internal one is VISIBLE to the ROM: the header of the same statement without the option
\* is refused - whatever the data source (so a builder that drops the option on one of its paths cannot pass)
Without(s) == [s EXCEPT !.mem = NoOpt]
MemVisible == (cc.mem.id # Internal /\ ~IsProg(cc) /\ cc.kind \in {"load", "erase", "enable"}) => ~Matches(Encode(Expected(Without(cc))), Exp)
\* the memory a statement addresses does not depend on how the option is written (name / number / string) nor on the data source
SameMemory == \A o \in Cases : (o.kind = cc.kind /\ o.mem.id = cc.mem.id /\ IsProg(o) = IsProg(cc)) => Expected(o).m = Exp.m
\* blob words are byte-order neutral (see Words): reversing the bytes of every word gives the same data
Rev4(d) == [i \in 1..Len(d) |-> d[4 * ((i - 1) \div 4) + 4 - ((i - 1) % 4)]]
BlobNeutral == cc.src \in {"blob", "words"} /\ cc.d # <<>> => Len(cc.d) % 4 = 0 /\ Rev4(cc.d) = cc.d

\* ---- the case space reaches what it promises (evaluated once)
Classes == {"none", "internal", "name", "mapped-id", "unmapped-id"}
ASSUME NamesAreIds == MemName["sdcard"] = <<1, 32>> /\ MemFlags(MemName["sdcard"]) = 8208 /\ MemFlags(MemName["mmccard"]) = 8464     \* @288 -> flags 0x2010
ASSUME EveryClassEverySource ==
         \A k \in {"load"} : \A src \in {"file", "blob", "words"} : \A cl \in Classes : \E s \in Cases : s.kind = k /\ s.src = src /\ s.mem.class = cl
ASSUME EveryClassEveryKind == \A k \in {"erase", "enable"} : \A cl \in Classes : \E s \in Cases : s.kind = k /\ s.mem.class = cl
ASSUME EveryNameAndItsNumber == \A n \in DataNames : \A src \in {"file", "blob", "words"} :
                                  /\ \E s \in Cases : s.kind = "load" /\ s.src = src /\ s.mem.form = "name" /\ s.mem.name = n
                                  /\ \E s \in Cases : s.kind = "load" /\ s.src = src /\ s.mem.form = "int" /\ s.mem.id = MemName[n]
=============================================================================
