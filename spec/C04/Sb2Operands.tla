---------------------------- MODULE Sb2Operands ----------------------------
(* Constant-level part of the C04 R-spec: the OPERANDS of the SB 2.x boot commands.                            *)
(*                                                                                                             *)
(*  - 32-bit words are limb pairs <<hi16, lo16>> (TLC integers are 32-bit).  Every word lies in exactly one    *)
(*    WIDTH CLASS: the smallest number of bytes (1..4) that holds it.  The FILL command replicates a pattern   *)
(*    of 1 or 2 bytes into the 32-bit pattern word; a 3-byte value is a word.                                  *)
(*  - Matches(r, c): what the ROM must decode (raw command header r) for an abstract command c that was given  *)
(*    to the builder.  Used by the trace form (Sb2RomTrace) for both observers.                                *)
(*  - Encode(c): the ideal writer's header for c (the MC form checks that Matches accepts it and that Matches  *)
(*    tells the width classes apart).                                                                          *)
(*  The operand CASE SPACE (boundaries of every width class for every operand) is in Sb2OperandsMC.            *)
EXTENDS Naturals, Integers, Sequences, FiniteSets, TLC

Zero == <<0, 0>>
WMax == <<65535, 65535>>
WSucc(w) == IF w[2] = 65535 THEN <<w[1] + 1, 0>> ELSE <<w[1], w[2] + 1>>      \* w # WMax
WPred(w) == IF w[2] = 0 THEN <<w[1] - 1, 65535>> ELSE <<w[1], w[2] - 1>>      \* w # Zero
WLeq(a, b) == a[1] < b[1] \/ (a[1] = b[1] /\ a[2] <= b[2])
WVal(x) == x[1] * 65536 + x[2]                                                \* only where hi < 32768
WBytes(w) == <<w[1] \div 256, w[1] % 256, w[2] \div 256, w[2] % 256>>         \* big-endian
WOfBytes(b) == <<b[1] * 256 + b[2], b[3] * 256 + b[4]>>
Al16(n) == ((n + 15) \div 16) * 16

\* ---- width classes
Widths == 1..4
ClassLo(c) == CASE c = 1 -> <<0, 0>> [] c = 2 -> <<0, 256>> [] c = 3 -> <<1, 0>> [] c = 4 -> <<256, 0>>     \* 256^(c-1), 0 for c = 1
ClassHi(c) == IF c = 4 THEN WMax ELSE WPred(ClassLo(c + 1))                                                  \* 256^c - 1
InClass(w, c) == WLeq(ClassLo(c), w) /\ WLeq(w, ClassHi(c))
Width(w) == CHOOSE c \in Widths : InClass(w, c)

\* ---- FILL pattern: a byte / half-word pattern is replicated to a word; 3 bytes are a word with a zero first byte
PatWidth(p) == IF Width(p) = 3 THEN 4 ELSE Width(p)
RepW(p, n) == LET b == WBytes(p) IN WOfBytes([i \in 1..4 |-> b[4 - n + 1 + ((i - 1) % n)]])     \* the low n bytes of p, repeated
Rep(p) == RepW(p, PatWidth(p))
RepDirect(p) == IF p[1] = 0 /\ p[2] < 256 THEN <<p[2] * 257, p[2] * 257>>      \* the same by arithmetic on the limbs (cross-check, lemma RepAgree)
                ELSE IF p[1] = 0 THEN <<p[2], p[2]>>
                ELSE p

\* ---- command encoding: what the ROM must see (raw header r) for an abstract command c
\* c = [k, a, n, x, f, m, d]: address, length / count / SP / word1 / version, argument / pattern / word2, small flag, <<group, device>>, data bytes
MemFlags(m) == m[2] * 256 + m[1] * 16            \* device id in flags bits 8..15, group id in bits 4..7
Matches(r, c) ==
  CASE c.k = "nop"     -> r.tag = 0
    [] c.k = "load"    -> /\ r.tag = 2 /\ r.flags = MemFlags(c.m) /\ r.addr = c.a
                          /\ r.cnt[1] < 32768 /\ WVal(r.cnt) \in {Len(c.d), Al16(Len(c.d))}     \* padded to the cipher block
                          /\ Len(r.payload) = r.payloadLen /\ r.payloadLen >= Len(c.d)
                          /\ SubSeq(r.payload, 1, Len(c.d)) = c.d                               \* the given bytes are a prefix
    [] c.k = "fill"    -> r.tag = 3 /\ r.addr = c.a /\ r.cnt = c.n /\ r.dat = (IF c.f = 1 THEN c.x ELSE Rep(c.x))
    [] c.k = "jump"    -> /\ r.tag = 4 /\ r.addr = c.a /\ r.dat = c.x
                          /\ IF c.f = 1 THEN r.flags = 2 /\ r.cnt = c.n ELSE r.flags = 0
    [] c.k = "call"    -> r.tag = 5 /\ r.addr = c.a /\ r.dat = c.x
    [] c.k = "erase"   -> r.tag = 7 /\ r.flags = c.f + MemFlags(c.m) /\ r.addr = c.a /\ r.cnt = c.n
    [] c.k = "reset"   -> r.tag = 8
    [] c.k = "enable"  -> r.tag = 9 /\ r.flags = MemFlags(c.m) /\ r.addr = c.a /\ r.cnt = c.n
    [] c.k = "prog"    -> /\ r.tag = 10 /\ r.flags = c.m[2] * 256 + (IF c.x = Zero THEN 0 ELSE 1)
                          /\ r.addr = c.a /\ r.cnt = c.n /\ r.dat = c.x
    [] c.k = "vercheck" -> r.tag = 11 /\ r.addr = <<0, c.f>> /\ r.cnt = c.n
    [] c.k = "ks_to_nv" -> r.tag = 12 /\ r.flags = c.m[2] * 256 /\ r.addr = c.a
    [] c.k = "ks_from_nv" -> r.tag = 13 /\ r.flags = c.m[2] * 256 /\ r.addr = c.a
    [] OTHER -> FALSE

\* the ideal writer's header for c
Raw0 == [tag |-> 0, flags |-> 0, addr |-> Zero, cnt |-> Zero, dat |-> Zero, payload |-> <<>>, payloadLen |-> 0]
Encode(c) ==
  CASE c.k = "load"    -> [Raw0 EXCEPT !.tag = 2, !.flags = MemFlags(c.m), !.addr = c.a, !.cnt = <<0, Len(c.d)>>, !.payloadLen = Al16(Len(c.d)),
                                       !.payload = [i \in 1..Al16(Len(c.d)) |-> IF i <= Len(c.d) THEN c.d[i] ELSE 0]]
    [] c.k = "fill"    -> [Raw0 EXCEPT !.tag = 3, !.addr = c.a, !.cnt = c.n, !.dat = Rep(c.x)]
    [] c.k = "jump"    -> [Raw0 EXCEPT !.tag = 4, !.addr = c.a, !.dat = c.x, !.flags = IF c.f = 1 THEN 2 ELSE 0, !.cnt = IF c.f = 1 THEN c.n ELSE Zero]
    [] c.k = "call"    -> [Raw0 EXCEPT !.tag = 5, !.addr = c.a, !.dat = c.x]
    [] c.k = "erase"   -> [Raw0 EXCEPT !.tag = 7, !.flags = c.f + MemFlags(c.m), !.addr = c.a, !.cnt = c.n]
    [] c.k = "enable"  -> [Raw0 EXCEPT !.tag = 9, !.flags = MemFlags(c.m), !.addr = c.a, !.cnt = c.n]
    [] c.k = "prog"    -> [Raw0 EXCEPT !.tag = 10, !.flags = c.m[2] * 256 + (IF c.x = Zero THEN 0 ELSE 1), !.addr = c.a, !.cnt = c.n, !.dat = c.x]
    [] c.k = "vercheck" -> [Raw0 EXCEPT !.tag = 11, !.addr = <<0, c.f>>, !.cnt = c.n]
    [] c.k = "ks_to_nv" -> [Raw0 EXCEPT !.tag = 12, !.flags = c.m[2] * 256, !.addr = c.a]
    [] c.k = "ks_from_nv" -> [Raw0 EXCEPT !.tag = 13, !.flags = c.m[2] * 256, !.addr = c.a]
    [] c.k = "nop"     -> Raw0
    [] c.k = "reset"   -> [Raw0 EXCEPT !.tag = 8]
=============================================================================
