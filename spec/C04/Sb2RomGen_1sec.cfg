CONSTANTS MaxSecs = 1
 MaxHm = 3
 MaxCmds = 3
 MaxPay = 2
 Chains = {"k0", "ss4096", "ch3"}
INIT GenInit
NEXT GenNext
CHECK_DEADLOCK FALSE
