CONSTANTS MaxSecs = 1
 MaxHm = 2
 MaxCmds = 2
 MaxPay = 1
 Chains = {"k0"}
INIT Init
NEXT Next
INVARIANT Complete
INVARIANT Sound
INVARIANT Tamper
PROPERTY FreshChunks
CHECK_DEADLOCK TRUE
