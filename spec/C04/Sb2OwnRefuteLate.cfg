CONSTANTS MaxLen = 4
 Holds = "late"
 EmitOn = FALSE
INIT Init
NEXT Next
INVARIANT ExportCarriesGiven
CHECK_DEADLOCK FALSE
