CONSTANTS MaxSecs = 2
 MaxHm = 3
 MaxCmds = 2
 MaxPay = 2
 Chains = {"k0", "ss4096", "ch3"}
INIT GenInit
NEXT GenNext
CHECK_DEADLOCK FALSE
