----------------------------- MODULE Sb2TimeMC -----------------------------
(* MC / GEN form of the time-stamp part of C04.  The TIME-STAMP CASE SPACE is the set of initial states:        *)
(*   form     naive / aware                                                                                    *)
(*   off      UTC offset of an aware value: 0, whole hours east and west, half-hour and quarter-hour zones,    *)
(*            the largest real offsets (+14 h, -12 h) and the largest a datetime can carry (+-23:59)            *)
(*   wall     wall-clock digits: the first seconds of 2000-01-01, the last second of that day, a leap day, a   *)
(*            date of today, the seconds around 2^31 / 2^32 seconds since 1970 and since 2000, the far future  *)
(*   us       microseconds 0 / 1 / 500000 / 999999                                                             *)
(*   zone     local zone of the building process (aware values only: their instant does not depend on it)      *)
(* one dimension at a time against the others (Full = TRUE: the whole product, thorough tier).  TLC checks the *)
(* lemmas over every case and emits every case (Emit); the harness builds a file for EVERY emitted case in     *)
(* every run, and the trace form decides with Sb2Time!HeaderCarries what the ROM model read from the header.   *)
EXTENDS Sb2Time, FiniteSets, Json, TLC
CONSTANTS Full        \* BOOLEAN: the whole product, more offsets
VARIABLE tc

\* UTC offsets (minutes east) of aware values; local zones of the building process
Offsets == {0, 60, 330, 345, 840, 0 - 480, 0 - 210, 0 - 720, MaxOff, 0 - MaxOff}
           \cup (IF Full THEN {1, 0 - 1, 120, 570, 765, 0 - 300, 0 - 570, 0 - 660} ELSE {})
Zones == {0, 330, 0 - 480}

Walls == {<<0, 0>>, <<0, 1>>, <<0, 86399>>, <<1, 0>>,                  \* 2000-01-01 00:00:00 / :01 / 23:59:59, 2000-01-02
          <<8825, 43200>>,                                             \* 2024-02-29 12:00:00 (leap day)
          <<8595, 37230>>,                                             \* 2023-07-14 10:20:30
          <<13898, 11647>>, <<13898, 11648>>,                          \* 2^31 seconds since 1970 (2038-01-19 03:14:07 / :08)
          <<24855, 11647>>, <<24855, 11648>>,                          \* 2^31 seconds since 2000 (2068-01-19)
          <<38753, 23295>>, <<38753, 23296>>,                          \* 2^32 seconds since 1970 (2106-02-07 06:28:15 / :16)
          <<49710, 23295>>, <<49710, 23296>>,                          \* 2^32 seconds since 2000 (2136-02-07)
          <<99999, 86399>>, <<100000, 0>>}                             \* 2273-10-15 23:59:59 / 2273-10-16
MidWall == <<8595, 37230>>
ZoneWalls == {MidWall, <<1, 0>>, <<38753, 23296>>}
Micros == {0, 1, 500000, 999999}
TwoOffs == {0, 330}
\* the digits that, with offset o, denote the instant k seconds after 2000-01-01 00:00:00 UTC (k = -1: outside the domain)
EpochWall(o, k) == LET t == 60 * o + k + DaySecs IN <<t \div DaySecs - 1, t % DaySecs>>

C(form, off, w, us, zone) == TCase(form, off, w[1], w[2], us, zone)
AwareCases ==
       {C("aware", o, w, 0, 0) : o \in Offsets, w \in Walls}                                  \* offset x wall
  \cup {C("aware", o, MidWall, u, 0) : o \in Offsets, u \in Micros}                           \* offset x microseconds
  \cup {C("aware", o, w, 999999, 0) : o \in TwoOffs, w \in Walls}                             \* wall x microseconds
  \cup {C("aware", o, w, 0, z) : o \in Offsets, z \in Zones, w \in ZoneWalls}                 \* offset x local zone
  \cup {C("aware", o, EpochWall(o, k), 0, 0) : o \in Offsets, k \in {0 - 1, 0, 1}}            \* offset x the first instants of the epoch
  \cup (IF Full THEN {C("aware", o, w, u, z) : o \in Offsets, w \in Walls, u \in Micros, z \in Zones} ELSE {})
NaiveCases == {C("naive", 0, w, u, 0) : w \in Walls, u \in Micros}
Cases == {c \in AwareCases \cup NaiveCases : InDomain(c)}

Init == tc \in Cases
Next == UNCHANGED tc

\* ---- lemmas over the case space
\* the limb arithmetic is the plain arithmetic wherever that fits into TLC's integers
LimbsExact == tc.days < 24000 => TsHi(tc) * 65536 + TsLo(tc) = tc.days * DaySecs + tc.sod - 60 * OffOf(tc)
LimbsRange == TsLo(tc) \in 0..65535 /\ TsHi(tc) >= 0
\* the same instant written with another offset gives the same header value
Shift(c, o2) == LET s == c.sod + 60 * (o2 - c.off) + 2 * DaySecs IN          \* biased by two days: never negative
                [c EXCEPT !.off = o2, !.days = c.days + s \div DaySecs - 2, !.sod = s % DaySecs]
SameInstant == tc.form = "aware" =>
                 \A o2 \in Offsets : Shift(tc, o2).days \in (0 - 1)..MaxDays => HeaderSecs(Shift(tc, o2)) = HeaderSecs(tc)
\* the local zone of the process does not matter for an aware value
ZoneFree == tc.form = "aware" => \A z \in Zones : HeaderSecs([tc EXCEPT !.zone = z]) = HeaderSecs(tc)
\* ... but the offset does: the digits of an aware value read WITHOUT its offset (as UTC, or in another local zone) are another instant -
\* a builder that drops the zone information, or converts with the wrong zone, is told apart in every such case
OffsetMatters == tc.form = "aware" =>
                   \A z \in Zones \cup {0} : z # tc.off => HeaderSecs([tc EXCEPT !.form = "naive", !.off = 0, !.zone = z]) # HeaderSecs(tc)
\* the next second is the next header value (carry between the limbs)
Succ(p) == IF p[2] = 65535 THEN <<p[1] + 1, 0>> ELSE <<p[1], p[2] + 1>>
NextSecond == tc.sod < DaySecs - 1 => HeaderSecs([tc EXCEPT !.sod = @ + 1]) = Succ(HeaderSecs(tc))
Emit == PrintT(ToJson(tc))

\* ---- the case space reaches what it promises (evaluated once, at start-up)
ASSUME OffsetClasses == /\ 0 \in Offsets
                        /\ \E o \in Offsets : o > 0 /\ o % 60 = 0
                        /\ \E o \in Offsets : o < 0 /\ o % 60 = 0
                        /\ \E o \in Offsets : o % 60 = 30
                        /\ \E o \in Offsets : o < 0 /\ (0 - o) % 60 = 30
                        /\ \E o \in Offsets : o % 60 = 45
                        /\ MaxOff \in Offsets /\ (0 - MaxOff) \in Offsets
                        /\ \A o \in TwoOffs : o \in Offsets
ASSUME ZoneClasses == 0 \in Zones /\ (\E z \in Zones : z > 0) /\ (\E y \in Zones : y < 0)
ASSUME Reach == /\ \E c \in Cases : c.form = "aware" /\ c.off # 0 /\ c.us # 0
                /\ \E c \in Cases : c.form = "naive" /\ c.us # 0
                /\ \E c \in Cases : HeaderSecs(c) = <<0, 0>> /\ c.form = "aware" /\ c.off # 0       \* an offset value that IS 2000-01-01 00:00:00 UTC
                /\ \E c \in Cases : c.form = "aware" /\ c.off < 0 /\ TsHi(c) >= 65536                 \* beyond 2^32 seconds
                /\ \E c \in Cases : c.form = "aware" /\ c.zone # 0 /\ c.zone # c.off
                /\ \E c \in AwareCases : ~InDomain(c)                                                \* the filter is not vacuous: digits in 2000, instant in 1999
=============================================================================
