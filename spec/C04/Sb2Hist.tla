------------------------------- MODULE Sb2Hist -------------------------------
(* C04, the HISTORY of one live builder object (BootImageV20 / BootImageV21).  The property speaks about every *)
(* file SPSDK builds; a builder object is not used once: it is printed (str), updated, extended and exported   *)
(* again.  The abstract state is what the object HOLDS (sections: HMAC-table request, commands by payload      *)
(* blocks, generation of the first section's id); queries leave it alone, mutators change it, and EVERY export *)
(* must be a file that describes the content at that moment.                                                   *)
(*                                                                                                             *)
(*  GEN : TLC enumerates all histories up to MaxLen calls that end in an export (Emit, printed from the Export *)
(*        action); the harness replays each on a real object, every export of the replay is walked by the ROM  *)
(*        executor and the whole history is validated by Sb2RomTrace (kind "hist": the content is state of     *)
(*        that spec, changed by the mutator events only).                                                      *)
(*  MC  : the header numbers a builder keeps between calls are modelled as a cache (I-part).  With             *)
(*        Recompute = TRUE (every update derives them from the content) ExportDescribes holds in every         *)
(*        history; with Recompute = FALSE (a count is added to what the cache held) TLC must refute it - the   *)
(*        harness runs both, so the history space provably reaches that class of defect.                       *)
EXTENDS Naturals, Sequences, FiniteSets, TLC, Json
CONSTANTS MaxLen,      \* calls per history
          Vers,        \* subset of {"21", "21sha", "20s", "20u"}
          Inits,       \* subset of 1..2: content the object is constructed with
          Recompute,   \* BOOLEAN, see above
          EmitOn       \* BOOLEAN: print every history that ends in an export (GEN)
VARIABLES ver, init, secs, acts, cache, uidgen
vars == <<ver, init, secs, acts, cache, uidgen>>

MaxSecs == 3
MaxCmds == 3
InitContent(k) == IF k = 1 THEN <<[hm |-> 1, cmds |-> <<0>>, u |-> 0]>>
                  ELSE <<[hm |-> 2, cmds |-> <<1, 0>>, u |-> 0], [hm |-> 1, cmds |-> <<0, 1>>, u |-> 0]>>

\* ---- the header numbers an ideal writer derives from the content (as in Sb2RomMC)
Min(a, b) == IF a < b THEN a ELSE b
SumTo(f, n) == LET S[k \in 0..n] == IF k = 0 THEN 0 ELSE S[k - 1] + f[k] IN S[n]
SecCount(s) == SumTo([j \in 1..Len(s.cmds) |-> 1 + s.cmds[j]], Len(s.cmds))
SecHm(s) == Min(s.hm, SecCount(s))
SecBlocks(s) == 3 + 2 * SecHm(s) + SecCount(s)
MacSum(c) == SumTo([k \in 1..Len(c) |-> SecHm(c[k])], Len(c))
Ideal(v, c) == [maxMac |-> MacSum(c) + (IF v = "20s" THEN 1 ELSE 0),
                bodyBlocks |-> SumTo([k \in 1..Len(c) |-> SecBlocks(c[k])], Len(c)),
                firstUid |-> c[1].u]
\* what the object keeps after an update of its internals
Refresh(old, c) == IF Recompute THEN Ideal(ver, c) ELSE [Ideal(ver, c) EXCEPT !.maxMac = old.maxMac + MacSum(c)]

\* ---- the shapes the mutators hand over (values are the harness's, seeded)
Last == secs[Len(secs)]
NewSection == [hm |-> 1 + (Len(secs) % 2), cmds |-> IF Len(secs) % 2 = 1 THEN <<1, 0>> ELSE <<0>>, u |-> 0]
NewCmd == Len(Last.cmds) % 2
OtherCmd == 1 - Last.cmds[Len(Last.cmds)]

Init == /\ ver \in Vers /\ init \in Inits /\ secs = InitContent(init) /\ acts = <<>> /\ uidgen = 0
        /\ cache = [maxMac |-> 0, bodyBlocks |-> 0, firstUid |-> 0]
Room == Len(acts) < MaxLen
Rec(a) == acts' = Append(acts, a) /\ UNCHANGED <<ver, init>>
Emit == EmitOn => PrintT(ToJson([ver |-> ver, init |-> init, content0 |-> InitContent(init), acts |-> acts']))

DoExport == /\ Room /\ cache' = Refresh(cache, secs)
            /\ Rec([a |-> "Export", secs |-> secs, hdr |-> cache'])
            /\ UNCHANGED <<secs, uidgen>> /\ Emit
DoDescribe == Room /\ cache' = Refresh(cache, secs) /\ Rec([a |-> "Describe"]) /\ UNCHANGED <<secs, uidgen>>     \* str() updates the internals
DoUpdate == Room /\ cache' = Refresh(cache, secs) /\ Rec([a |-> "Update"]) /\ UNCHANGED <<secs, uidgen>>
DoAddSection == /\ Room /\ Len(secs) < MaxSecs /\ secs' = Append(secs, NewSection)
                /\ Rec([a |-> "AddSection", sec |-> NewSection]) /\ UNCHANGED <<cache, uidgen>>
DoAppendCmd == /\ Room /\ Len(Last.cmds) < MaxCmds /\ secs' = [secs EXCEPT ![Len(secs)].cmds = Append(@, NewCmd)]
               /\ Rec([a |-> "AppendCmd", p |-> NewCmd]) /\ UNCHANGED <<cache, uidgen>>
DoReplaceCmd == /\ Room /\ secs' = [secs EXCEPT ![Len(secs)].cmds = [@ EXCEPT ![Len(@)] = OtherCmd]]
                /\ Rec([a |-> "ReplaceCmd", p |-> OtherCmd]) /\ UNCHANGED <<cache, uidgen>>
DoSetUid == /\ Room /\ uidgen' = uidgen + 1 /\ secs' = [secs EXCEPT ![1].u = uidgen + 1]
            /\ Rec([a |-> "SetUid", u |-> uidgen + 1]) /\ UNCHANGED cache
Next == DoExport \/ DoDescribe \/ DoUpdate \/ DoAddSection \/ DoAppendCmd \/ DoReplaceCmd \/ DoSetUid

\* ---- lemmas
\* every export of every history carries header numbers that describe what the object held at that moment
ExportDescribes == \A k \in 1..Len(acts) : acts[k].a = "Export" => acts[k].hdr = Ideal(ver, acts[k].secs)
\* the content is the fold of the mutators over the constructor input (queries and exports do not count): declarative restatement of the actions
Apply(c, a) == CASE a.a = "AddSection" -> Append(c, a.sec)
                 [] a.a = "AppendCmd"  -> [c EXCEPT ![Len(c)].cmds = Append(@, a.p)]
                 [] a.a = "ReplaceCmd" -> [c EXCEPT ![Len(c)].cmds = [@ EXCEPT ![Len(@)] = a.p]]
                 [] a.a = "SetUid"     -> [c EXCEPT ![1].u = a.u]
                 [] OTHER -> c
Fold == LET F[k \in 0..Len(acts)] == IF k = 0 THEN InitContent(init) ELSE Apply(F[k - 1], acts[k]) IN F[Len(acts)]
ContentIsFold == secs = Fold
\* every content stays inside small layouts of the kind the ROM automaton is model-checked on (Sb2RomMC: sections, commands, payload blocks, table requests)
InShapeSpace == /\ Len(secs) \in 1..MaxSecs
                /\ \A k \in 1..Len(secs) : /\ secs[k].hm \in 1..2 /\ Len(secs[k].cmds) \in 1..MaxCmds
                                           /\ \A j \in 1..Len(secs[k].cmds) : secs[k].cmds[j] \in 0..1
=============================================================================
