CONSTANTS MaxLen = 3
 Vers = {"21"}
 Inits = {1}
 Recompute = FALSE
 EmitOn = FALSE
INIT Init
NEXT Next
INVARIANT ExportDescribes
CHECK_DEADLOCK FALSE
