---------------------------- MODULE Sb2RomTrace ----------------------------
(* TV form of C04 (batch trace validation).  Two kinds of traces, one initial state per trace:                 *)
(*                                                                                                             *)
(*  kind "rom"   : given = what was handed to the builder (header values, sections, abstract commands);        *)
(*                 ev = the events the independent executor logged on the exported bytes, one per automaton    *)
(*                 step of Sb2Rom, interleaved with clause markers {ev:"Field", name} that ask for one         *)
(*                 "header field carries the value supplied" clause each.  The trace is a behaviour iff the    *)
(*                 ROM accepts the file AND decodes exactly what was given.                                    *)
(*  kind "parse" : ref = the content the executor decoded from the (untampered) file; ev = what SPSDK's own    *)
(*                 parse() did with the file (mode clean) or with a tampered file / a wrong KEK (mode tamper / *)
(*                 wrongkek): it returned content (projected field by field, command by command) or raised.    *)
(*                 A behaviour iff  returned /\ content = ref,  or  raised /\ mode # clean.                    *)
EXTENDS Sb2Rom, Sb2Operands, Json, IOUtils
Traces == ndJsonDeserialize(IOEnv.TRACE_FILE)
VARIABLES tid, l,
          pend,     \* clause markers that must be consumed next
          psec, pcmd   \* parse traces: sections / commands of the current section seen so far
tvars == <<st, hdr, cur, sec, needCert, hm, body, left, cmdAt, cov, certEnd, sigEnd, macSum, dec, tid, l, pend, psec, pcmd>>
Tr == Traces[tid]
T == Tr.ev
E == T[l]
G == Tr.given
Ref == Tr.ref
Is(e) == l <= Len(T) /\ E.ev = e /\ pend = <<>>
\* SOFT clauses ("this header field carries the value supplied / describes the file", "parse() recovers this field"): TLC evaluates them and
\* records the NAME of every one that fails in a per-trace register, but goes on, so that one wrong header field does not hide what comes
\* after it.  Everything else is HARD: a trace that is not consumed to its end is reported with REJ.  Both lists are printed by Post.
SoftBase == 1000000
Soft(name, ok) == IF ok THEN TRUE ELSE TLCSet(SoftBase + tid, TLCGet(SoftBase + tid) \cup {name})
Bound == Tr.kind = "rom"       \* kind "anchor": a golden file of the reference tool, walked by the automaton alone (no builder input to compare with)
Adv == l' = l + 1 /\ UNCHANGED tid
NoP == UNCHANGED <<psec, pcmd>>
Min(a, b) == IF a < b THEN a ELSE b

\* ---- command encoding: Matches(r, c) - what the ROM must see (raw header r) for an abstract command c - is defined in Sb2Operands
\* (width classes of the operands, pattern replication of FILL, memory-id flags); its operand case space and lemmas are in Sb2OperandsMC

\* ---- header clauses
HeaderMarkers == <<"version", "flags", "product_version", "component_version", "build_number", "timestamp", "nonce">>
SectionMarkers == <<"section_id", "hmac_count">>
FieldOk(n) ==
  CASE n = "version"           -> hdr.minor = G.ver
    [] n = "flags"             -> hdr.flags = G.flags
    [] n = "product_version"   -> hdr.pv = G.pv
    [] n = "component_version" -> hdr.cv = G.cv
    [] n = "build_number"      -> hdr.build = G.build
    [] n = "timestamp"         -> hdr.ts = <<G.ts[1], G.ts[2], 0>>
    [] n = "nonce"             -> hdr.nonce = G.nonce /\ hdr.nonceCtr = G.nonceCtr
    [] n = "section_id"        -> Len(dec) <= Len(G.secs) /\ dec[Len(dec)].uid = G.secs[Len(dec)].uid
    [] n = "hmac_count"        -> Len(dec) <= Len(G.secs) /\ dec[Len(dec)].hmacCount = Min(G.secs[Len(dec)].hmacReq, hm.count)
    [] OTHER -> FALSE

TInit == /\ tid \in 1..Len(Traces) /\ l = 1 /\ RInit /\ pend = <<>> /\ psec = 0 /\ pcmd = 0 /\ TLCSet(tid, 1) /\ TLCSet(SoftBase + tid, {})

TField == /\ l <= Len(T) /\ E.ev = "Field" /\ pend # <<>> /\ E.name = Head(pend)
          /\ Soft(E.name, FieldOk(E.name))
          /\ pend' = Tail(pend) /\ UNCHANGED rvars /\ NoP /\ Adv

\* image_blocks is soft: the automaton goes on with the value the file itself demands (SB 2.1 / unsigned SB 2.0: the number of blocks of the file)
ImageBlocksFixed(e) == IF e.minor = 1 \/ e.flags = FlagUnsigned THEN e.fileBlocks ELSE e.imageBlocks
TParseHeader == /\ Is("ParseHeader") /\ Tr.kind \in {"rom", "anchor"} /\ E.longEnough
                /\ Soft("image_blocks", E.imageBlocks = ImageBlocksFixed(E))
                /\ ParseHeader([E EXCEPT !.imageBlocks = ImageBlocksFixed(E)])
                /\ pend' = (IF Bound THEN HeaderMarkers ELSE <<>>) /\ NoP /\ Adv
TUnwrap == Is("UnwrapKeyBlob") /\ UnwrapKeyBlob(E) /\ (Bound => E.keys = G.keys) /\ UNCHANGED pend /\ NoP /\ Adv     \* the DEK and MAC key that were supplied
THdrMac == Is("CheckHeaderMac") /\ (CheckHeaderMac20(E) \/ CheckHeaderMac21(E)) /\ UNCHANGED pend /\ NoP /\ Adv
CertGiven == E.count = G.chain /\ E.rootIdx = G.rootIdx /\ E.rkth = G.rkth       \* the chain and the root-key table that were supplied
TCert == Is("ParseCertBlock") /\ (ParseCertBlock21(E) \/ ParseCertBlock20(E)) /\ (Bound => CertGiven) /\ UNCHANGED pend /\ NoP /\ Adv
TSig == Is("VerifySignature") /\ ((VerifySignature21(E) /\ Soft("first_boot_tag_block", FirstTag21Ok(E))) \/ VerifySignature20(E)) /\ (Bound => E.sigLen = G.sigLen) /\ UNCHANGED pend /\ NoP /\ Adv
TSha == Is("CheckSha") /\ CheckSha(E) /\ UNCHANGED pend /\ NoP /\ Adv
TTag == /\ Is("SectionTag") /\ SectionTag(E)
        /\ pend' = (IF E.cert \/ ~Bound THEN <<>> ELSE SectionMarkers)
        /\ NoP /\ Adv
THmac == Is("SectionHmac") /\ SectionHmac(E) /\ UNCHANGED pend /\ NoP /\ Adv
TCmd == /\ Is("Cmd") /\ Cmd(E)
        /\ (Bound => /\ Len(dec) <= Len(G.secs) /\ E.i + 1 <= Len(G.secs[Len(dec)].cmds)
                      /\ Matches(E, G.secs[Len(dec)].cmds[E.i + 1]))                          \* command for command
        /\ UNCHANGED pend /\ NoP /\ Adv
TSecEnd == /\ Is("SectionEnd") /\ SectionEnd(E)
           /\ (Bound /\ ~needCert => Len(dec[Len(dec)].cmds) = Len(G.secs[Len(dec)].cmds))     \* no command missing
           /\ UNCHANGED pend /\ NoP /\ Adv
TAccept == Is("Accept") /\ Accept(E) /\ (Bound => sec = Len(G.secs)) /\ UNCHANGED pend /\ NoP /\ Adv     \* section for section

\* ---- second observer: SPSDK's parse()
PFieldOk(n, got) ==
  CASE n = "product_version"   -> got = Ref.pv
    [] n = "component_version" -> got = Ref.cv
    [] n = "build_number"      -> got = Ref.build
    [] n = "timestamp"         -> got = Ref.ts
    [] n = "flags"             -> got = Ref.flags
    [] OTHER -> FALSE
TPOutcome == /\ Is("ParseOutcome") /\ Tr.kind = "parse" /\ st = "Header"
             /\ \/ E.outcome = "returned" /\ st' = "PContent"
                \/ E.outcome = "raised" /\ Tr.mode # "clean" /\ st' = "PRaised"
             /\ UNCHANGED <<hdr, cur, sec, needCert, hm, body, left, cmdAt, cov, certEnd, sigEnd, macSum, dec, pend>> /\ NoP /\ Adv
PStay == UNCHANGED rvars /\ UNCHANGED pend
TPField == Is("PField") /\ st = "PContent" /\ psec = 0 /\ Soft("parse:" \o E.name, PFieldOk(E.name, E.got)) /\ PStay /\ NoP /\ Adv
TPSection == /\ Is("PSection") /\ st = "PContent" /\ pcmd = 0
             /\ psec + 1 <= Len(Ref.secs) /\ E.uid = Ref.secs[psec + 1].uid
             /\ psec' = psec + 1 /\ pcmd' = 0 /\ st' = "PSection" /\ UNCHANGED <<hdr, cur, sec, needCert, hm, body, left, cmdAt, cov, certEnd, sigEnd, macSum, dec, pend>> /\ Adv
TPCmd == /\ Is("PCmd") /\ st = "PSection"
         /\ pcmd + 1 <= Len(Ref.secs[psec].cmds) /\ Matches(Ref.secs[psec].cmds[pcmd + 1], E.c)
         /\ pcmd' = pcmd + 1 /\ UNCHANGED psec /\ PStay /\ Adv
TPSectionEnd == /\ Is("PSectionEnd") /\ st = "PSection" /\ pcmd = Len(Ref.secs[psec].cmds)
                /\ pcmd' = 0 /\ UNCHANGED psec /\ st' = "PContent"
                /\ UNCHANGED <<hdr, cur, sec, needCert, hm, body, left, cmdAt, cov, certEnd, sigEnd, macSum, dec, pend>> /\ Adv
TPEnd == /\ Is("PEnd") /\ st = "PContent" /\ E.nsec = psec /\ psec = Len(Ref.secs)
         /\ st' = "PDone" /\ UNCHANGED <<hdr, cur, sec, needCert, hm, body, left, cmdAt, cov, certEnd, sigEnd, macSum, dec, pend>> /\ NoP /\ Adv

TNext == TField \/ TParseHeader \/ TUnwrap \/ THdrMac \/ TCert \/ TSig \/ TSha \/ TTag \/ THmac \/ TCmd \/ TSecEnd \/ TAccept
         \/ TPOutcome \/ TPField \/ TPSection \/ TPCmd \/ TPSectionEnd \/ TPEnd
Constr == IF TLCGet(tid) < l THEN TLCSet(tid, l) ELSE TRUE
Post == \A i \in 1..Len(Traces) :
          /\ \/ TLCGet(i) - 1 = Len(Traces[i].ev)
             \/ PrintT(<<"REJ", Traces[i].id, TLCGet(i) - 1, Len(Traces[i].ev),
                         Traces[i].ev[IF TLCGet(i) <= Len(Traces[i].ev) THEN TLCGet(i) ELSE Len(Traces[i].ev)].ev>>)
          /\ \/ TLCGet(SoftBase + i) = {}
             \/ \A n \in TLCGet(SoftBase + i) : PrintT(<<"SOFT", Traces[i].id, n>>)
=============================================================================
