---------------------------- MODULE Sb2RomTrace ----------------------------
(* TV form of C04 (batch trace validation).  Three kinds of traces, one initial state per trace:               *)
(*                                                                                                             *)
(*  kind "rom"   : given = what was handed to the builder (header values - the time stamp as the calendar value *)
(*                 that was supplied, given.tsc, see Sb2Time - sections, abstract commands);                   *)
(*                 ev = the events the independent executor logged on the exported bytes, one per automaton    *)
(*                 step of Sb2Rom, interleaved with clause markers {ev:"Field", name} that ask for one         *)
(*                 "header field carries the value supplied" clause each.  The trace is a behaviour iff the    *)
(*                 ROM accepts the file AND decodes exactly what was given.                                    *)
(*  kind "parse" : ref = the content the executor decoded from the (untampered) file; ev = what SPSDK's own    *)
(*                 parse() did with the file (mode clean) or with a tampered file / a wrong KEK (mode tamper / *)
(*                 wrongkek): it returned content (projected field by field, command by command) or raised.    *)
(*                 A behaviour iff  returned /\ content = ref,  or  raised /\ mode # clean.                    *)
(*  kind "hist"  : the HISTORY of one live builder object (Sb2Hist enumerates the histories).  given = the     *)
(*                 constructor input; ev = the public calls made on the object, one event each: queries        *)
(*                 (HDescribe = str() / repr() / raw_size / len(), HUpdate = update()), mutators (HAddSection, *)
(*                 HAppendCmd, HReplaceCmd, HSetUid; the event carries the abstract section / command / id     *)
(*                 that was handed over) and HExport, which is followed by the events the executor logged on   *)
(*                 the bytes THAT export returned.  The abstract content of the object is state of this spec   *)
(*                 (h.content, changed by the mutator actions only); every export is bound to the content at   *)
(*                 that moment, i.e. the trace is a behaviour iff EVERY export of the history is accepted by   *)
(*                 the ROM with header fields that describe the file and decodes what the object held then.    *)
(*                 OWNERSHIP (Sb2Own enumerates these histories): the caller's own mutable buffers are state   *)
(*                 of this spec too (h.own).  HBuf = the caller creates a buffer; HTouch = the caller modifies *)
(*                 ITS buffer (in place / shorter / longer) - the content of the builder object does not       *)
(*                 change; HMake = the caller constructs a LOAD command from a buffer (the bytearray itself or *)
(*                 a copy): what is GIVEN is what the buffer holds at that moment, computed here from the      *)
(*                 caller's own steps; HPut = that command object is appended to the last section / becomes a  *)
(*                 new section (the same object may be put more than once).                                    *)
(*  Corruption classes of the tamper / wrongkek modes: one flipped bit per field class, a forged command with  *)
(*  a repaired checksum, TRUNCATION (the file cut at every structural boundary - see CutsOk - and inside the   *)
(*  parts) and EXTENSION (bytes appended).  A tampered "rom" / "anchor" trace must NOT be a behaviour.         *)
EXTENDS Sb2Rom, Sb2Operands, Sb2Time, Json, IOUtils
Traces == ndJsonDeserialize(IOEnv.TRACE_FILE)
VARIABLES tid, l,
          pend,     \* clause markers that must be consumed next
          psec, pcmd,  \* parse traces: sections / commands of the current section seen so far
          h         \* history traces: [content: what the live object holds now (sections as given), nexp: exports so far, idle: no file is being walked,
                    \*                   own: the caller's buffers (byte sequences) as they are now, made: the LOAD commands made from them (as given)]
tvars == <<st, hdr, cur, sec, needCert, hm, body, left, cmdAt, cov, certEnd, sigEnd, macSum, dec, tid, l, pend, psec, pcmd, h>>
Tr == Traces[tid]
T == Tr.ev
E == T[l]
Hist == Tr.kind = "hist"
G == IF Hist THEN [Tr.given EXCEPT !.secs = h.content] ELSE Tr.given      \* a history is bound to what the object holds NOW
Ref == Tr.ref
Is(e) == l <= Len(T) /\ E.ev = e /\ pend = <<>>
\* SOFT clauses ("this header field carries the value supplied / describes the file", "parse() recovers this field"): TLC evaluates them and
\* records the NAME of every one that fails in a per-trace register, but goes on, so that one wrong header field does not hide what comes
\* after it.  Everything else is HARD: a trace that is not consumed to its end is reported with REJ.  Both lists are printed by Post.
SoftBase == 1000000
SoftName(name) == IF Hist THEN name \o "@" \o ToString(h.nexp) ELSE name          \* history: the export (1, 2, ...) the clause failed for
Soft(name, ok) == IF ok THEN TRUE ELSE TLCSet(SoftBase + tid, TLCGet(SoftBase + tid) \cup {SoftName(name)})
Bound == Tr.kind \in {"rom", "hist"}       \* kind "anchor": a golden file of the reference tool, walked by the automaton alone (no builder input to compare with)
AdvH == l' = l + 1 /\ UNCHANGED tid
Adv == AdvH /\ UNCHANGED h
NoP == UNCHANGED <<psec, pcmd>>
Min(a, b) == IF a < b THEN a ELSE b

\* ---- command encoding: Matches(r, c) - what the ROM must see (raw header r) for an abstract command c - is defined in Sb2Operands
\* (width classes of the operands, pattern replication of FILL, memory-id flags); its operand case space and lemmas are in Sb2OperandsMC

\* ---- header clauses
HeaderMarkers == <<"version", "flags", "product_version", "component_version", "build_number", "timestamp", "nonce">>
SectionMarkers == <<"section_id", "hmac_count">>
FieldOk(n) ==
  CASE n = "version"           -> hdr.minor = G.ver
    [] n = "flags"             -> hdr.flags = G.flags
    [] n = "product_version"   -> hdr.pv = G.pv
    [] n = "component_version" -> hdr.cv = G.cv
    [] n = "build_number"      -> hdr.build = G.build
    [] n = "timestamp"         -> InDomain(G.tsc) /\ HeaderCarries(hdr.ts, G.tsc)      \* the supplied INSTANT in seconds since 2000-01-01 UTC (Sb2Time)
    [] n = "nonce"             -> hdr.nonce = G.nonce /\ hdr.nonceCtr = G.nonceCtr
    [] n = "section_id"        -> Len(dec) <= Len(G.secs) /\ dec[Len(dec)].uid = G.secs[Len(dec)].uid
    [] n = "hmac_count"        -> Len(dec) <= Len(G.secs) /\ dec[Len(dec)].hmacCount = Min(G.secs[Len(dec)].hmacReq, hm.count)
    [] OTHER -> FALSE

TInit == /\ tid \in 1..Len(Traces) /\ l = 1 /\ RInit /\ pend = <<>> /\ psec = 0 /\ pcmd = 0 /\ TLCSet(tid, 1) /\ TLCSet(SoftBase + tid, {})
         /\ h = [content |-> IF Hist THEN Tr.given.secs ELSE <<>>, nexp |-> 0, idle |-> Hist, own |-> <<>>, made |-> <<>>]

TField == /\ l <= Len(T) /\ E.ev = "Field" /\ pend # <<>> /\ E.name = Head(pend)
          /\ Soft(E.name, FieldOk(E.name))
          /\ pend' = Tail(pend) /\ UNCHANGED rvars /\ NoP /\ Adv

\* image_blocks is soft: the automaton goes on with the value the file itself demands (SB 2.1 / unsigned SB 2.0: the number of blocks of the file)
ImageBlocksFixed(e) == IF e.minor = 1 \/ e.flags = FlagUnsigned THEN e.fileBlocks ELSE e.imageBlocks
TParseHeader == /\ Is("ParseHeader") /\ Tr.kind \in {"rom", "anchor", "hist"} /\ ~h.idle /\ E.longEnough
                /\ Soft("image_blocks", E.imageBlocks = ImageBlocksFixed(E))
                /\ ParseHeader([E EXCEPT !.imageBlocks = ImageBlocksFixed(E)])
                /\ pend' = (IF Bound THEN HeaderMarkers ELSE <<>>) /\ NoP /\ Adv
TUnwrap == Is("UnwrapKeyBlob") /\ UnwrapKeyBlob(E) /\ (Bound => E.keys = G.keys) /\ UNCHANGED pend /\ NoP /\ Adv     \* the DEK and MAC key that were supplied
THdrMac == Is("CheckHeaderMac") /\ (CheckHeaderMac20(E) \/ CheckHeaderMac21(E)) /\ UNCHANGED pend /\ NoP /\ Adv
CertGiven == E.count = G.chain /\ E.rootIdx = G.rootIdx /\ E.rkth = G.rkth       \* the chain and the root-key table that were supplied
TCert == Is("ParseCertBlock") /\ (ParseCertBlock21(E) \/ ParseCertBlock20(E)) /\ (Bound => CertGiven) /\ UNCHANGED pend /\ NoP /\ Adv
TSig == Is("VerifySignature") /\ ((VerifySignature21(E) /\ Soft("first_boot_tag_block", FirstTag21Ok(E))) \/ VerifySignature20(E)) /\ (Bound => E.sigLen = G.sigLen) /\ UNCHANGED pend /\ NoP /\ Adv
TSha == Is("CheckSha") /\ CheckSha(E) /\ UNCHANGED pend /\ NoP /\ Adv
TTag == /\ Is("SectionTag") /\ SectionTag(E)
        /\ pend' = (IF E.cert \/ ~Bound THEN <<>> ELSE SectionMarkers)
        /\ NoP /\ Adv
THmac == Is("SectionHmac") /\ SectionHmac(E) /\ UNCHANGED pend /\ NoP /\ Adv
TCmd == /\ Is("Cmd") /\ Cmd(E)
        /\ (Bound => /\ Len(dec) <= Len(G.secs) /\ E.i + 1 <= Len(G.secs[Len(dec)].cmds)
                      /\ Matches(E, G.secs[Len(dec)].cmds[E.i + 1]))                          \* command for command
        /\ UNCHANGED pend /\ NoP /\ Adv
TSecEnd == /\ Is("SectionEnd") /\ SectionEnd(E)
           /\ (Bound /\ ~needCert => Len(dec[Len(dec)].cmds) = Len(G.secs[Len(dec)].cmds))     \* no command missing
           /\ UNCHANGED pend /\ NoP /\ Adv
\* corruption class TRUNCATION: a clean trace may carry given.cuts = the byte positions at which the driver cut this file (every cut is a
\* tampered file of its own: the automaton must refuse it, parse() must raise or return the reference content).  The clause: the driver has
\* cut the file at EVERY structural boundary of the events the automaton consumed (machinery clause - a failure is the driver's, not SPSDK's)
CutBlocks == {Tr.given.cuts[k] \div 16 : k \in {j \in 1..Len(Tr.given.cuts) : Tr.given.cuts[j] % 16 = 0}}
CutsOk == (Tr.kind = "rom" /\ "cuts" \in DOMAIN Tr.given) => (BoundsOfAll(T) \ {hdr.fileBlocks}) \subseteq CutBlocks
TAccept == /\ Is("Accept") /\ Accept(E) /\ (Bound => sec = Len(G.secs)) /\ UNCHANGED pend /\ NoP /\ AdvH     \* section for section
           /\ Soft("cuts", CutsOk)
           /\ h' = [h EXCEPT !.idle = Hist]                                 \* history: the object may be used again

\* ---- history of one live object: the calls between the exports.  Only the mutators change what the object holds; an export starts a new
\* walk of the ROM automaton (from its initial state) over the bytes that export returned
HIs(e) == Is(e) /\ Hist /\ h.idle
RStay == UNCHANGED rvars /\ UNCHANGED pend /\ NoP
THQuery == (HIs("HDescribe") \/ HIs("HUpdate")) /\ UNCHANGED h /\ RStay /\ AdvH
THAddSection == HIs("HAddSection") /\ h' = [h EXCEPT !.content = Append(@, E.sec)] /\ RStay /\ AdvH
THAppendCmd == /\ HIs("HAppendCmd") /\ h.content # <<>>
               /\ h' = [h EXCEPT !.content[Len(h.content)].cmds = Append(@, E.c)] /\ RStay /\ AdvH
THReplaceCmd == /\ HIs("HReplaceCmd") /\ h.content # <<>>
                /\ h' = [h EXCEPT !.content[Len(h.content)].cmds = [@ EXCEPT ![Len(@)] = E.c]] /\ RStay /\ AdvH
THSetUid == HIs("HSetUid") /\ h.content # <<>> /\ h' = [h EXCEPT !.content[1].uid = E.uid] /\ RStay /\ AdvH
\* ---- ownership: the caller's buffers.  What is given to the builder is what a buffer holds at the moment of the call that hands it over;
\* a later modification of the buffer by its owner (THTouch) changes h.own and NOTHING the builder object holds
IsByte(x) == x \in 0..255
Bytes(s) == \A i \in 1..Len(s) : IsByte(s[i])
Touched(b, e) == CASE e.kind = "poke"   -> [i \in 1..Len(b) |-> IF i > e.at /\ i <= e.at + Len(e.bytes) THEN e.bytes[i - e.at] ELSE b[i]]      \* overwritten in place
                   [] e.kind = "shrink" -> SubSeq(b, 1, e.at)                                                                                \* cut to e.at bytes
                   [] e.kind = "grow"   -> b \o e.bytes                                                                                      \* extended
TouchOk(b, e) == /\ Bytes(e.bytes)
                 /\ CASE e.kind = "poke"   -> e.at >= 0 /\ e.bytes # <<>> /\ e.at + Len(e.bytes) <= Len(b)
                      [] e.kind = "shrink" -> e.at >= 0 /\ e.at < Len(b) /\ e.bytes = <<>>
                      [] e.kind = "grow"   -> e.bytes # <<>>
                      [] OTHER -> FALSE
LoadOf(e, data) == [k |-> "load", a |-> e.a, n |-> Zero, x |-> Zero, f |-> 0, m |-> e.m, d |-> data]
THBuf == HIs("HBuf") /\ Bytes(E.content) /\ h' = [h EXCEPT !.own = Append(@, E.content)] /\ RStay /\ AdvH
THTouch == /\ HIs("HTouch") /\ E.buf \in 1..Len(h.own) /\ TouchOk(h.own[E.buf], E)
           /\ h' = [h EXCEPT !.own[E.buf] = Touched(@, E)] /\ RStay /\ AdvH
THMake == /\ HIs("HMake") /\ E.buf \in 1..Len(h.own) /\ h.own[E.buf] # <<>> /\ E.form \in {"buf", "copy"}
          /\ h' = [h EXCEPT !.made = Append(@, LoadOf(E, h.own[E.buf]))] /\ RStay /\ AdvH
THPut == /\ HIs("HPut") /\ E.obj \in 1..Len(h.made) /\ h.content # <<>>
         /\ \/ E.place = "append" /\ h' = [h EXCEPT !.content[Len(h.content)].cmds = Append(@, h.made[E.obj])]
            \/ E.place = "newsec" /\ h' = [h EXCEPT !.content = Append(@, [uid |-> E.uid, hmacReq |-> E.hmacReq, cmds |-> <<h.made[E.obj]>>])]
         /\ RStay /\ AdvH
THExport == /\ HIs("HExport") /\ st \in {"Header", "Accepted"}
            /\ h' = [h EXCEPT !.nexp = @ + 1, !.idle = FALSE]
            /\ st' = "Header" /\ hdr' = [minor |-> 0, flags |-> 0] /\ cur' = 0 /\ sec' = 0 /\ needCert' = FALSE
            /\ hm' = [n |-> 0, per |-> 0, count |-> 0, k |-> 0] /\ body' = 0 /\ left' = 0 /\ cmdAt' = 0 /\ cov' = {}
            /\ certEnd' = 0 /\ sigEnd' = 0 /\ macSum' = 0 /\ dec' = <<>>
            /\ UNCHANGED pend /\ NoP /\ AdvH

\* ---- second observer: SPSDK's parse()
PFieldOk(n, got) ==
  CASE n = "product_version"   -> got = Ref.pv
    [] n = "component_version" -> got = Ref.cv
    [] n = "build_number"      -> got = Ref.build
    [] n = "timestamp"         -> got = Ref.ts
    [] n = "flags"             -> got = Ref.flags
    [] OTHER -> FALSE
TPOutcome == /\ Is("ParseOutcome") /\ Tr.kind = "parse" /\ st = "Header"
             /\ \/ E.outcome = "returned" /\ st' = "PContent"
                \/ E.outcome = "raised" /\ Tr.mode # "clean" /\ st' = "PRaised"
             /\ UNCHANGED <<hdr, cur, sec, needCert, hm, body, left, cmdAt, cov, certEnd, sigEnd, macSum, dec, pend>> /\ NoP /\ Adv
PStay == UNCHANGED rvars /\ UNCHANGED pend
TPField == Is("PField") /\ st = "PContent" /\ psec = 0 /\ Soft("parse:" \o E.name, PFieldOk(E.name, E.got)) /\ PStay /\ NoP /\ Adv
TPSection == /\ Is("PSection") /\ st = "PContent" /\ pcmd = 0
             /\ psec + 1 <= Len(Ref.secs) /\ E.uid = Ref.secs[psec + 1].uid
             /\ psec' = psec + 1 /\ pcmd' = 0 /\ st' = "PSection" /\ UNCHANGED <<hdr, cur, sec, needCert, hm, body, left, cmdAt, cov, certEnd, sigEnd, macSum, dec, pend>> /\ Adv
TPCmd == /\ Is("PCmd") /\ st = "PSection"
         /\ pcmd + 1 <= Len(Ref.secs[psec].cmds) /\ Matches(Ref.secs[psec].cmds[pcmd + 1], E.c)
         /\ pcmd' = pcmd + 1 /\ UNCHANGED psec /\ PStay /\ Adv
TPSectionEnd == /\ Is("PSectionEnd") /\ st = "PSection" /\ pcmd = Len(Ref.secs[psec].cmds)
                /\ pcmd' = 0 /\ UNCHANGED psec /\ st' = "PContent"
                /\ UNCHANGED <<hdr, cur, sec, needCert, hm, body, left, cmdAt, cov, certEnd, sigEnd, macSum, dec, pend>> /\ Adv
TPEnd == /\ Is("PEnd") /\ st = "PContent" /\ E.nsec = psec /\ psec = Len(Ref.secs)
         /\ st' = "PDone" /\ UNCHANGED <<hdr, cur, sec, needCert, hm, body, left, cmdAt, cov, certEnd, sigEnd, macSum, dec, pend>> /\ NoP /\ Adv

TNext == TField \/ TParseHeader \/ TUnwrap \/ THdrMac \/ TCert \/ TSig \/ TSha \/ TTag \/ THmac \/ TCmd \/ TSecEnd \/ TAccept
         \/ TPOutcome \/ TPField \/ TPSection \/ TPCmd \/ TPSectionEnd \/ TPEnd
         \/ THQuery \/ THAddSection \/ THAppendCmd \/ THReplaceCmd \/ THSetUid \/ THExport
         \/ THBuf \/ THTouch \/ THMake \/ THPut
Constr == IF TLCGet(tid) < l THEN TLCSet(tid, l) ELSE TRUE
Post == \A i \in 1..Len(Traces) :
          /\ \/ TLCGet(i) - 1 = Len(Traces[i].ev)
             \/ PrintT(<<"REJ", Traces[i].id, TLCGet(i) - 1, Len(Traces[i].ev),
                         Traces[i].ev[IF TLCGet(i) <= Len(Traces[i].ev) THEN TLCGet(i) ELSE Len(Traces[i].ev)].ev>>)
          /\ \/ TLCGet(SoftBase + i) = {}
             \/ \A n \in TLCGet(SoftBase + i) : PrintT(<<"SOFT", Traces[i].id, n>>)
=============================================================================
