------------------------------- MODULE Sb2Time -------------------------------
(* The time stamp of the SB 2.x image header, as part of the R-spec of C04.                                     *)
(*                                                                                                             *)
(* The header field is a 64-bit number of microseconds since 2000-01-01 00:00:00 UTC; the reference tool       *)
(* writes whole seconds.  What is SUPPLIED to the builder is a calendar value (a Python datetime):             *)
(*   days, sod, us   wall-clock digits: days since 2000-01-01 (-1: 1999-12-31), second of the day, microsecond *)
(*   form            "aware": the value carries its UTC offset (off minutes east of UTC, |off| < 24 h) and     *)
(*                   therefore names an INSTANT, whatever the local zone of the process is;                    *)
(*                   "naive": no zone - the digits are read in the local zone of the process                   *)
(*   zone            UTC offset (minutes east) of the local zone of the process that builds the file           *)
(* Clause: the header carries the supplied INSTANT in whole seconds since 2000-01-01 UTC.                      *)
(* The meaning of a naive value is only asserted where local time IS UTC (zone = 0) - see InDomain.            *)
(* TLC integers are 32-bit: seconds are computed as a limb pair <<hi, lo>> = <<s \div 65536, s % 65536>>,      *)
(* valid for days <= MaxDays (year 2273).                                                                      *)
EXTENDS Naturals, Integers
MaxDays == 100000
DaySecs == 86400                \* = 65536 + 20864
MaxOff  == 1439                 \* a UTC offset is strictly inside (-24 h, +24 h)

TCase(form, off, days, sod, us, zone) == [form |-> form, off |-> off, days |-> days, sod |-> sod, us |-> us, zone |-> zone]
\* minutes to subtract from the wall-clock digits to get UTC
OffOf(c) == IF c.form = "aware" THEN c.off ELSE c.zone
\* seconds since 2000-01-01 UTC = days * 86400 + sod - 60 * off, as limbs; the bias of two limbs keeps the intermediate value non-negative
TsLow(c)  == c.days * 20864 + c.sod - 60 * OffOf(c) + 2 * 65536
TsHi(c)   == c.days + TsLow(c) \div 65536 - 2
TsLo(c)   == TsLow(c) % 65536
HeaderSecs(c) == <<TsHi(c), TsLo(c)>>
WellFormed(c) == /\ c.form \in {"naive", "aware"} /\ c.days \in (0 - 1)..MaxDays /\ c.sod \in 0..(DaySecs - 1) /\ c.us \in 0..999999
                 /\ c.off \in (0 - MaxOff)..MaxOff /\ c.zone \in (0 - MaxOff)..MaxOff
                 /\ (c.form = "naive" => c.off = 0)
\* asserted domain: the instant is not before 2000-01-01 UTC (the field is unsigned); a naive value only where local time is UTC
InDomain(c) == WellFormed(c) /\ TsHi(c) >= 0 /\ (c.form = "naive" => c.zone = 0)
\* the clause.  ts = <<hi, lo, microseconds>> as read from the header.  Seconds: the instant.  The sub-second part is not settled (the
\* reference tool and the builder write whole seconds): 0 or the supplied microseconds.
HeaderCarries(ts, c) == ts[1] = TsHi(c) /\ ts[2] = TsLo(c) /\ ts[3] \in {0, c.us}
=============================================================================
