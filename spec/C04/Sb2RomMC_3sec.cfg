CONSTANTS MaxSecs = 3
 MaxHm = 2
 MaxCmds = 1
 MaxPay = 1
 Chains = {"k0", "ch2"}
INIT Init
NEXT Next
INVARIANT Complete
INVARIANT Sound
INVARIANT Tamper
INVARIANT StreamStops
INVARIANT BoundsReach
PROPERTY FreshChunks
CHECK_DEADLOCK TRUE
