CONSTANTS MaxLen = 7
 Holds = "snapshot"
 EmitOn = TRUE
INIT Init
NEXT Next
INVARIANT ExportCarriesGiven
INVARIANT GivenIsTheBufferThen
INVARIANT InShapeSpace
CHECK_DEADLOCK FALSE
