CONSTANTS MaxSecs = 1
 MaxHm = 4
 MaxCmds = 4
 MaxPay = 3
 Chains = {"k0", "ss2048", "ss3072", "ss4096", "ch2", "ch3"}
INIT Init
NEXT Next
INVARIANT Complete
INVARIANT Sound
INVARIANT Tamper
INVARIANT StreamStops
INVARIANT BoundsReach
PROPERTY FreshChunks
CHECK_DEADLOCK TRUE
