CONSTANTS MaxSecs = 2
 MaxHm = 3
 MaxCmds = 2
 MaxPay = 2
 Chains = {"k0", "ss4096", "ch3"}
INIT Init
NEXT Next
INVARIANT Complete
INVARIANT Sound
INVARIANT Tamper
INVARIANT StreamStops
INVARIANT BoundsReach
PROPERTY FreshChunks
CHECK_DEADLOCK TRUE
