----------------------------- MODULE Sb2RomMC -----------------------------
(* MC / GEN form of C04.  An IDEAL WRITER lays a file out from an abstract shape the way the format documents  *)
(* it (sizes accumulate front to back) and states the facts a correct file offers; the ROM automaton of Sb2Rom *)
(* - which derives every position from HEADER FIELDS, back to front from the reader's side - consumes them.    *)
(* TLC checks over ALL shapes up to the bounds:                                                                *)
(*   Live      every ideal file is walked to Accepted (no stuck state: deadlock check),                        *)
(*   Complete  at Accepted every block of the file is covered by a signature / MAC / key-wrap check, the whole *)
(*             event list was consumed and the decoded section / command structure equals the shape,           *)
(*   Sound     covered blocks lie inside the file; HMAC chunks never overlap what is already covered,          *)
(*   Tamper    a file in which ONE block is corrupted (every check whose range contains it reports FALSE), a   *)
(*             TRUNCATED file (cut in front of any block of a representative shape, at every structural        *)
(*             boundary of every shape; read with or without knowledge of the file length) and an EXTENDED     *)
(*             file (blocks appended) are never accepted.                                                      *)
(* GEN (GenInit): the same shape space is printed as JSON; the harness builds real files of exactly these      *)
(* shapes through SPSDK's public classes.                                                                      *)
EXTENDS Sb2Rom, Json, IOUtils
CONSTANTS MaxSecs, MaxHm, MaxCmds, MaxPay, Chains
VARIABLES shape, evs, i, tam
vars == <<st, hdr, cur, sec, needCert, hm, body, left, cmdAt, cov, certEnd, sigEnd, macSum, dec, shape, evs, i, tam>>

\* certificate chains of the key pool: <<number of certificates, certificate-table length in bytes, signature length>>
\* (the harness checks these numbers against the files in keys/ before it uses the shapes)
ChainTab == [k0 |-> <<1, 1121, 256>>, ss2048 |-> <<1, 1062, 256>>, ss3072 |-> <<1, 1046, 384>>, ss4096 |-> <<1, 1302, 512>>,
             ch2 |-> <<2, 1562, 256>>, ch3 |-> <<3, 2341, 256>>, none |-> <<0, 0, 0>>]
Gen == "GEN" \in DOMAIN IOEnv /\ IOEnv.GEN = "1"

SecShapes == [hm : 1..MaxHm, cmds : UNION {[1..n -> 0..MaxPay] : n \in 1..MaxCmds}]     \* command = number of payload blocks (0: plain command, k: LOAD)
Shapes == { s \in [ver : {"20u", "20s", "21"}, sha : BOOLEAN, chain : Chains \cup {"none"}, secs : UNION {[1..n -> SecShapes] : n \in 1..MaxSecs}] :
              /\ (s.sha => s.ver = "21")
              /\ (s.chain = "none") = (s.ver = "20u") }

\* ---- the ideal writer
Min(a, b) == IF a < b THEN a ELSE b
SumTo(f, n) == LET S[k \in 0..n] == IF k = 0 THEN 0 ELSE S[k - 1] + f[k] IN S[n]
CmdBlocks(s) == [j \in 1..Len(s.cmds) |-> 1 + s.cmds[j]]
SecCount(s) == SumTo(CmdBlocks(s), Len(s.cmds))
SecHm(s) == Min(s.hm, SecCount(s))                                   \* the table cannot have more entries than the body has blocks
SecBlocks(s) == 3 + 2 * SecHm(s) + SecCount(s)
CertLen(sh) == Align16(32 + ChainTab[sh.chain][2] + 128)
SigLen(sh) == ChainTab[sh.chain][3]
ShaLen(sh) == IF sh.sha THEN 32 ELSE 0
FirstTag(sh) == CASE sh.ver = "21"  -> (Prefix * 16 + CertLen(sh) + ShaLen(sh) + SigLen(sh)) \div 16
                  [] sh.ver = "20s" -> Prefix + 5 + CertLen(sh) \div 16
                  [] sh.ver = "20u" -> Prefix
AllSecBlocks(sh) == SumTo([j \in 1..Len(sh.secs) |-> SecBlocks(sh.secs[j])], Len(sh.secs))
ImageBlocks(sh) == FirstTag(sh) + AllSecBlocks(sh)
FileBlocks(sh) == ImageBlocks(sh) + (IF sh.ver = "20s" THEN SigLen(sh) \div 16 ELSE 0)
SecStart(sh, j) == FirstTag(sh) + SumTo([k \in 1..Len(sh.secs) |-> SecBlocks(sh.secs[k])], j - 1)
Flags(sh) == CASE sh.ver = "20u" -> FlagUnsigned [] sh.ver = "20s" -> FlagSigned [] OTHER -> FlagSigned + (IF sh.sha THEN FlagSha ELSE 0)
CertOff(sh) == CASE sh.ver = "21" -> Prefix * 16 [] sh.ver = "20s" -> (Prefix + 5) * 16 [] OTHER -> 0
MaxMac(sh) == SumTo([k \in 1..Len(sh.secs) |-> SecHm(sh.secs[k])], Len(sh.secs)) + (IF sh.ver = "20s" THEN 1 ELSE 0)

\* ---- corruption classes.  t = [k, n]:
\*   "none"    the file as written
\*   "block"   block n is corrupted: every check whose range contains it reports FALSE
\*   "cut"     TRUNCATION: the file ends in front of block n (n blocks are left); the reader knows how long the file is
\*   "stream"  the same truncated file, read by a loader that does NOT know its length (the ROM receives the file as a stream): the header is
\*             taken at its word, every check whose range reaches behind the cut reports FALSE (the data is not there)
\*   "ext"     EXTENSION: n blocks appended behind the last block
NoTam == [k |-> "none", n |-> 0]
Hit(t, a, b) == t.k = "block" /\ t.n >= a /\ t.n < b                \* does the half-open block range [a, b) contain the corrupted block?
Missing(t, b) == t.k \in {"cut", "stream"} /\ b > t.n               \* does a range that ends in front of block b reach behind the cut?
Good(t, a, b) == ~Hit(t, a, b) /\ ~Missing(t, b)

EvHeader(sh, t) == [ev |-> "ParseHeader", longEnough |-> ~Missing(t, Prefix), sig1ok |-> TRUE, sig2ok |-> TRUE, fileRem |-> 0, major |-> 2,
                 minor |-> IF sh.ver = "21" THEN 1 ELSE 0, hdrBlocks |-> 6, kbBlock |-> 8, kbCount |-> 5, flags |-> Flags(sh),
                 certOff |-> CertOff(sh), imageBlocks |-> ImageBlocks(sh),
                 fileBlocks |-> CASE t.k = "cut" -> t.n [] t.k = "ext" -> FileBlocks(sh) + t.n [] OTHER -> FileBlocks(sh),
                 firstTag |-> FirstTag(sh), firstId |-> <<0, 1>>, maxMac |-> MaxMac(sh)]
EvUnwrap(t) == [ev |-> "UnwrapKeyBlob", at |-> 8, n |-> 5, ok |-> Good(t, 8, 13)]
EvCert(sh, at, t) == [ev |-> "ParseCertBlock", hdrOk |-> ~Missing(t, (at + CertLen(sh)) \div 16), at |-> at, chainOk |-> TRUE, rootInTable |-> TRUE,
                   count |-> ChainTab[sh.chain][1], rootIdx |-> 0, tableLen |-> ChainTab[sh.chain][2], walkedLen |-> ChainTab[sh.chain][2],
                   endOff |-> at + CertLen(sh), imgLen |-> at + CertLen(sh)]
EvSig21(sh, t) == LET to == Prefix * 16 + CertLen(sh) + ShaLen(sh) IN
               [ev |-> "VerifySignature", frm |-> 0, to |-> to, sigAt |-> to, sigLen |-> SigLen(sh), ok |-> Good(t, 0, (to + SigLen(sh)) \div 16)]
\* the digest covers everything from the first boot tag to the END OF THE FILE: appended blocks change it
EvSha(sh, t) == [ev |-> "CheckSha", at |-> Prefix * 16 + CertLen(sh), frm |-> FirstTag(sh) * 16,
              to |-> (CASE t.k = "cut" -> t.n [] t.k = "ext" -> FileBlocks(sh) + t.n [] OTHER -> FileBlocks(sh)) * 16,
              ok |-> /\ Good(t, FirstTag(sh), FileBlocks(sh)) /\ t.k # "ext"
                     /\ Good(t, (Prefix * 16 + CertLen(sh)) \div 16, (Prefix * 16 + CertLen(sh)) \div 16 + 2)]
EvSig20(sh, t) == [ev |-> "VerifySignature", frm |-> 0, to |-> ImageBlocks(sh) * 16, sigAt |-> ImageBlocks(sh) * 16, sigLen |-> SigLen(sh),
                ok |-> Good(t, 0, FileBlocks(sh))]
EvHdrMac20(t) == [ev |-> "CheckHeaderMac", over |-> <<0, 96>>, ok |-> Good(t, 0, 8)]
EvHdrMac21(at, n, t) == [ev |-> "CheckHeaderMac", over |-> <<(at + 1) * 16, (at + 3 + 2 * n) * 16>>, ok |-> Good(t, 6, 8) /\ Good(t, at + 1, at + 3 + 2 * n)]

\* events of one section whose tag block is `at`; n table entries; body of `count` blocks
EvTag(sno, at, count, n, cert, uid, t) ==
  [ev |-> "SectionTag", sec |-> sno, at |-> at, ctrOff |-> at, sane |-> TRUE, chkOk |-> Good(t, at, at + 1), tagIsTag |-> TRUE,
   tagHmacOk |-> Good(t, at, at + 3), count |-> count, hmacCount |-> n, cert |-> cert, markOk |-> TRUE,
   flags |-> IF cert THEN 32770 ELSE 32769, uid |-> uid]
EvHmacs(sno, at, count, n, t) ==
  LET per == count \div n  b == at + 3 + 2 * n IN
  [k \in 1..n |-> LET first == b + (k - 1) * per  nb == IF k = n THEN count - per * (n - 1) ELSE per IN
                  [ev |-> "SectionHmac", sec |-> sno, k |-> k - 1, entryAt |-> at + 3 + 2 * (k - 1), firstBlk |-> first, nBlk |-> nb,
                   ok |-> Good(t, at + 3 + 2 * (k - 1), at + 5 + 2 * (k - 1)) /\ Good(t, first, first + nb)]]
EvCmds(s, sno, b, t) ==
  LET cb == CmdBlocks(s) IN
  [j \in 1..Len(s.cmds) |->
     LET at == b + SumTo(cb, j - 1) IN
     [ev |-> "Cmd", sec |-> sno, i |-> j - 1, at |-> at, chkOk |-> Good(t, at, at + 1), nBlk |-> cb[j],
      tag |-> IF s.cmds[j] = 0 THEN 8 ELSE 2, crcOk |-> Good(t, at + 1, at + cb[j]),
      cnt |-> <<0, IF s.cmds[j] = 0 THEN 0 ELSE 16 * s.cmds[j] - 5>>, payloadLen |-> 16 * s.cmds[j],
      flags |-> 0, addr |-> <<0, 0>>, dat |-> <<0, 0>>, payload |-> <<>>]]
EvSection(sh, j, t) ==
  LET s == sh.secs[j]  at == SecStart(sh, j)  n == SecHm(s)  count == SecCount(s) IN
  <<EvTag(j - 1, at, count, n, FALSE, IF j = 1 THEN <<0, 1>> ELSE <<0, 7>>, t)>>
  \o (IF sh.ver = "21" /\ j = 1 THEN <<EvHdrMac21(at, n, t)>> ELSE <<>>)
  \o EvHmacs(j - 1, at, count, n, t) \o EvCmds(s, j - 1, at + 3 + 2 * n, t)
  \o <<[ev |-> "SectionEnd", sec |-> j - 1, next |-> at + SecBlocks(s)]>>
EvSections(sh, t) == LET F[j \in 0..Len(sh.secs)] == IF j = 0 THEN <<>> ELSE F[j - 1] \o EvSection(sh, j, t) IN F[Len(sh.secs)]
EvCertSection(sh, t) ==
  LET count == CertLen(sh) \div 16 IN
  <<EvTag(0 - 1, Prefix, count, 1, TRUE, <<28263, 26995>>, t)>> \o EvHmacs(0 - 1, Prefix, count, 1, t)
  \o <<EvCert(sh, (Prefix + 5) * 16, t), [ev |-> "SectionEnd", sec |-> 0 - 1, next |-> Prefix + 5 + count]>>
Ideal(sh, t) ==
  <<EvHeader(sh, t), EvUnwrap(t)>>
  \o (CASE sh.ver = "21"  -> <<EvCert(sh, Prefix * 16, t), EvSig21(sh, t)>> \o (IF sh.sha THEN <<EvSha(sh, t)>> ELSE <<>>)
        [] sh.ver = "20s" -> <<EvHdrMac20(t)>> \o EvCertSection(sh, t)
        [] sh.ver = "20u" -> <<EvHdrMac20(t)>>)
  \o EvSections(sh, t)
  \o (IF sh.ver = "20s" THEN <<EvSig20(sh, t)>> ELSE <<>>)
  \o <<[ev |-> "Accept", cur |-> ImageBlocks(sh), nSections |-> Len(sh.secs)]>>

\* the structural boundaries of a layout: every position the events of its untampered walk speak of (Sb2Rom!BoundsOf)
Bounds(sh) == BoundsOfAll(Ideal(sh, NoTam)) \ {FileBlocks(sh)}
\* a few representative shapes are tampered with: every section of a representative shape is the canonical section of the constant set.
\*   one section:    every block corrupted
\*   1..MaxSecs:     TRUNCATION in front of every structural boundary, one block earlier and one block later (read with and without knowledge of
\*                   the file length); EXTENSION by 1..3 blocks
CanonCmds == [j \in 1..MaxCmds |-> j % (MaxPay + 1)]
Representative(sh) == \A j \in 1..Len(sh.secs) : sh.secs[j].hm = MaxHm /\ sh.secs[j].cmds = CanonCmds
Near(B, n) == {b \in B \cup {x + 1 : x \in B} \cup {x - 1 : x \in B} : b >= 0 /\ b < n}
Tampers(sh) ==
  {NoTam}
  \cup (IF Representative(sh) /\ Len(sh.secs) = 1 THEN {[k |-> "block", n |-> b] : b \in 0..(FileBlocks(sh) - 1)} ELSE {})
  \cup (IF Representative(sh)
        THEN {[k |-> kk, n |-> c] : kk \in {"cut", "stream"}, c \in Near(Bounds(sh), FileBlocks(sh))} \cup {[k |-> "ext", n |-> x] : x \in 1..3}
        ELSE {})

\* ---- the automaton driven by the ideal events
Evs == evs
Ev == Evs[i]
At(name) == i <= Len(Evs) /\ Ev.ev = name
Step == i' = i + 1 /\ UNCHANGED <<shape, evs, tam>>
Init == /\ RInit /\ shape \in Shapes /\ i = 1
        /\ tam \in Tampers(shape)
        /\ evs = Ideal(shape, tam)
DoParseHeader == At("ParseHeader") /\ ParseHeader(Ev) /\ Step
DoUnwrap == At("UnwrapKeyBlob") /\ UnwrapKeyBlob(Ev) /\ Step
DoHdrMac20 == At("CheckHeaderMac") /\ CheckHeaderMac20(Ev) /\ Step
DoHdrMac21 == At("CheckHeaderMac") /\ CheckHeaderMac21(Ev) /\ Step
DoCert21 == At("ParseCertBlock") /\ ParseCertBlock21(Ev) /\ Step
DoCert20 == At("ParseCertBlock") /\ ParseCertBlock20(Ev) /\ Step
DoSig21 == At("VerifySignature") /\ VerifySignature21(Ev) /\ FirstTag21Ok(Ev) /\ Step
DoSig20 == At("VerifySignature") /\ VerifySignature20(Ev) /\ Step
DoSha == At("CheckSha") /\ CheckSha(Ev) /\ Step
DoTag == At("SectionTag") /\ SectionTag(Ev) /\ Step
DoHmac == At("SectionHmac") /\ SectionHmac(Ev) /\ Step
DoCmd == At("Cmd") /\ Cmd(Ev) /\ Step
DoSectionEnd == At("SectionEnd") /\ SectionEnd(Ev) /\ Step
DoAccept == At("Accept") /\ Accept(Ev) /\ Step /\ (Gen => PrintT(ToJson(shape)))
\* terminal states: accepted, or - for a tampered file - stopped at the first false fact
Done == (st = "Accepted" \/ (tam.k # "none" /\ i <= Len(Evs))) /\ UNCHANGED vars
Next == DoParseHeader \/ DoUnwrap \/ DoHdrMac20 \/ DoHdrMac21 \/ DoCert21 \/ DoCert20 \/ DoSig21 \/ DoSig20 \/ DoSha \/ DoTag \/ DoHmac
        \/ DoCmd \/ DoSectionEnd \/ DoAccept \/ Done

\* ---- GEN: TLC enumerates the shape space itself (initial states only); that the automaton accepts every one of them is what the MC run
\* over the same constants establishes (the harness compares the two counts)
GenInit == RInit /\ shape \in Shapes /\ i = 1 /\ tam = NoTam /\ evs = <<>> /\ PrintT(ToJson(shape))
GenNext == UNCHANGED vars

\* ---- lemmas
Complete == st = "Accepted" =>
              /\ i = Len(Evs) + 1
              /\ cov = Blocks(0, FileBlocks(shape))
              /\ Len(dec) = Len(shape.secs)
              /\ \A s \in 1..Len(dec) : /\ [j \in 1..Len(dec[s].cmds) |-> dec[s].cmds[j].nBlk - 1] = shape.secs[s].cmds
                                        /\ dec[s].hmacCount = SecHm(shape.secs[s])
Sound == cov \subseteq Blocks(0, FileBlocks(shape)) /\ cur <= ImageBlocks(shape)
\* an untampered ideal file is never refused: every non-terminal state has the successor named by its next event (checked as deadlock freedom,
\* Done being enabled only in accepted states when tam = NoTam)
Tamper == tam.k # "none" => st # "Accepted"
\* ... and a truncated file is noticed even by a loader that cannot compare the header with the length of the file: it stops at a check that
\* reports FALSE, in front of the first block that is missing (it never acts on a section that is not completely there)
StreamStops == tam.k = "stream" => cur <= tam.n
\* the boundaries promised to the trace form: behind header, header MAC, key blob; every section start and end (checked once, on the shape)
BoundsReach == (i = 1 /\ tam = NoTam) =>
               /\ {0, 6, 8, 13} \subseteq Bounds(shape) \cup {FileBlocks(shape)}
               /\ \A j \in 1..Len(shape.secs) : {SecStart(shape, j), SecStart(shape, j) + 3} \subseteq Bounds(shape)
               /\ ImageBlocks(shape) \in Bounds(shape) \cup {FileBlocks(shape)}
\* each HMAC chunk covers fresh blocks only (the table partitions the body)
FreshChunks == [][(st = "Hmac" /\ i <= Len(Evs) /\ Ev.ev = "SectionHmac" /\ i' = i + 1) =>
                    Blocks(Ev.firstBlk, Ev.firstBlk + Ev.nBlk) \cap cov = {}]_vars
=============================================================================
