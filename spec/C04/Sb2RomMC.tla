----------------------------- MODULE Sb2RomMC -----------------------------
(* MC / GEN form of C04.  An IDEAL WRITER lays a file out from an abstract shape the way the format documents  *)
(* it (sizes accumulate front to back) and states the facts a correct file offers; the ROM automaton of Sb2Rom *)
(* - which derives every position from HEADER FIELDS, back to front from the reader's side - consumes them.    *)
(* TLC checks over ALL shapes up to the bounds:                                                                *)
(*   Live      every ideal file is walked to Accepted (no stuck state: deadlock check),                        *)
(*   Complete  at Accepted every block of the file is covered by a signature / MAC / key-wrap check, the whole *)
(*             event list was consumed and the decoded section / command structure equals the shape,           *)
(*   Sound     covered blocks lie inside the file; HMAC chunks never overlap what is already covered,          *)
(*   Tamper    a file in which ONE block is corrupted (every check whose range contains it reports FALSE) is   *)
(*             never accepted.                                                                                 *)
(* GEN (GenInit): the same shape space is printed as JSON; the harness builds real files of exactly these      *)
(* shapes through SPSDK's public classes.                                                                      *)
EXTENDS Sb2Rom, Json, IOUtils
CONSTANTS MaxSecs, MaxHm, MaxCmds, MaxPay, Chains
VARIABLES shape, evs, i, bad
vars == <<st, hdr, cur, sec, needCert, hm, body, left, cmdAt, cov, certEnd, sigEnd, macSum, dec, shape, evs, i, bad>>

\* certificate chains of the key pool: <<number of certificates, certificate-table length in bytes, signature length>>
\* (the harness checks these numbers against the files in keys/ before it uses the shapes)
ChainTab == [k0 |-> <<1, 1121, 256>>, ss2048 |-> <<1, 1062, 256>>, ss3072 |-> <<1, 1046, 384>>, ss4096 |-> <<1, 1302, 512>>,
             ch2 |-> <<2, 1562, 256>>, ch3 |-> <<3, 2341, 256>>, none |-> <<0, 0, 0>>]
Gen == "GEN" \in DOMAIN IOEnv /\ IOEnv.GEN = "1"

SecShapes == [hm : 1..MaxHm, cmds : UNION {[1..n -> 0..MaxPay] : n \in 1..MaxCmds}]     \* command = number of payload blocks (0: plain command, k: LOAD)
Shapes == { s \in [ver : {"20u", "20s", "21"}, sha : BOOLEAN, chain : Chains \cup {"none"}, secs : UNION {[1..n -> SecShapes] : n \in 1..MaxSecs}] :
              /\ (s.sha => s.ver = "21")
              /\ (s.chain = "none") = (s.ver = "20u") }

\* ---- the ideal writer
Min(a, b) == IF a < b THEN a ELSE b
SumTo(f, n) == LET S[k \in 0..n] == IF k = 0 THEN 0 ELSE S[k - 1] + f[k] IN S[n]
CmdBlocks(s) == [j \in 1..Len(s.cmds) |-> 1 + s.cmds[j]]
SecCount(s) == SumTo(CmdBlocks(s), Len(s.cmds))
SecHm(s) == Min(s.hm, SecCount(s))                                   \* the table cannot have more entries than the body has blocks
SecBlocks(s) == 3 + 2 * SecHm(s) + SecCount(s)
CertLen(sh) == Align16(32 + ChainTab[sh.chain][2] + 128)
SigLen(sh) == ChainTab[sh.chain][3]
ShaLen(sh) == IF sh.sha THEN 32 ELSE 0
FirstTag(sh) == CASE sh.ver = "21"  -> (Prefix * 16 + CertLen(sh) + ShaLen(sh) + SigLen(sh)) \div 16
                  [] sh.ver = "20s" -> Prefix + 5 + CertLen(sh) \div 16
                  [] sh.ver = "20u" -> Prefix
AllSecBlocks(sh) == SumTo([j \in 1..Len(sh.secs) |-> SecBlocks(sh.secs[j])], Len(sh.secs))
ImageBlocks(sh) == FirstTag(sh) + AllSecBlocks(sh)
FileBlocks(sh) == ImageBlocks(sh) + (IF sh.ver = "20s" THEN SigLen(sh) \div 16 ELSE 0)
SecStart(sh, j) == FirstTag(sh) + SumTo([k \in 1..Len(sh.secs) |-> SecBlocks(sh.secs[k])], j - 1)
Flags(sh) == CASE sh.ver = "20u" -> FlagUnsigned [] sh.ver = "20s" -> FlagSigned [] OTHER -> FlagSigned + (IF sh.sha THEN FlagSha ELSE 0)
CertOff(sh) == CASE sh.ver = "21" -> Prefix * 16 [] sh.ver = "20s" -> (Prefix + 5) * 16 [] OTHER -> 0
MaxMac(sh) == SumTo([k \in 1..Len(sh.secs) |-> SecHm(sh.secs[k])], Len(sh.secs)) + (IF sh.ver = "20s" THEN 1 ELSE 0)

\* does the half-open block range [a, b) contain the corrupted block?
Hit(a, b) == bad >= a /\ bad < b
Good(a, b) == ~Hit(a, b)

EvHeader(sh) == [ev |-> "ParseHeader", longEnough |-> TRUE, sig1ok |-> TRUE, sig2ok |-> TRUE, fileRem |-> 0, major |-> 2,
                 minor |-> IF sh.ver = "21" THEN 1 ELSE 0, hdrBlocks |-> 6, kbBlock |-> 8, kbCount |-> 5, flags |-> Flags(sh),
                 certOff |-> CertOff(sh), imageBlocks |-> ImageBlocks(sh), fileBlocks |-> FileBlocks(sh), firstTag |-> FirstTag(sh),
                 firstId |-> <<0, 1>>, maxMac |-> MaxMac(sh)]
EvUnwrap == [ev |-> "UnwrapKeyBlob", at |-> 8, n |-> 5, ok |-> Good(8, 13)]
EvCert(sh, at) == [ev |-> "ParseCertBlock", hdrOk |-> TRUE, at |-> at, chainOk |-> TRUE, rootInTable |-> TRUE, count |-> ChainTab[sh.chain][1],
                   rootIdx |-> 0, tableLen |-> ChainTab[sh.chain][2], walkedLen |-> ChainTab[sh.chain][2], endOff |-> at + CertLen(sh), imgLen |-> at + CertLen(sh)]
EvSig21(sh) == LET to == Prefix * 16 + CertLen(sh) + ShaLen(sh) IN
               [ev |-> "VerifySignature", frm |-> 0, to |-> to, sigAt |-> to, sigLen |-> SigLen(sh), ok |-> Good(0, (to + SigLen(sh)) \div 16)]
EvSha(sh) == [ev |-> "CheckSha", at |-> Prefix * 16 + CertLen(sh), frm |-> FirstTag(sh) * 16, to |-> FileBlocks(sh) * 16,
              ok |-> Good(FirstTag(sh), FileBlocks(sh)) /\ Good((Prefix * 16 + CertLen(sh)) \div 16, (Prefix * 16 + CertLen(sh)) \div 16 + 2)]
EvSig20(sh) == [ev |-> "VerifySignature", frm |-> 0, to |-> ImageBlocks(sh) * 16, sigAt |-> ImageBlocks(sh) * 16, sigLen |-> SigLen(sh),
                ok |-> Good(0, FileBlocks(sh))]
EvHdrMac20 == [ev |-> "CheckHeaderMac", over |-> <<0, 96>>, ok |-> Good(0, 8)]
EvHdrMac21(at, n) == [ev |-> "CheckHeaderMac", over |-> <<(at + 1) * 16, (at + 3 + 2 * n) * 16>>, ok |-> Good(6, 8) /\ Good(at + 1, at + 3 + 2 * n)]

\* events of one section whose tag block is `at`; n table entries; body of `count` blocks
EvTag(sno, at, count, n, cert, uid) ==
  [ev |-> "SectionTag", sec |-> sno, at |-> at, ctrOff |-> at, sane |-> TRUE, chkOk |-> Good(at, at + 1), tagIsTag |-> TRUE,
   tagHmacOk |-> Good(at, at + 3), count |-> count, hmacCount |-> n, cert |-> cert, markOk |-> TRUE,
   flags |-> IF cert THEN 32770 ELSE 32769, uid |-> uid]
EvHmacs(sno, at, count, n) ==
  LET per == count \div n  b == at + 3 + 2 * n IN
  [k \in 1..n |-> LET first == b + (k - 1) * per  nb == IF k = n THEN count - per * (n - 1) ELSE per IN
                  [ev |-> "SectionHmac", sec |-> sno, k |-> k - 1, entryAt |-> at + 3 + 2 * (k - 1), firstBlk |-> first, nBlk |-> nb,
                   ok |-> Good(at + 3 + 2 * (k - 1), at + 5 + 2 * (k - 1)) /\ Good(first, first + nb)]]
EvCmds(s, sno, b) ==
  LET cb == CmdBlocks(s) IN
  [j \in 1..Len(s.cmds) |->
     LET at == b + SumTo(cb, j - 1) IN
     [ev |-> "Cmd", sec |-> sno, i |-> j - 1, at |-> at, chkOk |-> Good(at, at + 1), nBlk |-> cb[j],
      tag |-> IF s.cmds[j] = 0 THEN 8 ELSE 2, crcOk |-> Good(at + 1, at + cb[j]),
      cnt |-> <<0, IF s.cmds[j] = 0 THEN 0 ELSE 16 * s.cmds[j] - 5>>, payloadLen |-> 16 * s.cmds[j],
      flags |-> 0, addr |-> <<0, 0>>, dat |-> <<0, 0>>, payload |-> <<>>]]
EvSection(sh, j) ==
  LET s == sh.secs[j]  at == SecStart(sh, j)  n == SecHm(s)  count == SecCount(s) IN
  <<EvTag(j - 1, at, count, n, FALSE, IF j = 1 THEN <<0, 1>> ELSE <<0, 7>>)>>
  \o (IF sh.ver = "21" /\ j = 1 THEN <<EvHdrMac21(at, n)>> ELSE <<>>)
  \o EvHmacs(j - 1, at, count, n) \o EvCmds(s, j - 1, at + 3 + 2 * n)
  \o <<[ev |-> "SectionEnd", sec |-> j - 1, next |-> at + SecBlocks(s)]>>
EvSections(sh) == LET F[j \in 0..Len(sh.secs)] == IF j = 0 THEN <<>> ELSE F[j - 1] \o EvSection(sh, j) IN F[Len(sh.secs)]
EvCertSection(sh) ==
  LET count == CertLen(sh) \div 16 IN
  <<EvTag(0 - 1, Prefix, count, 1, TRUE, <<28263, 26995>>)>> \o EvHmacs(0 - 1, Prefix, count, 1)
  \o <<EvCert(sh, (Prefix + 5) * 16), [ev |-> "SectionEnd", sec |-> 0 - 1, next |-> Prefix + 5 + count]>>
Ideal(sh) ==
  <<EvHeader(sh), EvUnwrap>>
  \o (CASE sh.ver = "21"  -> <<EvCert(sh, Prefix * 16), EvSig21(sh)>> \o (IF sh.sha THEN <<EvSha(sh)>> ELSE <<>>)
        [] sh.ver = "20s" -> <<EvHdrMac20>> \o EvCertSection(sh)
        [] sh.ver = "20u" -> <<EvHdrMac20>>)
  \o EvSections(sh)
  \o (IF sh.ver = "20s" THEN <<EvSig20(sh)>> ELSE <<>>)
  \o <<[ev |-> "Accept", cur |-> ImageBlocks(sh), nSections |-> Len(sh.secs)]>>

\* ---- the automaton driven by the ideal events
Evs == evs
Ev == Evs[i]
At(name) == i <= Len(Evs) /\ Ev.ev = name
Step == i' = i + 1 /\ UNCHANGED <<shape, evs, bad>>
\* bad = -1: untampered file;  bad = b: block b is corrupted (only a few representative shapes are tampered, all of their blocks)
Init == /\ RInit /\ shape \in Shapes /\ i = 1
        /\ bad \in {0 - 1} \cup (IF Len(shape.secs) = 1 /\ shape.secs[1].hm = MaxHm /\ Len(shape.secs[1].cmds) = MaxCmds
                                   /\ \A j \in 1..MaxCmds : shape.secs[1].cmds[j] = (j % (MaxPay + 1))
                                 THEN 0..(FileBlocks(shape) - 1) ELSE {})
        /\ evs = Ideal(shape)
DoParseHeader == At("ParseHeader") /\ ParseHeader(Ev) /\ Step
DoUnwrap == At("UnwrapKeyBlob") /\ UnwrapKeyBlob(Ev) /\ Step
DoHdrMac20 == At("CheckHeaderMac") /\ CheckHeaderMac20(Ev) /\ Step
DoHdrMac21 == At("CheckHeaderMac") /\ CheckHeaderMac21(Ev) /\ Step
DoCert21 == At("ParseCertBlock") /\ ParseCertBlock21(Ev) /\ Step
DoCert20 == At("ParseCertBlock") /\ ParseCertBlock20(Ev) /\ Step
DoSig21 == At("VerifySignature") /\ VerifySignature21(Ev) /\ FirstTag21Ok(Ev) /\ Step
DoSig20 == At("VerifySignature") /\ VerifySignature20(Ev) /\ Step
DoSha == At("CheckSha") /\ CheckSha(Ev) /\ Step
DoTag == At("SectionTag") /\ SectionTag(Ev) /\ Step
DoHmac == At("SectionHmac") /\ SectionHmac(Ev) /\ Step
DoCmd == At("Cmd") /\ Cmd(Ev) /\ Step
DoSectionEnd == At("SectionEnd") /\ SectionEnd(Ev) /\ Step
DoAccept == At("Accept") /\ Accept(Ev) /\ Step /\ (Gen => PrintT(ToJson(shape)))
\* terminal states: accepted, or - for a tampered file - stopped at the first false fact
Done == (st = "Accepted" \/ (bad >= 0 /\ i <= Len(Evs))) /\ UNCHANGED vars
Next == DoParseHeader \/ DoUnwrap \/ DoHdrMac20 \/ DoHdrMac21 \/ DoCert21 \/ DoCert20 \/ DoSig21 \/ DoSig20 \/ DoSha \/ DoTag \/ DoHmac
        \/ DoCmd \/ DoSectionEnd \/ DoAccept \/ Done

\* ---- GEN: TLC enumerates the shape space itself (initial states only); that the automaton accepts every one of them is what the MC run
\* over the same constants establishes (the harness compares the two counts)
GenInit == RInit /\ shape \in Shapes /\ i = 1 /\ bad = 0 - 1 /\ evs = <<>> /\ PrintT(ToJson(shape))
GenNext == UNCHANGED vars

\* ---- lemmas
Complete == st = "Accepted" =>
              /\ i = Len(Evs) + 1
              /\ cov = Blocks(0, FileBlocks(shape))
              /\ Len(dec) = Len(shape.secs)
              /\ \A s \in 1..Len(dec) : /\ [j \in 1..Len(dec[s].cmds) |-> dec[s].cmds[j].nBlk - 1] = shape.secs[s].cmds
                                        /\ dec[s].hmacCount = SecHm(shape.secs[s])
Sound == cov \subseteq Blocks(0, FileBlocks(shape)) /\ cur <= ImageBlocks(shape)
\* an untampered ideal file is never refused: every non-terminal state has the successor named by its next event (checked as deadlock freedom,
\* Done being enabled only in accepted states when bad = -1)
Tamper == bad >= 0 => st # "Accepted"
\* each HMAC chunk covers fresh blocks only (the table partitions the body)
FreshChunks == [][(st = "Hmac" /\ i <= Len(Evs) /\ Ev.ev = "SectionHmac" /\ i' = i + 1) =>
                    Blocks(Ev.firstBlk, Ev.firstBlk + Ev.nBlk) \cap cov = {}]_vars
=============================================================================
