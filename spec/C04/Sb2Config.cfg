INIT Init
NEXT Next
INVARIANT Encodable
INVARIANT MemVisible
INVARIANT SameMemory
INVARIANT BlobNeutral
INVARIANT Emit
CHECK_DEADLOCK FALSE
