CONSTANTS Pairs = FALSE
 BigLens = {65535, 65536}
INIT Init
NEXT Next
INVARIANT OneClass
INVARIANT RepAgree
INVARIANT Encodable
INVARIANT WidthSensitive
INVARIANT FieldSensitive
INVARIANT Emit
CHECK_DEADLOCK FALSE
