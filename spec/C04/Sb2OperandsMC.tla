--------------------------- MODULE Sb2OperandsMC ---------------------------
(* MC / GEN form of the operand part of C04.  The OPERAND CASE SPACE is the set of initial states: for every   *)
(* command kind and every numeric operand the boundaries of every width class (lowest, lowest + 1, highest - 1,*)
(* highest; the sign boundary; one interior value with distinct bytes per class), one operand at a time with   *)
(* the others at a base value, and all operands together on the diagonal; Pairs = TRUE adds the full product   *)
(* of two operands (thorough tier).  TLC checks the lemmas below over every case and emits every case (Emit);  *)
(* the harness builds every emitted case through SPSDK's command classes - deterministically, in every run -   *)
(* and the trace form decides what the ROM model decoded (Matches).                                            *)
EXTENDS Sb2Operands, Json
CONSTANTS Pairs,      \* BOOLEAN: add the products of two operands
          BigLens     \* LOAD lengths around the 16-bit boundary (bytes)
VARIABLE oc
\* ---- value classes
Bnd32 == UNION {{ClassLo(c), WSucc(ClassLo(c)), WPred(ClassHi(c)), ClassHi(c)} : c \in Widths}
         \cup {<<32767, 65535>>, <<32768, 0>>}                                 \* sign boundary of a 32-bit word
Interior == {<<0, 90>>, <<0, 4773>>, <<18, 13477>>, <<4660, 22181>>}           \* 0x5A, 0x12A5, 0x1234A5, 0x123456A5: distinct bytes in every class
Vals32 == Bnd32 \cup Interior
Down4(w) == <<w[1], w[2] - (w[2] % 4)>>
Len4 == ({Down4(w) : w \in Vals32} \cup {<<0, 4>>}) \ {Zero}                   \* FILL lengths: multiples of 4, at least 4
Len4Of(w) == IF Down4(w) = Zero THEN <<0, 4>> ELSE Down4(w)
Mem12 == {<<g, d>> : g \in {0, 1, 14, 15}, d \in {0, 1, 254, 255}}             \* memory id = <<group id (4 bits), device id (8 bits)>>
Dev8 == {0, 1, 4, 254, 255}
LoadLens == {1, 15, 16, 17, 254, 255, 256, 257}                                \* around the cipher block and around the first width boundary
Data(n) == [i \in 1..n |-> (i * 37 + n) % 256]

BaseA == <<8192, 4096>>      \* 0x20001000
BaseN == <<0, 512>>
BaseX == <<50130, 57840>>    \* 0xC3D2E1F0
NoMem == <<0, 0>>
\* opt: "nolen" = FILL without the optional length (documented default 4), "nosp" = JUMP without stack pointer,
\*      "ksid" = the driver substitutes a key-store memory id of the implementation's enumeration for m
\* slot: the operand that is varied ("diag": all of them)
Op(k, a, n, x, f, m, d, opt, slot) == [k |-> k, a |-> a, n |-> n, x |-> x, f |-> f, m |-> m, d |-> d, opt |-> opt, slot |-> slot]

FillCases ==
       {Op("fill", a, BaseN, BaseX, 0, NoMem, <<>>, "", "a") : a \in Vals32}
  \cup {Op("fill", BaseA, n, BaseX, 0, NoMem, <<>>, "", "n") : n \in Len4}
  \cup {Op("fill", BaseA, BaseN, x, 0, NoMem, <<>>, "", "x") : x \in Vals32}
  \cup {Op("fill", BaseA, <<0, 4>>, x, 0, NoMem, <<>>, "nolen", "x") : x \in Vals32}
  \cup {Op("fill", w, Len4Of(w), w, 0, NoMem, <<>>, "", "diag") : w \in Vals32}
JumpCases ==
       {Op("jump", a, Zero, BaseX, 0, NoMem, <<>>, "nosp", "a") : a \in Vals32}
  \cup {Op("jump", BaseA, Zero, x, 0, NoMem, <<>>, "nosp", "x") : x \in Vals32}
  \cup {Op("jump", a, BaseN, BaseX, 1, NoMem, <<>>, "", "a") : a \in Vals32}
  \cup {Op("jump", BaseA, BaseN, x, 1, NoMem, <<>>, "", "x") : x \in Vals32}
  \cup {Op("jump", BaseA, n, BaseX, 1, NoMem, <<>>, "", "n") : n \in Vals32}
  \cup {Op("jump", w, w, w, 1, NoMem, <<>>, "", "diag") : w \in Vals32}
CallCases ==
       {Op("call", a, Zero, BaseX, 0, NoMem, <<>>, "", "a") : a \in Vals32}
  \cup {Op("call", BaseA, Zero, x, 0, NoMem, <<>>, "", "x") : x \in Vals32}
  \cup {Op("call", w, Zero, w, 0, NoMem, <<>>, "", "diag") : w \in Vals32}
EraseCases ==
       {Op("erase", a, BaseN, Zero, 0, NoMem, <<>>, "", "a") : a \in Vals32}
  \cup {Op("erase", BaseA, n, Zero, 0, NoMem, <<>>, "", "n") : n \in Vals32}
  \cup {Op("erase", BaseA, BaseN, Zero, f, m, <<>>, "", "m") : f \in 0..2, m \in Mem12}
  \cup {Op("erase", w, w, Zero, 0, NoMem, <<>>, "", "diag") : w \in Vals32}
EnableCases ==
       {Op("enable", a, BaseN, Zero, 0, <<0, 9>>, <<>>, "", "a") : a \in Vals32}
  \cup {Op("enable", BaseA, n, Zero, 0, <<0, 9>>, <<>>, "", "n") : n \in Vals32}
  \cup {Op("enable", BaseA, BaseN, Zero, 0, m, <<>>, "", "m") : m \in Mem12}
  \cup {Op("enable", w, w, Zero, 0, <<1, 1>>, <<>>, "", "diag") : w \in Vals32}
ProgCases ==
       {Op("prog", a, BaseN, BaseX, 0, <<0, 4>>, <<>>, "", "a") : a \in Vals32}
  \cup {Op("prog", BaseA, n, BaseX, 0, <<0, 4>>, <<>>, "", "n") : n \in Vals32}
  \cup {Op("prog", BaseA, BaseN, x, 0, <<0, 4>>, <<>>, "", "x") : x \in Vals32}
  \cup {Op("prog", BaseA, n, Zero, 0, <<0, 4>>, <<>>, "", "n") : n \in Vals32}          \* 4-byte form: second word absent
  \cup {Op("prog", BaseA, BaseN, BaseX, 0, <<0, d>>, <<>>, "", "m") : d \in Dev8}
  \cup {Op("prog", w, w, w, 0, <<0, 4>>, <<>>, "", "diag") : w \in Vals32}
VerCases == {Op("vercheck", Zero, n, Zero, f, NoMem, <<>>, "", "n") : n \in Vals32, f \in 0..1}
KsCases == {Op(k, a, Zero, Zero, 0, NoMem, <<>>, "ksid", "a") : k \in {"ks_to_nv", "ks_from_nv"}, a \in Vals32}
LoadCases ==
       {Op("load", a, Zero, Zero, 0, NoMem, Data(5), "", "a") : a \in Vals32}
  \cup {Op("load", BaseA, Zero, Zero, 0, m, Data(18), "", "m") : m \in Mem12}
  \cup {Op("load", BaseA, Zero, Zero, 0, NoMem, Data(l), "", "len") : l \in LoadLens \cup BigLens}
  \cup {Op("load", w, Zero, Zero, 0, <<15, 255>>, Data(33), "", "diag") : w \in Bnd32}
\* two operands together (thorough tier)
PairCases == IF ~Pairs THEN {} ELSE
       {Op("fill", a, BaseN, x, 0, NoMem, <<>>, "", "axx") : a \in Vals32, x \in Vals32}
  \cup {Op("fill", BaseA, n, x, 0, NoMem, <<>>, "", "nxx") : n \in Len4, x \in Vals32}
  \cup {Op("jump", a, n, BaseX, 1, NoMem, <<>>, "", "axn") : a \in Vals32, n \in Vals32}
  \cup {Op("jump", BaseA, n, x, 1, NoMem, <<>>, "", "nxx") : n \in Vals32, x \in Vals32}
  \cup {Op("call", a, Zero, x, 0, NoMem, <<>>, "", "axx") : a \in Vals32, x \in Vals32}
  \cup {Op("erase", a, n, Zero, 0, NoMem, <<>>, "", "axn") : a \in Vals32, n \in Vals32}
  \cup {Op("enable", a, n, Zero, 0, <<0, 9>>, <<>>, "", "axn") : a \in Vals32, n \in Vals32}
  \cup {Op("prog", BaseA, n, x, 0, <<0, 4>>, <<>>, "", "nxx") : n \in Vals32, x \in Vals32}
\* header values that are 32-bit words as well: a = build number, n = id of the (first) boot section
HdrCases ==
       {Op("hdr", w, w, Zero, 0, NoMem, <<>>, "", "diag") : w \in Vals32}
  \cup {Op("hdr", w, WMax, Zero, 0, NoMem, <<>>, "", "a") : w \in Bnd32}
  \cup {Op("hdr", Zero, w, Zero, 0, NoMem, <<>>, "", "n") : w \in Bnd32}
CmdCases == FillCases \cup JumpCases \cup CallCases \cup EraseCases \cup EnableCases \cup ProgCases \cup VerCases \cup KsCases \cup LoadCases \cup PairCases
Cases == CmdCases \cup HdrCases

\* the 32-bit operands of every command kind: each of them must meet every boundary value in some case (Reach, checked by the MC form)
Slots32 == [fill |-> {"a", "x"}, jump |-> {"a", "x", "n"}, call |-> {"a", "x"}, erase |-> {"a", "n"}, enable |-> {"a", "n"}, prog |-> {"a", "n", "x"},
            vercheck |-> {"n"}, ks_to_nv |-> {"a"}, ks_from_nv |-> {"a"}, load |-> {"a"}, hdr |-> {"a", "n"}]

Init == oc \in Cases
Next == UNCHANGED oc
IsCmd == oc.k # "hdr"
Words == {oc.a, oc.n, oc.x}

\* ---- lemmas over the case space
\* every word lies in exactly one width class; the classes are adjacent
OneClass == \A w \in Words : Cardinality({cl \in Widths : InClass(w, cl)}) = 1
\* pattern replication: the byte-level and the arithmetical definition agree, replication is idempotent, nothing of the given value is
\* lost (its bytes above the pattern width are zero, the low bytes of the pattern word are the value's)
RepAgree == oc.k = "fill" =>
              /\ Rep(oc.x) = RepDirect(oc.x)
              /\ Rep(Rep(oc.x)) = Rep(oc.x)
              /\ \A i \in 1..4 : IF i <= 4 - PatWidth(oc.x) THEN WBytes(oc.x)[i] = 0 ELSE WBytes(Rep(oc.x))[i] = WBytes(oc.x)[i]
\* the ideal writer's header is accepted for every case (the case space lies inside what the trace form accepts)
Encodable == IsCmd => Matches(Encode(oc), oc)
\* ... and Matches tells the width classes apart: a pattern replicated with another width, a neighbouring address / count / data word
\* are refused wherever the ROM uses the field
Neighbours(w) == (IF w = Zero THEN {} ELSE {WPred(w)}) \cup (IF w = WMax THEN {} ELSE {WSucc(w)})
WidthSensitive == oc.k = "fill" => \A n \in {1, 2, 4} : RepW(oc.x, n) # Rep(oc.x) => ~Matches([Encode(oc) EXCEPT !.dat = RepW(oc.x, n)], oc)
FieldSensitive ==
  /\ oc.k \in {"load", "fill", "jump", "call", "erase", "enable", "prog", "ks_to_nv", "ks_from_nv"} =>
       \A w \in Neighbours(oc.a) : ~Matches([Encode(oc) EXCEPT !.addr = w], oc)
  /\ oc.k \in {"fill", "erase", "enable", "prog", "vercheck"} \/ (oc.k = "jump" /\ oc.f = 1) =>
       \A w \in Neighbours(oc.n) : ~Matches([Encode(oc) EXCEPT !.cnt = w], oc)
  /\ oc.k \in {"jump", "call", "prog"} =>
       \A w \in Neighbours(oc.x) : ~Matches([Encode(oc) EXCEPT !.dat = w], oc)
Emit == PrintT(ToJson(oc))

\* ---- the case space reaches what it promises (evaluated once, at start-up)
ASSUME ClassEdges == \A cl \in Widths : /\ Width(ClassLo(cl)) = cl /\ Width(ClassHi(cl)) = cl
                                        /\ (cl < 4 => WSucc(ClassHi(cl)) = ClassLo(cl + 1))
                                        /\ (cl > 1 => Width(WPred(ClassLo(cl))) = cl - 1)
ASSUME ClassTops == ClassHi(1) = <<0, 255>> /\ ClassHi(2) = <<0, 65535>> /\ ClassHi(3) = <<255, 65535>> /\ ClassHi(4) = WMax
ASSUME Reach == \A k \in DOMAIN Slots32 : \A s \in Slots32[k] : \A w \in Bnd32 : \E cc \in Cases : cc.k = k /\ cc[s] = w
\* the top of the byte and of the half-word class are cases in which the neighbouring pattern width gives another word
ASSUME TopsTellApart == \A cl \in {1, 2} : \E cc \in FillCases : cc.x = ClassHi(cl) /\ RepW(cc.x, 2 * cl) # Rep(cc.x)
ASSUME LenReach == \A cc \in FillCases : cc.n[2] % 4 = 0 /\ cc.n # Zero
=============================================================================
