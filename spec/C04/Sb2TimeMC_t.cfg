CONSTANTS Full = TRUE
INIT Init
NEXT Next
INVARIANT LimbsExact
INVARIANT LimbsRange
INVARIANT SameInstant
INVARIANT ZoneFree
INVARIANT OffsetMatters
INVARIANT NextSecond
INVARIANT Emit
CHECK_DEADLOCK FALSE
