------------------------------ MODULE BdLang ------------------------------
(* R-spec of C19: semantics of the SB2.1 command-file (BD) language, supported subset.          *)
(*  - constant expressions: a recursive datatype with Eval (ordinary integer arithmetic; the     *)
(*    comparison / logical operators yield 1 or 0); Dom(e) delimits the asserted domain          *)
(*  - a program is executed by a state machine whose state is the "definitions" (env) and the     *)
(*    commands produced so far; every supported statement produces exactly one command record    *)
(* Expression ASTs (JSON records):                                                               *)
(*   [k:"lit",v] [k:"size",v,sz] [k:"ref",n] [k:"neg",e] [k:"pos",e] [k:"not",e] [k:"def",n]       *)
(*   [k:"bin",op,l,r]   op in arithmetic / bitwise / comparison / logical operators              *)
EXTENDS Integers, Sequences, FiniteSets, TLC, Bitwise

ArithOps == {"+", "-", "*", "/", "%", "<<", ">>", "&", "|", "^"}
CmpOps == {"<", "<=", ">", ">=", "==", "!="}
LogOps == {"&&", "||"}
Limit == 134217728                                   \* 2^27: every intermediate result stays below it in magnitude

RECURSIVE Pow2(_)
Pow2(n) == IF n = 0 THEN 1 ELSE 2 * Pow2(n - 1)
B2I(b) == IF b THEN 1 ELSE 0
SizeMask(sz) == CASE sz = "b" -> 255 [] sz = "h" -> 65535 [] sz = "w" -> 2147483647     \* word: all generated literals are < 2^31

Ap(op, x, y) ==
  CASE op = "+"  -> x + y
    [] op = "-"  -> x - y
    [] op = "*"  -> x * y
    [] op = "/"  -> x \div y
    [] op = "%"  -> x % y
    [] op = "<<" -> x * Pow2(y)
    [] op = ">>" -> x \div Pow2(y)
    [] op = "&"  -> x & y
    [] op = "|"  -> x | y
    [] op = "^"  -> x ^^ y
    [] op = "<"  -> B2I(x < y)
    [] op = "<=" -> B2I(x <= y)
    [] op = ">"  -> B2I(x > y)
    [] op = ">=" -> B2I(x >= y)
    [] op = "==" -> B2I(x = y)
    [] op = "!=" -> B2I(x # y)
    [] op = "&&" -> B2I(x # 0 /\ y # 0)
    [] op = "||" -> B2I(x # 0 \/ y # 0)

RECURSIVE Eval(_, _)
Eval(e, env) ==
  CASE e.k = "lit"  -> e.v
    [] e.k = "size" -> e.v & SizeMask(e.sz)
    [] e.k = "ref"  -> env[e.n]
    [] e.k = "neg"  -> 0 - Eval(e.e, env)
    [] e.k = "pos"  -> Eval(e.e, env)
    [] e.k = "not"  -> B2I(Eval(e.e, env) = 0)
    [] e.k = "def"  -> B2I(e.n \in DOMAIN env)
    [] e.k = "bin"  -> Ap(e.op, Eval(e.l, env), Eval(e.r, env))

\* the documented grammar is stratified: comparison / logical / ! live in bool_expr, whose leaves are integer expressions;
\* an arithmetic operator or a unary sign cannot have a bool_expr as operand
RECURSIVE IsInt(_)
IsInt(e) == \/ e.k \in {"lit", "size", "ref"}
            \/ (e.k \in {"neg", "pos"} /\ IsInt(e.e))
            \/ (e.k = "bin" /\ e.op \in ArithOps /\ IsInt(e.l) /\ IsInt(e.r))
\* the grammar rule `expr . INT_SIZE` has no documented binding strength: a size suffix is asserted only where every
\* reading agrees - on a literal that is the whole expression or its left-most leaf
RECURSIVE NoSize(_)
NoSize(e) == CASE e.k = "size" -> FALSE
               [] e.k \in {"neg", "pos", "not"} -> NoSize(e.e)
               [] e.k = "bin" -> NoSize(e.l) /\ NoSize(e.r)
               [] OTHER -> TRUE
RECURSIVE LeftSizeOnly(_)
LeftSizeOnly(e) == e.k = "size" \/ NoSize(e) \/ (e.k = "bin" /\ LeftSizeOnly(e.l) /\ NoSize(e.r))
IsBoolish(e) == e.k \in {"not", "def"} \/ (e.k = "bin" /\ e.op \in CmpOps \cup LogOps) \/ (e.k = "lit" /\ e.v \in {0, 1})
\* the asserted domain: defined references, no division by zero, C and mathematics agree, no overflow
RECURSIVE DomR(_, _)
Dom(e, env) == LeftSizeOnly(e) /\ DomR(e, env)
DomR(e, env) ==
  CASE e.k = "lit"  -> e.v >= 0
    [] e.k = "size" -> e.v >= 0
    [] e.k = "ref"  -> e.n \in DOMAIN env
    [] e.k \in {"neg", "pos"} -> IsInt(e.e) /\ DomR(e.e, env)
    [] e.k = "not" -> DomR(e.e, env)
    [] e.k = "def"  -> TRUE
    [] e.k = "bin"  ->
         /\ DomR(e.l, env) /\ DomR(e.r, env)
         /\ (e.op \in ArithOps => IsInt(e.l) /\ IsInt(e.r))
         /\ LET x == Eval(e.l, env)  y == Eval(e.r, env) IN
            /\ x > 0 - Limit /\ x < Limit /\ y > 0 - Limit /\ y < Limit
            /\ (e.op \in {"/", "%"} => x >= 0 /\ y > 0)
            /\ (e.op \in {"<<", ">>"} => x >= 0 /\ y >= 0 /\ y <= 12 /\ x < 32768)
            /\ (e.op \in {"&", "|", "^"} => x >= 0 /\ y >= 0)
            /\ (e.op = "*" => (x < 8192 /\ x > 0 - 8192 /\ y < 8192 /\ y > 0 - 8192))
            /\ (e.op \in LogOps => IsBoolish(e.l) /\ IsBoolish(e.r))

\* ------------------------------------------------------------------ statements -> commands
\* A command record has the fields  t (type), a (address), n (length / count / size), f (flags), m (memory id),
\* x (argument / pattern / version), s (stack pointer or -1), d (data bytes)
Cmd(t, a, n, f, m, x, s, d) == [t |-> t, a |-> a, n |-> n, f |-> f, m |-> m, x |-> x, s |-> s, d |-> d]
V(o, env) == Eval(o, env)
\* pattern replicated to a 32-bit word, most significant byte first (what the FILL command carries)
PatWord(v, sz) == CASE sz = "b" -> <<v, v, v, v>>
                    [] sz = "h" -> <<v \div 256, v % 256, v \div 256, v % 256>>
                    [] sz = "w" -> <<v \div 16777216, (v \div 65536) % 256, (v \div 256) % 256, v % 256>>
LE4(v) == <<v % 256, (v \div 256) % 256, (v \div 65536) % 256, v \div 16777216>>     \* a 32-bit word as the bytes the device programs, lowest address first
Align512(n) == ((n + 511) \div 512) * 512          \* OTFAD images are encrypted in whole 512-byte blocks
KeyBlobRecordSize == 64                              \* one record of the OTFAD key-blob table
Expected(st, env) ==
  CASE st.s = "load_blob"   -> Cmd("load", V(st.addr, env), Len(st.blob), 0, st.mem, 0, -1, st.blob)
    [] st.s = "load_file"   -> Cmd("load", V(st.addr, env), Len(st.data), 0, st.mem, 0, -1, st.data)
    \* load with the memory option of the fuses / IFR (id 4): one PROGRAM command - index, the 4 or 8 stated bytes (an integer is ONE 32-bit word)
    [] st.s = "prog_pat"    -> Cmd("prog", V(st.addr, env), 4, 0, 4, 0, -1, LE4(st.pat))
    [] st.s = "prog_blob"   -> Cmd("prog", V(st.addr, env), Len(st.blob), 0, 4, 0, -1, st.blob)
    [] st.s = "fill"        -> Cmd("fill", V(st.addr, env), 4, 0, 0, 0, -1, PatWord(st.pat, st.sz))
    [] st.s = "fill_range"  -> Cmd("fill", V(st.lo, env), V(st.hi, env) - V(st.lo, env), 0, 0, 0, -1, PatWord(st.pat, st.sz))
    [] st.s = "erase_range" -> Cmd("erase", V(st.lo, env), V(st.hi, env) - V(st.lo, env), 0, st.mem, 0, -1, <<>>)
    [] st.s = "erase_addr"  -> Cmd("erase", V(st.addr, env), 0, 0, st.mem, 0, -1, <<>>)
    [] st.s = "erase_all"   -> Cmd("erase", 0, 0, 1, st.mem, 0, -1, <<>>)
    [] st.s = "erase_unsecure_all" -> Cmd("erase", 0, 0, 2, 0, 0, -1, <<>>)
    [] st.s = "enable"      -> Cmd("enable", V(st.addr, env), 4, 0, st.mem, 0, -1, <<>>)
    [] st.s = "call"        -> Cmd("call", V(st.addr, env), 0, 0, 0, V(st.arg, env), -1, <<>>)
    [] st.s = "jump"        -> Cmd("jump", V(st.addr, env), 0, 0, 0, V(st.arg, env), -1, <<>>)
    [] st.s = "jump_sp"     -> Cmd("jump", V(st.addr, env), 0, 0, 0, V(st.arg, env), V(st.sp, env), <<>>)
    [] st.s = "reset"       -> Cmd("reset", 0, 0, 0, 0, 0, -1, <<>>)
    [] st.s = "version_check" -> Cmd("version_check", 0, 0, 0, 0, V(st.ver, env), st.nsec, <<>>)
    \* encrypt / keywrap: one LOAD at the stated address; the data are crypto (OTFAD image encryption / RFC 3394 wrap of the key blob), so the
    \* record carries, in place of the bytes, the id of the key blob the data belong to (field x) - the observer determines it independently by
    \* decrypting / unwrapping the loaded bytes with every key blob the program defines
    \* st.act: the key blob's descriptor says "valid and decrypting" (VLD and ADE, the two low bits of its end address; BdProg!KbDom binds the field to the
    \* definition).  A context that does not decrypt must be fed the data AS THEY ARE: one LOAD of the source bytes, not encrypted, not padded.
    [] st.s = "encrypt" /\ st.act  -> Cmd("load", V(st.addr, env), Align512(Len(st.data)), 0, 0, st.kb, -1, <<>>)
    [] st.s = "encrypt" /\ ~st.act -> Cmd("load", V(st.addr, env), Len(st.data), 0, 0, 0, -1, st.data)
    [] st.s = "keywrap"          -> Cmd("load", V(st.addr, env), KeyBlobRecordSize, 0, 0, st.kb, -1, <<>>)
    [] st.s = "keystore_to_nv"   -> Cmd("keystore_to_nv", V(st.addr, env), 0, 0, st.mem, 0, -1, <<>>)
    [] st.s = "keystore_from_nv" -> Cmd("keystore_from_nv", V(st.addr, env), 0, 0, st.mem, 0, -1, <<>>)
Operands(st) == CASE st.s \in {"load_blob", "load_file", "prog_pat", "prog_blob", "fill", "erase_addr", "enable", "keystore_to_nv", "keystore_from_nv", "encrypt", "keywrap"} -> {st.addr}
                  [] st.s \in {"fill_range", "erase_range"} -> {st.lo, st.hi}
                  [] st.s \in {"call", "jump"} -> {st.addr, st.arg}
                  [] st.s = "jump_sp" -> {st.addr, st.arg, st.sp}
                  [] st.s = "version_check" -> {st.ver}
                  [] OTHER -> {}
StmtDom(st, env) == /\ \A o \in Operands(st) : Dom(o, env) /\ V(o, env) >= 0
                    /\ (st.s \in {"fill_range", "erase_range"} => V(st.hi, env) > V(st.lo, env))
                    /\ (st.s = "fill_range" => (V(st.hi, env) - V(st.lo, env)) % 4 = 0)
\* pattern_mem_<id>: an integer pattern loaded with the option of an EXTERNAL memory - the only command that carries a pattern (FILL) has no memory
\* field, so there is no command with the stated operands (id 0, the internal memory, is left out: a FILL would say the same)
PatternMem == {"pattern_mem_1", "pattern_mem_8", "pattern_mem_9", "pattern_mem_16", "pattern_mem_257", "pattern_mem_288"}
Unsupported == {"if", "if_else", "from", "mode", "info", "warning", "error", "sizeof", "section_list", "load_dot", "symbol_ref", "source_attr"} \cup PatternMem
=============================================================================
