------------------------------ MODULE BdTrace ------------------------------
(* TV form of C19.  A trace is the program (one event per construct, with the AST of every       *)
(* operand) together with what the real parser / command builder produced for it.                *)
(*   kind "expr" : [e, got]                       one expression, value observed through an option *)
(*   kind "prog" : DefOption / DefOptionStr / DefConst / BeginSection / Stmt(obs) / Refuse(obs) / End(iopts, sopts, ids) *)
EXTENDS BdProg, Json, IOUtils
Traces == ndJsonDeserialize(IOEnv.TRACE_FILE)
VARIABLES tid, l
T == Traces[tid].ev
E == T[l]
Is(e) == l <= Len(T) /\ E.ev = e
Adv == l' = l + 1 /\ UNCHANGED tid
TInit == tid \in 1..Len(Traces) /\ l = 1 /\ PInit /\ TLCSet(tid, 1)
TExpr == Is("Expr") /\ Dom(E.e, Empty) /\ E.got.k = "int" /\ E.got.v = Eval(E.e, Empty) /\ UNCHANGED pvars /\ Adv
TDefOption == Is("DefOption") /\ DefOption(E.n, E.e) /\ Adv
TDefOptionStr == Is("DefOptionStr") /\ DefOptionStr(E.n, E.v) /\ Adv
TDefConst == Is("DefConst") /\ DefConst(E.n, E.e) /\ Adv
TDefKeyblob == Is("DefKeyblob") /\ DefKeyblob(E.id, E.lo, E.hi, E.key, E.ctr) /\ Adv
TBeginSection == Is("BeginSection") /\ BeginSection(E.id) /\ Adv
TStmt == Is("Stmt") /\ Stmt(E.st) /\ E.obs = Expected(E.st, env) /\ Adv
TRefuse == Is("Refuse") /\ Refuse(E.kind) /\ E.obs.t = "spsdk-error" /\ Adv
TEnd == /\ Is("End") /\ phase = "section"
        /\ E.iopts = iopts /\ E.sopts = sopts
        /\ E.ids = [i \in 1..Len(secs) |-> secs[i].id]
        /\ E.counts = [i \in 1..Len(secs) |-> Len(secs[i].cmds)]
        /\ UNCHANGED pvars /\ Adv
TEndRefused == Is("EndRefused") /\ phase = "refused" /\ UNCHANGED pvars /\ Adv
TNext == TExpr \/ TDefOption \/ TDefOptionStr \/ TDefConst \/ TDefKeyblob \/ TBeginSection \/ TStmt \/ TRefuse \/ TEnd \/ TEndRefused
Constr == IF TLCGet(tid) < l THEN TLCSet(tid, l) ELSE TRUE
Post == \A i \in 1..Len(Traces) :
          \/ TLCGet(i) - 1 = Len(Traces[i].ev)
          \/ PrintT(<<"REJ", Traces[i].id, TLCGet(i) - 1, Len(Traces[i].ev),
                      Traces[i].ev[IF TLCGet(i) <= Len(Traces[i].ev) THEN TLCGet(i) ELSE Len(Traces[i].ev)].ev>>)
=============================================================================
