------------------------------ MODULE BdTrace ------------------------------
(* TV form of C19.  A trace is the program (one event per construct, with the AST of every       *)
(* operand) together with what the real parser / command builder produced for it.                *)
(*   kind "expr" : [e, got]                       one expression, value observed through an option *)
(*   kind "prog" : DefOption / DefOptionStr / DefConst / DefSource / DefKeyblob / BeginSection / Stmt(obs) / Refuse(obs) / End(iopts, sopts, ids) *)
(*   a SESSION (trace field sess): several programs given one after another to ONE parser object, separated by NextFile; *)
(*   every End of a session also carries the NAMES of the tables the configuration of that file shows (onames, snames, kbids) *)
EXTENDS BdSession, Json, IOUtils
Traces == ndJsonDeserialize(IOEnv.TRACE_FILE)
VARIABLES tid, l
T == Traces[tid].ev
E == T[l]
Is(e) == l <= Len(T) /\ E.ev = e
Adv == l' = l + 1 /\ UNCHANGED tid
Sess == "sess" \in DOMAIN Traces[tid]
SetOf(s) == {s[i] : i \in 1..Len(s)}
TInit == tid \in 1..Len(Traces) /\ l = 1 /\ SInit /\ TLCSet(tid, 1)
TExpr == Is("Expr") /\ Dom(E.e, Empty) /\ E.got.k = "int" /\ E.got.v = Eval(E.e, Empty) /\ UNCHANGED pvars /\ UNCHANGED svars /\ Adv
TDefOption == Is("DefOption") /\ SDefOption(E.n, E.e) /\ Adv
TDefOptionStr == Is("DefOptionStr") /\ SDefOptionStr(E.n, E.v) /\ Adv
TDefConst == Is("DefConst") /\ SDefConst(E.n, E.e) /\ Adv
TDefSource == Is("DefSource") /\ DefSource(E.n, E.form, E.d) /\ Adv
TDefKeyblob == Is("DefKeyblob") /\ SDefKeyblob(E.id, E.lo, E.hi, E.key, E.ctr) /\ Adv
TBeginSection == Is("BeginSection") /\ SBeginSection(E.id) /\ Adv
TStmt == Is("Stmt") /\ SStmt(E.st) /\ E.obs = Expected(E.st, env) /\ Adv
TRefuse == Is("Refuse") /\ SRefuse(E.kind) /\ E.obs.t = "spsdk-error" /\ Adv
TEnd == /\ Is("End") /\ phase = "section"
        /\ E.iopts = iopts /\ E.sopts = sopts
        /\ E.ids = [i \in 1..Len(secs) |-> secs[i].id]
        /\ E.counts = [i \in 1..Len(secs) |-> Len(secs[i].cmds)]
        \* a session shows, for every file, the tables of THAT file and nothing else
        /\ (Sess => /\ SetOf(E.onames) = OptNames
                    /\ SetOf(E.snames) = DOMAIN srcs
                    /\ E.kbids = KbIdSeq)
        /\ UNCHANGED pvars /\ UNCHANGED svars /\ Adv
TEndRefused == Is("EndRefused") /\ phase = "refused" /\ UNCHANGED pvars /\ UNCHANGED svars /\ Adv
\* the next file goes to the same parser object once the result of the file before it has been observed
TNextFile == /\ Is("NextFile") /\ Sess /\ l > 1 /\ T[l - 1].ev \in {"End", "EndRefused"}
             /\ SNextFile /\ Adv
TNext == TExpr \/ TDefOption \/ TDefOptionStr \/ TDefConst \/ TDefSource \/ TDefKeyblob \/ TBeginSection \/ TStmt \/ TRefuse \/ TEnd \/ TEndRefused \/ TNextFile
Constr == IF TLCGet(tid) < l THEN TLCSet(tid, l) ELSE TRUE
Post == \A i \in 1..Len(Traces) :
          \/ TLCGet(i) - 1 = Len(Traces[i].ev)
          \/ PrintT(<<"REJ", Traces[i].id, TLCGet(i) - 1, Len(Traces[i].ev),
                      Traces[i].ev[IF TLCGet(i) <= Len(Traces[i].ev) THEN TLCGet(i) ELSE Len(Traces[i].ev)].ev>>)
=============================================================================
