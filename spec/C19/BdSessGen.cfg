INIT GInit
NEXT GNext
INVARIANT FreshFile
INVARIANT OwnSource
CHECK_DEADLOCK FALSE
