----------------------------- MODULE BdSessGen -----------------------------
(* GEN form for SESSIONS: sequences of command files for one parser object (BdSession).  The menus are small and made   *)
(* of COLLIDING definitions: every table (integer option, string option, constant, source, key blob) has ONE name / id   *)
(* with two different meanings, so that in the enumerated pairs of files the same name is defined again with another     *)
(* meaning, is defined in the earlier file only, or in the later file only - and a statement of the later file uses it.  *)
(*   exhaustive (BdSessGen.cfg, BFS): GEN_MAXFILES files x at most GEN_MAXDEFS definitions x GEN_MAXSECS sections x       *)
(*                                    GEN_MAXSTMTS statements; definitions in the canonical order of their kinds          *)
(*   -simulate: longer sessions (3 files, several definitions, 2 sections)                                               *)
EXTENDS BdSession, Json, IOUtils
VARIABLES hist, done, rank,      \* rank: kind of the last definition of the current file (canonical order, one definition per kind)
          dim                    \* exhaustive lane: the ONE table the files of the session define in (0: none so far) - every file defines there or nowhere
MaxFiles == atoi(IOEnv.GEN_MAXFILES)
MaxDefs == atoi(IOEnv.GEN_MAXDEFS)
MaxStmts == atoi(IOEnv.GEN_MAXSTMTS)
MaxSecs == atoi(IOEnv.GEN_MAXSECS)
Wide == "GEN_WIDE" \in DOMAIN IOEnv /\ IOEnv.GEN_WIDE = "1"      \* -simulate lane: no pruning of the per-file menu
Lit(n) == [k |-> "lit", v |-> n]
Ref(n) == [k |-> "ref", n |-> n]
Bin(o, a, b) == [k |-> "bin", op |-> o, l |-> a, r |-> b]
Iota(n) == [i \in 1..n |-> i]
Rev(n) == [i \in 1..n |-> 200 - i]
Log(x) == hist' = Append(hist, x) /\ UNCHANGED done
\* events of the current file
FileStart == IF \E i \in 1..Len(hist) : hist[i].ev = "NextFile" THEN (CHOOSE i \in 1..Len(hist) : hist[i].ev = "NextFile" /\ \A j \in i + 1..Len(hist) : hist[j].ev # "NextFile") + 1 ELSE 1
NDefs == Cardinality({i \in FileStart..Len(hist) : hist[i].ev \in {"DefConst", "DefOption", "DefOptionStr", "DefKeyblob", "DefSource"}}) - 1      \* the options block every file has does not count
NStmts == IF secs = <<>> THEN 0 ELSE Len(secs[Len(secs)].cmds)
\* every command file has its options block (assumption of the check): flags = 8 is the first event of every file
GStart == /\ phase = "defs" /\ rank = 0 /\ SDefOption("flags", Lit(8)) /\ rank' = 1 /\ UNCHANGED dim /\ Log([ev |-> "DefOption", n |-> "flags", e |-> Lit(8)])
CanDefD(k, d) == phase = "defs" /\ rank >= 1 /\ rank < k /\ NDefs < MaxDefs /\ (Wide \/ dim \in {0, d}) /\ dim' = (IF Wide THEN 0 ELSE d)
CanDef(k) == CanDefD(k, k)
GDefOption == CanDef(2) /\ \E e \in {Lit(7), Bin("+", Lit(1), Lit(2))} : SDefOption("buildNumber", e) /\ rank' = 2 /\ Log([ev |-> "DefOption", n |-> "buildNumber", e |-> e])
GDefOptionStr == CanDef(3) /\ \E s \in {"1.2.3", "4.5.6"} : SDefOptionStr("productVersion", s) /\ rank' = 3 /\ Log([ev |-> "DefOptionStr", n |-> "productVersion", v |-> s])
\* the constant ca with two values; the NAME sa as a constant (it is a source in other files)
\* (the constant named sa belongs to the dimension of the SOURCE table: it meets the files that define the source sa)
GDefConst == \E p \in {<<"ca", Lit(4096), 4>>, <<"ca", Bin("*", Lit(2), Lit(4096)), 4>>, <<"sa", Lit(8192), 5>>} :
               CanDefD(4, p[3]) /\ SDefConst(p[1], p[2]) /\ rank' = 4 /\ Log([ev |-> "DefConst", n |-> p[1], e |-> p[2]])
GDefSource == CanDef(5) /\ \E d \in {Iota(5), Rev(16)} : \E f \in SrcForms :
               DefSource("sa", f, d) /\ rank' = 5 /\ Log([ev |-> "DefSource", n |-> "sa", form |-> f, d |-> d])
KbMenu == << [lo |-> 4096, hi |-> 6139, key |-> "000102030405060708090A0B0C0D0E0F", ctr |-> "0123456789ABCDEF"],
             [lo |-> 8192, hi |-> 10235, key |-> "A0A1A2A3A4A5A6A7A8A9AAABACADAEAF", ctr |-> "1111111122222222"] >>
GDefKeyblob == CanDef(6) /\ \E k \in 1..Len(KbMenu) :
                 /\ SDefKeyblob(0, KbMenu[k].lo, KbMenu[k].hi, KbMenu[k].key, KbMenu[k].ctr) /\ rank' = 6
                 /\ Log([ev |-> "DefKeyblob", id |-> 0, lo |-> KbMenu[k].lo, hi |-> KbMenu[k].hi, key |-> KbMenu[k].key, ctr |-> KbMenu[k].ctr])
GBeginSection == /\ rank >= 1 /\ Len(secs) < MaxSecs /\ \E id \in (IF secs # <<>> THEN {1} ELSE IF Wide \/ rank = 1 THEN {0, 5} ELSE {0}) : SBeginSection(id) /\ Log([ev |-> "BeginSection", id |-> id])
                 /\ UNCHANGED <<rank, dim>>
Addrs == {Lit(4096)} \cup {Ref(n) : n \in DOMAIN env \ {"flags", "buildNumber"}}
StmtMenu ==
     {[s |-> "reset"] : x \in (IF Wide \/ rank <= 3 THEN {0} ELSE {})}      \* exhaustive lane: a file that defines a constant / source / key blob USES it
\cup {[s |-> "erase_addr", addr |-> Ref(n), mem |-> 0] : n \in DOMAIN env \ {"flags", "buildNumber"}}
\cup {[s |-> "load_file", addr |-> a, data |-> srcs[n], mem |-> 0, via |-> "source", src |-> n] : a \in Addrs, n \in DOMAIN srcs}
\cup {[s |-> "encrypt", kb |-> kbs[i].id, act |-> (kbs[i].hi % 4 = 3), addr |-> Lit(kbs[i].lo), data |-> Iota(16)] : i \in 1..Len(kbs)}
\cup {[s |-> "keywrap", kb |-> kbs[i].id, addr |-> Lit(0), kek |-> "0102030405060708090A0B0C0D0E0F00"] : i \in 1..Len(kbs)}
GStmt == phase = "section" /\ NStmts < MaxStmts /\ \E st \in StmtMenu : SStmt(st) /\ Log([ev |-> "Stmt", st |-> st]) /\ UNCHANGED <<rank, dim>>
\* exhaustive lane: the refused file is the one without definitions (the clean-up runs at the START of the next parse, whatever ended the last one)
GRefuse == phase = "section" /\ (Wide \/ rank = 1) /\ NStmts < MaxStmts /\ \E kind \in {"mode"} : SRefuse(kind) /\ Log([ev |-> "Refuse", kind |-> kind]) /\ UNCHANGED <<rank, dim>>
NFiles == nfile
\* exhaustive lane: an empty section only in the file without definitions
Complete == phase = "refused" \/ (phase = "section" /\ (Wide \/ NStmts > 0 \/ rank = 1))
GNextFile == /\ nfile < MaxFiles /\ Complete /\ SNextFile /\ rank' = 0 /\ UNCHANGED dim /\ Log([ev |-> "NextFile"])
GInit == SInit /\ hist = <<>> /\ done = FALSE /\ rank = 0 /\ dim = 0
\* a session is emitted once its last file is complete (the exhaustive lane emits sessions of exactly MaxFiles files)
Finish == /\ ~done /\ Complete /\ nfile = MaxFiles
          /\ done' = TRUE /\ PrintT(ToJson(hist)) /\ UNCHANGED <<pvars, svars, hist, rank, dim>>
GNext == ~done /\ (GStart \/ GDefOption \/ GDefOptionStr \/ GDefConst \/ GDefSource \/ GDefKeyblob \/ GBeginSection \/ GStmt \/ GRefuse \/ GNextFile \/ Finish)
\* lemmas: NextFile leaves nothing behind; every source load carries the bytes of the definition of its own file
FreshFile == (rank = 0 /\ ~done) => env = Empty /\ srcs = Empty /\ iopts = <<>> /\ sopts = <<>> /\ secs = <<>> /\ kbs = <<>> /\ phase = "defs"
OwnSource == \A i \in 1..Len(secs) : \A j \in 1..Len(secs[i].cmds) : secs[i].cmds[j].a >= 0 /\ secs[i].cmds[j].n >= 0
=============================================================================
