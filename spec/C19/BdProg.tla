------------------------------ MODULE BdProg ------------------------------
(* The BD program as a state machine (C19).  State = the definitions made so far and the         *)
(* sections / commands produced so far.  One action per language construct.                      *)
EXTENDS BdLang
VARIABLES env,      \* name -> integer value : options and constants defined so far (both can be referenced)
          iopts,    \* integer-valued options, sequence of <<name, value>> in definition order (a later definition wins)
          sopts,    \* string-valued options
          secs,     \* sequence of [id |-> n, cmds |-> <<command records>>]
          phase,    \* "defs" | "section" | "refused"
          kbs       \* key blobs in definition order: [id, lo, hi, key, ctr] (key / counter as hex text; an id is defined once)
pvars == <<env, iopts, sopts, secs, phase, kbs>>
Empty == [x \in {} |-> 0]
PInit == env = Empty /\ iopts = <<>> /\ sopts = <<>> /\ secs = <<>> /\ phase = "defs" /\ kbs = <<>>
Upd(seq, n, v) == SelectSeq(seq, LAMBDA p : p[1] # n) \o <<<<n, v>>>>
DefOption(n, e) == /\ phase = "defs" /\ Dom(e, env)
                   /\ env' = (n :> Eval(e, env)) @@ env /\ iopts' = Upd(iopts, n, Eval(e, env)) /\ UNCHANGED <<sopts, secs, phase, kbs>>
DefOptionStr(n, s) == phase = "defs" /\ sopts' = Upd(sopts, n, s) /\ UNCHANGED <<env, iopts, secs, phase, kbs>>
DefConst(n, e) == /\ phase = "defs" /\ Dom(e, env)
                  /\ env' = (n :> Eval(e, env)) @@ env /\ UNCHANGED <<iopts, sopts, secs, phase, kbs>>
BeginSection(id) == /\ phase \in {"defs", "section"} /\ phase' = "section"
                    /\ secs' = Append(secs, [id |-> id, cmds |-> <<>>]) /\ UNCHANGED <<env, iopts, sopts, kbs>>
KbIds == {kbs[i].id : i \in 1..Len(kbs)}
KbOf(id) == kbs[CHOOSE i \in 1..Len(kbs) : kbs[i].id = id]
\* keyblob (id) { ( start = lo, end = hi, key = "..", counter = ".." ) }   - before the sections; hi carries the ADE / VLD flags in its low bits
DefKeyblob(id, lo, hi, key, ctr) == /\ phase = "defs" /\ id \notin KbIds /\ lo >= 0 /\ hi > lo
                                    /\ kbs' = Append(kbs, [id |-> id, lo |-> lo, hi |-> hi, key |-> key, ctr |-> ctr])
                                    /\ UNCHANGED <<env, iopts, sopts, secs, phase>>
\* encrypt / keywrap name a key blob by its ID (not by its position); encrypted data lie inside the blob's range
KbDom(st) == st.s \in {"encrypt", "keywrap"} =>
               /\ st.kb \in KbIds
               /\ (st.s = "encrypt" => st.act = (KbOf(st.kb).hi % 4 = 3))                  \* VLD (bit 0) and ADE (bit 1) of the end address
               /\ (st.s = "encrypt" => Eval(st.addr, env) >= KbOf(st.kb).lo /\ Eval(st.addr, env) + Align512(Len(st.data)) <= KbOf(st.kb).hi + 1)
Stmt(st) == /\ phase = "section" /\ StmtDom(st, env) /\ KbDom(st)
            /\ secs' = [secs EXCEPT ![Len(secs)].cmds = Append(@, Expected(st, env))]
            /\ UNCHANGED <<env, iopts, sopts, phase, kbs>>
Refuse(kind) == /\ phase = "section" /\ kind \in Unsupported /\ phase' = "refused" /\ UNCHANGED <<env, iopts, sopts, secs, kbs>>
\* ONE parser object, several command files (BDParser.parse documents a clean-up "before next parsing"): the next file starts from NOTHING -
\* no option, constant, key blob or section of the file before it survives; what a program means does not depend on what was parsed before it
NextFile == /\ phase \in {"section", "refused"}
            /\ env' = Empty /\ iopts' = <<>> /\ sopts' = <<>> /\ secs' = <<>> /\ phase' = "defs" /\ kbs' = <<>>
=============================================================================
