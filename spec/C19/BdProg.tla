------------------------------ MODULE BdProg ------------------------------
(* The BD program as a state machine (C19).  State = the definitions made so far and the         *)
(* sections / commands produced so far.  One action per language construct.                      *)
EXTENDS BdLang
VARIABLES env,      \* name -> integer value : options and constants defined so far (both can be referenced)
          iopts,    \* integer-valued options, sequence of <<name, value>> in definition order (a later definition wins)
          sopts,    \* string-valued options
          secs,     \* sequence of [id |-> n, cmds |-> <<command records>>]
          phase     \* "defs" | "section" | "refused"
pvars == <<env, iopts, sopts, secs, phase>>
Empty == [x \in {} |-> 0]
PInit == env = Empty /\ iopts = <<>> /\ sopts = <<>> /\ secs = <<>> /\ phase = "defs"
Upd(seq, n, v) == SelectSeq(seq, LAMBDA p : p[1] # n) \o <<<<n, v>>>>
DefOption(n, e) == /\ phase = "defs" /\ Dom(e, env)
                   /\ env' = (n :> Eval(e, env)) @@ env /\ iopts' = Upd(iopts, n, Eval(e, env)) /\ UNCHANGED <<sopts, secs, phase>>
DefOptionStr(n, s) == phase = "defs" /\ sopts' = Upd(sopts, n, s) /\ UNCHANGED <<env, iopts, secs, phase>>
DefConst(n, e) == /\ phase = "defs" /\ Dom(e, env)
                  /\ env' = (n :> Eval(e, env)) @@ env /\ UNCHANGED <<iopts, sopts, secs, phase>>
BeginSection(id) == /\ phase \in {"defs", "section"} /\ phase' = "section"
                    /\ secs' = Append(secs, [id |-> id, cmds |-> <<>>]) /\ UNCHANGED <<env, iopts, sopts>>
Stmt(st) == /\ phase = "section" /\ StmtDom(st, env)
            /\ secs' = [secs EXCEPT ![Len(secs)].cmds = Append(@, Expected(st, env))]
            /\ UNCHANGED <<env, iopts, sopts, phase>>
Refuse(kind) == /\ phase = "section" /\ kind \in Unsupported /\ phase' = "refused" /\ UNCHANGED <<env, iopts, sopts, secs>>
=============================================================================
