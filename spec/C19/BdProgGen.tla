----------------------------- MODULE BdProgGen -----------------------------
(* GEN form for programs: BdProg driven over menus of constructs; the finished program (history) is printed once. *)
EXTENDS BdProg, Json, IOUtils
VARIABLES hist, done
MaxDefs == atoi(IOEnv.GEN_MAXDEFS)
MaxStmts == atoi(IOEnv.GEN_MAXSTMTS)
MaxSecs == atoi(IOEnv.GEN_MAXSECS)
KbOnly == "GEN_KBONLY" \in DOMAIN IOEnv /\ IOEnv.GEN_KBONLY = "1"        \* only key-blob definitions and the statements that use them (exhaustive lane)
Lit(n) == [k |-> "lit", v |-> n]
Ref(n) == [k |-> "ref", n |-> n]
Bin(o, a, b) == [k |-> "bin", op |-> o, l |-> a, r |-> b]
Names == {"ca", "cb"}
ExprMenu == {Lit(v) : v \in {0, 4, 4096, 8192}} \cup {Ref(n) : n \in DOMAIN env} \cup {Bin("+", Ref(n), Lit(4)) : n \in DOMAIN env}
            \cup {Bin("*", Lit(4), Lit(1024)), Bin("-", Lit(8192), Lit(4096)), Bin("+", Lit(4096), Bin("*", Lit(2), Lit(8)))}
Iota(n) == [i \in 1..n |-> i]
NDefs == Cardinality({i \in 1..Len(hist) : hist[i].ev \in {"DefConst", "DefOption", "DefOptionStr", "DefKeyblob"}})
NStmts == IF secs = <<>> THEN 0 ELSE Len(secs[Len(secs)].cmds)
Log(x) == hist' = Append(hist, x) /\ UNCHANGED done
\* a name is defined once: what a second definition of the same name means is not settled by the documentation
Defined == DOMAIN env \cup {sopts[i][1] : i \in 1..Len(sopts)}
GDefConst == ~KbOnly /\ NDefs < MaxDefs /\ \E n \in Names \ Defined : \E e \in ExprMenu : DefConst(n, e) /\ Log([ev |-> "DefConst", n |-> n, e |-> e])
GDefOption == ~KbOnly /\ NDefs < MaxDefs /\ \E p \in {<<"flags", Lit(8)>>, <<"flags", Lit(32776)>>, <<"buildNumber", Lit(7)>>, <<"buildNumber", Bin("+", Lit(1), Lit(2))>>, <<"oa", Lit(4096)>>} :
                 p[1] \notin Defined /\ DefOption(p[1], p[2]) /\ Log([ev |-> "DefOption", n |-> p[1], e |-> p[2]])
GDefOptionStr == ~KbOnly /\ NDefs < MaxDefs /\ \E p \in {<<"productVersion", "1.2.3">>, <<"componentVersion", "4.5.6">>, <<"productVersion", "999.999.999">>} :
                 p[1] \notin Defined /\ DefOptionStr(p[1], p[2]) /\ Log([ev |-> "DefOptionStr", n |-> p[1], v |-> p[2]])
\* key blobs: ids need not follow the order of definition; every blob has its own range, key and counter (hi = ...3FB: VLD and ADE set, read-only flag clear; the third one has it set: ...3FF)
KbMenu == << [lo |-> 4096, hi |-> 6139, key |-> "000102030405060708090A0B0C0D0E0F", ctr |-> "0123456789ABCDEF"],
             [lo |-> 8192, hi |-> 10235, key |-> "A0A1A2A3A4A5A6A7A8A9AAABACADAEAF", ctr |-> "1111111122222222"],
             [lo |-> 12288, hi |-> 14335, key |-> "F0E0D0C0B0A090807060504030201000", ctr |-> "FEDCBA9876543210"],
             \* contexts that do not decrypt: ADE clear (...7F9), VLD clear (...7FA)
             [lo |-> 16384, hi |-> 18425, key |-> "101112131415161718191A1B1C1D1E1F", ctr |-> "0011223344556677"],
             [lo |-> 20480, hi |-> 22522, key |-> "202122232425262728292A2B2C2D2E2F", ctr |-> "8899AABBCCDDEEFF"] >>
GDefKeyblob == NDefs < MaxDefs /\ Len(kbs) < 3 /\ \E id \in {0, 1, 5} \ KbIds : \E k \in 1..Len(KbMenu) :
                 /\ \A i \in 1..Len(kbs) : kbs[i].lo # KbMenu[k].lo
                 /\ DefKeyblob(id, KbMenu[k].lo, KbMenu[k].hi, KbMenu[k].key, KbMenu[k].ctr)
                 /\ Log([ev |-> "DefKeyblob", id |-> id, lo |-> KbMenu[k].lo, hi |-> KbMenu[k].hi, key |-> KbMenu[k].key, ctr |-> KbMenu[k].ctr])
\* a section may be empty (the quantifier says 0..n statements): the section list must still mirror the program
GBeginSection == Len(secs) < MaxSecs /\ \E id \in {0, 1, 5} : BeginSection(id) /\ Log([ev |-> "BeginSection", id |-> id])
Blobs == {<<170, 187, 204, 221>>, <<1, 2, 3, 4, 5, 6, 7, 8>>, <<18, 52>>}
StmtMenu ==
     {[s |-> "load_blob", addr |-> a, blob |-> b, mem |-> m] : a \in ExprMenu, b \in Blobs, m \in {0, 288}}
\cup {[s |-> "load_file", addr |-> a, data |-> d, mem |-> m, via |-> v] : a \in ExprMenu, d \in {Iota(5), Iota(16)}, m \in {0, 288, 9}, v \in {"literal", "source", "extern"}}
\cup {[s |-> "prog_pat", addr |-> a, pat |-> v] : a \in ExprMenu, v \in {1, 4660, 305419896, 2147483647}}
\cup {[s |-> "prog_blob", addr |-> a, blob |-> b] : a \in ExprMenu, b \in {<<170, 187, 204, 221>>, <<17, 34, 51, 68, 85, 102, 119, 136>>, <<0, 34, 51, 68, 85, 102, 119, 136>>,
                                                                          <<0, 0, 0, 0, 17, 34, 51, 68>>, <<0, 0, 0, 1>>, <<1, 0, 0, 0, 0, 0, 0, 128>>}}
\cup {[s |-> "fill", addr |-> a, pat |-> p[1], sz |-> p[2]] : a \in ExprMenu, p \in {<<171, "b">>, <<4660, "h">>, <<305419896, "w">>}}
\cup {[s |-> "fill_range", lo |-> a, hi |-> b, pat |-> p[1], sz |-> p[2]] : a \in ExprMenu, b \in ExprMenu, p \in {<<171, "b">>, <<305419896, "w">>}}
\cup {[s |-> "erase_range", lo |-> a, hi |-> b, mem |-> m] : a \in ExprMenu, b \in ExprMenu, m \in {0, 8}}
\cup {[s |-> "erase_addr", addr |-> a, mem |-> m] : a \in ExprMenu, m \in {0, 288, 257}}
\cup {[s |-> "erase_all", mem |-> m] : m \in {0, 8}}
\cup {[s |-> "erase_unsecure_all"]}
\cup {[s |-> "enable", addr |-> a, mem |-> m] : a \in ExprMenu, m \in {1, 9}}
\cup {[s |-> k, addr |-> a, arg |-> g[1], argform |-> g[2]] : k \in {"call", "jump"}, a \in ExprMenu, g \in {<<Lit(0), "none">>, <<Lit(0), "empty">>, <<Lit(7), "expr">>, <<Lit(0), "expr">>}}
\cup {[s |-> "jump_sp", sp |-> p, addr |-> a, arg |-> g[1], argform |-> g[2]] : p \in {Lit(0), Lit(8192)} \cup {Ref(n) : n \in DOMAIN env}, a \in ExprMenu, g \in {<<Lit(0), "none">>, <<Lit(3), "expr">>}}
\cup {[s |-> "reset"]}
\cup {[s |-> "version_check", nsec |-> t, ver |-> a] : t \in {0, 1}, a \in ExprMenu}
\cup {[s |-> k, addr |-> a, mem |-> 9] : k \in {"keystore_to_nv", "keystore_from_nv"}, a \in ExprMenu}
\cup {[s |-> "encrypt", kb |-> kbs[i].id, act |-> (kbs[i].hi % 4 = 3), addr |-> Lit(kbs[i].lo + o), data |-> d] : i \in 1..Len(kbs), o \in {0, 512}, d \in {Iota(16), Iota(5)}}
\cup {[s |-> "keywrap", kb |-> kbs[i].id, addr |-> a, kek |-> "0102030405060708090A0B0C0D0E0F00"] : i \in 1..Len(kbs), a \in {Lit(0), Lit(8192)}}
GStmt == phase = "section" /\ NStmts < MaxStmts /\ \E st \in StmtMenu : (KbOnly => st.s \in {"encrypt", "keywrap"}) /\ Stmt(st) /\ Log([ev |-> "Stmt", st |-> st])
GRefuse == ~KbOnly /\ phase = "section" /\ \E kind \in Unsupported : Refuse(kind) /\ Log([ev |-> "Refuse", kind |-> kind])
GInit == PInit /\ hist = <<>> /\ done = FALSE
Finish == /\ ~done /\ (phase = "refused" \/ phase = "section")
          /\ done' = TRUE /\ PrintT(ToJson(hist)) /\ UNCHANGED <<pvars, hist>>
GNext == ~done /\ (GDefConst \/ GDefOption \/ GDefOptionStr \/ GDefKeyblob \/ GBeginSection \/ GStmt \/ GRefuse \/ Finish)
\* lemma: every command the spec produces is well formed
WellFormed == \A i \in 1..Len(secs) : \A j \in 1..Len(secs[i].cmds) : secs[i].cmds[j].a >= 0 /\ secs[i].cmds[j].n >= 0
=============================================================================
