INIT GInit
NEXT GNext
INVARIANT WellFormed
CHECK_DEADLOCK FALSE
