----------------------------- MODULE BdExprGen -----------------------------
(* GEN + MC form for expressions: the AST space is the set of initial states; algebraic lemmas of the evaluator are *)
(* checked on it and every AST inside the asserted domain is emitted for replay through the real parser.           *)
EXTENDS BdLang, Json, IOUtils
Lits == {0, 1, 2, 3, 5, 12, 255, 4096}
Lit(n) == [k |-> "lit", v |-> n]
Bin(o, a, b) == [k |-> "bin", op |-> o, l |-> a, r |-> b]
Un(k, a) == [k |-> k, e |-> a]
Size(v, sz) == [k |-> "size", v |-> v, sz |-> sz]
E0 == {Lit(n) : n \in Lits} \cup {Size(v, sz) : v \in {291, 74565, 19088743}, sz \in {"b", "h", "w"}}
AllOps == ArithOps \cup CmpOps \cup LogOps
E1 == E0 \cup {Bin(o, a, b) : o \in AllOps, a \in {Lit(n) : n \in Lits}, b \in {Lit(n) : n \in Lits}}
         \cup {Un(k, a) : k \in {"neg", "pos", "not"}, a \in {Lit(n) : n \in {0, 1, 5}}}
\* depth 2: one side is itself an operation - every ordered pair of operators meets, on either side
Full == IOEnv.GEN_FULL = "1"
E1s == IF Full THEN E1 ELSE {e \in E1 : e.k # "bin" \/ (e.l.v \in {1, 3, 12} /\ e.r.v \in {2, 5})}
E2 == {Bin(o, a, b) : o \in AllOps, a \in E1s, b \in {Lit(n) : n \in {1, 2, 5}}}
      \cup {Bin(o, a, b) : o \in AllOps, a \in {Lit(n) : n \in {1, 3, 12}}, b \in E1s}
      \cup {Un(k, a) : k \in {"neg", "pos", "not"}, a \in E1s}
VARIABLE e
Init == e \in E1 \cup E2
Next == UNCHANGED e
InDom == Dom(e, [x \in {} |-> 0])
Val == Eval(e, [x \in {} |-> 0])
\* lemmas over the enumerated space
CmpIsBool == InDom /\ e.k = "bin" /\ e.op \in CmpOps \cup LogOps => Val \in {0, 1}
DivMod == InDom /\ e.k = "bin" /\ e.op = "/" => LET x == Eval(e.l, [z \in {} |-> 0])  y == Eval(e.r, [z \in {} |-> 0]) IN x = y * Val + Ap("%", x, y)
NegNeg == InDom /\ e.k = "neg" => Eval(Un("neg", e), [z \in {} |-> 0]) = Eval(e.e, [z \in {} |-> 0])
ShiftIsMul == InDom /\ e.k = "bin" /\ e.op = "<<" => Val = Ap("*", Eval(e.l, [z \in {} |-> 0]), Pow2(Eval(e.r, [z \in {} |-> 0])))
Emit == ~InDom \/ PrintT(ToJson(e))
=============================================================================
