INIT Init
NEXT Next
INVARIANT CmpIsBool
INVARIANT DivMod
INVARIANT NegNeg
INVARIANT ShiftIsMul
INVARIANT Emit
CHECK_DEADLOCK FALSE
