----------------------------- MODULE BdSession -----------------------------
(* C19: histories of parse calls on ONE parser object.  BdProg is the meaning of one command file; a session is a      *)
(* sequence of command files handed, one after another, to the same BDParser (a batch build).  The state is extended   *)
(* by the one symbol table BdProg leaves to the renderer - the SOURCES - so that every table the property names         *)
(* ("constants, sources, options and key blobs resolve to their definitions") is part of the abstract state, and by the *)
(* number of the file.  NextFile resets ALL of it: a name defined in an earlier file is not defined in a later one, a  *)
(* name defined again has the meaning its OWN file gives it.                                                            *)
EXTENDS BdProg
VARIABLES srcs,     \* source name -> the bytes of the file the name stands for (sources block: name = "path"; or name = extern(k);)
          nfile     \* number of the command file being parsed by the parser object (1-based)
svars == <<srcs, nfile>>
SInit == PInit /\ srcs = Empty /\ nfile = 1
SrcForms == {"path", "extern"}
\* sources { n = "file"; }  /  sources { n = extern(k); }   - before the sections; a name is defined once and is not a constant / option of the same file
DefSource(n, form, d) == /\ phase = "defs" /\ form \in SrcForms /\ n \notin DOMAIN srcs /\ n \notin DOMAIN env
                         /\ srcs' = (n :> d) @@ srcs /\ UNCHANGED <<pvars, nfile>>
\* load <source name> > addr;  loads the file the name is defined to be IN THIS command file
SrcDom(st) == (st.s = "load_file" /\ "src" \in DOMAIN st) => st.via \in {"source", "extern"} /\ st.src \in DOMAIN srcs /\ srcs[st.src] = st.data
\* a name stands for one thing in a file: an option / constant does not take the name of a source of the same file
SDefOption(n, e) == n \notin DOMAIN srcs /\ DefOption(n, e) /\ UNCHANGED svars
SDefOptionStr(n, s) == n \notin DOMAIN srcs /\ DefOptionStr(n, s) /\ UNCHANGED svars
SDefConst(n, e) == n \notin DOMAIN srcs /\ DefConst(n, e) /\ UNCHANGED svars
SDefKeyblob(id, lo, hi, key, ctr) == DefKeyblob(id, lo, hi, key, ctr) /\ UNCHANGED svars
SBeginSection(id) == BeginSection(id) /\ UNCHANGED svars
SRefuse(kind) == Refuse(kind) /\ UNCHANGED svars
SStmt(st) == Stmt(st) /\ SrcDom(st) /\ UNCHANGED svars
SNextFile == NextFile /\ srcs' = Empty /\ nfile' = nfile + 1
\* names of the tables, as the configuration of ONE file may show them
OptNames == {iopts[i][1] : i \in 1..Len(iopts)} \cup {sopts[i][1] : i \in 1..Len(sopts)}
KbIdSeq == [i \in 1..Len(kbs) |-> kbs[i].id]
=============================================================================
