CONSTANT SigCache = FALSE
SPECIFICATION SpecTab
INVARIANT HistoryFree
INVARIANT SameAsFresh
PROPERTY WriteIsLocal
CONSTRAINT Bounded
CHECK_DEADLOCK FALSE
