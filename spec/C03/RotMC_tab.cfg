CONSTANT SigCache = FALSE
SPECIFICATION SpecTab
INVARIANT HistoryFree
INVARIANT SameAsFresh
PROPERTY WriteIsLocal
PROPERTY ValueFollows
CONSTRAINT Bounded
CHECK_DEADLOCK FALSE
