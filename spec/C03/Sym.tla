-------------------------------- MODULE Sym --------------------------------
(* Symbolic byte strings (DESIGN 3.4).  Every term carries its concrete length, so every layout    *)
(* question (offsets, totals, field widths) is decided inside TLA+; only the CONTENT of a term is   *)
(* evaluated outside (harness/lib/sym.py) with an independent trusted base (hashlib, `cryptography` *)
(* primitives called directly).  Sig terms are never compared, they are verified.                   *)
EXTENDS Naturals, Sequences
Blob(id, n)      == [op |-> "blob", id |-> id, len |-> n]                  \* named input bytes (key material, user data)
Zero(n)          == [op |-> "zero", len |-> n]
Lit(bytes)       == [op |-> "lit", bytes |-> bytes, len |-> Len(bytes)]
RECURSIVE SumLen(_)
SumLen(ts)       == IF ts = <<>> THEN 0 ELSE Head(ts).len + SumLen(Tail(ts))
Cat(ts)          == [op |-> "cat", args |-> ts, len |-> SumLen(ts)]
HashLen(alg)     == CASE alg = "sha256" -> 32 [] alg = "sha384" -> 48 [] alg = "sha512" -> 64
H(alg, t)        == [op |-> "hash", alg |-> alg, arg |-> t, len |-> HashLen(alg)]
Sig(key, sch, t) == [op |-> "sig", key |-> key, scheme |-> sch, arg |-> t, len |-> sch.len]   \* verified, not compared
Named(name, t)   == [op |-> "named", name |-> name, arg |-> t, len |-> t.len]                \* a field of a format (for diagnostics)
\* ---- integers as byte sequences (all numbers < 2^31)
U8(n)    == <<n>>
U16le(n) == <<n % 256, n \div 256>>
U16be(n) == <<n \div 256, n % 256>>
U32le(n) == <<n % 256, (n \div 256) % 256, (n \div 65536) % 256, n \div 16777216>>
Align(n, a) == ((n + a - 1) \div a) * a
=============================================================================
