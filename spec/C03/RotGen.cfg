CONSTANT SigCache = FALSE
INIT GInit
NEXT GNext
INVARIANT TermLen
INVARIANT Independent
INVARIANT OrderMatters
INVARIANT KeyMatters
INVARIANT SingleKeyV21
INVARIANT TableLen
INVARIANT HashOfTable
INVARIANT RevisionDecidesGen
INVARIANT BlockLen
INVARIANT SigOffset
INVARIANT FreshSignature
INVARIANT ParsedIsBuilt
INVARIANT ReadIsCurrent
INVARIANT HistoryFree
INVARIANT LastWriteWins
INVARIANT TargetReached
INVARIANT CertPoints
INVARIANT PfrBack
INVARIANT ChangeShows
INVARIANT ReadEveryStep
CHECK_DEADLOCK FALSE
