CONSTANT SigCache = TRUE
SPECIFICATION Spec
INVARIANT FreshSignature
CONSTRAINT Bounded
CHECK_DEADLOCK FALSE
