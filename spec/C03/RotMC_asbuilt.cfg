CONSTANT SigCache = TRUE
CONSTANT Devices <- MCDevices
SPECIFICATION Spec
INVARIANT FreshSignature
CONSTRAINT Bounded
CHECK_DEADLOCK FALSE
