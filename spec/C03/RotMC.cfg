CONSTANT SigCache = FALSE
SPECIFICATION Spec
INVARIANT RevisionDecides
INVARIANT RevisionMatters
INVARIANT FreshSignature
INVARIANT ParsedIsBuilt
INVARIANT ReadIsCurrent
PROPERTY RkthStable
CONSTRAINT Bounded
CHECK_DEADLOCK FALSE
