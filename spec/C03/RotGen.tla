------------------------------- MODULE RotGen -------------------------------
(* GEN + MC form of C03.  One run, four modes (initial states):                                       *)
(*   "case"  : the abstract case space of Compute - key-set shapes x orders x used index x encodings  *)
(*             x tool paths (a structure sweep with the canonical encoding of each path, an encoding  *)
(*             sweep with uniform and mixed encoding vectors, plus the sampled cases the harness      *)
(*             passes in EXTRA_CASES); the lemmas below are checked on every case, and every case is  *)
(*             emitted TOGETHER WITH ITS TERM (the spec, not the harness, says what is expected)      *)
(*   "cb21"  : histories Build21 ; {Export21, Parse21, SetUserData, SetConstraints}*                  *)
(*   "cb1"   : histories Build1  ; {Export1, Parse1, SetImageLength}*                                 *)
(*   "files" : key files are written, read by path, REWRITTEN, read by path again (one process)       *)
(*   "dev"   : the device sweep - EVERY (family, revision) of the device table, the name "latest"      *)
(*             included, through every entry point that is given a device (ComputeFor); the RoT type  *)
(*             of the case is the one the table gives for that revision                               *)
EXTENDS Rot, Json, IOUtils
VARIABLES mode, scen, hist, done
gvars == <<mode, scen, hist, done>>
Depth == atoi(IOEnv.GEN_DEPTH)
Full  == IOEnv.MENU = "full"
Want(m) == IOEnv.GEN_MODE = "all" \/ IOEnv.GEN_MODE = m
Extra == IF IOEnv.EXTRA_CASES = "none" THEN <<>> ELSE ndJsonDeserialize(IOEnv.EXTRA_CASES)

\* ---------------------------------------------------------------- menus
ClsOf(rot) == CASE rot = "cert_block_1" -> RsaClasses [] rot = "cert_block_21" -> {"p256", "p384"}
                [] rot = "srk_table_ahab_v2" -> EccClasses [] OTHER -> Classes
NOf(rot)   == IF rot \in {"srk_table_ahab", "srk_table_ahab_v2"} THEN {4} ELSE 1..4
\* pool positions: ECC 1 = r0, 2 = lzx (X has a leading zero byte), 3 = lzy, 4 = r1;  RSA 1..4 = r0..r3
Sel(n)     == {s \in [1..n -> 1..4] : \A i, j \in 1..n : i # j => s[i] # s[j]}
FewSel(n)  == {s \in Sel(n) : \/ s = [i \in 1..n |-> i] \/ s = [i \in 1..n |-> n + 1 - i]
                              \/ s = [i \in 1..n |-> (i % 4) + 1] \/ s = [i \in 1..n |-> 5 - i]}
Sels(n)    == IF Full THEN Sel(n) ELSE FewSel(n)
Mixed1     == {<<Key("rsa2048", 1), Key("rsa4096", 1)>>, <<Key("rsa4096", 2), Key("rsa3072", 1), Key("rsa2048", 2)>>,
               <<Key("rsa3072", 2), Key("rsa2048", 3), Key("rsa4096", 3), Key("rsa2048", 4)>>, <<Key("rsa4096", 4), Key("rsa2048", 1)>>}
Lists(rot) == (UNION {{[i \in 1..n |-> Key(c, s[i])] : s \in Sels(n)} : c \in ClsOf(rot), n \in NOf(rot)})
              \cup (IF rot = "cert_block_1" THEN Mixed1 ELSE {})
DefaultEnc(rot, path) ==
  IF rot = "srk_table_hab" THEN (CASE path = "rot" -> Enc("path", "ca.der") [] path = "cli" -> Enc("path", "ca.pem") [] path = "rot_table" -> Enc("bytes", "ca.pem")
                                      [] OTHER -> Enc("obj", "ca"))
  ELSE CASE path \in {"rkht", "rkht_parse", "rot", "pfr", "srk", "srk_parse", "rot_table", "keyhash"} -> Enc("obj", "pub")
         [] path \in {"cli", "dc", "dc_parse", "srk_cfg"} -> Enc("path", "pub.pem")
         [] path \in {"certblock", "certblock_parse", "certblock_fuses"} -> IF rot = "cert_block_1" THEN Enc("obj", "crt") ELSE Enc("obj", "pub")
         [] path = "certblock_cfg" -> IF rot = "cert_block_1" THEN Enc("path", "crt.der") ELSE Enc("path", "pub.pem")
UsedMenu(path, n) == IF UsesUsed(path) THEN 1..n ELSE {0}
Case(rot, ks, encs, path, used) == [rot |-> rot, keys |-> ks, encs |-> encs, path |-> path, used |-> used]
\* (A) structure sweep: every shape, order, path, used index - canonical encoding
SweepA == UNION {UNION {UNION {{Case(rot, ks, [i \in 1..Len(ks) |-> DefaultEnc(rot, path)], path, used) : used \in UsedMenu(path, Len(ks))}
                               : path \in Paths(rot)} : ks \in Lists(rot)} : rot \in RotTypes}
\* (B) encoding sweep: every encoding a path takes, uniform and mixed over the positions
EncSeq == <<Enc("obj", "pub"), Enc("obj", "priv"), Enc("obj", "crt"), Enc("obj", "ca"),
            Enc("bytes", "pub.pem"), Enc("bytes", "pub.der"), Enc("bytes", "pub.raw"), Enc("bytes", "priv.pem"), Enc("bytes", "priv.der"),
            Enc("bytes", "priv.enc.pem"), Enc("bytes", "priv.trad.pem"), Enc("bytes", "crt.pem"), Enc("bytes", "crt.der"),
            Enc("bytes", "ca.pem"), Enc("bytes", "ca.der"),
            Enc("path", "pub.pem"), Enc("path", "pub.der"), Enc("path", "pub.raw"), Enc("path", "priv.pem"), Enc("path", "priv.der"),
            Enc("path", "priv.enc.pem"), Enc("path", "priv.trad.pem"), Enc("path", "crt.pem"), Enc("path", "crt.der"),
            Enc("path", "ca.pem"), Enc("path", "ca.der")>>
Filt(rot, path) == SelectSeq(EncSeq, LAMBDA e : e \in EncsFor(rot, path, FALSE))
Vectors(rot, path, n) == LET F == Filt(rot, path) IN
   {[i \in 1..n |-> F[j]] : j \in 1..Len(F)} \cup
   (IF n = 1 THEN {} ELSE {[i \in 1..n |-> F[((j + 5 * (i - 1)) % Len(F)) + 1]] : j \in 0..(Len(F) - 1)})
NB(rot) == IF Full THEN NOf(rot) ELSE NOf(rot) \cap {1, 4}
FirstKeys(c, n) == [i \in 1..n |-> Key(c, i)]
ClsB(rot) == IF Full THEN ClsOf(rot) ELSE ClsOf(rot) \cap {"rsa2048", "p256", "p384", "p521"}
SweepB == UNION {UNION {UNION {UNION {{Case(rot, FirstKeys(c, n), v, path, IF UsesUsed(path) THEN ((n + 1) \div 2) ELSE 0) : v \in Vectors(rot, path, n)}
                                      : path \in Paths(rot)} : n \in NB(rot)} : c \in ClsB(rot)} : rot \in RotTypes}
\* quick tier: the tool paths that open an RSA PRIVATE key (signature provider) run with RSA-2048 only (loading is 0.1 - 0.4 s per key)
Cheap(c) == Full \/ c.path \notin {"dc", "dc_parse", "certblock_cfg"} \/ \A i \in 1..Len(c.keys) : c.keys[i].cls \notin {"rsa3072", "rsa4096"}
Cases == {c \in SweepA \cup SweepB : Legal(c) /\ Cheap(c)}

\* (C) device sweep: device i of the table, revision name number j of it (0 = "latest"), every device entry point.  The key class, the
\* number of keys and their order vary with (i, j) so that neighbouring revisions do not get the same list; thorough: every class
DevCls(rot, i) == IF Full THEN ClsOf(rot)
                  ELSE CASE rot = "cert_block_1" -> {"rsa2048"} [] rot = "cert_block_21" -> {<<"p256", "p384">>[(i % 2) + 1]}
                         [] OTHER -> {<<"p256", "p384", "p521">>[(i % 3) + 1]}
DevKeys(rot, cls, i, j) == LET n == IF rot \in {"srk_table_ahab", "srk_table_ahab_v2"} THEN 4 ELSE 1 + ((i + j) % 4) IN
                           [m \in 1..n |-> Key(cls, 1 + ((i + j + m) % 4))]
DevRevName(d, j) == IF j = 0 THEN "latest" ELSE d.revs[j]
DevCases == UNION {UNION {UNION {
               {[fam |-> Devices[i].fam, rev |-> DevRevName(Devices[i], j),
                 c |-> LET rot == RotOfDev(Devices[i], DevRevName(Devices[i], j))  ks == DevKeys(rot, cls, i, j) IN
                       Case(rot, ks, [m \in 1..Len(ks) |-> DefaultEnc(rot, path)], path, IF UsesUsed(path) THEN 1 + (i % Len(ks)) ELSE 0)]
                : cls \in (IF RotOfDev(Devices[i], DevRevName(Devices[i], j)) \in RotTypes THEN DevCls(RotOfDev(Devices[i], DevRevName(Devices[i], j)), i) ELSE {})}
               : path \in DevPaths(Devices[i])} : j \in 0..Len(Devices[i].revs)} : i \in 1..Len(Devices)}
DevInit == /\ mode = "dev" /\ Want("dev") /\ scen = 0 /\ done = FALSE /\ Init
           /\ \E x \in DevCases : /\ Legal(x.c)                                     \* cert_block_x, v2 + debug credential ...: not asserted
                                   /\ Assert(LegalFor(x.fam, x.rev, x.c), <<"device case outside the domain", x.fam, x.rev>>)
                                   /\ hist = <<[a |-> "ComputeFor", fam |-> x.fam, rev |-> x.rev, c |-> x.c, term |-> DocCase(x.c)]>>
\* ---------------------------------------------------------------- initial states
CaseInit == /\ mode = "case" /\ scen = 0 /\ done = FALSE /\ Init
            /\ \/ Want("case") /\ \E c \in Cases : hist = <<[a |-> "Compute", c |-> c, term |-> DocCase(c)]>>
               \/ /\ Want("case") \/ IOEnv.GEN_MODE = "extra"
                  /\ \E i \in 1..Len(Extra) : /\ Assert(Legal(Extra[i]), <<"illegal extra case", i>>)
                                               /\ hist = <<[a |-> "Compute", c |-> Extra[i], term |-> DocCase(Extra[i])]>>
HistInit == /\ mode \in {"cb21", "cb1"} /\ Want(mode) /\ scen = 0 /\ done = FALSE /\ hist = <<>> /\ Init
\* file scenarios: n files hold the first n keys of a class; one tool path reads them; files are rewritten with other keys
FileScen == {s \in [rot : RotTypes, cls : Classes, n : 1..4, path : {"rkht", "rot", "cli", "pfr", "certblock_cfg", "dc", "srk_cfg", "rot_table"}, used : 0..4] :
               /\ s.path \in Paths(s.rot) /\ s.cls \in ClsOf(s.rot) /\ s.n \in NOf(s.rot) /\ s.n \in {1, 2, 4}
               /\ s.used = (IF UsesUsed(s.path) THEN 1 ELSE 0)
               /\ (Full \/ s.cls \in {"rsa2048", "p256", "p384"})
               /\ (s.path = "dc" => s.cls # "rsa3072")}
FileEnc(rot, path, alt) ==
  IF rot = "srk_table_hab" THEN (IF alt THEN Enc("path", "ca.pem") ELSE Enc("path", "ca.der"))
  ELSE IF rot = "cert_block_1" /\ path = "certblock_cfg" THEN (IF alt THEN Enc("path", "crt.pem") ELSE Enc("path", "crt.der"))
  ELSE IF rot \in {"srk_table_ahab", "srk_table_ahab_v2"} THEN (IF alt THEN Enc("path", "pub.der") ELSE Enc("path", "pub.pem"))
  ELSE (IF alt THEN Enc("path", "crt.der") ELSE Enc("path", "pub.pem"))
FilesInit == /\ Want("files") /\ mode = "files" /\ done = FALSE /\ obj = NoObj /\ out = NoObj
             /\ \E s \in FileScen :
                  /\ scen = s
                  /\ fs = [f \in Files |-> IF f <= s.n THEN [has |-> TRUE, k |-> Key(s.cls, f), enc |-> FileEnc(s.rot, s.path, FALSE)] ELSE NoFile]
                  /\ hist = [f \in 1..s.n |-> [a |-> "WriteFile", f |-> f, k |-> Key(s.cls, f), enc |-> FileEnc(s.rot, s.path, FALSE)]]
                  /\ act = [a |-> "WriteFile"]
GInit == CaseInit \/ HistInit \/ FilesInit \/ DevInit

\* ---------------------------------------------------------------- histories
NU == IF Full THEN {<<1, 1>>, <<2, 1>>, <<2, 2>>, <<3, 1>>, <<3, 2>>, <<3, 3>>, <<4, 1>>, <<4, 2>>, <<4, 3>>, <<4, 4>>}
      ELSE {<<1, 1>>, <<2, 2>>, <<4, 3>>}
IskMenu == IF Full THEN {<<0, 0>>, <<4, 5>>, <<96, 0>>, <<32, 70000>>} ELSE {<<0, 0>>, <<4, 5>>, <<96, 0>>}
DoBuild21 == /\ obj.kind = "none" /\ hist = <<>>
             /\ \E c \in {"p256", "p384"} : \E nu \in NU :
                  \/ Build21(FirstKeys(c, nu[1]), nu[2], FALSE, NoKey, 0, 0)
                  \/ \E uc \in IskMenu : Build21(FirstKeys(c, nu[1]), nu[2], TRUE, Key(c, 7), uc[1], uc[2])
\* "user data of every allowed length": all multiples of the alignment (4) up to the limit (96), short history
DoBuild21Ud == /\ Full /\ obj.kind = "none" /\ hist = <<>>
               /\ \E c \in {"p256", "p384"} : \E n \in {1, 4} : \E u \in 0..24 : Build21(FirstKeys(c, n), n, TRUE, Key(c, 7), 4 * u, 1)
DoSetUserData == \E len \in (IF Full THEN {0, 8, 96} ELSE {8}) : len # obj.ud.len /\ SetUserData(len)
DoSetConstraints == \E c \in (IF Full THEN {0, 7} ELSE {7}) : SetConstraints(c)
Cb21Next == mode = "cb21" /\ (DoBuild21 \/ DoBuild21Ud \/ (obj.kind = "cb21" /\ (Export21 \/ Parse21 \/ DoSetUserData \/ DoSetConstraints)))
DoBuild1 == /\ obj.kind = "none" /\ hist = <<>>
            /\ \E c \in RsaClasses : \E nu \in NU : \E img \in {0, 4660} : \E b \in {0, 3} : Build1(FirstKeys(c, nu[1]), nu[2], img, b)
DoSetImageLength == \E n \in {2048} : SetImageLength(n)
Cb1Next == mode = "cb1" /\ (DoBuild1 \/ (obj.kind = "cb1" /\ (Export1 \/ Parse1 \/ DoSetImageLength)))
\* files: strictly alternate  Read ; Rewrite ; Read ; Rewrite ; Read ...   (the population is already in hist)
LastA == hist[Len(hist)].a
DoRead == /\ LastA = "WriteFile"
          /\ ReadByPath(scen.rot, [i \in 1..scen.n |-> i], scen.path, scen.used)
DoRewrite == /\ LastA = "ReadByPath"
             /\ \E f \in {1, scen.n} : \E id \in {5, 6} : \E alt \in BOOLEAN :
                   WriteFile(f, Key(scen.cls, IF IsRsa(scen.cls) THEN id - 2 ELSE id), FileEnc(scen.rot, scen.path, alt))
FilesNext == mode = "files" /\ (DoRead \/ DoRewrite)
Steps == IF mode = "files" THEN Len(hist) - scen.n ELSE Len(hist)
Limit == IF mode \in {"case", "dev"} THEN 1 ELSE IF mode = "cb21" /\ Len(hist) > 0 /\ hist[1].cons = 1 /\ hist[1].isk THEN 3 ELSE Depth + (IF mode = "files" THEN 0 ELSE 1)
GNext == \/ /\ Steps < Limit /\ (Cb21Next \/ Cb1Next \/ FilesNext)
            /\ hist' = Append(hist, act') /\ UNCHANGED <<mode, scen, done>>
         \/ /\ Steps = Limit /\ ~done /\ done' = TRUE
            /\ PrintT(ToJson([mode |-> mode, hist |-> hist]))
            /\ UNCHANGED <<vars, mode, scen, hist>>

\* ---------------------------------------------------------------- lemmas over the case space (term algebra)
C0 == hist[1].c
T0 == hist[1].term
IsCase == mode \in {"case", "dev"}
IsValue == IsCase /\ C0.path \in ValuePaths(C0.rot)
\* the length of the value is that of the documented hash
TermLen == IsValue => T0.len = (CASE C0.rot = "srk_table_ahab_v2" -> 64 [] C0.rot = "cert_block_21" -> HashLen(HashOf(C0.keys[1].cls)) [] OTHER -> 32)
\* PURE FUNCTION OF THE ORDERED KEY LIST: neither the used index, nor the tool path, nor the way a key is supplied enters
\* the term (for SRK tables: as long as the documented CA flag of the record is the same)
AltEncs == IF Full THEN AllEncs ELSE {Enc("obj", "pub"), Enc("path", "priv.der"), Enc("bytes", "crt.pem"), Enc("path", "ca.der")}
Independent == IsValue =>
  /\ \A u \in 0..4 : DocCase([C0 EXCEPT !.used = u]) = T0
  /\ \A p \in ValuePaths(C0.rot) : DocCase([C0 EXCEPT !.path = p]) = T0
  /\ \A i \in 1..Len(C0.keys) : \A e \in AltEncs :
        (IsSrk(C0.rot) => IsCa(e) = IsCa(C0.encs[i])) => DocCase([C0 EXCEPT !.encs[i] = e]) = T0
\* ... and it does depend on the order and on every key
Swap(s, i, j) == [s EXCEPT ![i] = s[j], ![j] = s[i]]
\* the value is the hash of the table that `rot export` writes (cert block v2.1 with one key: of the key itself)
HashOfTable == IsValue /\ ~(C0.rot = "cert_block_21" /\ Len(C0.keys) = 1) /\ C0.rot # "srk_table_hab" =>
                 T0.op = "hash" /\ T0.arg = DocTable(C0.rot, C0.keys, Cas(C0))
OrderMatters == IsCase /\ ~(C0.path = "rot_table" /\ C0.rot = "cert_block_21" /\ Len(C0.keys) = 1) => \A i, j \in 1..Len(C0.keys) : C0.keys[i] # C0.keys[j] => DocCase([C0 EXCEPT !.keys = Swap(@, i, j)]) # T0
KeyMatters == IsCase /\ ~(C0.path = "rot_table" /\ C0.rot = "cert_block_21" /\ Len(C0.keys) = 1) => \A i \in 1..Len(C0.keys) : DocCase([C0 EXCEPT !.keys[i] = Key(@.cls, 9)]) # T0
\* one key in a v2.1 block: the value is the hash of the key itself, not the hash of a one-entry table
SingleKeyV21 == IsValue /\ C0.rot = "cert_block_21" /\ Len(C0.keys) = 1 => T0 = H(HashOf(C0.keys[1].cls), Cat(<<KeyA(C0.keys[1]), KeyB(C0.keys[1])>>))
\* a v1 table always has four slots of 32 bytes; a v2.1 table n slots (none for one key); SRK tables: header + records
TableLen == IsCase => DocTable(C0.rot, C0.keys, Cas(C0)).len =
   (LET n == Len(C0.keys)  c == C0.keys[1].cls IN
    CASE C0.rot = "cert_block_1" -> 128
      [] C0.rot = "cert_block_21" -> IF n = 1 THEN 0 ELSE n * HashLen(HashOf(c))
      [] C0.rot = "srk_table_ahab" -> 4 + 4 * (12 + ALen(c) + AhabBLen(c))
      [] C0.rot = "srk_table_ahab_v2" -> 4 + 4 * 76
      [] C0.rot = "srk_table_hab" -> 4 + n * (12 + ALen(c) + BLen(c)))
\* the device sweep: the case carries the RoT type of the REQUESTED revision; a revision of the same family that has ANOTHER type would
\* give another value for the same keys (so an entry point that looks at the wrong revision cannot pass), one with the same type the same
IsDev == mode = "dev"
RevisionDecidesGen == IsDev => LET e == hist[1] IN
   /\ e.c.rot = RotOf(e.fam, e.rev) /\ e.term = DocCase(e.c)
   /\ \A r2 \in RevNames(Dev(e.fam)) :
         LET c2 == [e.c EXCEPT !.rot = RotOf(e.fam, r2)] IN
         Legal(c2) => ((DocCase(c2) = e.term) <=> (RotOf(e.fam, r2) = e.c.rot))
\* ---------------------------------------------------------------- invariants of the histories
BlockLen == mode = "cb21" /\ act.a = "Export21" =>
   act.term.len = (LET o == out  c == o.keys[1].cls  n == Len(o.keys) IN
                   12 + 4 + (IF n = 1 THEN 0 ELSE n * HashLen(HashOf(c))) + 2 * ALen(c)
                   + (IF o.isk THEN 12 + 2 * ALen(c) + o.ud.len + 2 * ALen(c) ELSE 0))
=============================================================================
